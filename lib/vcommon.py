"""Common machinery for /verif checks.

Every check module in /verif/checks/<ID>.py defines `run(c)` where `c` is a `Check` object:

    c.cargo_build(crate, bin=None, release=False) -> path of the harness binary (rebuilt from /repo's tree)
    c.tlc(spec_dir, module, cfg=None, ...)          -> TlcResult (states, distinct, violated, printed, ...)
    c.sh(cmd, ...)                                  -> run harness binaries (rc, stdout)
    c.violation(key, what, replay)                  -> VIOLATION / KNOWN-FINDING handling (S7 in DESIGN.md)
    c.drift(msg)                                    -> conformance drift (never changes the exit code)
    c.cov[...]                                      -> coverage dict written to evidence/<ID>.json
    c.sample(obj)                                   -> record an explored case (first few kept)

Exit codes (DESIGN.md S1): 0 = held on everything explored, 1 = VIOLATION, 2 = tooling failure.
"""
import fnmatch
import json
import os
import re
import shutil
import subprocess
import sys
import time

VERIF = os.path.dirname(os.path.dirname(os.path.abspath(__file__)))
REPO = os.path.normpath(os.path.join(VERIF, "..", "repo"))   # the tree is relocatable: <dir>/verif + <dir>/repo
HARNESS = os.path.join(VERIF, "harness")
SPEC = os.path.join(VERIF, "spec")
KNOWN = os.path.join(VERIF, "known_findings.json")
TLA_JAR = "/opt/veriftools/tla/tla2tools.jar:/opt/veriftools/tla/CommunityModules-deps.jar"
GUARD = "anapaya_scion_sdk_verif"


class ToolError(Exception):
    pass


class TlcResult:
    def __init__(self):
        self.rc = None
        self.generated = 0      # "states generated" (= transitions explored)
        self.distinct = 0       # distinct states
        self.depth = 0
        self.violated = []      # names of violated invariants / properties
        self.error_lines = []   # other "Error:" lines
        self.printed = []       # values printed with PrintT/Print (raw lines)
        self.coverage = {}      # action name -> (distinct, total) taken counts
        self.out_path = None
        self.wall = 0.0
        self.ok = False         # finished without any error
        self.postcondition_failed = False
        self.timeout = False
        self.eval_error = False

    def summary(self):
        return {"generated": self.generated, "distinct": self.distinct, "depth": self.depth,
                "violated": self.violated, "ok": self.ok, "wall_s": round(self.wall, 1)}


def parse_tlc_output(text, res):
    m = None
    for m in re.finditer(r"(\d[\d,]*) states generated, (\d[\d,]*) distinct states found", text):
        pass
    if m:
        res.generated = int(m.group(1).replace(",", ""))
        res.distinct = int(m.group(2).replace(",", ""))
    m = re.search(r"The number of states generated: (\d[\d,]*)", text)
    if m and not res.generated:
        res.generated = int(m.group(1).replace(",", ""))
        res.distinct = res.generated
    m = re.search(r"The depth of the complete state graph search is (\d+)", text)
    if m:
        res.depth = int(m.group(1))
    for m in re.finditer(r"Error: Invariant (\S+) is violated", text):
        res.violated.append(m.group(1))
    for m in re.finditer(r"Error: Action property (\S+) is violated", text):
        res.violated.append(m.group(1))
    if re.search(r"Error: Temporal properties were violated", text):
        res.violated.append("<temporal>")
    if "Error: Deadlock reached" in text:
        res.violated.append("<deadlock>")
    if re.search(r"POSTCONDITION.*(violated|false)|Error: .*[Pp]ost.?condition", text):
        res.postcondition_failed = True
    for line in text.splitlines():
        if line.startswith("Error:") and "is violated" not in line:
            res.error_lines.append(line)
    # coverage: "<Name line a, col b to line c, col d of module M>: distinct:total"
    for m in re.finditer(r"^<(\w+) line \d+, col \d+ to line \d+, col \d+ of module (\w+)>: (\d+):(\d+)", text, re.M):
        name = m.group(1)
        d, t = int(m.group(3)), int(m.group(4))
        old = res.coverage.get(name, (0, 0))
        res.coverage[name] = (max(old[0], d), max(old[1], t))
    res.ok = (("Model checking completed. No error has been found" in text) or
              ("Finished computing initial states" in text and "No error" in text) or
              (res.rc == 0)) and not res.violated and not res.error_lines


class Check:
    def __init__(self, pid, tier, seed, replay=None):
        self.id = pid
        self.tier = tier
        self.seed = seed
        self.replay = replay
        self.t0 = time.time()
        self.work = os.path.join(VERIF, "work", pid)
        shutil.rmtree(self.work, ignore_errors=True)
        os.makedirs(self.work, exist_ok=True)
        self.replays = os.path.join(VERIF, "replays", pid)
        os.makedirs(self.replays, exist_ok=True)
        self.cov = {"states": 0, "transitions": 0, "traces_validated_against_impl": 0,
                    "evaluations": 0, "distinct_nontrivial": 0, "rule": "", "samples": [],
                    "replayed": 0, "drift": 0, "known_findings": [], "checker_cmd": "",
                    "tlc_runs": [], "exhaustive": False}
        self.assumptions = []
        self.violations = []      # unknown violations: (key, what, path)
        self.known_hits = {}      # key -> count
        self.drifts = []
        self._nrep = 0
        self._ntlc = 0
        self.level = "model_checking"
        try:
            self.known = [k for k in json.load(open(KNOWN)) if k.get("property") == pid]
        except FileNotFoundError:
            self.known = []

    # ------------------------------------------------------------------ logging
    def log(self, *a):
        print("[%s %6.1fs]" % (self.id, time.time() - self.t0), *a, flush=True)

    def fail_tool(self, msg):
        print("TOOL-ERROR property=%s %s" % (self.id, msg), flush=True)
        self._write_evidence(tool_error=msg)
        sys.exit(2)

    # ------------------------------------------------------------------ building
    def cargo_build(self, crate, bin=None, release=False, features=None):
        """Rebuild a harness crate (and the /repo crates it depends on) from the current tree."""
        cmd = ["cargo", "build", "--offline", "-q", "-p", crate]
        if bin:
            cmd += ["--bin", bin]
        if release:
            cmd += ["--release"]
        if features:
            cmd += ["--features", features]
        t = time.time()
        env = dict(os.environ)
        env.setdefault("CARGO_NET_OFFLINE", "true")
        p = subprocess.run(cmd, cwd=HARNESS, env=env, stdout=subprocess.PIPE, stderr=subprocess.STDOUT, text=True)
        if p.returncode != 0:
            sys.stdout.write(p.stdout[-6000:])
            self.fail_tool("cargo build failed for %s" % crate)
        self.log("built %s%s in %.0fs" % (crate, " (release)" if release else "", time.time() - t))
        return os.path.join(HARNESS, "target", "release" if release else "debug", bin or crate)

    def sh(self, cmd, timeout=3600, stdin=None, env=None, cwd=None, stdout_path=None):
        """Run a harness command. Returns (rc, stdout_text). rc<0 = killed by signal."""
        e = dict(os.environ)
        e["VERIF_SEED"] = str(self.seed)
        e["VERIF_TIER"] = self.tier
        if env:
            e.update({k: str(v) for k, v in env.items()})
        try:
            if stdout_path:
                with open(stdout_path, "w") as f:
                    p = subprocess.run(cmd, cwd=cwd or self.work, env=e, stdout=f, stderr=subprocess.PIPE,
                                       text=True, timeout=timeout, input=stdin)
                return p.returncode, p.stderr
            p = subprocess.run(cmd, cwd=cwd or self.work, env=e, stdout=subprocess.PIPE, stderr=subprocess.PIPE,
                               text=True, timeout=timeout, input=stdin)
            if p.stderr.strip():
                self.last_stderr = p.stderr
            return p.returncode, p.stdout
        except subprocess.TimeoutExpired:
            self.fail_tool("timeout running %s" % (cmd[:3],))

    # ------------------------------------------------------------------ TLC
    def tlc(self, spec_dir, module, cfg=None, mode="mc", workers=None, timeout=1200, env=None,
            simulate=None, depth=None, coverage=True, deadlock=False, dfs=False, xmx=None,
            expect_violation=False, extra=None, keep_printed=True, seed=None):
        """Run TLC on spec/<spec_dir>/<module>.tla with <cfg> (default <module>.cfg).

        mode: "mc" exhaustive BFS; "simulate" (simulate="num=N", depth=D); "trace" = trace
        validation (workers 1, depth-first queue).  Lines printed by PrintT are collected in
        result.printed (as raw text).  A tool failure (parse error, crash, timeout) exits 2.
        """
        self._ntlc += 1
        sd = os.path.join(SPEC, spec_dir)
        cfg = cfg or (module + ".cfg")
        meta = os.path.join(self.work, "tlc%d_%s" % (self._ntlc, module))
        os.makedirs(meta, exist_ok=True)
        out_path = os.path.join(self.work, "tlc%d_%s.out" % (self._ntlc, module))
        if workers is None:
            workers = 1 if mode == "trace" else int(os.environ.get("VERIF_TLC_WORKERS", 12 if self.tier == "thorough" else 8))
        # trace validation is single-threaded: the serial collector is 4x faster than ParallelGC on a busy machine
        jopts = ["-XX:+UseSerialGC" if mode == "trace" else "-XX:+UseParallelGC", "-Xss1g"]
        if xmx:
            jopts.append("-Xmx" + xmx)
        elif mode == "trace":
            jopts.append("-Xmx4g")
        else:
            jopts.append("-Xmx12g")
        if mode == "trace" or dfs:
            jopts.append("-Dtlc2.tool.queue.IStateQueue=StateDeque")
        cmd = ["java"] + jopts + ["-cp", TLA_JAR, "tlc2.TLC", "-workers", str(workers),
                                  "-metadir", meta, "-cleanup", "-noGenerateSpecTE", "-config", cfg]
        if coverage and mode == "mc":
            cmd += ["-coverage", "1"]
        if not deadlock:
            cmd += ["-deadlock"]  # TLC flag "-deadlock" DISABLES deadlock checking
        if mode == "simulate":
            cmd += ["-simulate", simulate or "num=200"]
            if depth:
                cmd += ["-depth", str(depth)]
            cmd += ["-seed", str(seed if seed is not None else self.seed)]
        if extra:
            cmd += extra
        cmd += [module + ".tla"]
        e = dict(os.environ)
        e.pop("JAVA_TOOL_OPTIONS", None)
        if env:
            e.update({k: str(v) for k, v in env.items()})
        res = TlcResult()
        res.out_path = out_path
        t = time.time()
        with open(out_path, "w") as f:
            try:
                p = subprocess.run(cmd, cwd=sd, env=e, stdout=f, stderr=subprocess.STDOUT, timeout=timeout)
                res.rc = p.returncode
            except subprocess.TimeoutExpired:
                res.timeout = True
                res.rc = -9
        res.wall = time.time() - t
        text = open(out_path, errors="replace").read()
        parse_tlc_output(text, res)
        if keep_printed:
            res.printed = [l for l in text.splitlines() if l.startswith("<<\"") or l.startswith("\"") or l.startswith("{") or l.startswith("[")]
        shutil.rmtree(meta, ignore_errors=True)
        self.cov["states"] += res.distinct
        self.cov["transitions"] += res.generated
        self.cov["tlc_runs"].append({"module": module, "cfg": cfg, "mode": mode, **res.summary()})
        if not self.cov["checker_cmd"]:
            self.cov["checker_cmd"] = "tlc -workers %d -config %s %s.tla (in spec/%s)" % (workers, cfg, module, spec_dir)
        self.log("tlc %s/%s [%s] %s: %d generated, %d distinct, %.1fs%s" % (
            spec_dir, module, cfg, mode, res.generated, res.distinct, res.wall,
            (" VIOLATED " + ",".join(res.violated)) if res.violated else ""))
        if res.timeout and mode != "simulate":
            self.fail_tool("TLC timeout on %s (%ds)" % (module, timeout))
        bad_tool = [l for l in res.error_lines if not (expect_violation or res.postcondition_failed)]
        parse_fail = "Parsing or semantic analysis failed" in text or "Fatal error" in text
        fatal = (parse_fail or "java.lang." in text and "Exception" in text
                 or "Error: TLC threw an unexpected exception" in text)
        if mode == "trace" and fatal and not parse_fail:
            # An evaluation error while replaying a recorded trace means the logged values left the
            # domain the spec expects (the code under test does not follow the spec here): that is
            # a rejected trace (conformance drift for the caller), not a tooling failure.
            res.ok = False
            res.eval_error = True
            res.postcondition_failed = True
            self.log("tlc %s: evaluation error on the recorded trace - treated as 'trace rejected'" % module)
            return res
        if fatal:
            sys.stdout.write(text[-3000:])
            self.fail_tool("TLC failed on %s (see %s)" % (module, out_path))
        if bad_tool and not res.violated and mode != "trace":
            sys.stdout.write("\n".join(bad_tool[:10]) + "\n")
            self.fail_tool("TLC reported errors on %s (see %s)" % (module, out_path))
        return res

    def require_coverage(self, res, actions):
        """S5 vacuity control: every named action of the spec must have been taken."""
        missing = [a for a in actions if res.coverage.get(a, (0, 0))[1] == 0]
        if missing:
            self.fail_tool("vacuous model: actions never taken: %s" % ",".join(missing))

    @staticmethod
    def printed_json(res, tag):
        """Extract JSON payloads from lines `<<"TAG", "<json string>">>` printed by PrintT(<<tag, ToJson(x)>>)."""
        out = []
        pre = '<<"%s", "' % tag
        for l in res.printed:
            if l.startswith(pre) and l.endswith('">>'):
                s = l[len(pre):-3]
                s = s.replace('\\"', '"').replace("\\\\", "\\")
                try:
                    out.append(json.loads(s))
                except Exception:
                    pass
        return out

    # ------------------------------------------------------------------ verdicts
    def sample(self, obj, limit=5):
        if len(self.cov["samples"]) < limit:
            self.cov["samples"].append(obj)

    MAX_PER_GROUP = 3

    def violation(self, key, what, replay=None, group=None):
        """Report a violation of this property, identified by canonical `key`.

        Open entries of known_findings.json with the same key (exact, or an fnmatch pattern
        stored under `key_glob`) turn it into a KNOWN-FINDING line; everything else is a VIOLATION.
        """
        for k in self.known:
            if k.get("status") != "open":
                continue
            if k.get("key") == key or (k.get("key_glob") and fnmatch.fnmatchcase(key, k["key_glob"])):
                kk = k.get("key") or k.get("key_glob")
                if kk not in self.known_hits:
                    print("KNOWN-FINDING: property=%s %s [%s]" % (self.id, k.get("what", what), kk), flush=True)
                    self.cov["known_findings"].append(kk)
                self.known_hits[kk] = self.known_hits.get(kk, 0) + 1
                return False
        if any(v[0] == key for v in self.violations):
            return True
        # cap the number of replay files / lines per violation class (group); all are counted
        group = group or key.split(":")[0]
        self._groups = getattr(self, "_groups", {})
        self._groups[group] = self._groups.get(group, 0) + 1
        if self._groups[group] > self.MAX_PER_GROUP:
            self.violations.append((key, what, None))
            if self._groups[group] == self.MAX_PER_GROUP + 1:
                print("  (further %s violations are counted in the evidence file, not listed)" % group, flush=True)
            return True
        self._nrep += 1
        safe = re.sub(r"[^A-Za-z0-9_.-]+", "_", key)[:80]
        path = os.path.join(self.replays, "%s_%s.json" % (self.tier, safe))
        with open(path, "w") as f:
            json.dump({"property": self.id, "key": key, "what": what, "seed": self.seed, "tier": self.tier,
                       "replay": replay}, f, indent=1, default=str)
        self.violations.append((key, what, path))
        print("VIOLATION property=%s replay=%s" % (self.id, path), flush=True)
        print("  key=%s: %s" % (key, what), flush=True)
        return True

    def drift(self, msg):
        self.cov["drift"] += 1
        if len(self.drifts) < 20:
            print("DRIFT: property=%s %s" % (self.id, msg), flush=True)
        self.drifts.append(msg)

    # ------------------------------------------------------------------ evidence
    def _write_evidence(self, tool_error=None):
        cov = dict(self.cov)
        cov["known_finding_hits"] = dict(self.known_hits)
        if tool_error:
            cov["tool_error"] = tool_error
        if not cov["samples"]:
            cov["samples"] = ["<none recorded>"]
        ev = {"property_id": self.id, "tier": self.tier, "seed": int(self.seed), "level": self.level,
              "coverage": cov, "assumptions": self.assumptions, "wall_s": round(time.time() - self.t0, 1),
              "violations": len(self.violations)}
        os.makedirs(os.path.join(VERIF, "evidence"), exist_ok=True)
        tmp = os.path.join(VERIF, "evidence", self.id + ".json.tmp")
        with open(tmp, "w") as f:
            json.dump(ev, f, indent=1, default=str)
        os.replace(tmp, os.path.join(VERIF, "evidence", self.id + ".json"))

    def finish(self):
        self._write_evidence()
        self.log("done: %d violation(s), %d known finding(s) hit, %d drift, states=%d transitions=%d traces=%d" % (
            len(self.violations), len(self.known_hits), self.cov["drift"], self.cov["states"],
            self.cov["transitions"], self.cov["traces_validated_against_impl"]))
        sys.exit(1 if self.violations else 0)


def read_ndjson(path):
    out = []
    with open(path) as f:
        for l in f:
            l = l.strip()
            if l:
                out.append(json.loads(l))
    return out


def write_ndjson(path, rows):
    with open(path, "w") as f:
        for r in rows:
            f.write(json.dumps(r, separators=(",", ":")) + "\n")
