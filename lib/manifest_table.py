"""Per-property manifest entries (consumed by bin/mkmanifest)."""
HOOK_COMMITS = []
NOT_BUILT_REASON = "not claimed yet: the specification/binding pipeline for this property is designed (DESIGN.md section 7) but not built in this tree"
NOT_APPLICABLE = {}
CHECKS = {
 "C17": {
  "engine": "Reassembly",
  "design_ref": "DESIGN.md section 7 (C17), section 6.4",
  "technique": "TLA+ spec of the reassembler (Reassembly.tla) model-checked with TLC; TLC-generated behaviours replayed on the real Defragmenter; recorded executions validated by Trace_Reassembly.tla",
  "text": "TLC explores every schedule of up to 3-4 arbitrary (hostile) frames over the full small header domain and every delivery schedule of 4 honest packets (Integrity, BoundedState, CompleteIfAllArrive, HonestExact hold on the I-spec). One behaviour per distinct (state, outcome) is replayed on the real Defragmenter with per-frame tag bytes, comparing the outcome at every step and checking integrity/at-most-once/no-panic on the real bytes; seeded executions of the real Fragmenter/Defragmenter with the real constants are validated against the spec by TLC at every event.",
  "note": "exhaustive only inside the stated alphabet (2-3 stream offsets, offsets 0..6 units, lengths 0..4 units, depth 3-4, Q<=2); MAX_PACKET_SIZE/MAX_FRAMES boundaries are covered by trace validation only; trusted: TLC, harness projection (tag bytes), the spec's transcription of select_queue/ingest_frame (bound by replay and traces)",
 },
}
