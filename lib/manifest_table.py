"""Per-property manifest entries (consumed by bin/mkmanifest)."""
HOOK_COMMITS = []
NOT_BUILT_REASON = "not claimed yet: the specification/binding pipeline for this property is designed (DESIGN.md section 7) but not built in this tree"
NOT_APPLICABLE = {}
CHECKS = {}
