"""Shared machinery of the PathManager/PathSet family (C05, C06, C07).

* UNIVERSES: the concrete path sets / issue targets behind the abstract universes "A" and "B" of
  spec/PathManager/MC_PathSet.tla (cross-checked against what TLC prints at start-up).
* cfg templates for MC_PathSet / Trace_PathSet, harness meta objects.
* P-monitors: the properties C05/C06/C07 as stated, evaluated on the REAL outputs and the real
  projected state recorded by harness/vh-stack/src/bin/pathset.rs.  Only these raise violations.
* conformance comparison (spec state vs real state per step) -> drift, never a violation.

Readings adopted (DESIGN.md section 7, always the one demanding less of the code):
  - "valid path" in NoStarvation / SteerAway = the manager's own Valid class: more than
    min_expiry_threshold left.
  - LiveAtHandout / Provenance-freshness are required only while no maintenance tick is pending
    (the real object's next_maintain(now) > 0): the property is about the manager's schedule, not
    about a starved runtime.  A debug_assert panic "Returned expired path" on hand-out is the same
    event as handing out the expired path (the harness builds with debug assertions on).
  - "very next send" = the next send after the worker had the chance to ingest the report
    (nothing pending in its notification channel, no tick pending).
  - "another valid known path avoids that interface" = a cached Valid path not matching the target
    and not hit by any accepted report during the last RECOVER window (10 half-lives).
  - "while the penalty is fresh" = for one half-life of the fastest decay the stack applies to a penalty
    (cached issues: 30 s = 1 tick).  A return to the failed interface is structurally excluded by the swap
    hysteresis for as long as any penalty is left; the window only bounds the obligation to LEAVE a path that
    became active although it was already penalised (it was the only valid one).
  - a report may be forgotten (bounded issue memory, C06) once issue_cache_size other issues were
    accepted after it; SteerAway makes no demand for such a report.
  - "issue memory stays within its configured size": the issue map holds at most issue_cache_size
    entries; the FIFO (which a lazily cleaned implementation may let run ahead) at most twice that.
  - RefetchWindow is evaluated on the real schedule: consecutive lookups >= min_refetch_delay apart;
    the next lookup instant the manager commits to is <= interval (after a success) resp.
    <= max(backoff ceiling, min delay) (after a failure) after the previous one.
"""
import json

UNIT = 30  # seconds per model tick: reliability half-life 90 s = 3 ticks, cached-issue half-life 30 s = 1 tick
REL_HL = 3
ISS_HL = 1
FRESH_WIN = ISS_HL      # a report is fresh for the shortest half-life the stack applies to a penalty (30 s)
RECOVER_WIN = 10 * REL_HL
SRC_AS = 1

UNIVERSES = {
    "A": {
        "paths": [
            {"id": 1, "src_eg": 1, "transit": [[101, 2, 3]], "dst_in": 4},
            {"id": 2, "src_eg": 5, "transit": [[102, 2, 3]], "dst_in": 6},
            {"id": 3, "src_eg": 1, "transit": [[101, 2, 3], [103, 1, 2]], "dst_in": 8},
            {"id": 4, "src_eg": 9, "transit": [[666, 2, 3]], "dst_in": 10, "ok": False},
        ],
        "issues": [
            {"id": 1, "kind": "ext", "as": 101, "eg": 3},
            {"id": 2, "kind": "ext", "as": 102, "eg": 3},
            {"id": 3, "kind": "ext", "as": 199, "eg": 1},
        ],
    },
    "B": {
        "paths": [
            {"id": 1, "src_eg": 1, "transit": [[101, 2, 3]], "dst_in": 4},
            {"id": 2, "src_eg": 1, "transit": [[104, 5, 6]], "dst_in": 7},
            {"id": 3, "src_eg": 5, "transit": [[102, 2, 3], [103, 1, 2]], "dst_in": 8},
        ],
        "issues": [
            {"id": 1, "kind": "ext", "as": 101, "eg": 3},
            {"id": 2, "kind": "ext", "as": SRC_AS, "eg": 1},
            {"id": 3, "kind": "fh", "as": SRC_AS, "eg": 1},
            {"id": 4, "kind": "int", "as": 103, "in": 1, "eg": 2},
            {"id": 5, "kind": "ext", "as": 199, "eg": 1},
            {"id": 6, "kind": "fh", "as": 77, "eg": 1},
        ],
    },
}


# universe W ("wide"): 16 paths per pair, 13 of them cross the denied AS 1-666; the conforming ones sit first / in the
# middle / last.  Used for recorded and directed histories with MANY paths per lookup result (no exhaustive run).
UNIVERSES["W"] = {
    "paths": [{"id": i, "src_eg": 10 + i, "transit": [[(200 + i) if i in (1, 9, 16) else 666, 2, 3]], "dst_in": 40 + i,
               **({} if i in (1, 9, 16) else {"ok": False})} for i in range(1, 17)],
    "issues": [{"id": 1, "kind": "ext", "as": 201, "eg": 3}, {"id": 2, "kind": "ext", "as": 199, "eg": 1}],
}

# ----------------------------------------------------------------------------- policies (universes A and W)
ACL = {"k": "acl", "s": "- 1-666 +"}             # real sciparse AclPolicy: denies paths crossing AS 1-666 (path 4, variant bad666)
HOP = {"k": "hop", "s": "0 0 0"}                 # real sciparse HopPatternPolicy: exactly three AS hops (rejects path 3)
CLO = {"k": "closure", "reject_first_eg": 5}     # arbitrary predicate over the object: metadata with MTU >= 1200, first egress != 5 (rejects path 2)
FAIL = {"k": "failing"}                          # evaluation always fails: every path counts as rejected
POLICY_SETS = {
    "none": [], "acl": [ACL], "closure": [CLO], "failing": [FAIL],
    "acl+closure": [ACL, CLO], "closure+acl": [CLO, ACL],
    "acl+hop+closure": [ACL, HOP, CLO], "hop+closure+acl": [HOP, CLO, ACL], "closure+acl+hop": [CLO, ACL, HOP],
    "acl+failing": [ACL, FAIL], "failing+acl": [FAIL, ACL],
}
VARIANTS = ("nometa", "bad666", "lowmtu")


def policy_rejects_path(pol, p):
    """verdict by construction of the concrete path definition p (object variant "ok")"""
    if pol["k"] == "acl":
        return any(t[0] == 666 for t in p["transit"])      # '- 1-666 +'
    if pol["k"] == "hop":
        return len(p["transit"]) + 2 != 3                  # '0 0 0'
    if pol["k"] == "closure":
        return p["src_eg"] == pol["reject_first_eg"]
    return True                                            # failing


def policy_rejects_variant(pol, v):
    if pol["k"] == "failing":
        return True
    if v == "nometa":
        return True                      # no metadata: ACL / hop pattern cannot be evaluated, the predicate demands metadata
    return (v == "bad666" and pol["k"] == "acl") or (v == "lowmtu" and pol["k"] == "closure")


def allowed_ids(policy, u="A"):
    pols = POLICY_SETS[policy]
    return [p["id"] for p in UNIVERSES[u]["paths"] if not any(policy_rejects_path(q, p) for q in pols)]


def rejected_variants(policy):
    pols = POLICY_SETS[policy]
    return [v for v in VARIANTS if any(policy_rejects_variant(q, v) for q in pols)]


# ----------------------------------------------------------------------------- reference semantics
def path_hops(p):
    """[(as, ingress, egress)] along the path; 0 = no interface (endpoints)."""
    return [(SRC_AS, 0, p["src_eg"])] + [tuple(t) for t in p["transit"]] + [("dst", p["dst_in"], 0)]


def issue_matches(i, p):
    """Does the reported failure lie on path p?  (reference meaning, independent of the code)"""
    hops = path_hops(p)
    if i["kind"] == "ext":      # external interface <eg> of AS <as> is down: the path leaves that AS through it
        return any(a == i["as"] and eg == i["eg"] for a, _, eg in hops)
    if i["kind"] == "int":      # no connectivity inside AS <as> from interface <in> to <eg>
        return any(a == i["as"] and ig == i["in"] and eg == i["eg"] for a, ig, eg in hops)
    if i["kind"] == "fh":       # local send failure towards the first-hop router of interface <eg>
        return i["as"] == SRC_AS and hops[0][2] == i["eg"]
    raise ValueError(i["kind"])


def issue_applies(i):
    return not (i["kind"] == "fh" and i["as"] != SRC_AS)


def issue_pen(i):
    return 4000 if i["kind"] == "fh" else 10000


def abstract_universe(u, policy="closure", nometa=()):
    U = UNIVERSES[u]
    paths = U["paths"]
    allowed = allowed_ids(policy, u) if u in ("A", "W") else [p["id"] for p in paths]
    return {
        "paths": [p["id"] for p in paths],
        "hops": {p["id"]: len(p["transit"]) + 2 for p in paths},
        "allowed": allowed,
        "issues": [i["id"] for i in U["issues"]],
        "hits": {i["id"]: [p["id"] for p in paths if issue_matches(i, p)] for i in U["issues"]},
        "pen": {i["id"]: issue_pen(i) for i in U["issues"]},
        "applies": {i["id"]: issue_applies(i) for i in U["issues"]},
    }


def check_universe_printed(c, res, u):
    """The abstract universe TLC used must be the abstraction of the concrete one the harness builds."""
    got = c.printed_json(res, "UNIVERSE")
    if not got:
        c.fail_tool("MC_PathSet did not print its universe")
    g = got[0]
    ref = abstract_universe(u, policy="acl")
    def norm_map(m):
        if isinstance(m, list):   # TLC prints functions over 1..n as arrays
            return {i + 1: v for i, v in enumerate(m)}
        return {int(k): v for k, v in m.items()}
    ok = (sorted(g["paths"]) == sorted(ref["paths"]) and norm_map(g["hops"]) == ref["hops"]
          and sorted(g["allowed"]) == sorted(ref["allowed"]) and sorted(g["issues"]) == sorted(ref["issues"])
          and {k: sorted(v) for k, v in norm_map(g["hits"]).items()} == {k: sorted(v) for k, v in ref["hits"].items()}
          and norm_map(g["pen"]) == ref["pen"] and norm_map(g["applies"]) == ref["applies"])
    if not ok:
        c.fail_tool("universe %s of MC_PathSet.tla differs from lib/pathset_common.py: %s vs %s" % (u, json.dumps(g), json.dumps(ref)))


# ----------------------------------------------------------------------------- configurations
BASE_CFG = {"max_cache": 2, "interval": 4, "min_delay": 1, "threshold": 2, "idle": 5,
            "backoff_min": 1, "backoff_max": 3, "backoff_factor": 2.0, "backoff_jitter": 0.0,
            "issue_cap": 2, "chan_cap": 2, "dedup": 1, "swap_thr_milli": 500}


def backoff_tab(cfg, n=6):
    out = []
    for k in range(1, n + 1):
        out.append(int(min(cfg["backoff_min"] * cfg["backoff_factor"] ** k, cfg["backoff_max"])))
    while len(out) > 1 and out[-1] == out[-2]:
        out.pop()
    return out


def harness_meta(u, cfg=None, policy="acl", late=1, nometa=(), unit=UNIT, extra=None, attach="vec"):
    cfg = dict(BASE_CFG, **(cfg or {}))
    U = UNIVERSES[u]
    paths = []
    for p in U["paths"]:
        q = dict(p)
        q["meta"] = p["id"] not in nometa
        q["ok"] = p.get("ok", True)
        paths.append(q)
    m = {"ev": "meta", "u": u, "unit": unit, "policy": policy, "policies": POLICY_SETS[policy] if u in ("A", "W") else [],
         "attach": attach, "late": late, "cfg": cfg, "paths": paths, "issues": U["issues"], "nometa": list(nometa)}
    if extra:
        m.update(extra)
    return m


MC_TMPL = """SPECIFICATION MCSpec
VIEW MCView
CONSTANTS
  U = "{u}"
  Paths <- UPaths
  HopCount <- UHopCount
  Allowed = {allowed}
  Issues <- UIssues
  IssueHits <- UHits
  IssuePen <- UPen
  IssueApplies <- UApplies
  BackoffTab <- MCBackoffTab
  RelTab <- MCRelTab
  IssTab <- MCIssTab
  Threshold = {threshold}
  MinDelay = {min_delay}
  Interval = {interval}
  IdlePeriod = {idle}
  MaxCache = {max_cache}
  IssueCap = {issue_cap}
  ChanCap = {chan_cap}
  Dedup = {dedup}
  SwapThr = {swap_thr}
  Late = {late}
  FILTER_ALL = {filter_all}
  FIX_EXPIRY = {fix_expiry}
  FIX_FIFO = {fix_fifo}
  BadSet = {bad_set}
  ExpChoices = {exp_choices}
  Depth = {depth}
  Horizon = {horizon}
  AdvSet = {adv_set}
  ReportSet = {report_set}
  B1 = {b1}
  B2 = {b2}
  B3 = {b3}
  GEN = {gen}
  ViewDepth = {view_depth}
INVARIANTS
  {invariants}
"""

ALL_INVARIANTS = ["PolicyHonoured", "Provenance", "ActiveInCache", "LiveAtHandout", "NoStarvation", "CacheBound",
                  "IssueMapBound", "IssueFifoBound", "RefetchWindow", "NoWorkerPanic", "SteerAway", "Recovers",
                  "IrrelevantReportNoChange"]


def tla_set(xs):
    return "{" + ", ".join(str(x) for x in xs) + "}"


def mc_cfg(u, cfg=None, late=1, fix_expiry=True, fix_fifo=True, exp_choices=(1, 3, 6), depth=5, horizon=9,
           max_adv=4, adv_set=None, report_set=(1,), gen=False, invariants=None, policy=None, bad_set=(), filter_all=True, view_depth=1):
    if policy is None:
        policy = "acl" if u == "A" else "none"
    cfg = dict(BASE_CFG, **(cfg or {}))
    bt = [int(min(cfg["backoff_min"] * cfg["backoff_factor"] ** k, cfg["backoff_max"])) for k in (1, 2, 3)]
    if bt[2] != max(backoff_tab(cfg, 12)):
        raise ValueError("MC_PathSet models three backoff steps; the ceiling must be reached at the third failure")
    inv = list(invariants if invariants is not None else ALL_INVARIANTS)
    if gen:
        inv.append("Emit")
    return MC_TMPL.format(u=u, threshold=cfg["threshold"], min_delay=cfg["min_delay"], interval=cfg["interval"],
                          idle=cfg["idle"], max_cache=cfg["max_cache"], issue_cap=cfg["issue_cap"],
                          chan_cap=cfg["chan_cap"], dedup=cfg["dedup"], swap_thr=cfg["swap_thr_milli"] * 10,
                          late=late, fix_expiry="TRUE" if fix_expiry else "FALSE", fix_fifo="TRUE" if fix_fifo else "FALSE",
                          exp_choices=tla_set(exp_choices), depth=depth, horizon=horizon,
                          adv_set=tla_set(adv_set if adv_set is not None else range(1, max_adv + 1)),
                          report_set=tla_set(report_set), gen="TRUE" if gen else "FALSE", invariants=" ".join(inv),
                          b1=bt[0], b2=bt[1], b3=bt[2], allowed=tla_set(abstract_universe(u, policy)["allowed"]),
                          bad_set=tla_set(bad_set), filter_all="TRUE" if filter_all else "FALSE", view_depth=view_depth)


# ----------------------------------------------------------------------------- histories
def act_key(a):
    k = a["a"]
    if k == "tick":
        f = a.get("fetch", {})
        if f.get("k") == "ok":
            ps = f.get("ps", f.get("paths", []))
            def one(p):
                bad = (not p.get("ok", True)) or p.get("v", "ok") != "ok"     # returned as an object the policies reject
                return "%d@%s%s" % (p["id"], p["exp"], ("~" + p["v"] if "v" in p else "~") if bad else "")
            return "T[" + ",".join(one(p) for p in sorted(ps, key=lambda p: p["id"])) + "]"
        return "T" + {"empty": "0", "err": "!", "na": ""}.get(f.get("k"), "?")
    if k == "adv":
        return "+%d" % a["d"]
    if k == "sleep":
        return "Z"
    if k == "report":
        return "R%d" % a["i"]
    if k == "ingest":
        return "I"
    if k == "send":
        return "S"
    return k


def hist_key(actions):
    return " ".join(act_key(a) for a in actions)


def tlc_history_to_actions(h, rejected=(), salt=0):
    """history printed by MC_PathSet (list of {a, s}) -> harness actions + expected states.
    A returned path the model marks ok = FALSE is realised as one of the object variants the attached policies reject."""
    acts, exp = [], []
    for k, st in enumerate(h):
        a = dict(st["a"])
        if a["a"] == "tick":
            f = dict(a["fetch"])
            if "ps" in f:
                ps = []
                for p in sorted(f.pop("ps"), key=lambda p: p["id"]):
                    q = {"id": p["id"], "exp": p["exp"], "v": "ok"}
                    if not p.get("ok", True):
                        if not rejected:
                            raise ValueError("model returned a rejected object but the policy set rejects no variant")
                        q["v"] = rejected[(salt + k + p["id"]) % len(rejected)]
                    ps.append(q)
                f["paths"] = ps
            a["fetch"] = f
        acts.append(a)
        exp.append(st["s"])
    return acts, exp


def drop_prefixes(hists):
    """keep only histories that are not a strict prefix of another one (replaying the longer covers the shorter)"""
    keys = {}
    for h in hists:
        keys[tuple(act_key(st["a"]) for st in h)] = h
    prefixes = set()
    for k in keys:
        for n in range(1, len(k)):
            prefixes.add(k[:n])
    return [h for k, h in keys.items() if k not in prefixes]


# ----------------------------------------------------------------------------- P-monitors
class Monitor:
    """Evaluates C05/C06/C07 on one recorded run of the real path set."""

    def __init__(self, meta):
        self.meta = meta
        self.cfg = meta["cfg"]
        self.au = abstract_universe(meta["u"], policy=meta["policy"], nometa=meta.get("nometa", ()))
        self.allowed = set(self.au["allowed"])
        self.rej = set(rejected_variants(meta["policy"])) if meta["u"] in ("A", "W") else set()
        self.cap = 1
        while self.cap < self.cfg["chan_cap"]:
            self.cap *= 2
        self.bo_max = max(backoff_tab(self.cfg))

    def cls(self, exp, now):
        if exp is None:
            return "expired"
        if exp <= now:
            return "expired"
        return "near" if exp - now <= self.cfg["threshold"] else "valid"

    def run(self, run, props):
        """-> list of {prop, key, what, step}.  props: subset of {"C05","C06","C07"}"""
        V = []
        cfg = self.cfg
        ever_ok, last_ok = set(), set()
        last_fetch = None            # (at, ok)
        last_acc = {}                # issue -> time of last accepted report
        lost = {}                    # issue -> True if its last accepted report was overwritten in the channel
        pending = []                 # accepted reports not yet consumed by the worker
        prev = None
        steps = run["steps"]

        def add(prop, key, what, k):
            if prop in props and not any(v["key"] == key for v in V):
                V.append({"prop": prop, "key": key, "what": what, "step": k})

        for k, st in enumerate(steps):
            a, o, s = st["a"], st["o"], st["s"]
            kind = a["a"]
            if o.get("k") == "panic" and kind != "send":
                add("C06", "Panic:%s:%s" % (kind, o.get("msg", "")[:50]), "%s panicked: %s" % (kind, o.get("msg")), k)
            if s is None:
                break
            now = s["now"]
            tick_pending = not (s["nm"] > 0)
            # ---- bookkeeping of the environment's side
            if kind == "tick" and o.get("fetched"):
                f = a.get("fetch", {})
                ps = f.get("paths", f.get("ps", [])) if f.get("k") == "ok" else []
                got = {(p["id"], p["exp"]) for p in ps if p["id"] in self.allowed and p.get("v", "ok") not in self.rej}
                ok = bool(got)
                if last_fetch is not None and now - last_fetch[0] < cfg["min_delay"]:
                    add("C06", "RefetchWindow:lookup-sooner-than-min-delay",
                        "lookups at %s and %s: sooner than min_refetch_delay=%s" % (last_fetch[0], now, cfg["min_delay"]), k)
                last_fetch = (now, ok)
                if ok:
                    last_ok = got
                    ever_ok |= got
            if kind == "report" and o.get("k") == "accepted":
                i = a["i"]
                last_acc[i] = now
                lost[i] = False
                pending.append(i)
                if len(pending) > self.cap:
                    lost[pending.pop(0)] = True
            if s["pend"] == 0:
                pending = []
            # ---- C06 state bounds
            if len(s["cache"]) > cfg["max_cache"]:
                add("C06", "CacheBound", "%d cached paths > max_cached_paths_per_pair=%d" % (len(s["cache"]), cfg["max_cache"]), k)
            if s["imap"] > cfg["issue_cap"]:
                add("C06", "IssueBound:map-exceeds-cap", "issue map holds %d entries > issue_cache_size=%d" % (s["imap"], cfg["issue_cap"]), k)
            if s["ififo"] > 2 * cfg["issue_cap"]:
                add("C06", "IssueBound:fifo-grows", "issue FIFO holds %d entries with issue_cache_size=%d" % (s["ififo"], cfg["issue_cap"]), k)
            alive = run.get("end", "complete") == "complete" or k < len(steps) - 1
            if last_fetch is not None and alive:
                lo = last_fetch[0] + cfg["min_delay"]
                hi = last_fetch[0] + (cfg["interval"] if last_fetch[1] else max(self.bo_max, cfg["min_delay"]))
                if s["nr"] < lo:
                    add("C06", "RefetchWindow:next-lookup-sooner-than-min-delay",
                        "next lookup scheduled at %s, previous at %s, min_refetch_delay=%s" % (s["nr"], last_fetch[0], cfg["min_delay"]), k)
                if s["nr"] > hi:
                    add("C06", "RefetchWindow:next-lookup-beyond-%s" % ("interval" if last_fetch[1] else "backoff-ceiling"),
                        "next lookup scheduled at %s, previous (%s) at %s, bound %s" % (s["nr"], "ok" if last_fetch[1] else "failed", last_fetch[0], hi), k)
            # ---- the slot / the hand-out
            handouts = []      # (where, id, exp, verdict of the attached REAL policies evaluated directly on the object)
            if s.get("active") is not None:
                handouts.append(("slot", s["active"]["id"], s["active"]["exp"], s["active"].get("ok", True)))
            if kind == "send":
                for oo in [o] + ([st["o2"]] if "o2" in st else []):
                    if oo.get("k") == "path":
                        handouts.append(("send", oo["id"], oo["exp"], oo.get("ok", True)))
                        if not (oo.get("src_ok") and oo.get("dst_ok")):
                            add("C05", "HandedOk:wrong-endpoints", "handed-out path does not connect the requested pair", k)
                    elif oo.get("k") == "panic":
                        if "expired path" in oo.get("msg", "") and not tick_pending:
                            add("C06", "LiveAtHandout:expired-path-in-slot-no-tick-pending",
                                "hand-out at %s hit the debug assertion '%s' and no maintenance tick is pending (next in %s)" % (now, oo.get("msg"), s["nm"]), k)
                        elif "expired path" not in oo.get("msg", ""):
                            add("C06", "Panic:send:%s" % oo.get("msg", "")[:50], "hand-out panicked: %s" % oo.get("msg"), k)
                    elif oo.get("k") in ("none", "error"):
                        if not tick_pending and any(self.cls(e["exp"], now) == "valid" for e in s["cache"]):
                            add("C06", "NoStarvation", "hand-out at %s returned no path although a Valid path is cached" % now, k)
            for where, pid, exp, verdict in handouts:
                if not verdict or pid not in self.allowed:
                    add("C05", "PolicyHonoured:%s" % self.meta["policy"],
                        "path %s (%s) is rejected by the attached policies [%s]%s" % (pid, where, self.meta["policy"],
                        "" if not verdict else " (by construction; the direct evaluation of the real policies accepted the object)"), k)
                if (pid, exp) not in ever_ok:
                    add("C05", "Provenance:not-from-a-lookup", "path %s exp %s (%s) was never returned by a successful lookup" % (pid, exp, where), k)
                elif not tick_pending and (pid, exp) not in last_ok and not (exp is not None and exp > now):
                    add("C05", "Provenance:stale-path-not-from-latest-lookup",
                        "path %s exp %s (%s) at %s: expired and not part of the most recent successful lookup" % (pid, exp, where, now), k)
                if not tick_pending and not (exp is not None and exp > now):
                    add("C06", "LiveAtHandout:expired-path-in-slot-no-tick-pending",
                        "path %s exp %s handed out (%s) at %s, no maintenance tick pending (next in %s)" % (pid, exp, where, now, s["nm"]), k)
            if not tick_pending and alive and s.get("active") is None and any(self.cls(e["exp"], now) == "valid" for e in s["cache"]):
                add("C06", "NoStarvation", "slot empty at %s although a Valid path is cached" % now, k)
            # ---- C07
            def hit_since(pid, w):
                return any(t is not None and now - t < w and self.au["applies"][i] and pid in self.au["hits"][i] for i, t in last_acc.items())
            quiescent = not tick_pending and s["pend"] == 0 and alive
            if quiescent and s.get("active") is not None:
                aid = s["active"]["id"]
                for i, t in last_acc.items():
                    # the bounded issue memory may forget a report once issue_cache_size other issues were accepted after it
                    remembered = sum(1 for j, tj in last_acc.items() if j != i and tj >= t) < cfg["issue_cap"]
                    if now - t < FRESH_WIN and self.au["applies"][i] and aid in self.au["hits"][i] and remembered:
                        alt = [e["id"] for e in s["cache"] if self.cls(e["exp"], now) == "valid" and e["id"] not in self.au["hits"][i]
                               and not hit_since(e["id"], RECOVER_WIN)]
                        if alt:
                            if lost.get(i):
                                key = "SteerAway:report-lost-on-broadcast-lag"
                            elif self.au["pen"][i] <= cfg["swap_thr_milli"] * 10:
                                key = "SteerAway:penalty-not-above-swap-threshold"
                            else:
                                key = "SteerAway:stays-on-failed-interface"
                            add("C07", key, "report of issue %d at %s hits active path %d; valid unpenalised path(s) %s avoid it, slot still holds path %d at %s"
                                % (i, t, aid, alt, aid, now), k)
            for e in s["cache"]:
                if not hit_since(e["id"], RECOVER_WIN) and e["rel"] <= -100:
                    add("C07", "Recovers", "path %d has reliability %.4f although no report hit it for %d ticks" % (e["id"], e["rel"] / 10000.0, RECOVER_WIN), k)
            if kind == "ingest" and prev is not None and o.get("k") in ("handled", "lagged"):
                consumed = st.get("consumed")
                if consumed is not None and not any(self.au["applies"][i] and set(self.au["hits"][i]) & {e["id"] for e in prev["cache"]} for i in consumed):
                    if prev.get("active") != s.get("active") or [e["id"] for e in prev["cache"]] != [e["id"] for e in s["cache"]]:
                        add("C07", "IrrelevantReportNoChange", "ingesting reports %s that match no cached path changed the slot or the ranking" % consumed, k)
            prev = s
        return V


def annotate_consumed(run, cap):
    """adds st["consumed"] (issue ids the worker consumed at this ingest step) from the report bookkeeping"""
    pending = []
    for st in run["steps"]:
        a, o, s = st["a"], st["o"], st["s"]
        if s is None:
            break
        if a["a"] == "report" and o.get("k") == "accepted":
            pending.append(a["i"])
            if len(pending) > cap:
                pending.pop(0)
        if a["a"] == "ingest":
            if o.get("k") == "lagged":
                st["consumed"] = []
            elif s["pend"] == 0:
                st["consumed"] = list(pending)
            else:
                st["consumed"] = pending[:1]
                pending = pending[1:]
                continue
        if s["pend"] == 0:
            pending = []


# ----------------------------------------------------------------------------- conformance
def conformance(run, expected, tol=6, swap_thr=None):
    """compare the spec's projected state with the real one, step by step.
    -> (mismatch or None, tie_breaks).  A difference explained by equal real scores is a tie-break, not drift."""
    ties = 0
    steps = run["steps"][1:]
    for k, (st, e) in enumerate(zip(steps, expected)):
        s, o = st["s"], st["o"]
        if s is None:
            if e["out"].get("res") == "panic":
                return None, ties
            return {"step": k, "field": "panic", "spec": e["out"], "real": o}, ties
        eo = e["out"]
        # outcome class
        kind = st["a"]["a"]
        if kind == "tick":
            real = ("panic" if o.get("k") == "panic" else "idle" if o.get("exit") == "idle" else
                    ("fetch" if o.get("fetched") else "nofetch"))
            spec = {"ok": "fetch", "failed": "fetch", "panic": "panic", "idle": "idle", "none": "nofetch", "expiry": "nofetch"}[eo["res"]]
            if real != spec:
                return {"step": k, "field": "tick-outcome", "spec": eo, "real": o}, ties
            if eo["res"] in ("idle", "panic"):
                return None, ties
        if kind == "report" and {"accepted": "accepted", "dup": "dup", "badcache": "accepted"}[eo["res"]] != o.get("k"):
            return {"step": k, "field": "report-outcome", "spec": eo, "real": o}, ties
        if kind == "ingest" and eo["res"] != o.get("k"):
            return {"step": k, "field": "ingest-outcome", "spec": eo, "real": o}, ties
        if e["now"] != s["now"]:
            return {"step": k, "field": "now", "spec": e["now"], "real": s["now"]}, ties
        ec = [(x["id"], x["exp"], bool(x.get("ok", True))) for x in e["cache"]]
        rc = [(x["id"], x["exp"], bool(x.get("ok", True))) for x in s["cache"]]
        ea = None if e["active"]["id"] == 0 else (e["active"]["id"], e["active"]["exp"])
        ra = None if s["active"] is None else (s["active"]["id"], s["active"]["exp"])
        if ec != rc or ea != ra:
            # explained by a tie?  (the code ranks new candidates out of a HashMap: among equal scores the
            # order - and at the truncation boundary the survivor - is arbitrary).  Position-wise equal scores
            # mean that both rankings are sorted the same way up to ties.
            rsc = [x["sc"] for x in s["cache"]]
            if len(ec) == len(rc) and all(abs(a - b) <= 1 for a, b in zip(e["sc"], rsc)):
                smap = {x["id"]: y for x, y in zip(e["cache"], e["sc"])}
                rmap = {x["id"]: x["sc"] for x in s["cache"]}
                def sc_of(a):
                    return None if a is None else smap.get(a[0], rmap.get(a[0]))
                at_thr = (swap_thr is not None and ea is not None and ra is not None and sc_of(ea) is not None and sc_of(ra) is not None
                          and abs(abs(sc_of(ea) - sc_of(ra)) - swap_thr) <= 2)      # gap == threshold in real numbers: f32 decides
                if ec != rc or (ea is not None and ra is not None and abs(sc_of(ea) - sc_of(ra)) <= 1) or at_thr:
                    ties += 1
                    return None, ties   # the rest of the history depends on the tie-break
            return {"step": k, "field": "cache/active", "spec": {"cache": ec, "active": ea}, "real": {"cache": rc, "active": ra}}, ties
        for f in ("nr", "ni", "failed", "used", "imap", "ififo"):
            if e[f] != s[f]:
                return {"step": k, "field": f, "spec": e[f], "real": s[f]}, ties
        if bool(e["pend"]) != (s["pend"] > 0):
            return {"step": k, "field": "pend", "spec": e["pend"], "real": s["pend"]}, ties
        if max(0, e["nm"] - e["now"]) != s["nm"]:
            return {"step": k, "field": "next_maintain", "spec": e["nm"] - e["now"], "real": s["nm"]}, ties
        for x, sc in zip(s["cache"], e["sc"]):
            if abs(x["sc"] - sc) > tol:
                return {"step": k, "field": "score", "spec": sc, "real": x["sc"], "id": x["id"]}, ties
        if kind == "send":
            er = eo["res"]
            want = None if er["id"] == 0 else (er["id"], er["exp"])
            got = (o["id"], o["exp"]) if o.get("k") == "path" else None
            if o.get("k") == "panic":
                got = "panic"
                if want is not None and want[1] <= e["now"]:
                    continue   # debug assertion on the expired path the spec also hands out
            if want != got:
                return {"step": k, "field": "send", "spec": want, "real": o}, ties
    return None, ties


# ----------------------------------------------------------------------------- trace validation (impl -> spec)
TRACE_TMPL = """SPECIFICATION TSpec
CONSTANTS
  Paths <- TPaths
  HopCount <- THop
  Allowed <- TAllowed
  Issues <- TIssues
  IssueHits <- THits
  IssuePen <- TPen
  IssueApplies <- TApplies
  BackoffTab <- TBackoff
  RelTab <- TRelTab
  IssTab <- TIssTab
  ScoreAt <- TScoreAt
  Gap <- TGap
  Threshold = {threshold}
  MinDelay = {min_delay}
  Interval = {interval}
  IdlePeriod = {idle}
  MaxCache = {max_cache}
  IssueCap = {issue_cap}
  ChanCap = {chan_cap}
  Dedup = {dedup}
  SwapThr = {swap_thr}
  Late = {late}
  FILTER_ALL = TRUE
  FIX_EXPIRY = {fix_expiry}
  FIX_FIFO = {fix_fifo}
INVARIANTS ActiveInCache PolicyHonoured LiveAtHandout NoStarvation CacheBound IssueMapBound IssueFifoBound
POSTCONDITION TraceAccepted
CHECK_DEADLOCK FALSE
"""

# P-invariants TLC evaluates on recorded executions -> (property, canonical key shared with the Python monitors)
TRACE_INV_KEYS = {"PolicyHonoured": ("C05", "PolicyHonoured:<policy>"),
                  "LiveAtHandout": ("C06", "LiveAtHandout:expired-path-in-slot-no-tick-pending"),
                  "NoStarvation": ("C06", "NoStarvation"), "CacheBound": ("C06", "CacheBound"),
                  "IssueMapBound": ("C06", "IssueBound:map-exceeds-cap"), "IssueFifoBound": ("C06", "IssueBound:fifo-grows")}
REL_TAB = [10000, 7937, 6300]
ISS_TAB = [10000]


def trace_cfg(meta, fix_expiry=True, fix_fifo=True):
    cfg = meta["cfg"]
    cap = 1
    while cap < cfg["chan_cap"]:
        cap *= 2
    return TRACE_TMPL.format(threshold=cfg["threshold"], min_delay=cfg["min_delay"], interval=cfg["interval"], idle=cfg["idle"],
                             max_cache=cfg["max_cache"], issue_cap=cfg["issue_cap"], chan_cap=cap, dedup=cfg["dedup"],
                             swap_thr=cfg["swap_thr_milli"] * 10, late=meta.get("late", 1),
                             fix_expiry="TRUE" if fix_expiry else "FALSE", fix_fifo="TRUE" if fix_fifo else "FALSE")


def trace_meta(meta):
    au = abstract_universe(meta["u"], policy=meta["policy"], nometa=meta.get("nometa", ()))
    n, ni = len(au["paths"]), len(au["issues"])
    assert au["paths"] == list(range(1, n + 1)) and au["issues"] == list(range(1, ni + 1))
    return {"ev": "meta", "u": meta["u"], "cfg": meta["cfg"],
            "au": {"hops": [au["hops"][p] for p in au["paths"]], "allowed": au["allowed"],
                   "hits": [au["hits"][i] for i in au["issues"]], "pen": [au["pen"][i] for i in au["issues"]],
                   "applies": [au["applies"][i] for i in au["issues"]]},
            "backoff_tab": backoff_tab(meta["cfg"]), "rel_tab": REL_TAB, "iss_tab": ISS_TAB}


def _state_ev(s):
    a = s["active"]
    return {"now": s["now"], "cache": [{"id": e["id"], "exp": e["exp"], "rel": e["rel"], "ok": bool(e.get("ok", True))} for e in s["cache"]],
            "active": {"id": a["id"], "exp": a["exp"]} if a else {"id": 0, "exp": 0},
            "nr": s["nr"], "ni": s["ni"], "failed": s["failed"], "used": s["used"], "imap": s["imap"], "ififo": s["ififo"],
            "pend": s["pend"]}


def run_to_events(run, allowed, rej=()):
    """one recorded run -> trace events (None if the run contains off-grid values TLC cannot read)"""
    def evps(ps):
        return [{"id": p["id"], "exp": p["exp"], "ok": p.get("v", "ok") not in rej} for p in ps]
    evs = [{"ev": "reset"}]
    prev = run["steps"][0]["s"]
    for st in run["steps"][1:]:
        a, o, s = st["a"], st["o"], st["s"]
        kind = a["a"]
        if s is None:
            if kind == "tick" and o.get("k") == "panic":
                f = a.get("fetch", {"k": "na"})
                evs.append({"ev": "tick", "f": {"k": f.get("k", "na"), "ps": evps(f.get("paths", f.get("ps", [])))}, "res": "panic",
                            "s": _state_ev(prev), "sc": {}, "raw": {}})
            break
        def tables():
            raw = {}
            for e in prev["cache"]:
                raw[e["id"]] = e["sc"]
            for pid, v in (o.get("cand") or {}).items():
                if int(pid) not in raw:          # probe scores are those of NEW candidates only
                    raw[int(pid)] = v
            for e in s["cache"]:
                raw[e["id"]] = e["sc"]
            n = len(s["cache"])
            sc = {pid: 16 * v for pid, v in raw.items()}
            for k, e in enumerate(s["cache"]):
                sc[e["id"]] += n - k
            return {str(k): v for k, v in sc.items()}, {str(k): v for k, v in raw.items()}
        if kind == "tick":
            f = a.get("fetch", {"k": "na"})
            ps = f.get("paths", f.get("ps", [])) if f.get("k") == "ok" else []
            if o.get("k") == "panic":
                res = "panic"
            elif o.get("exit") == "idle":
                res = "idle"
            elif o.get("fetched"):
                res = "ok" if any(p["id"] in allowed and p.get("v", "ok") not in rej for p in ps) else "failed"
            else:
                res = "nofetch"
            fk = f.get("k", "na") if o.get("fetched") else "na"
            sc, raw = tables()
            evs.append({"ev": "tick", "f": {"k": fk, "ps": evps(ps) if fk == "ok" else []}, "res": res, "s": _state_ev(s), "sc": sc, "raw": raw})
            if res in ("idle", "panic"):
                break
        elif kind == "report":
            evs.append({"ev": "report", "i": a["i"], "res": "accepted" if o.get("k") == "accepted" else "dup", "s": _state_ev(s)})
        elif kind == "ingest":
            if o.get("k") == "empty":
                prev = s
                continue
            sc, raw = tables()
            evs.append({"ev": "ingest", "res": o.get("k"), "s": _state_ev(s), "sc": sc, "raw": raw})
        elif kind == "send":
            if o.get("k") == "path":
                evs.append({"ev": "send", "id": o["id"], "exp": o["exp"], "s": _state_ev(s)})
            elif o.get("k") == "panic":
                evs.append({"ev": "send", "id": -1, "exp": -1, "s": _state_ev(s)})
            else:
                evs.append({"ev": "send", "id": 0, "exp": 0, "s": _state_ev(s)})
        elif kind == "adv":
            evs.append({"ev": "adv", "d": a["d"], "s": _state_ev(s)})
        prev = s
    def on_grid(x):
        if isinstance(x, float):
            return False
        if isinstance(x, dict):
            return all(on_grid(v) for v in x.values())
        if isinstance(x, list):
            return all(on_grid(v) for v in x)
        return True
    return evs if on_grid(evs) else None


# ----------------------------------------------------------------------------- the shared pipeline
SD = "PathManager"
ACTIONS = ["MCTick", "MCReport", "MCIngest", "MCSend", "MCAdvance"]


def _cfgfile(c, name, text):
    import os
    p = os.path.join(c.work, name)
    with open(p, "w") as f:
        f.write(text)
    return p


def nontrivial(actions):
    """a history is non-trivial if it contains at least two lookups, or a report that the worker ingests"""
    ticks = sum(1 for a in actions if a["a"] == "tick" and a.get("fetch", {}).get("k") not in (None, "na"))
    rep = any(a["a"] == "report" for a in actions)
    ing = any(a["a"] == "ingest" for a in actions)
    return ticks >= 2 or (rep and ing)


def mc_run(c, prop, name, expect=(), oracle=False, timeout=1500, **kw):
    """design-level exhaustive run.  expect: invariants that MUST be violated (oracle self-check / open finding
    reproduced at model level); anything else violated is a design-level violation of the property."""
    import os
    if os.environ.get("VERIF_PS_SKIP_MC"):      # development aid (sensitivity experiments): the model-only runs do not depend on /repo
        c.log("skipping design-level run %s (VERIF_PS_SKIP_MC)" % name)
        return None
    p = _cfgfile(c, name + ".cfg", mc_cfg(**kw))
    r = c.tlc(SD, "MC_PathSet", cfg=p, timeout=timeout, expect_violation=bool(expect), coverage=not expect)
    check_universe_printed(c, r, kw["u"])
    if expect:
        if not set(expect) & set(r.violated):
            if oracle:
                c.fail_tool("oracle self-check failed: %s does not violate %s in the model any more" % (name, "/".join(expect)))
            c.drift("model configuration %s was expected to violate %s (open finding) but TLC found no violation" % (name, "/".join(expect)))
        return r
    for inv in r.violated:
        c.violation("spec:%s" % inv, "design-level: invariant %s violated on MC_PathSet (%s); see %s" % (inv, name, r.out_path), {"tlc_out": r.out_path, "cfg": p})
    if r.ok:
        c.require_coverage(r, [a for a in ACTIONS if not (a in ("MCReport", "MCIngest") and not kw.get("report_set", (1,)))])
    return r


def gen_replay(c, prop, binp, name, policy=None, attach="vec", late=1, max_hist=None, timeout=2400, check=None, **kw):
    """generation run (one history per distinct state) -> replay on the real path set -> P-monitors + conformance"""
    import os
    kw = dict(kw)
    if os.environ.get("VERIF_PS_ONLY_RECORD"):   # development aid (seed sweeps): the generation/replay part does not depend on the seed
        c.log("skipping generation/replay %s (VERIF_PS_ONLY_RECORD)" % name)
        return {"states": 0, "replayed": 0, "steps": 0, "nontrivial": set(), "drift": 0, "ties": 0, "conform": 0, "runs": [],
                "outcomes": {}, "spec_outcomes": {}, "meta": None}
    kw["gen"] = True
    # check = list of invariants: the generation run is at the same time the exhaustive design-level run
    kw["invariants"] = list(check) if check else []
    if policy is None:
        policy = "acl" if kw["u"] == "A" else "none"
    rejected = rejected_variants(policy) if kw["u"] == "A" else []
    if kw.get("bad_set") and not rejected:
        raise ValueError("bad_set needs a policy set that rejects some object variant")
    p = _cfgfile(c, name + ".cfg", mc_cfg(late=late, policy=policy, **kw))
    r = c.tlc(SD, "MC_PathSet", cfg=p, timeout=timeout, coverage=bool(check), expect_violation=bool(check))
    if check:
        check_universe_printed(c, r, kw["u"])
        for inv in r.violated:
            c.violation("spec:%s" % inv, "design-level: invariant %s violated on MC_PathSet (%s); see %s" % (inv, name, r.out_path),
                        {"tlc_out": r.out_path, "cfg": p})
        if r.ok:
            c.require_coverage(r, [a for a in ACTIONS if not (a in ("MCReport", "MCIngest") and not kw.get("report_set", (1,)))])
    hs = c.printed_json(r, "REPLAY")
    if not hs:
        c.fail_tool("generation run %s printed no histories" % name)
    total = len(hs)
    hs = drop_prefixes(hs)
    if max_hist and len(hs) > max_hist:
        import random
        rnd = random.Random(c.seed)
        hs = rnd.sample(hs, max_hist)
    meta = harness_meta(kw["u"], cfg=kw.get("cfg"), policy=policy, late=late, attach=attach)
    inp = os.path.join(c.work, name + "_in.ndjson")
    outp = os.path.join(c.work, name + "_out.ndjson")
    rows, exps = [meta], []
    for n_, h in enumerate(hs):
        a, e = tlc_history_to_actions(h, rejected, salt=n_)
        rows.append({"h": a})
        exps.append(e)
    from vcommon import write_ndjson
    write_ndjson(inp, rows)
    rc, so = c.sh([binp, "replay", inp, outp], timeout=3000)
    if rc != 0:
        c.fail_tool("replay harness failed rc=%s %s %s" % (rc, so[-300:], getattr(c, "last_stderr", "")[-300:]))
    mon = Monitor(meta)
    st = {"states": total, "replayed": 0, "steps": 0, "nontrivial": set(), "drift": 0, "ties": 0, "conform": 0, "runs": []}
    outcome_classes = {}
    spec_classes = {}
    with open(outp) as f:
        for line, row, e in zip(f, rows[1:], exps):
            run = json.loads(line)
            for e_ in e:
                eo = e_["out"]
                res = eo.get("res", "")
                if eo["kind"] == "send":
                    res = "path" if res["id"] != 0 else "none"
                kk = "%s:%s" % (eo["kind"], res)
                spec_classes[kk] = spec_classes.get(kk, 0) + 1
            if not run["steps"]:
                st["drift"] += 1
                c.drift("replay %s: the real path set could not be created (%s)" % (name, run.get("end")))
                continue
            st["replayed"] += 1
            st["steps"] += len(run["steps"]) - 1
            hk = hist_key(row["h"])
            if nontrivial(row["h"]):
                st["nontrivial"].add(hk)
            try:
                annotate_consumed(run, mon.cap)
                for s_ in run["steps"]:
                    kk = s_["a"]["a"] + ":" + str(s_["o"].get("k", ""))
                    outcome_classes[kk] = outcome_classes.get(kk, 0) + 1
                found = mon.run(run, {prop})
            except Exception as ex:      # a record the code under test left in an unexpected shape: observation, not a tool error
                st["drift"] += 1
                c.drift("replay %s [%s]: recorded run cannot be evaluated (%s: %s)" % (name, hk, type(ex).__name__, ex))
                continue
            for v in found:
                c.violation(v["key"], v["what"] + " [history %s, step %d, universe %s, policy %s]" % (hk, v["step"], kw["u"], policy),
                            {"meta": meta, "h": row["h"], "step": v["step"], "real": run["steps"][v["step"]]})
            try:
                mis, ties = conformance(run, e, swap_thr=meta["cfg"]["swap_thr_milli"] * 10)
            except Exception as ex:
                mis, ties = {"step": -1, "field": "unreadable record (%s: %s)" % (type(ex).__name__, ex), "spec": None, "real": None}, 0
            st["ties"] += ties
            if mis:
                st["drift"] += 1
                c.drift("replay %s [%s]: step %d field %s: spec %s real %s" % (name, hk, mis["step"], mis["field"],
                        json.dumps(mis["spec"])[:200], json.dumps(mis["real"])[:200]))
            elif not ties:
                st["conform"] += 1
            st["runs"].append(run)
    st["outcomes"] = outcome_classes
    st["spec_outcomes"] = spec_classes
    st["meta"] = meta
    if hs:
        mid = rows[1 + len(hs) // 2]["h"]
        c.sample({"replayed_history": hist_key(mid), "universe": kw["u"], "policy": policy})
    return st


def record_validate(c, prop, binp, name, u, cfg=None, policy=None, attach="vec", late=1, runs=10, steps=200, salt=0,
                    issues=None, exp_choices=None, burst=3, p_variant=0, fix_expiry=True, fix_fifo=True, validate=True):
    """seeded worker-faithful random histories on the real path set -> P-monitors (Python, on real outputs) and
    TLC trace validation against PathSet (Trace_PathSet)."""
    import os
    if policy is None:
        policy = "acl" if u in ("A", "W") else "none"
    extra = {"runs": runs, "steps": steps, "salt": salt, "burst": burst, "p_variant": p_variant}
    if exp_choices:
        extra["exp_choices"] = list(exp_choices)
    meta = harness_meta(u, cfg=cfg, policy=policy, late=late, attach=attach, extra=extra)
    if issues is not None:
        meta["issues"] = [i for i in meta["issues"] if i["id"] in issues]
    mp = os.path.join(c.work, name + "_meta.json")
    with open(mp, "w") as f:
        json.dump(meta, f)
    outp = os.path.join(c.work, name + "_runs.ndjson")
    rc, so = c.sh([binp, "record", mp, outp], timeout=3000)
    if rc != 0:
        c.fail_tool("record harness failed rc=%s %s %s" % (rc, so[-300:], getattr(c, "last_stderr", "")[-300:]))
    mon = Monitor(meta)
    st = {"runs": 0, "events": 0, "accepted_runs": 0, "nontrivial": 0, "rejected": 0, "outcomes": {}, "actions": {}}
    allruns = []
    for line in open(outp):
        run = json.loads(line)
        if not run["steps"]:
            c.drift("record %s: the real path set could not be created (%s)" % (name, run.get("end")))
            continue
        st["runs"] += 1
        st["events"] += len(run["steps"]) - 1
        acts = [s_["a"] for s_ in run["steps"][1:]]
        for a_ in acts:
            st["actions"][a_["a"]] = st["actions"].get(a_["a"], 0) + 1
        if nontrivial(acts):
            st["nontrivial"] += 1
        try:
            annotate_consumed(run, mon.cap)
            for s_ in run["steps"]:
                kk = s_["a"]["a"] + ":" + str(s_["o"].get("k", ""))
                st["outcomes"][kk] = st["outcomes"].get(kk, 0) + 1
            found = mon.run(run, {prop})
        except Exception as ex:
            c.drift("record %s: run %s cannot be evaluated (%s: %s)" % (name, run.get("run"), type(ex).__name__, ex))
            continue
        for v in found:
            c.violation(v["key"], v["what"] + " [recorded run %d of %s, step %d, seed %d]" % (run["run"], name, v["step"], c.seed),
                        {"meta": meta, "h": acts[:v["step"]], "step": v["step"], "real": run["steps"][v["step"]]})
        allruns.append(run)
    if not validate:
        return st
    return validate_runs(c, name, meta, allruns, st, fix_expiry=fix_expiry, fix_fifo=fix_fifo)


def validate_runs(c, name, meta, allruns, st, fix_expiry=True, fix_fifo=True):
    """TLC validates recorded executions; a rejected run is drift, it is taken out and the rest re-validated"""
    import os
    mon = Monitor(meta)
    tm = trace_meta(meta)
    cfgp = _cfgfile(c, name + "_trace.cfg", trace_cfg(meta, fix_expiry=fix_expiry, fix_fifo=fix_fifo))
    evruns = []
    for run in allruns:
        try:
            ev = run_to_events(run, set(mon.allowed), mon.rej)
        except Exception as ex:
            c.drift("trace %s: run %s cannot be converted into events (%s: %s)" % (name, run.get("run"), type(ex).__name__, ex))
            continue
        if ev is not None and len(ev) > 1:
            evruns.append((run["run"], ev))
    for attempt in range(6):
        if not evruns:
            break
        tp = os.path.join(c.work, "%s_trace%d.ndjson" % (name, attempt))
        from vcommon import write_ndjson
        rows = [tm]
        starts = []
        for rid, ev in evruns:
            starts.append((len(rows) + 1, rid))
            rows += ev
        write_ndjson(tp, rows)
        r = c.tlc(SD, "Trace_PathSet", cfg=cfgp, mode="trace", env={"TRACE": tp}, timeout=3000, expect_violation=True)
        if r.ok and not r.postcondition_failed and not r.violated:
            st["accepted_runs"] += len(evruns)
            break
        txt = open(r.out_path).read()
        import re
        if r.violated:
            # a P-invariant evaluated by TLC on the (so far accepted) recorded execution of the real code
            ls = re.findall(r"^/\\ l = (\d+)", txt, re.M)
            line_no = int(ls[-1]) - 1 if ls else starts[0][0]
            bad = max((s_ for s_ in starts if s_[0] <= line_no), default=starts[0])
            for inv in r.violated:
                key = TRACE_INV_KEYS.get(inv)
                if key and key[0] == getattr(c, "id", None):
                    c.violation(key[1].replace("<policy>", meta["policy"]),
                                "TLC: invariant %s violated on recorded run %d of %s (event line %d, see %s)" % (inv, bad[1], name, line_no, r.out_path),
                                {"trace": tp, "tlc_out": r.out_path, "line": line_no})
                elif not key:
                    c.drift("trace %s: structural invariant %s of the I-spec violated on recorded run %d (see %s)" % (name, inv, bad[1], r.out_path))
        else:
            m = re.search(r'"first unmatched line", (\d+)', txt)
            if not m:
                c.drift("trace %s not accepted and no unmatched line reported (see %s)" % (name, r.out_path))
                break
            line_no = int(m.group(1))
            bad = max((s_ for s_ in starts if s_[0] <= line_no), default=starts[0])
            um = [l for l in txt.splitlines() if l.startswith('<<"UNMATCHED"')]
            c.drift("trace %s: run %d not accepted by Trace_PathSet at event line %d: %s" % (name, bad[1], line_no, (um[0] if um else "")[:300]))
        st["rejected"] += 1
        idx = [k for k, s_ in enumerate(starts) if s_ == bad][0]
        st["accepted_runs"] += idx      # the runs before the rejected one were matched completely
        evruns = evruns[idx + 1:]
    return st


# ----------------------------------------------------------------------------- --replay FILE, binding self-test
def replay_one(c, prop, binp):
    """bin/check Cxx --replay FILE: re-run one stored counterexample on the real path set, show every step."""
    import os
    from vcommon import write_ndjson
    obj = json.load(open(c.replay))
    rp = obj.get("replay") or {}
    if "h" not in rp or "meta" not in rp:
        print("replay file carries no history (design-level finding, see its 'replay' field):", json.dumps(rp)[:2000])
        return
    inp = os.path.join(c.work, "one_in.ndjson")
    outp = os.path.join(c.work, "one_out.ndjson")
    write_ndjson(inp, [rp["meta"], {"h": rp["h"]}])
    rc, so = c.sh([binp, "replay", inp, outp])
    if rc != 0:
        c.fail_tool("replay harness failed rc=%s" % rc)
    run = json.loads(open(outp).read().splitlines()[0])
    mon = Monitor(rp["meta"])
    annotate_consumed(run, mon.cap)
    for k, st in enumerate(run["steps"]):
        print("step %d %s -> %s\n   real state: %s" % (k, act_key(st["a"]) if st["a"]["a"] != "init" else "init", json.dumps(st["o"]), json.dumps(st["s"])))
    for v in mon.run(run, {prop}):
        c.violation(v["key"], v["what"] + " [history %s, step %d]" % (hist_key(rp["h"]), v["step"]), rp)
    c.cov["replayed"] = 1
    c.cov["evaluations"] = len(run["steps"]) - 1
    c.cov["distinct_nontrivial"] = 1 if nontrivial(rp["h"]) else 0
    c.sample({"replayed_history": hist_key(rp["h"])})


def binding_selftest(c, binp):
    """S6: a recorded execution is accepted by Trace_PathSet; corrupting one logged field, or dropping one event,
    makes TLC reject it; a harness-side adapter mutant that violates the property is reported by the P-monitors."""
    import os
    from vcommon import write_ndjson
    meta = harness_meta("A", policy="acl", extra={"runs": 3, "steps": 80, "salt": 99, "burst": 2, "p_variant": 0})
    mp = os.path.join(c.work, "self_meta.json")
    json.dump(meta, open(mp, "w"))
    outp = os.path.join(c.work, "self_runs.ndjson")
    rc, so = c.sh([binp, "record", mp, outp])
    if rc != 0:
        c.fail_tool("binding self-test: record failed")
    runs = [r_ for r_ in (json.loads(l) for l in open(outp)) if r_["steps"]]
    if not runs:
        c.drift("binding self-test skipped: the real path set could not be created")
        return
    mon = Monitor(meta)
    rows = [trace_meta(meta)]
    for run in runs:
        ev = run_to_events(run, set(mon.allowed), mon.rej)
        if ev:
            rows += ev
    ticks = [i for i, e in enumerate(rows) if e.get("ev") == "tick" and e["res"] == "ok" and e["s"]["cache"]]
    if not ticks:
        c.drift("binding self-test skipped: no successful lookup in the recorded executions")
        return
    i = ticks[len(ticks) // 2]
    variants = {"orig": rows}
    cor = [json.loads(json.dumps(e)) for e in rows]
    cor[i]["s"]["nr"] += 1                       # the real object would have scheduled its next lookup one tick later
    variants["corrupt-field"] = cor
    variants["drop-event"] = rows[:i] + rows[i + 1:]
    cfgp = _cfgfile(c, "self_trace.cfg", trace_cfg(meta))
    for name, ls in variants.items():
        pth = os.path.join(c.work, "self_%s.ndjson" % name)
        write_ndjson(pth, ls)
        r = c.tlc(SD, "Trace_PathSet", cfg=cfgp, mode="trace", env={"TRACE": pth}, timeout=900, expect_violation=True)
        accepted = r.ok and not r.postcondition_failed and not r.violated
        if name == "orig" and not accepted:
            # the code under test does not follow the I-spec (any more): conformance drift, the self-test cannot be run
            c.drift("binding self-test skipped: a recorded execution is not accepted by Trace_PathSet (see %s)" % r.out_path)
            return
        if name != "orig" and accepted:
            c.fail_tool("binding self-test: trace variant '%s' was accepted - the trace spec does not constrain the code" % name)
    # adapter mutant: pretend the slot kept a path the policy rejects / an expired path -> the monitors must object
    probe = json.loads(json.dumps(runs[0]))
    hit = False
    for st in probe["steps"]:
        if st["s"] and st["s"]["active"]:
            st["s"]["active"] = {"id": 4, "exp": st["s"]["now"] - 1}
            hit = True
    keys = {v["key"].split(":")[0] for v in mon.run(probe, {"C05", "C06"})} if hit else set()
    if not hit or not {"PolicyHonoured", "LiveAtHandout"} <= keys:
        c.fail_tool("binding self-test: adapter mutant (forbidden, expired path in the slot) not reported by the P-monitors: %s" % keys)
    c.cov["binding_selftest"] = "orig accepted; corrupt-field and drop-event rejected; adapter mutant reported"


# ----------------------------------------------------------------------------- real-time smoke run
def realtime_smoke(c, prop, binp, life=14, total_ms=24000):
    """Real MultiPathManager, real worker task, real clock, public API only (cached_path / PathManager::path_wait):
    first lookup returns path 1 (lifetime `life` s, threshold 3 s) and the policy-violating path 4, later lookups fail
    (default backoff: 90 s).  Judged only >= 5 s away from every instant the code reads from the clock (S4)."""
    import os
    meta = harness_meta("A", extra={"life": life, "total_ms": total_ms})
    mp = os.path.join(c.work, "rt_meta.json")
    with open(mp, "w") as f:
        json.dump(meta, f)
    outp = os.path.join(c.work, "rt_out.json")
    rc, so = c.sh([binp, "realtime", mp, outp], timeout=total_ms / 1000 + 120)
    if rc != 0:
        c.fail_tool("realtime harness failed rc=%s %s" % (rc, getattr(c, "last_stderr", "")[-300:]))
    o = json.load(open(outp))
    if o.get("rejected"):
        c.drift("real-time run: MultiPathManager::new rejected the configuration: %s" % o["rejected"])
        return 0
    n = 0
    for s in o["samples"]:
        ms = s["ms"]
        if s["k"] == "path":
            n += 1
            if prop == "C05" and s["id"] != 1:
                c.violation("PolicyHonoured:real-worker", "real MultiPathManager handed out path %s (%s at %d ms); only path 1 satisfies the policy"
                            % (s["id"], s["via"], ms), {"realtime": o})
            if prop == "C06" and s.get("exp_s") is not None and s["exp_s"] * 1000 <= ms - 5000:
                c.violation("LiveAtHandout:real-worker-hands-out-expired-path",
                            "real MultiPathManager handed out path %s via %s at %.1f s, %.1f s after its expiry" % (s["id"], s["via"], ms / 1000.0, ms / 1000.0 - s["exp_s"]),
                            {"realtime": o})
        elif s["k"] == "panic":
            if prop == "C06" and ms >= life * 1000 + 5000 and "expired path" in s.get("msg", ""):
                c.violation("LiveAtHandout:real-worker-hands-out-expired-path",
                            "real MultiPathManager: %s hit '%s' at %.1f s (path expired at %d s)" % (s["via"], s.get("msg"), ms / 1000.0, life), {"realtime": o})
            elif prop == "C06" and "expired path" not in s.get("msg", ""):
                c.violation("Panic:real-worker:%s" % s.get("msg", "")[:40], "real MultiPathManager: %s panicked: %s" % (s["via"], s.get("msg")), {"realtime": o})
        elif s["k"] == "none":
            if prop == "C06" and 5000 <= ms <= (life - 3 - 5) * 1000:
                c.violation("NoStarvation:real-worker", "real MultiPathManager returned no path via %s at %.1f s although path 1 is valid until %d s" % (s["via"], ms / 1000.0, life - 3),
                            {"realtime": o})
    c.cov["realtime_samples"] = len(o["samples"])
    c.cov["realtime_lookups_ms"] = o.get("lookups_ms")
    return len(o["samples"])


# ----------------------------------------------------------------------------- directed histories (P-monitors only)
def directed_replay(c, prop, binp, name, meta, histories):
    """hand-written histories on the real path set; no spec expectation is attached, only the P-monitors judge"""
    import os
    from vcommon import write_ndjson
    inp = os.path.join(c.work, name + "_in.ndjson")
    outp = os.path.join(c.work, name + "_out.ndjson")
    write_ndjson(inp, [meta] + [{"h": h} for h in histories])
    rc, so = c.sh([binp, "replay", inp, outp], timeout=3000)
    if rc != 0:
        c.fail_tool("replay harness failed rc=%s %s" % (rc, getattr(c, "last_stderr", "")[-300:]))
    mon = Monitor(meta)
    n = 0
    for line, h in zip(open(outp), histories):
        run = json.loads(line)
        if not run["steps"]:
            c.drift("directed %s: the real path set could not be created (%s)" % (name, run.get("end")))
            continue
        n += len(run["steps"]) - 1
        try:
            annotate_consumed(run, mon.cap)
            found = mon.run(run, {prop})
        except Exception as ex:
            c.drift("directed %s: run cannot be evaluated (%s: %s)" % (name, type(ex).__name__, ex))
            continue
        for v in found:
            c.violation(v["key"], v["what"] + " [directed history %s, step %d, universe %s, policy %s]" % (hist_key(h), v["step"], meta["u"], meta["policy"]),
                        {"meta": meta, "h": h, "step": v["step"], "real": run["steps"][v["step"]]})
    return n


def wide_histories():
    """lookups with 8-16 paths of universe W, most of them rejected by the ACL; conforming ones none / first / last / middle"""
    bad = [i for i in range(1, 17) if i not in (1, 9, 16)]
    def fetch(ids, exp):
        return {"a": "tick", "fetch": {"k": "ok", "paths": [{"id": i, "exp": exp, "v": "ok"} for i in ids]}}
    H = []
    for ids in (bad[:8], bad, [1] + bad[:9], bad[:9] + [16], bad[:6] + [9] + bad[6:12], bad[:5] + [1], bad[:6] + [1], bad[:7] + [9, 16],
                list(reversed(bad)) + [1, 9, 16], [16, 9, 1] + bad):
        H.append([fetch(ids, 9), {"a": "send"}, {"a": "adv", "d": 4}, fetch(list(reversed(ids)), 14), {"a": "send"}])
    return H


def backoff_histories(n_fail=8):
    """one successful lookup with a long-lived path, then n consecutive failing lookups, the clock following the REAL
    object's next maintenance instant (action "sleep"); a send now and then keeps the pair in use"""
    h = [{"a": "tick", "fetch": {"k": "ok", "paths": [{"id": 1, "exp": 400, "v": "ok"}]}}, {"a": "send"}]
    for k in range(n_fail):
        h += [{"a": "sleep"}, {"a": "send"}, {"a": "tick", "fetch": {"k": "err" if k % 3 else "empty"}}]
    h2 = [{"a": "tick", "fetch": {"k": "err"}}]
    for k in range(n_fail):
        h2 += [{"a": "sleep"}, {"a": "send"}, {"a": "tick", "fetch": {"k": "err"}}]
    return [h, h2]
