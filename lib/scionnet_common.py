"""Shared machinery of the ScionNet checks (C01, C04, C13).

Pipeline (DESIGN.md 6.1, 7/C01 C04 C13):
  gen/topologies.py          topology family (instance data only)               -> work/<id>/topos.ndjson
  TLC Gen_ScionNet           design theorems on every instance + reference output -> INST / ATK lines
  harness scionnet replay    the same instances on the real code (P-monitors)    -> results.ndjson
  harness scionnet record    larger random topologies, recorded executions        -> events.ndjson
  TLC Trace_ScionNet         every event evaluated against the specification      -> TV lines
"""
import collections
import json
import os
import sys

import vcommon
from vcommon import write_ndjson

sys.path.insert(0, os.path.join(vcommon.VERIF, "gen"))
import topologies  # noqa: E402

SD = "ScionNet"
# every step has a generous budget (measured: <= 300 s under load 100); a timeout is a tool error, never a violation
TMO = 7200

GEN_CFG = """SPECIFICATION Spec
CONSTANTS
  K = {k}
  ATTACKS = {attacks}
  ATK_LEVEL = {level}
  PLANS = {plans}
  PEER_BETA_NEXT = {peer_next}
INVARIANTS Check TableCheck
"""

MC_CFG = """SPECIFICATION Spec
CONSTANTS
  ATK_LEVEL = {level}
  PEER_BETA_NEXT = TRUE
  FAMS = {fams}
INVARIANTS AllRefPathsDeliver DeliveredWhereAddressed RouterMonotone TamperDetectedAtOwner NoSpliceInv ValleyFreeInv LinksExistAndUp
"""

SHAPES_MC = ("appendixB", "shortcut-Y", "peering-H")
SHAPES_LIGHT = ("diamond", "shortcut-Y", "appendixB", "peering-H", "two-isd-bridge", "inverted-core", "deep-peer", "core-peer")


def family(c, for_attacks=False):
    """Topology family of the tier (DESIGN.md 6.1): quick T(<=3) + named shapes; thorough adds T(4), parallel links."""
    t = topologies.enumerate_family(2) + topologies.enumerate_family(3)
    shapes = topologies.shapes()
    if for_attacks and c.tier != "thorough":
        shapes = [s for s in shapes if s["name"] in SHAPES_LIGHT]
    t += shapes
    if c.tier == "thorough":
        t3 = topologies.enumerate_family(3)
        t += topologies.with_parallel(t3, 3)
        t4 = topologies.enumerate_family(4)
        if for_attacks:
            t4 = t4[::6]
        t += t4
    return t


def _unq(line, pre):
    s = line[len(pre):-3].replace('\\"', '"').replace("\\\\", "\\")
    return json.loads(s)


def generate(c, topos, attacks=False, level=1, name="gen", peer_next=True, expect_violation=False, timeout=TMO, plans=False):
    """Run Gen_ScionNet on `topos`; returns (instances sorted by index with their attacks, TlcResult, failed theorems)."""
    tp = os.path.join(c.work, name + "_topos.ndjson")
    write_ndjson(tp, topos)
    workers = int(os.environ.get("VERIF_TLC_WORKERS", 12 if c.tier == "thorough" else 8))
    cfg = os.path.join(c.work, name + ".cfg")
    with open(cfg, "w") as f:
        f.write(GEN_CFG.format(k=max(1, workers), attacks="TRUE" if attacks else "FALSE", level=level,
                               peer_next="TRUE" if peer_next else "FALSE", plans="TRUE" if plans else "FALSE"))
    r = c.tlc(SD, "Gen_ScionNet", cfg=cfg, env={"TOPOS": tp}, timeout=timeout, coverage=False,
              expect_violation=expect_violation, keep_printed=False)
    insts = {}
    atks = collections.defaultdict(list)
    plan_rows = {}
    table = []
    failed = []
    with open(r.out_path, errors="replace") as f:
        for line in f:
            line = line.rstrip("\n")
            if line.startswith('<<"INST", "') and line.endswith('">>'):
                o = _unq(line, '<<"INST", "')
                insts[o["inst"]] = o
            elif line.startswith('<<"ATK", "') and line.endswith('">>'):
                o = _unq(line, '<<"ATK", "')
                atks[o["inst"]].append(o)
            elif line.startswith('<<"PLANS", "') and line.endswith('">>'):
                o = _unq(line, '<<"PLANS", "')
                plan_rows[o["inst"]] = o["plans"]
            elif line.startswith('<<"PLANTABLE", "') and line.endswith('">>'):
                table = _unq(line, '<<"PLANTABLE", "')
            elif line.startswith('<<"THEOREM-FAILED"'):
                failed.append(line)
    out = []
    for n, i in enumerate(sorted(insts)):
        o = insts[i]
        o["attacks"] = atks.get(i, [])
        o["plans"] = plan_rows.get(i, [])
        o["plantable"] = table if n == 0 else []
        out.append(o)
    return out, r, failed


def model_check(c, topos, fams=(), level=1, name="mc", timeout=TMO):
    """Exhaustive exploration of the reference Router state machine (MC_ScionNet) over the packets of `fams`
    (all attack families when empty) of every instance."""
    tp = os.path.join(c.work, name + "_topos.ndjson")
    write_ndjson(tp, topos)
    cfg = os.path.join(c.work, name + ".cfg")
    with open(cfg, "w") as f:
        f.write(MC_CFG.format(level=level, fams="{" + ", ".join('"%s"' % x for x in fams) + "}"))
    # -coverage slows the recursive operators of this spec by an order of magnitude; action coverage is
    # established from the printed walks instead (require_walk_coverage)
    r = c.tlc(SD, "MC_ScionNet", cfg=cfg, env={"TOPOS": tp}, timeout=timeout, coverage=False, keep_printed=False)
    for inv in r.violated:
        c.violation("spec:%s" % inv, "design-level: invariant %s of the reference router violated (MC_ScionNet, %s)" % (inv, r.out_path),
                    {"tlc_out": r.out_path})
    if not r.ok and not r.violated:
        c.fail_tool("MC_ScionNet did not complete (see %s)" % r.out_path)
    return r


def require_walk_coverage(c, walks, need):
    """S5 vacuity control on the router rules: every processing kind must occur in the reference walks."""
    seen = collections.Counter()
    for w in walks:
        for a, b in zip(w, w[1:]):
            if a["k"] == "fwd":
                if b["ci"] == a["ci"] + 1 and b["ch"] == a["ch"] + 2:
                    seen["crossover"] += 1
                elif b["ci"] == a["ci"] + 1:
                    seen["peer"] += 1
                else:
                    seen["forward"] += 1
        if w:
            seen[w[-1]["k"] + (":" + w[-1]["class"] if w[-1]["class"] else "")] += 1
    missing = [n for n in need if seen[n] == 0]
    if missing:
        c.fail_tool("vacuous model: router rules never exercised: %s (seen %s)" % (missing, dict(seen)))
    return dict(seen)


def ref_class(p):
    """plain | onpath | shortcut | peering, from the reference pieces (same rule as the harness's path_class)."""
    if any(q["peer"] for q in p["pieces"]):
        return "peering"
    def top_unused(q):
        h = q["hops"][0] if q["cd"] else q["hops"][-1]
        return h["in"] != 0
    if len(p["pieces"]) == 1 and top_unused(p["pieces"][0]):
        return "onpath"
    if len(p["pieces"]) == 2 and (top_unused(p["pieces"][0]) or top_unused(p["pieces"][1])):
        return "shortcut"
    return "plain"


def require_reference_classes(c, insts, need=("plain", "onpath", "shortcut", "peering")):
    """Vacuity guard on the GENERATOR: the reference must contain paths of every structural class."""
    seen = collections.Counter(ref_class(p) for i in insts for pr in i["pairs"] for p in pr["paths"])
    missing = [n for n in need if seen[n] == 0]
    if missing:
        c.fail_tool("vacuous reference: no reference path of class %s" % missing)
    return dict(seen)


def design_theorems(c, r, failed, ninst, got):
    """The design-level theorems are part of every property's TLC run; a failure is a defect of the DESIGN
    (or of the specification) and is reported as a violation of the spec, never silently ignored."""
    for line in failed[:5]:
        c.violation("spec:theorem", "design-level theorem failed on the reference model: %s (TLC output %s)" % (line[:200], r.out_path),
                    {"tlc_out": r.out_path, "line": line})
    if r.violated and not failed:
        c.fail_tool("Gen_ScionNet stopped with %s but named no theorem (see %s)" % (r.violated, r.out_path))
    if not failed and got != ninst:
        c.fail_tool("Gen_ScionNet printed %d of %d instances (see %s)" % (got, ninst, r.out_path))


def oracle_selfcheck(c):
    """Non-vacuity of the reference: with the beacon rule the pinned tree implements (peer hop MACs under
    beta_i) the theorem AllRefPathsRoundTrip must FAIL on a peering topology."""
    t = [s for s in topologies.shapes() if s["name"] == "appendixB"]
    _, r, failed = generate(c, t, name="selfcheck", peer_next=False, expect_violation=True, timeout=TMO)
    if not any("AllRefPathsRoundTrip" in f for f in failed):
        c.fail_tool("oracle self-check failed: the broken peer-MAC rule no longer violates AllRefPathsRoundTrip (see %s)" % r.out_path)


def replay(c, binp, insts, parts, name="replay"):
    inp = os.path.join(c.work, name + "_in.ndjson")
    outp = os.path.join(c.work, name + "_out.ndjson")
    write_ndjson(inp, insts)
    rc, so = c.sh([binp, "replay", inp, outp], env={"SN_PARTS": parts}, timeout=TMO)
    if rc != 0:
        c.fail_tool("scionnet replay failed rc=%s %s %s" % (rc, so[-300:], getattr(c, "last_stderr", "")[-300:]))
    res = vcommon.read_ndjson(outp)
    if len(res) != len(insts):
        c.fail_tool("scionnet replay returned %d results for %d instances" % (len(res), len(insts)))
    return res


def report(c, results, prop, totals=None):
    """Turn the harness's P-monitor records into VIOLATION / KNOWN-FINDING lines, I-spec mismatches into DRIFT."""
    totals = totals if totals is not None else collections.Counter()
    for r in results:
        if r.get("tool_error"):
            # the code under test refused/aborted on an instance the specification calls valid: an observation
            c.drift("%s: %s (instance skipped)" % (r.get("name"), r["tool_error"]))
            continue
        for k, v in r.get("counts", {}).items():
            totals[k] += v
        for p in r.get("pv", []):
            if p["prop"] != prop:
                continue
            c.violation(p["key"], "%s [instance %s]" % (p["what"], r["name"]), {"instance": r["name"], "inst": r["inst"], **p["detail"]},
                        group=":".join(p["key"].split(":")[:2]))
        for d in r.get("drift", []):
            if d["prop"] == prop:
                c.drift("%s: %s" % (r["name"], d["what"][:300]))
    return totals


def record_and_validate(c, binp, prop, ntopo, nmin, nmax, pairs, paths, inject, name="trace"):
    """Seeded random larger topologies -> recorded execution of the real code -> Trace_ScionNet."""
    # every second topology is "rich": guaranteed peering between non-core ASes and a parallel link
    rng_topos = [topologies.random_topology(topologies.Rng(c.seed * 1000 + i), "R%d-%03d" % (c.seed, i), nmin, nmax, rich=(i % 2 == 0))
                 for i in range(ntopo)]
    npeer = sum(1 for t in rng_topos if any(l["t"] == "peer" for l in t["links"]))
    npar = sum(1 for t in rng_topos if len({(l["a"], l["b"], l["t"]) for l in t["links"]}) < len(t["links"]))
    if npeer == 0 or npar == 0:
        c.fail_tool("vacuous trace tier: random topologies without peering (%d) or parallel links (%d)" % (npeer, npar))
    c.cov.setdefault("trace_topologies", {}).update({"with_peering": npeer, "with_parallel_links": npar, "total": ntopo})
    tp = os.path.join(c.work, name + "_topos.ndjson")
    ev = os.path.join(c.work, name + "_events.ndjson")
    rs = os.path.join(c.work, name + "_results.json")
    write_ndjson(tp, rng_topos)
    rc, so = c.sh([binp, "record", tp, ev, rs], env={"SN_PAIRS": pairs, "SN_PATHS": paths, "SN_INJECT": inject}, timeout=TMO)
    if rc != 0:
        c.fail_tool("scionnet record failed rc=%s %s" % (rc, so[-300:]))
    res = json.load(open(rs))
    for te in res["tool_errors"][:5]:
        c.drift("scionnet record: %s" % te)
    r = c.tlc(SD, "Trace_ScionNet", mode="trace", env={"TRACE": ev}, timeout=TMO, keep_printed=False)
    tv = []
    summary = None
    rejected = None
    with open(r.out_path, errors="replace") as f:
        for line in f:
            line = line.rstrip("\n")
            if line.startswith('<<"TV", '):
                # <<"TV", "P", "tag", line, "json">>
                try:
                    head, js = line[2:-2].split(', "{', 1)
                    kind, tag, ln = [x.strip().strip('"') for x in head.split(",")[1:4]]
                    detail = json.loads(("{" + js).rstrip('"').replace('\\"', '"').replace("\\\\", "\\"))
                    tv.append((kind, tag, int(ln), detail))
                except Exception:
                    tv.append(("I", "unparsed", 0, {"line": line[:300]}))
            elif line.startswith('<<"TV-SUMMARY"'):
                summary = line
            elif line.startswith('<<"TRACE-REJECTED"') or line.startswith('<<"UNMATCHED"'):
                rejected = (rejected or "") + line[:300]
    accepted = r.ok and rejected is None and summary is not None
    if not accepted:
        c.drift("trace not fully consumed by Trace_ScionNet (%s): %s" % (r.out_path, rejected or r.error_lines[:2]))
    return res, tv, accepted, r


def tv_report(c, tv, prop):
    """P-kind facts of the trace validation belong to the property that owns the tag; I-kind are drift."""
    owners = {
        "beacon-regular-mac": "C01", "beacon-peer-mac": "C01",
        "offered-not-reference": "C04",
        "delivered-elsewhere": "C13", "forward-bad-link": "C13",
    }
    n = 0
    for kind, tag, ln, d in tv:
        fam = d.get("fam", "")
        cls = d.get("cls", "")
        if tag == "honest-not-delivered":
            owner = "C01"
            key = "trace:undeliverable:%s" % cls
        elif tag == "accept-mismatch":
            honest = fam in ("honest", "honest-rev")
            owner = "C01" if honest else "C13"
            key = "trace:undeliverable:%s" % cls if honest else "trace:accept-mismatch:%s/%s" % (fam, cls)
        else:
            owner = owners.get(tag)
            key = "trace:%s" % tag
        if kind == "P" and owner == prop:
            n += 1
            c.violation(key, "trace validation (event %d): %s %s" % (ln, tag, json.dumps(d)[:400]), {"event": ln, "detail": d}, group=key)
        elif kind == "I" and (prop == "C13" or tag in ("topology-invalid", "segment-not-a-beaconed-walk")):
            c.drift("trace event %d: %s %s" % (ln, tag, json.dumps(d)[:300]))
    return n


def binding_selftest(c, binp, insts, events_path):
    """S6: the binding is demonstrated, not assumed.
    (ii) a corrupted recorded field and (iii) a dropped event must be noticed by Trace_ScionNet;
    (iv) a deliberately wrong harness adapter (link state never applied) must be reported by the P-monitors.
    Failures of the machinery itself are tool errors; if the code under test left no usable event the step is skipped."""
    evs = vcommon.read_ndjson(events_path)
    idx = next((i for i, e in enumerate(evs) if e.get("ev") == "step" and e.get("k") == "fwd"), None)
    if idx is None:
        c.drift("binding self-test skipped: the recorded execution contains no forwarded step")
    else:
        def tv_count(rows, name):
            pth = os.path.join(c.work, name + ".ndjson")
            write_ndjson(pth, rows)
            r = c.tlc(SD, "Trace_ScionNet", mode="trace", env={"TRACE": pth}, timeout=TMO, keep_printed=False)
            return sum(1 for l in open(r.out_path, errors="replace") if l.startswith('<<"TV", "I"'))
        base = tv_count(evs, "selftest_base")
        bad = [dict(e) for e in evs]
        bad[idx]["nas"] = bad[idx]["nas"] + 1
        if tv_count(bad, "selftest_corrupt") <= base:
            c.fail_tool("binding self-test: a corrupted step event (next AS changed) was not noticed by Trace_ScionNet")
        if tv_count(evs[:idx] + evs[idx + 1:], "selftest_drop") <= base:
            c.fail_tool("binding self-test: a dropped step event was not noticed by Trace_ScionNet")
    sub = [i for i in insts if any(a["fam"] == "linkdown" for a in i["attacks"])][:3]
    if sub:
        inp = os.path.join(c.work, "selftest_mutant_in.ndjson")
        outp = os.path.join(c.work, "selftest_mutant_out.ndjson")
        write_ndjson(inp, sub)
        rc, so = c.sh([binp, "replay", inp, outp], env={"SN_PARTS": "c13", "SN_MUTANT": "nolinkstate"}, timeout=TMO)
        keys = {p["key"] for r in vcommon.read_ndjson(outp) for p in r.get("pv", [])} if rc == 0 else set()
        if not any(k.startswith("forward-down-link:linkdown") for k in keys):
            c.fail_tool("binding self-test: the mutant adapter (link state never applied) was not reported by the P-monitors")
    c.cov["binding_selftest"] = "corrupt+drop+mutant-adapter ok"


def replay_one(c, binp, prop, parts, attacks):
    """bin/check <ID> --replay FILE: re-run the stored counterexample's instance only and print the reference next to
    what the real code did (the harness record of every P-monitor that fires on that instance)."""
    d = json.load(open(c.replay))
    rep = d.get("replay") or {}
    name = rep.get("instance") or rep.get("topo") or (rep.get("ctx") or {}).get("topo")
    if d.get("key", "").startswith("trace:") or not name:
        c.log("stored counterexample comes from the trace tier (seed %s): re-running the recorded executions" % d.get("seed"))
        return False
    import topologies as tp
    allt = tp.enumerate_family(2) + tp.enumerate_family(3) + tp.shapes() + tp.with_parallel(tp.enumerate_family(3), 3) + tp.enumerate_family(4)
    topos = [t for t in allt if t["name"] == name]
    if not topos:
        c.fail_tool("instance %s of the stored counterexample is not in the topology families" % name)
    insts, r, failed = generate(c, topos, attacks=attacks, level=2 if d.get("tier") == "thorough" else 1, name="replay_gen")
    design_theorems(c, r, failed, 1, len(insts))
    res = replay(c, binp, insts, parts, name="replay_one")
    report(c, res, prop)
    for rr in res:
        for p in rr.get("pv", []):
            if p["prop"] == prop:
                print("REPLAY %s key=%s\n  %s\n  detail=%s" % (name, p["key"], p["what"], json.dumps(p["detail"])[:1500]), flush=True)
    c.cov["evaluations"] = sum(rr.get("counts", {}).get("pairs", 0) + rr.get("counts", {}).get("c13:packets", 0) for rr in res) or 1
    c.cov["distinct_nontrivial"] = 2
    c.cov["rule"] = "single stored counterexample replayed (--replay)"
    c.sample({"replayed_instance": name, "stored_key": d.get("key")})
    return True
