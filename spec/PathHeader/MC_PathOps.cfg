SPECIFICATION Spec
CONSTANTS
  CHMOD = 64
  U32CAP = 100000
  FIXREV = TRUE
  FIXWRAP = TRUE
  FIXHOPS = TRUE
  FIXOHEXP = TRUE
  FIXOHFLG = TRUE
  FIXOHSEC = TRUE
  XorAcc <- SymXor
  MAXLEN = 3
  ALLCH = FALSE
  Depth = 2
  GEN = FALSE
  FAMILY = "ptr"
INVARIANTS WFEquiv ErrIsAtomic AgreeReverse Involution Position WFReverses AgreeExpiry AgreeSegments EndsSwap Emit
