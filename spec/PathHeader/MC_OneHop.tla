------------------------------ MODULE MC_OneHop ------------------------------
(* C12 for one-hop paths: every combination of direction flag, second hop set /   *)
(* unset, timestamp far from / near the end of the epoch and hop expiry values.   *)
(* The view and the model must agree on in-place reversal; DpPath's reversal into *)
(* a standard path must carry the same info / hop contents as the view's; a       *)
(* refused reversal changes nothing; no operation may fail to produce a value.    *)
EXTENDS PathHeader, Json

CONSTANTS GEN
SymXor(acc, m) == (acc \ {m}) \cup ({m} \ acc)

VARIABLES o, last, n
vars == <<o, last, n>>

Hop(k, in, e, fl) == [id |-> k, exp |-> e, in |-> in, eg |-> 200 + k, mac |-> k, ai |-> fl, ae |-> fl]
Cells == {[inf |-> [id |-> 1, cd |-> cd, ts |-> ts, sid |-> {}], h1 |-> Hop(1, in1, e1, FALSE), h2 |-> Hop(2, in2, e2, fl2)] :
            cd \in BOOLEAN, ts \in {1000, U32CAP - 300, U32CAP - 5000}, in1 \in {0, 101}, in2 \in {0, 102},
            e1 \in {0, 255}, e2 \in {0, 5}, fl2 \in BOOLEAN}

Init == o \in Cells /\ last = [op |-> "init", ok |-> TRUE, b |-> <<>>] /\ n = 0
Reverse == /\ n < 2
           /\ LET r == OneHopReverse(o) IN o' = r.o /\ last' = [op |-> "rev", ok |-> r.ok, b |-> o]
           /\ n' = n + 1
Next == Reverse
Spec == Init /\ [][Next]_vars

ErrIsAtomic == (last.op = "rev" /\ ~last.ok) => o = last.b
\* the wrapper on the model side (DpPath) agrees with the view on Ok/Err and on the contents
StdAgree == LET v == OneHopReverse(o)  m == OneHopToStdReversed(o) IN
            /\ v.ok = m.ok
            /\ (v.ok => (m.m.segs[1].inf = v.o.inf /\ m.m.segs[1].hops = <<v.o.h1, v.o.h2>>))
\* reversal exchanges the end-point interfaces
EndsSwap == LET v == OneHopReverse(o) IN
            v.ok => (OneHopFirstEgress(v.o) = OneHopLastIngress(o) /\ OneHopLastIngress(v.o) = OneHopFirstEgress(o))
\* every query produces a value (no overflow)
ExpiryTotal == OneHopExpiry(o).ok

\* the view and the model fill the second hop field identically
SetSecondAgree == \A adv \in BOOLEAN : OneHopSetSecondView(o, 7, "k2", adv) = OneHopSetSecondModel(o, 7, "k2", adv)

Cell(q) == LET v == OneHopReverse(q) IN
  [cd |-> q.inf.cd, ts |-> q.inf.ts, in1 |-> q.h1.in, in2 |-> q.h2.in, e1 |-> q.h1.exp, e2 |-> q.h2.exp, fl2 |-> q.h2.ai,
   rev |-> [ok |-> v.ok, cd |-> v.o.inf.cd, first |-> v.o.h1.id],
   ssh |-> [exp |-> OneHopSetSecondView(q, 7, "k2", FALSE).h2.exp, in |-> 7, eg |-> 0,
            alerts |-> OneHopSetSecondView(q, 7, "k2", FALSE).h2.ai],
   exp |-> OneHopExpiry(q), fe |-> OneHopFirstEgress(q), li |-> OneHopLastIngress(q)]
Emit == (GEN /\ n = 0) => PrintT(<<"OHCELL", ToJson(Cell(o))>>)
=============================================================================
