SPECIFICATION Spec
CONSTANTS
  CHMOD = 64
  U32CAP = 100000
  FIXREV = TRUE
  FIXWRAP = TRUE
  FIXHOPS = TRUE
  FIXOHEXP = TRUE
  FIXOHFLG = TRUE
  FIXOHSEC = TRUE
  PEERIMPL = FALSE
  XorAcc <- SymXor
  MAXLEN = 2
  ALLCH = FALSE
  Depth = 3
  GEN = FALSE
  ALS = {TRUE, FALSE}
  PEERS = {FALSE}
INVARIANTS Bounded Emit
PROPERTIES ErrIsAtomicStep MonotoneStep EgressForwardStep XoverForwardStep
