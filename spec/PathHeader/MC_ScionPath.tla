---------------------------- MODULE MC_ScionPath ----------------------------
(* C12 at the ScionPath level (scion/path.rs): a control-plane path is             *)
(*   [src, dst, dp (standard-path header), meta, nh (next hop known),              *)
(*    fp, cpfp, exp (computed once at construction and STORED)]                    *)
(* try_reverse reverses the data-plane path first (an error leaves everything       *)
(* untouched), exchanges src/dst, forgets the next hop, reverses the interface and  *)
(* note lists of the metadata, drops the EPIC authenticators, recomputes the        *)
(* data-plane fingerprint, recomputes the control-plane fingerprint only if there   *)
(* is metadata, and keeps the stored expiry.                                        *)
(* Fingerprints are modelled as the injective tuple of what is hashed.              *)
EXTENDS PathHeader, Json

CONSTANTS GEN
SymXor(acc, m) == (acc \ {m}) \cup ({m} \ acc)

VARIABLES sp, last, n
vars == <<sp, last, n>>

NoFp == <<"none">>
\* metadata: [present, hasifs, ifs, hasnotes, notes, epic]  (absent parts are empty sequences)
NoMeta == [present |-> FALSE, hasifs |-> FALSE, ifs |-> <<>>, hasnotes |-> FALSE, notes |-> <<>>, epic |-> FALSE]
HopIfs(q) == [k \in 1..Len(q.hop) |-> <<q.hop[k].in, q.hop[k].eg>>]
FP(src, dst, q) == <<"dp", src, dst, HopIfs(q)>>                 \* DpPathFingerprint::from_dp_path
CPFP(src, dst, meta) ==                                          \* PathFingerprint::try_from_scion_path(..).ok()
  IF src = dst THEN <<"local", src>>
  ELSE IF ~meta.present \/ ~meta.hasifs THEN NoFp
  ELSE <<"cp", meta.ifs>>
Mk(src, dst, q, meta, nh) ==                                      \* ScionPath::new
  [src |-> src, dst |-> dst, dp |-> q, meta |-> meta, nh |-> nh,
   fp |-> FP(src, dst, q), cpfp |-> CPFP(src, dst, meta), exp |-> ViewExpiry(q)]

MetaReverse(m) == IF ~m.present THEN m                             \* PathMetadata::reverse
                  ELSE [m EXCEPT !.ifs = Rev(@), !.notes = Rev(@), !.epic = FALSE]

SPReverse(x) ==                                                    \* ScionPath::try_reverse
  LET v == ViewReverse(x.dp) IN
  IF ~v.ok THEN [ok |-> FALSE, sp |-> x]
  ELSE LET m2 == MetaReverse(x.meta) IN
       [ok |-> TRUE,
        sp |-> [src |-> x.dst, dst |-> x.src, dp |-> v.p, meta |-> m2, nh |-> FALSE,
                fp |-> FP(x.dst, x.src, v.p),
                cpfp |-> IF ~x.meta.present THEN x.cpfp ELSE CPFP(x.dst, x.src, m2),
                exp |-> x.exp]]

(* ---- cells ------------------------------------------------------------------ *)
MkHop(k) == [id |-> k, exp |-> 10 + k, in |-> 100 + k, eg |-> 200 + k, mac |-> k, ai |-> FALSE, ae |-> FALSE]
MkInf(j, cd) == [id |-> j, cd |-> cd, ts |-> 1000 * j, sid |-> {}]
Hdr(sl, ci, ch, cd) == [sl |-> sl, ci |-> ci, ch |-> ch,
                        inf |-> [j \in 1..NInf(sl) |-> MkInf(j, cd)],
                        hop |-> [k \in 1..Total(sl) |-> MkHop(k)]]
Headers == {Hdr(<<2, 0, 0>>, 0, 0, TRUE), Hdr(<<2, 0, 0>>, 0, 1, FALSE), Hdr(<<2, 3, 0>>, 1, 2, TRUE),
            Hdr(<<2, 2, 2>>, 2, 5, FALSE), Hdr(<<1, 1, 0>>, 0, 0, TRUE),
            \* not well-formed: reversal fails (pointer out of range) / is accepted with a gap
            Hdr(<<2, 3, 0>>, 0, 5, TRUE), Hdr(<<2, 2, 0>>, 3, 1, TRUE), Hdr(<<2, 0, 2>>, 0, 1, TRUE)}
Metas == {NoMeta,
          [NoMeta EXCEPT !.present = TRUE],
          [NoMeta EXCEPT !.present = TRUE, !.hasifs = TRUE, !.ifs = <<11, 12, 13, 14>>],
          [NoMeta EXCEPT !.present = TRUE, !.hasifs = TRUE, !.ifs = <<11, 12, 13, 14>>,
                         !.hasnotes = TRUE, !.notes = <<1, 2, 3>>, !.epic = TRUE]}
Cells == {Mk(src, dst, q, m, nh) : src \in {1}, dst \in {1, 2}, q \in Headers, m \in Metas, nh \in BOOLEAN}

Init == sp \in Cells /\ last = [op |-> "init", ok |-> TRUE, b |-> <<>>] /\ n = 0
Reverse == /\ n < 2
           /\ LET r == SPReverse(sp) IN sp' = r.sp /\ last' = [op |-> "rev", ok |-> r.ok, b |-> sp]
           /\ n' = n + 1
Next == Reverse
Spec == Init /\ [][Next]_vars

(* ---- P-layer ----------------------------------------------------------------- *)
SPErrIsAtomic == (last.op = "rev" /\ ~last.ok) => sp = last.b
\* the stored (cached) values of a reversed path are those a path built from the reversed parts has
Fresh(x) == Mk(x.src, x.dst, x.dp, x.meta, x.nh)
StoredIsFresh == (WFFast(sp.dp) /\ last.op # "init" /\ last.ok) => sp = Fresh(sp)
\* reversal twice gives the path back, except for what is documented as lost (next hop, EPIC)
Forget(x) == [x EXCEPT !.nh = FALSE, !.meta.epic = FALSE]
SPInvolution ==
  WFFast(sp.dp) => LET r1 == SPReverse(sp) IN
                   /\ r1.ok
                   /\ LET r2 == SPReverse(r1.sp) IN r2.ok /\ r2.sp = Forget(sp)
\* "reversal also swaps the metadata": interface and note lists come out in reverse order
MetaListsReversed ==
  (WFFast(sp.dp) /\ sp.meta.present) => LET r == SPReverse(sp).sp IN r.meta.ifs = Rev(sp.meta.ifs) /\ r.meta.notes = Rev(sp.meta.notes)
\* both fingerprints are stable under reversal twice, and reversal exchanges the end points
FingerprintsStable ==
  WFFast(sp.dp) => LET r2 == SPReverse(SPReverse(sp).sp).sp IN r2.fp = sp.fp /\ r2.cpfp = sp.cpfp
EndpointsSwap ==
  WFFast(sp.dp) => LET r == SPReverse(sp).sp IN
                   /\ r.src = sp.dst /\ r.dst = sp.src
                   /\ FirstEgress(r.dp) = LastIngress(sp.dp) /\ LastIngress(r.dp) = FirstEgress(sp.dp)

(* ---- generation ---------------------------------------------------------------- *)
Ids(s) == [i \in 1..Len(s) |-> s[i].id]
SpJ(x) == [src |-> x.src, dst |-> x.dst, meta |-> x.meta, nh |-> x.nh, cpfp |-> x.cpfp # NoFp,
           dp |-> [sl |-> x.dp.sl, ci |-> x.dp.ci, ch |-> x.dp.ch, inf |-> Ids(x.dp.inf),
                   cd |-> [i \in 1..Len(x.dp.inf) |-> x.dp.inf[i].cd], hop |-> Ids(x.dp.hop)]]
Cell(x) == LET r1 == SPReverse(x)
               r2 == SPReverse(r1.sp) IN
  [before |-> SpJ(x), wf |-> WFFast(x.dp),
   rev |-> [ok |-> r1.ok, after |-> SpJ(r1.sp), fp_changed |-> r1.sp.fp # x.fp, cpfp_changed |-> r1.sp.cpfp # x.cpfp],
   twice |-> [ok |-> r2.ok, fp_same |-> r2.sp.fp = x.fp, cpfp_same |-> r2.sp.cpfp = x.cpfp]]
Emit == (GEN /\ n = 0) => PrintT(<<"SPCELL", ToJson(Cell(sp))>>)
=============================================================================
