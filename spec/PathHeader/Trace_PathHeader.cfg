SPECIFICATION TSpec
CONSTANTS
  CHMOD = 64
  U32CAP = 100000
  FIXREV = TRUE
  FIXWRAP = TRUE
  FIXHOPS = TRUE
  FIXOHEXP = TRUE
  FIXOHFLG = TRUE
  FIXOHSEC = TRUE
  PEERIMPL = FALSE
  XorAcc <- ConcXor
INVARIANTS TErrIsAtomic TMonotone TEgressForward TXoverForward TPosition
POSTCONDITION TraceAccepted
CHECK_DEADLOCK FALSE
