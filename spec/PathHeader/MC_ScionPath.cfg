SPECIFICATION Spec
CONSTANTS
  CHMOD = 64
  U32CAP = 100000
  FIXREV = TRUE
  FIXWRAP = TRUE
  FIXHOPS = TRUE
  FIXOHEXP = TRUE
  FIXOHFLG = TRUE
  FIXOHSEC = TRUE
  PEERIMPL = FALSE
  XorAcc <- SymXor
  GEN = FALSE
INVARIANTS SPErrIsAtomic StoredIsFresh SPInvolution MetaListsReversed FingerprintsStable EndpointsSwap Emit
