------------------------------ MODULE PathWalk ------------------------------
(* C11, authentication level: AuthenticVerifies and TamperDetectedAtOwner.       *)
(*                                                                               *)
(* MACs are symbolic and injective:  Mac(key, beta, ts, exp, in, eg) is the tuple *)
(* itself, its 16-bit prefix is the same atom, an accumulator is a finite set of  *)
(* atoms and XOR is symmetric difference (DESIGN.md 3.3).  Segments are beaconed  *)
(* with the chain rule                                                            *)
(*     beta_1 = {segid},  mac_i = Mac(key(as_i), beta_i, ts, exp_i, in_i, eg_i),  *)
(*     beta_{i+1} = beta_i XOR mac_i                                              *)
(* and put into a path header in construction direction (SegID = beta_1) or        *)
(* against it (hop fields reversed, SegID = beta_n).  The header then travels AS   *)
(* by AS through the I-layer actions of PathHeader (advance_ingress_with_validator *)
(* from inside at the first AS / from outside afterwards, advance_egress_with_-    *)
(* validator) where the validator is HopMacValidator with the key of THAT AS, is   *)
(* reversed with try_reverse at the destination and travels back.                  *)
(* One authenticated field may have been replaced by a different value before the  *)
(* journey starts (tamper).                                                        *)
EXTENDS PathHeader, Json

CONSTANTS MINLEN, MAXLEN,   \* hop fields per segment
          MAXSEG,
          GEN,
          PEERPATHS,  \* TRUE: peering paths are part of the journeys
          BROKEN      \* "none"; oracle self-checks: "no_ts" (timestamp left out of the MAC input),
                      \* "segid_init" (reversed segments start from beta_1 instead of beta_n)

SymXor(acc, m) == (acc \ {m}) \cup ({m} \ acc)

Mac(key, beta, ts, exp, in, eg) == <<"mac", key, beta, IF BROKEN = "no_ts" THEN 0 ELSE ts, exp, in, eg>>
MacOk(key, hop, inf) == hop.mac = Mac(key, inf.sid, inf.ts, hop.exp, hop.in, hop.eg)

(* ---- construction of an authentic header ---------------------------------- *)
\* a path is a sequence of pieces [n |-> hop fields, cd |-> travelled in construction direction]
Pieces == UNION {[1..k -> [n : MINLEN..MAXLEN, cd : BOOLEAN, peer : {FALSE}]] : k \in 1..MAXSEG}
\* peering paths: two segments joined by a peering link; the first is travelled against, the second
\* in construction direction (the peer interface is the construction-ingress of both peer hop
\* fields); a segment may consist of the peer hop field alone
PeerPaths == IF PEERPATHS
             THEN {<<[n |-> a, cd |-> FALSE, peer |-> TRUE], [n |-> b, cd |-> TRUE, peer |-> TRUE]>> : a \in 1..MAXLEN, b \in 1..MAXLEN}
             ELSE {}
IsPeering(ps) == Len(ps) = 2 /\ ps[1].peer

POff(ps, k) == IF k = 1 THEN 0 ELSE IF k = 2 THEN ps[1].n ELSE ps[1].n + ps[2].n
PTotal(ps) == POff(ps, Len(ps)) + ps[Len(ps)].n
\* the AS (1..m along the journey) that owns travel-order hop t (1-based) of piece k:
\* consecutive pieces share the crossover AS
\* (on a peering path the two peer hop fields belong to different ASes: nothing is shared)
AsOf(ps, k, t) == POff(ps, k) - (IF IsPeering(ps) THEN 0 ELSE k - 1) + t
NAs(ps) == PTotal(ps) - (IF IsPeering(ps) THEN 0 ELSE Len(ps) - 1)
\* piece / position of global hop index g (1-based)
PieceOf(ps, g) == IF g <= ps[1].n THEN 1 ELSE IF Len(ps) >= 2 /\ g <= ps[1].n + ps[2].n THEN 2 ELSE 3
AsOfHop(ps, g) == LET k == PieceOf(ps, g) IN AsOf(ps, k, g - POff(ps, k))

Key(a) == <<"key", a>>

\* beaconing of piece k: construction order is travel order if cd, the reverse otherwise.
\* Entry c (construction position 1..n) sits at travel position  t = IF cd THEN c ELSE n+1-c.
TravelPos(pc, c) == IF pc.cd THEN c ELSE pc.n + 1 - c
RECURSIVE Beta(_, _, _), HopMacAt(_, _, _)
EntryIn(k, c) == 10 * k + c            \* construction ingress / egress interface numbers
EntryEg(k, c) == 100 + 10 * k + c
SegTs(k) == 1000 * k
HopMacAt(ps, k, c) ==
  Mac(Key(AsOf(ps, k, TravelPos(ps[k], c))), Beta(ps, k, c), SegTs(k), 60 + c, EntryIn(k, c), EntryEg(k, c))
Beta(ps, k, c) == IF c = 1 THEN {<<"segid", k>>} ELSE SymXor(Beta(ps, k, c - 1), HopMacAt(ps, k, c - 1))

\* the peer entry of a peering segment sits at construction position 1 (the AS with the peering
\* link); it is MACed under the accumulator AFTER that AS's regular hop field
PeerIf(k) == 900 + k
PeerMacAt(ps, k) ==
  Mac(Key(AsOf(ps, k, TravelPos(ps[k], 1))), Beta(ps, k, 2), SegTs(k), 61, PeerIf(k), EntryEg(k, 1))
HopRec(ps, k, c, g) ==
  IF ps[k].peer /\ c = 1
  THEN [id |-> g, exp |-> 61, in |-> PeerIf(k), eg |-> EntryEg(k, 1), mac |-> PeerMacAt(ps, k), ai |-> FALSE, ae |-> FALSE]
  ELSE [id |-> g, exp |-> 60 + c, in |-> EntryIn(k, c), eg |-> EntryEg(k, c), mac |-> HopMacAt(ps, k, c), ai |-> FALSE, ae |-> FALSE]
\* initial SegID of a piece: the accumulator in front of its first hop field in travel direction
InitSid(ps, k) ==
  IF ps[k].peer
  THEN (IF ps[k].cd \/ ps[k].n = 1 THEN Beta(ps, k, 2) ELSE Beta(ps, k, ps[k].n))
  ELSE (IF ps[k].cd \/ BROKEN = "segid_init" THEN Beta(ps, k, 1) ELSE Beta(ps, k, ps[k].n))

Authentic(ps) ==
  [sl |-> <<ps[1].n, IF Len(ps) >= 2 THEN ps[2].n ELSE 0, IF Len(ps) >= 3 THEN ps[3].n ELSE 0>>,
   ci |-> 0, ch |-> 0,
   inf |-> [k \in 1..Len(ps) |->
              [id |-> k, cd |-> ps[k].cd, peer |-> ps[k].peer, ts |-> SegTs(k), sid |-> InitSid(ps, k)]],
   hop |-> [g \in 1..PTotal(ps) |->
              LET k == PieceOf(ps, g)
                  t == g - POff(ps, k)
                  c == IF ps[k].cd THEN t ELSE ps[k].n + 1 - t   \* construction position
              IN HopRec(ps, k, c, g)]]

(* ---- tampering: one authenticated field gets a different value ------------- *)
Tampers(ps) == {[f |-> "none", at |-> 0]}
               \cup {[f |-> f, at |-> g] : f \in {"in", "eg", "exp", "mac"}, g \in 1..PTotal(ps)}
               \cup {[f |-> f, at |-> k] : f \in {"ts", "sid"}, k \in 1..Len(ps)}
Tamper(q, tm) ==
  CASE tm.f = "none" -> q
    [] tm.f = "in"  -> [q EXCEPT !.hop[tm.at].in = @ + 500]
    [] tm.f = "eg"  -> [q EXCEPT !.hop[tm.at].eg = @ + 500]
    [] tm.f = "exp" -> [q EXCEPT !.hop[tm.at].exp = @ + 1]
    [] tm.f = "mac" -> [q EXCEPT !.hop[tm.at].mac = <<"forged", @>>]
    [] tm.f = "ts"  -> [q EXCEPT !.inf[tm.at].ts = @ + 1]
    [] tm.f = "sid" -> [q EXCEPT !.inf[tm.at].sid = SymXor(@, <<"flip">>)]
\* the AS that owns the tampered field: the AS of the hop field; for a segment's timestamp /
\* chaining value the first AS (in travel order) that verifies a hop field of that segment
Owner(ps, tm) == IF tm.f \in {"in", "eg", "exp", "mac"} THEN AsOfHop(ps, tm.at)
                 ELSE IF tm.f \in {"ts", "sid"} THEN AsOf(ps, tm.at, 1) ELSE 0

(* ---- the journey ----------------------------------------------------------- *)
VARIABLES ps, tm,   \* pieces, tamper (fixed per behaviour)
          p,        \* header
          as,       \* AS currently processing (1..NAs going forward, NAs..1 going back)
          dir,      \* "fwd" | "back"
          phase,    \* "ingress" | "egress" | "delivered" | "failed"
          failedAt, \* AS at which the first check failed (0 = none)
          h         \* history for generation: <<[as, op, k, act, ci, ch]>>

vars == <<ps, tm, p, as, dir, phase, failedAt, h>>

Init == /\ ps \in Pieces \cup PeerPaths
        /\ tm \in Tampers(ps)
        /\ p = Tamper(Authentic(ps), tm)
        /\ as = 1 /\ dir = "fwd" /\ phase = "ingress" /\ failedAt = 0 /\ h = <<>>

FirstAs == IF dir = "fwd" THEN 1 ELSE NAs(ps)
NextAs == IF dir = "fwd" THEN as + 1 ELSE as - 1
VHk(idx, hop, inf, st, en) == MacOk(Key(as), hop, inf)
VSk(idx) == TRUE

Hist(op, r) == Append(h, [as |-> as, op |-> op, k |-> r.k, act |-> r.act, ci |-> r.p.ci, ch |-> r.p.ch])

DoIngress ==
  /\ phase = "ingress"
  /\ LET internal == as = FirstAs
         r == Ingress(p, internal, VHk, VSk) IN
       /\ p' = r.p
       /\ h' = Hist(IF internal THEN "ing_int" ELSE "ing_ext", r)
       /\ IF r.k # "ok" THEN phase' = "failed" /\ failedAt' = as
          ELSE /\ failedAt' = failedAt
               /\ phase' = IF r.act = "local" THEN "delivered" ELSE "egress"
  /\ UNCHANGED <<ps, tm, as, dir>>

DoEgress ==
  /\ phase = "egress"
  /\ LET r == Egress(p, VHk) IN
       /\ p' = r.p
       /\ h' = Hist("egr", r)
       /\ IF r.k # "ok" THEN phase' = "failed" /\ failedAt' = as /\ as' = as
          ELSE phase' = "ingress" /\ failedAt' = failedAt /\ as' = NextAs
  /\ UNCHANGED <<ps, tm, dir>>

\* at the destination the (untampered, delivered) header is reversed and sent back
TurnAround ==
  /\ phase = "delivered" /\ dir = "fwd"
  /\ LET v == ViewReverse(p) IN
       /\ p' = v.p
       /\ h' = Append(h, [as |-> as, op |-> "rev", k |-> IF v.ok THEN "ok" ELSE "err", act |-> "none", ci |-> v.p.ci, ch |-> v.p.ch])
       /\ IF v.ok THEN phase' = "ingress" /\ failedAt' = failedAt ELSE phase' = "failed" /\ failedAt' = as
  /\ dir' = "back"
  /\ UNCHANGED <<ps, tm, as>>

Next == DoIngress \/ DoEgress \/ TurnAround
Spec == Init /\ [][Next]_vars

(* ------------------------------- P-layer ----------------------------------- *)
\* with the right per-AS keys every authentic path verifies at every hop, in both travel
\* directions, and is delivered at the last AS / back at the first AS
Delivered ==
    /\ phase # "failed"
    /\ (phase = "delivered" /\ dir = "fwd" => (as = NAs(ps) /\ p.ch = PTotal(ps) - 1 /\ p.ci = Len(ps) - 1))
    /\ (phase = "delivered" /\ dir = "back" => (as = 1 /\ p.ch = PTotal(ps) - 1 /\ p.ci = Len(ps) - 1))
\* the same for peering paths: holds for SCION's peering rule (PEERIMPL = TRUE), refuted by the code's
PeeringVerifies == (tm.f = "none" /\ IsPeering(ps)) => Delivered
AuthenticVerifies ==
  (tm.f = "none" /\ ~IsPeering(ps)) =>
    /\ phase # "failed"
    /\ (phase = "delivered" /\ dir = "fwd" => (as = NAs(ps) /\ p.ch = PTotal(ps) - 1 /\ p.ci = Len(ps) - 1))
    /\ (phase = "delivered" /\ dir = "back" => (as = 1 /\ p.ch = PTotal(ps) - 1 /\ p.ci = Len(ps) - 1))
\* a changed authenticated field makes verification fail no later than at the owning AS:
\* the journey never gets beyond the owner without a failure
TamperDetectedAtOwner ==
  (tm.f # "none" /\ dir = "fwd") =>
    /\ (phase \in {"ingress", "egress"} => as <= Owner(ps, tm))
    /\ (phase = "delivered" => FALSE)
    /\ (phase = "failed" => failedAt <= Owner(ps, tm))
\* each AS processes the header at most once per direction and CurrHF strictly grows per forwarded AS
StepsBounded == Len(h) <= 4 * PTotal(ps) + 1

(* ---- one-hop journey -------------------------------------------------------------- *)
(* AS 1 originates a one-hop path (OneHopPath::new), advances the SegID at egress; AS 2    *)
(* fills the second hop field (set_second_hop, SegID already advanced); the reply uses the *)
(* reversed standard path (DpPath::try_reverse) and must verify at AS 2 and at AS 1.       *)
OneHopVerifies ==
  LET seg0 == {<<"segid", 9>>}
      h1 == [id |-> 1, exp |-> 63, in |-> 0, eg |-> 11, ai |-> FALSE, ae |-> FALSE,
             mac |-> Mac(Key(1), seg0, 1000, 63, 0, 11)]
      h0 == [id |-> 2, exp |-> 0, in |-> 0, eg |-> 0, ai |-> FALSE, ae |-> FALSE, mac |-> <<"zero">>]
      o1 == [inf |-> [id |-> 1, cd |-> TRUE, ts |-> 1000, sid |-> SymXor(seg0, h1.mac)], h1 |-> h1, h2 |-> h0]
      o2 == OneHopSetSecondView(o1, 22, Key(2), TRUE)
      back == OneHopToStdReversed(o2)
      q0 == Encode(back.m)
      V2(idx, hop, inf, st, en) == MacOk(Key(2), hop, inf)
      V1(idx, hop, inf, st, en) == MacOk(Key(1), hop, inf)
      VS0(idx) == TRUE
      r1 == Ingress(q0, TRUE, V2, VS0)
      r2 == Egress(r1.p, V2)
      r3 == Ingress(r2.p, FALSE, V1, VS0)
  IN BROKEN = "none" =>      \* (the oracle self-check variants change Mac() only)
     /\ back.ok
     /\ r1.k = "ok" /\ r1.act = "egress"
     /\ r2.k = "ok"
     /\ r3.k = "ok" /\ r3.act = "local"

(* ------------------------------ generation --------------------------------- *)
Terminal == phase = "failed" \/ (phase = "delivered" /\ (dir = "back" \/ tm.f # "none"))
Case == [pieces |-> ps, peering |-> IsPeering(ps), tamper |-> tm, owner |-> Owner(ps, tm), nas |-> NAs(ps),
         outcome |-> phase, failed_at |-> failedAt, dir |-> dir, walk |-> h]
Emit == (GEN /\ Terminal) => PrintT(<<"WALK", ToJson(Case)>>)
=============================================================================
