SPECIFICATION Spec
CONSTANTS
  CHMOD = 64
  U32CAP = 100000
  FIXREV = TRUE
  FIXWRAP = TRUE
  FIXHOPS = TRUE
  FIXOHEXP = TRUE
  FIXOHFLG = TRUE
  FIXOHSEC = TRUE
  PEERIMPL = FALSE
  XorAcc <- SymXor
  MINLEN = 2
  MAXLEN = 3
  MAXSEG = 3
  GEN = FALSE
  PEERPATHS = TRUE
  BROKEN = "none"
INVARIANTS OneHopVerifies AuthenticVerifies TamperDetectedAtOwner StepsBounded Emit
