---- MODULE PathWalk_TTrace_1790067066 ----
EXTENDS PathWalk, Sequences, TLCExt, Toolbox, Naturals, TLC

_expression ==
    LET PathWalk_TEExpression == INSTANCE PathWalk_TEExpression
    IN PathWalk_TEExpression!expression
----

_trace ==
    LET PathWalk_TETrace == INSTANCE PathWalk_TETrace
    IN PathWalk_TETrace!trace
----

_inv ==
    ~(
        TLCGet("level") = Len(_TETrace)
        /\
        phase = ("failed")
        /\
        p = ([hop |-> <<[exp |-> 62, in |-> 12, eg |-> 112, mac |-> <<"mac", <<"key", 1>>, {<<"segid", 1>>, <<"mac", <<"key", 2>>, {<<"segid", 1>>}, 1000, 61, 11, 111>>}, 1000, 62, 12, 112>>, id |-> 1, ai |-> FALSE, ae |-> FALSE], [exp |-> 61, in |-> 11, eg |-> 111, mac |-> <<"mac", <<"key", 2>>, {<<"segid", 1>>}, 1000, 61, 11, 111>>, id |-> 2, ai |-> FALSE, ae |-> FALSE]>>, inf |-> <<[ts |-> 1000, sid |-> {<<"segid", 1>>}, cd |-> FALSE, id |-> 1]>>, sl |-> <<2, 0, 0>>, ci |-> 0, ch |-> 0])
        /\
        as = (1)
        /\
        failedAt = (1)
        /\
        ps = (<<[n |-> 2, cd |-> FALSE]>>)
        /\
        h = (<<[k |-> "vfail", ci |-> 0, ch |-> 0, as |-> 1, op |-> "ing_int", act |-> "egress"]>>)
        /\
        tm = ([f |-> "none", at |-> 0])
        /\
        dir = ("fwd")
    )
----

_init ==
    /\ phase = _TETrace[1].phase
    /\ as = _TETrace[1].as
    /\ h = _TETrace[1].h
    /\ p = _TETrace[1].p
    /\ ps = _TETrace[1].ps
    /\ failedAt = _TETrace[1].failedAt
    /\ tm = _TETrace[1].tm
    /\ dir = _TETrace[1].dir
----

_next ==
    /\ \E i,j \in DOMAIN _TETrace:
        /\ \/ /\ j = i + 1
              /\ i = TLCGet("level")
        /\ phase  = _TETrace[i].phase
        /\ phase' = _TETrace[j].phase
        /\ as  = _TETrace[i].as
        /\ as' = _TETrace[j].as
        /\ h  = _TETrace[i].h
        /\ h' = _TETrace[j].h
        /\ p  = _TETrace[i].p
        /\ p' = _TETrace[j].p
        /\ ps  = _TETrace[i].ps
        /\ ps' = _TETrace[j].ps
        /\ failedAt  = _TETrace[i].failedAt
        /\ failedAt' = _TETrace[j].failedAt
        /\ tm  = _TETrace[i].tm
        /\ tm' = _TETrace[j].tm
        /\ dir  = _TETrace[i].dir
        /\ dir' = _TETrace[j].dir

\* Uncomment the ASSUME below to write the states of the error trace
\* to the given file in Json format. Note that you can pass any tuple
\* to `JsonSerialize`. For example, a sub-sequence of _TETrace.
    \* ASSUME
    \*     LET J == INSTANCE Json
    \*         IN J!JsonSerialize("PathWalk_TTrace_1790067066.json", _TETrace)

=============================================================================

 Note that you can extract this module `PathWalk_TEExpression`
  to a dedicated file to reuse `expression` (the module in the 
  dedicated `PathWalk_TEExpression.tla` file takes precedence 
  over the module `PathWalk_TEExpression` below).

---- MODULE PathWalk_TEExpression ----
EXTENDS PathWalk, Sequences, TLCExt, Toolbox, Naturals, TLC

expression == 
    [
        \* To hide variables of the `PathWalk` spec from the error trace,
        \* remove the variables below.  The trace will be written in the order
        \* of the fields of this record.
        phase |-> phase
        ,as |-> as
        ,h |-> h
        ,p |-> p
        ,ps |-> ps
        ,failedAt |-> failedAt
        ,tm |-> tm
        ,dir |-> dir
        
        \* Put additional constant-, state-, and action-level expressions here:
        \* ,_stateNumber |-> _TEPosition
        \* ,_phaseUnchanged |-> phase = phase'
        
        \* Format the `phase` variable as Json value.
        \* ,_phaseJson |->
        \*     LET J == INSTANCE Json
        \*     IN J!ToJson(phase)
        
        \* Lastly, you may build expressions over arbitrary sets of states by
        \* leveraging the _TETrace operator.  For example, this is how to
        \* count the number of times a spec variable changed up to the current
        \* state in the trace.
        \* ,_phaseModCount |->
        \*     LET F[s \in DOMAIN _TETrace] ==
        \*         IF s = 1 THEN 0
        \*         ELSE IF _TETrace[s].phase # _TETrace[s-1].phase
        \*             THEN 1 + F[s-1] ELSE F[s-1]
        \*     IN F[_TEPosition - 1]
    ]

=============================================================================



Parsing and semantic processing can take forever if the trace below is long.
 In this case, it is advised to uncomment the module below to deserialize the
 trace from a generated binary file.

\*
\*---- MODULE PathWalk_TETrace ----
\*EXTENDS PathWalk, IOUtils, TLC
\*
\*trace == IODeserialize("PathWalk_TTrace_1790067066.bin", TRUE)
\*
\*=============================================================================
\*

---- MODULE PathWalk_TETrace ----
EXTENDS PathWalk, TLC

trace == 
    <<
    ([phase |-> "ingress",p |-> [hop |-> <<[exp |-> 62, in |-> 12, eg |-> 112, mac |-> <<"mac", <<"key", 1>>, {<<"segid", 1>>, <<"mac", <<"key", 2>>, {<<"segid", 1>>}, 1000, 61, 11, 111>>}, 1000, 62, 12, 112>>, id |-> 1, ai |-> FALSE, ae |-> FALSE], [exp |-> 61, in |-> 11, eg |-> 111, mac |-> <<"mac", <<"key", 2>>, {<<"segid", 1>>}, 1000, 61, 11, 111>>, id |-> 2, ai |-> FALSE, ae |-> FALSE]>>, inf |-> <<[ts |-> 1000, sid |-> {<<"segid", 1>>}, cd |-> FALSE, id |-> 1]>>, sl |-> <<2, 0, 0>>, ci |-> 0, ch |-> 0],as |-> 1,failedAt |-> 0,ps |-> <<[n |-> 2, cd |-> FALSE]>>,h |-> <<>>,tm |-> [f |-> "none", at |-> 0],dir |-> "fwd"]),
    ([phase |-> "failed",p |-> [hop |-> <<[exp |-> 62, in |-> 12, eg |-> 112, mac |-> <<"mac", <<"key", 1>>, {<<"segid", 1>>, <<"mac", <<"key", 2>>, {<<"segid", 1>>}, 1000, 61, 11, 111>>}, 1000, 62, 12, 112>>, id |-> 1, ai |-> FALSE, ae |-> FALSE], [exp |-> 61, in |-> 11, eg |-> 111, mac |-> <<"mac", <<"key", 2>>, {<<"segid", 1>>}, 1000, 61, 11, 111>>, id |-> 2, ai |-> FALSE, ae |-> FALSE]>>, inf |-> <<[ts |-> 1000, sid |-> {<<"segid", 1>>}, cd |-> FALSE, id |-> 1]>>, sl |-> <<2, 0, 0>>, ci |-> 0, ch |-> 0],as |-> 1,failedAt |-> 1,ps |-> <<[n |-> 2, cd |-> FALSE]>>,h |-> <<[k |-> "vfail", ci |-> 0, ch |-> 0, as |-> 1, op |-> "ing_int", act |-> "egress"]>>,tm |-> [f |-> "none", at |-> 0],dir |-> "fwd"])
    >>
----


=============================================================================

---- CONFIG PathWalk_TTrace_1790067066 ----
CONSTANTS
    CHMOD = 64
    U32CAP = 100000
    FIXREV = TRUE
    FIXWRAP = TRUE
    FIXHOPS = TRUE
    XorAcc <- SymXor
    MINLEN = 2
    MAXLEN = 2
    MAXSEG = 2
    GEN = FALSE
    BROKEN = "segid_init"

INVARIANT
    _inv

CHECK_DEADLOCK
    \* CHECK_DEADLOCK off because of PROPERTY or INVARIANT above.
    FALSE

INIT
    _init

NEXT
    _next

CONSTANT
    _TETrace <- _trace

ALIAS
    _expression
=============================================================================
\* Generated on Tue Sep 22 08:51:16 UTC 2026