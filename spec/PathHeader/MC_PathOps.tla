----------------------------- MODULE MC_PathOps -----------------------------
(* C12: every state of the standard-path header the view constructor accepts     *)
(* (segment lengths 0..MAXLEN each, incl. zero-length first/middle segments and  *)
(* single-hop segments; both pointers anywhere; every cons-dir vector), the       *)
(* reversal action from each of them (and again from the result), and the        *)
(* view/model agreement theorems.  In generation mode (GEN) every initial cell   *)
(* is printed with the results the specification expects.                        *)
EXTENDS PathHeader, Json

CONSTANTS MAXLEN,      \* segment lengths 0..MAXLEN
          ALLCH,       \* TRUE: ch ranges over 0..CHMOD-1; FALSE: 0..Total+1 and CHMOD-1
          Depth,       \* number of reversal calls explored from every cell
          GEN,
          FAMILY       \* "ptr": shapes x pointers x cons-dir vectors; "exp": shapes x expiry tables

SymXor(acc, m) == (acc \ {m}) \cup ({m} \ acc)

VARIABLES p,     \* the path header
          last,  \* the last call: [op, ok, b (header before the call)]
          n

vars == <<p, last, n>>

Shapes == {<<a, b, c>> : a \in 0..MAXLEN, b \in 0..MAXLEN, c \in 0..MAXLEN}
ChOf(sl) == IF ALLCH THEN 0..(CHMOD - 1) ELSE (0..(Total(sl) + 1)) \cup {CHMOD - 1}

\* fixed labelling of the field contents (the harness uses the same numbers)
TSNEAR == U32CAP - 1000
MkHop(k, e) == [id |-> k, exp |-> e, in |-> 100 + k, eg |-> 200 + k, mac |-> k, ai |-> FALSE, ae |-> FALSE]
MkInf(j, cd, ts) == [id |-> j, cd |-> cd, ts |-> ts, sid |-> {}]

MkPtr(sl, ci, ch, cdv) ==
  [sl |-> sl, ci |-> ci, ch |-> ch,
   inf |-> [j \in 1..NInf(sl) |-> MkInf(j, cdv[j], 1000 * j)],
   hop |-> [k \in 1..Total(sl) |-> MkHop(k, 10 + k)]]

\* expiry family: one designated hop (0 = none) carries the small exp value, every timestamp
\* is either far from or near the saturation bound
MkExp(sl, low, tsv) ==
  [sl |-> sl, ci |-> 0, ch |-> 0,
   inf |-> [j \in 1..NInf(sl) |-> MkInf(j, TRUE, IF tsv[j] THEN TSNEAR ELSE 1000 * j)],
   hop |-> [k \in 1..Total(sl) |-> MkHop(k, IF k = low THEN 0 ELSE IF k = low + 1 THEN 5 ELSE 255)]]

CellsOf(sl) == IF FAMILY = "ptr"
               THEN {MkPtr(sl, ci, ch, cdv) : ci \in 0..3, ch \in ChOf(sl), cdv \in [1..NInf(sl) -> BOOLEAN]}
               ELSE {MkExp(sl, low, tsv) : low \in 0..Total(sl), tsv \in [1..NInf(sl) -> BOOLEAN]}

Init == /\ \E sl \in Shapes : p \in CellsOf(sl)
        /\ last = [op |-> "init", ok |-> TRUE, b |-> <<>>] /\ n = 0

Reverse == /\ n < Depth
           /\ LET r == ViewReverse(p) IN
                /\ p' = r.p
                /\ last' = [op |-> "rev", ok |-> r.ok, b |-> p]
           /\ n' = n + 1

Next == Reverse
Spec == Init /\ [][Next]_vars

(* ------------------------------ P-layer ----------------------------------- *)
\* C12: an operation that reports an error leaves its operand untouched (view side; the model
\* side holds by construction of ModelReverse and is checked on the real model by replay)
ErrIsAtomic == (last.op = "rev" /\ ~last.ok) => p = last.b

WFEquiv == WF(p) <=> WFFast(p)

\* C12: on every well-formed header the view and the model agree on reversal ...
AgreeReverse ==
  WFFast(p) => LET v == ViewReverse(p)
               m == ModelReverse(ModelOf(p)) IN
           /\ v.ok = m.ok
           /\ (v.ok => (Encode(m.m) = v.p /\ ModelOf(v.p) = m.m /\ ModelValid(m.m)))
\* ... reversal is its own inverse ...
Involution ==
  WFFast(p) => LET v == ViewReverse(p)
               m == ModelReverse(ModelOf(p)) IN
           /\ (v.ok => (ViewReverse(v.p).ok /\ ViewReverse(v.p).p = p))
           /\ (m.ok => (ModelReverse(m.m).ok /\ ModelReverse(m.m).m = ModelOf(p)))
\* ... and keeps the logical position: the same hop field and the same info field are current
Position ==
  WFFast(p) => LET v == ViewReverse(p) IN
           v.ok => /\ v.p.ch < Len(v.p.hop) /\ v.p.hop[v.p.ch + 1].id = p.hop[p.ch + 1].id
                   /\ v.p.ci < Len(v.p.inf) /\ v.p.inf[v.p.ci + 1].id = p.inf[p.ci + 1].id
                   /\ v.p.inf[v.p.ci + 1].cd = ~p.inf[p.ci + 1].cd
\* ... on a well-formed header reversal succeeds (needed for non-vacuity of the above)
WFReverses == WFFast(p) => ViewReverse(p).ok
\* ... they agree on expiry, also after reversal, and on the segment structure
AgreeExpiry ==
  WFFast(p) => /\ ViewExpiry(p) = ModelExpiry(ModelOf(p))
           /\ ViewExpiry(ViewReverse(p).p) = ViewExpiry(p)
AgreeSegments ==
  WFFast(p) => ViewSegments(p) = ModelOf(p).segs
\* reversal exchanges the end-point interfaces
EndsSwap ==
  WFFast(p) => LET q == ViewReverse(p).p IN FirstEgress(q) = LastIngress(p) /\ LastIngress(q) = FirstEgress(p)

(* ------------------------------ generation --------------------------------- *)
Ids(s) == [i \in 1..Len(s) |-> s[i].id]
Cds(s) == [i \in 1..Len(s) |-> s[i].cd]
HdrJ(q) == [sl |-> q.sl, ci |-> q.ci, ch |-> q.ch, inf |-> Ids(q.inf), cd |-> Cds(q.inf), hop |-> Ids(q.hop)]
MdlJ(m) == [ci |-> m.ci, ch |-> m.ch,
            segs |-> [j \in 1..Len(m.segs) |-> [inf |-> m.segs[j].inf.id, cd |-> m.segs[j].inf.cd, hop |-> Ids(m.segs[j].hops)]]]
Cell(q) ==
  LET v == ViewReverse(q)
      m == ModelOf(q)
      mr == ModelReverse(m) IN
  [sl |-> q.sl, ci |-> q.ci, ch |-> q.ch, cd |-> Cds(q.inf),
   ts |-> [j \in 1..Len(q.inf) |-> q.inf[j].ts],
   exp |-> [k \in 1..Len(q.hop) |-> q.hop[k].exp],
   wf |-> WFFast(q),
   rev |-> [ok |-> v.ok, cls |-> v.cls, after |-> HdrJ(v.p)],
   model |-> MdlJ(m), mvalid |-> ModelValid(m),
   mrev |-> [ok |-> mr.ok, after |-> MdlJ(mr.m)],
   vexp |-> ViewExpiry(q), mexp |-> ModelExpiry(m),
   nseg |-> IterSegCount(q.sl),
   fe |-> FirstEgress(q), li |-> LastIngress(q), ce |-> CurrEgress(q), cin |-> CurrIngress(q)]

Emit == (GEN /\ n = 0) => PrintT(<<"CELL", ToJson(Cell(p))>>)
=============================================================================
