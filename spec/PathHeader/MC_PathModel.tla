---------------------------- MODULE MC_PathModel ----------------------------
(* C12 from the model side: every owned StandardPath with 0..3 segments of 0..MAXLEN  *)
(* hop fields (including segments without hop fields, which no byte string decodes   *)
(* to), current_info_field 0..3 and current_hop_field inside, just outside and far    *)
(* outside the hop fields.  A refused reversal leaves the model untouched; a model    *)
(* the encoder accepts round-trips through its encoding and reverses like its view.   *)
EXTENDS PathHeader, Json

CONSTANTS MAXLEN, GEN
SymXor(acc, m) == (acc \ {m}) \cup ({m} \ acc)

VARIABLES m, last, n
vars == <<m, last, n>>

LenVecs == UNION {[1..k -> 0..MAXLEN] : k \in 0..3}
HopOf(g) == [id |-> g, exp |-> 10 + g, in |-> 100 + g, eg |-> 200 + g, mac |-> g, ai |-> FALSE, ae |-> FALSE]
OffV(lv, j) == IF j = 1 THEN 0 ELSE IF j = 2 THEN lv[1] ELSE lv[1] + lv[2]
TotV(lv) == IF Len(lv) = 0 THEN 0 ELSE OffV(lv, Len(lv)) + lv[Len(lv)]
MkModel(lv, ci, ch, alt) ==
  [ci |-> ci, ch |-> ch,
   segs |-> [j \in 1..Len(lv) |->
               [inf |-> [id |-> j, cd |-> (IF alt THEN j % 2 = 0 ELSE TRUE), ts |-> 1000 * j, sid |-> {}],
                hops |-> [t \in 1..lv[j] |-> HopOf(OffV(lv, j) + t)]]]]
Cells == {MkModel(lv, ci, ch, alt) : lv \in LenVecs, ci \in 0..3, alt \in BOOLEAN,
                                     ch \in (0..(MAXLEN * 3 + 1)) \cup {64, 200}}
         \* current_hop_field is a u8 in the model: 64 and 200 do not fit CurrHF

Init == m \in {c \in Cells : c.ch <= TotV([j \in 1..Len(c.segs) |-> Len(c.segs[j].hops)]) + 1 \/ c.ch >= 64}
        /\ last = [op |-> "init", ok |-> TRUE, b |-> <<>>] /\ n = 0
Reverse == /\ n < 1
           /\ LET r == ModelReverse(m) IN m' = r.m /\ last' = [op |-> "rev", ok |-> r.ok, b |-> m]
           /\ n' = n + 1
Next == Reverse
Spec == Init /\ [][Next]_vars

ModelErrIsAtomic == (last.op = "rev" /\ ~last.ok) => m = last.b
\* an accepted model round-trips through its encoding and reverses exactly like its view
AcceptedAgrees ==
  ModelValid(m) => LET q == Encode(m)
                       v == ViewReverse(q)
                       r == ModelReverse(m) IN
                   /\ ModelOf(q) = m /\ WF(q)
                   /\ v.ok /\ r.ok /\ Encode(r.m) = v.p /\ ModelOf(v.p) = r.m
                   /\ ModelReverse(r.m).m = m
                   /\ ModelExpiry(m) = ViewExpiry(q)
\* whatever the encoder accepts has only non-empty segments and pointers that fit the wire fields
AcceptedFits == ModelValid(m) => (m.ch < CHMOD /\ m.ci < 4 /\ \A j \in 1..Len(m.segs) : Len(m.segs[j].hops) > 0)

Ids(s) == [i \in 1..Len(s) |-> s[i].id]
MdlJ(x) == [ci |-> x.ci, ch |-> x.ch,
            segs |-> [j \in 1..Len(x.segs) |-> [inf |-> x.segs[j].inf.id, cd |-> x.segs[j].inf.cd, hop |-> Ids(x.segs[j].hops)]]]
Cell(x) == LET r == ModelReverse(x) IN
  [model |-> MdlJ(x), mvalid |-> ModelValid(x), mrev |-> [ok |-> r.ok, after |-> MdlJ(r.m)],
   mexp |-> ModelExpiry(x)]
Emit == (GEN /\ n = 0) => PrintT(<<"MCELL", ToJson(Cell(m))>>)
=============================================================================
