--------------------------- MODULE MC_PathAdvance ---------------------------
(* C11, API level: every header state the view constructor accepts (segment      *)
(* lengths 0..MAXLEN each, both pointers anywhere, every cons-dir vector, router  *)
(* alerts set/unset) and every sequence of at most Depth calls of                 *)
(*   advance_ingress(from_internal = TRUE|FALSE) / advance_egress                 *)
(* with every validator verdict.  P-layer: an Err leaves the header untouched,    *)
(* pointers never move backwards, an egress step moves CurrHF by exactly one,     *)
(* CurrINF follows exactly at a segment change, and the number of forward steps   *)
(* is bounded by the number of hop fields.  In generation mode every initial cell *)
(* is printed with the expected result of each call under each verdict script.    *)
EXTENDS PathHeader, Json

CONSTANTS MAXLEN, ALLCH, Depth, GEN,
          ALS,     \* router-alert patterns explored: subset of BOOLEAN (all alert flags set / unset)
          PEERS    \* PEERING flag patterns explored: subset of BOOLEAN (flag set on all / no info fields)

SymXor(acc, m) == (acc \ {m}) \cup ({m} \ acc)

VARIABLES p,       \* header
          ch0,     \* CurrHF of the initial cell
          moves,   \* calls so far that did not fail and moved CurrHF
          lastop, lastk,
          n

vars == <<p, ch0, moves, lastop, lastk, n>>

Shapes == {<<a, b, c>> : a \in 0..MAXLEN, b \in 0..MAXLEN, c \in 0..MAXLEN}
ChOf(sl) == IF ALLCH THEN 0..(CHMOD - 1) ELSE (0..(Total(sl) + 1)) \cup {CHMOD - 1}

MkHop(k, al) == [id |-> k, exp |-> 10 + k, in |-> 100 + k, eg |-> 200 + k, mac |-> k, ai |-> al, ae |-> al]
MkInf(j, cd, pf) == [id |-> j, cd |-> cd, peer |-> pf, ts |-> 1000 * j, sid |-> {}]

CellsOf(sl) ==
  {[sl |-> sl, ci |-> ci, ch |-> ch,
    inf |-> [j \in 1..NInf(sl) |-> MkInf(j, cdv[j], pf)],
    hop |-> [k \in 1..Total(sl) |-> MkHop(k, al)]] :
     ci \in 0..3, ch \in ChOf(sl), cdv \in [1..NInf(sl) -> BOOLEAN], al \in ALS, pf \in PEERS}

Ops == {"ing_int", "ing_ext", "egr"}
ScriptList == <<[cur |-> TRUE, seg |-> TRUE, nxt |-> TRUE], [cur |-> FALSE, seg |-> TRUE, nxt |-> TRUE],
                [cur |-> TRUE, seg |-> FALSE, nxt |-> TRUE], [cur |-> TRUE, seg |-> TRUE, nxt |-> FALSE]>>

Apply(q, op, v) ==
  LET VH(idx, hop, inf, st, en) == IF idx = q.ch THEN v.cur ELSE v.nxt
      VS(idx) == v.seg IN
  CASE op = "ing_int" -> Ingress(q, TRUE, VH, VS)
    [] op = "ing_ext" -> Ingress(q, FALSE, VH, VS)
    [] op = "egr" -> Egress(q, VH)

Init == /\ \E sl \in Shapes : p \in CellsOf(sl)
        /\ ch0 = p.ch /\ moves = 0 /\ lastop = "init" /\ lastk = "ok" /\ n = 0

Call(op, v) ==
  /\ n < Depth
  /\ LET r == Apply(p, op, v) IN
       /\ p' = r.p
       /\ lastop' = op /\ lastk' = r.k
       /\ moves' = IF r.k # "err" /\ r.p.ch # p.ch THEN moves + 1 ELSE moves
  /\ n' = n + 1 /\ UNCHANGED ch0

\* the four validator scripts that are also replayed: all accept / one of the three consulted checks rejects
Next == \E op \in Ops, s \in 1..4 : Call(op, ScriptList[s])
Spec == Init /\ [][Next]_vars

(* ------------------------------- P-layer ----------------------------------- *)
Res == [k |-> lastk', p |-> p']
ErrIsAtomicStep == [][ErrIsAtomicCall(p, Res)]_vars
MonotoneStep == [][MonotoneCall(p, Res)]_vars
EgressForwardStep == [][lastop' = "egr" => EgressForward(p, Res)]_vars
XoverForwardStep == [][lastop' \in {"ing_int", "ing_ext"} => XoverForward(p, Res)]_vars
\* "processed at most as many times as it has hop fields": forward steps are counted by CurrHF,
\* which stays inside the hop fields
Bounded == moves > 0 => (p.ch = ch0 + moves /\ p.ch <= Total(p.sl) - 1 /\ moves <= Total(p.sl) - 1)

(* ------------------------------ generation --------------------------------- *)
Ids(s) == [i \in 1..Len(s) |-> s[i].id]
SidJ(s) == [i \in 1..Len(s) |-> s[i].sid]      \* sets of hop ids accumulated
CallsJ(cs) == [i \in 1..Len(cs) |-> [f |-> cs[i].f, idx |-> cs[i].idx, sid |-> cs[i].sid, start |-> cs[i].start, end |-> cs[i].end]]
ResJ(q, op) ==
  LET r == Apply(q, op, ScriptList[1]) IN
  IF r.k = "err" THEN [k |-> "err", cls |-> r.cls]
  ELSE [k |-> r.k, cls |-> r.cls, act |-> r.act, eif |-> r.eif, iif |-> r.iif, alert |-> r.alert,
        ci |-> r.p.ci, ch |-> r.p.ch, sid |-> SidJ(r.p.inf),
        ai |-> [i \in 1..Len(r.p.hop) |-> r.p.hop[i].ai], ae |-> [i \in 1..Len(r.p.hop) |-> r.p.hop[i].ae],
        calls |-> CallsJ(r.calls),
        scripts |-> [s \in 1..4 |-> LET rs == Apply(q, op, ScriptList[s]) IN [k |-> rs.k, ncalls |-> Len(rs.calls)]]]
Cell(q) ==
  [sl |-> q.sl, ci |-> q.ci, ch |-> q.ch, cd |-> [i \in 1..Len(q.inf) |-> q.inf[i].cd],
   al |-> IF Len(q.hop) > 0 THEN q.hop[1].ai ELSE FALSE,
   pf |-> IF Len(q.inf) > 0 THEN q.inf[1].peer ELSE FALSE,
   ing_int |-> ResJ(q, "ing_int"), ing_ext |-> ResJ(q, "ing_ext"), egr |-> ResJ(q, "egr")]
Emit == (GEN /\ n = 0) => PrintT(<<"CELL", ToJson(Cell(p))>>)
=============================================================================
