-------------------------- MODULE Trace_PathHeader --------------------------
(* Trace validation for the standard-path header API (C11, C12): every recorded  *)
(* call on the real StandardPathView must be a step of PathHeader (same result   *)
(* class, same header afterwards), and the P-layer is evaluated on what was      *)
(* observed.  Shapes are large here (segment lengths up to 63, every pointer     *)
(* value), accumulators are concrete 16-bit integers.                            *)
(* Events (ndjson, file named by env TRACE):                                     *)
(*  {"ev":"meta",...}                                                first line  *)
(*  {"ev":"reset","sl","ci","ch","inf":[{id,cd,ts,sid}],                         *)
(*                "hop":[{id,exp,in,eg,mac,ai,ae}]}          a fresh header      *)
(*  {"ev":"op","op":"rev|ing_int|ing_ext|egr","v":{cur,seg,nxt},                 *)
(*   "res":{k,act,eif,iif,alert},"unchanged":bool,"calls":[{f,idx,sid,start,end}]*)
(*   "after":{sl,ci,ch,inf:[{id,cd,sid}],curai,curae,hopsame,hop:[ids] (rev)}}   *)
(*  {"ev":"q","vexp","nseg","fe","li","ce","cin"}                 read-only calls *)
EXTENDS PathHeader, Json, IOUtils, Bitwise

Rec == ndJsonDeserialize(IOEnv.TRACE)

ConcXor(acc, mac) == acc ^^ mac

VARIABLES p,      \* the header according to the specification
          l,      \* next line
          last    \* [op, k, b, unchanged] of the last call

tvars == <<p, l, last>>

Empty == [sl |-> <<0, 0, 0>>, ci |-> 0, ch |-> 0, inf |-> <<>>, hop |-> <<>>]
TInit == p = Empty /\ l = 2 /\ last = [op |-> "none", k |-> "ok", b |-> Empty, unchanged |-> TRUE]

TReset == /\ l <= Len(Rec) /\ Rec[l].ev = "reset"
          /\ LET e == Rec[l] IN
             p' = [sl |-> e.sl, ci |-> e.ci, ch |-> e.ch, inf |-> e.inf, hop |-> e.hop]
          /\ last' = [op |-> "none", k |-> "ok", b |-> p', unchanged |-> TRUE]
          /\ l' = l + 1

Ids(s) == [i \in 1..Len(s) |-> s[i].id]
InfJ(s) == [i \in 1..Len(s) |-> [id |-> s[i].id, cd |-> s[i].cd, sid |-> s[i].sid]]

AfterMatches(e, b, q) ==
  /\ q.sl = e.after.sl /\ q.ci = e.after.ci /\ q.ch = e.after.ch
  /\ InfJ(q.inf) = e.after.inf
  /\ IF e.op = "rev" THEN Ids(q.hop) = e.after.hop
     ELSE /\ e.after.hopsame
          /\ (b.ch < Len(b.hop) => (q.hop[b.ch + 1].ai = e.after.curai /\ q.hop[b.ch + 1].ae = e.after.curae))

TOp == /\ l <= Len(Rec) /\ Rec[l].ev = "op"
       /\ LET e == Rec[l]
              VHs(idx, hop, inf, st, en) == IF idx = p.ch THEN e.v.cur ELSE e.v.nxt
              VSs(idx) == e.v.seg
              r == CASE e.op = "rev" -> LET v == ViewReverse(p) IN
                                        [k |-> IF v.ok THEN "ok" ELSE "err", act |-> "none", eif |-> 0, iif |-> 0,
                                         alert |-> FALSE, p |-> v.p, calls |-> <<>>]
                     [] e.op = "ing_int" -> Ingress(p, TRUE, VHs, VSs)
                     [] e.op = "ing_ext" -> Ingress(p, FALSE, VHs, VSs)
                     [] e.op = "egr" -> Egress(p, VHs)
          IN /\ r.k = e.res.k
             /\ (r.k # "err" => (r.act = e.res.act /\ r.eif = e.res.eif /\ r.iif = e.res.iif /\ r.alert = e.res.alert))
             /\ r.calls = e.calls
             /\ AfterMatches(e, p, r.p)
             /\ p' = r.p
             /\ last' = [op |-> e.op, k |-> e.res.k, b |-> p, unchanged |-> e.unchanged]
       /\ l' = l + 1

TQuery == /\ l <= Len(Rec) /\ Rec[l].ev = "q"
          /\ LET e == Rec[l] IN
             /\ e.vexp = ViewExpiry(p) /\ e.nseg = IterSegCount(p.sl)
             /\ e.fe = FirstEgress(p) /\ e.li = LastIngress(p)
             /\ e.ce = CurrEgress(p) /\ e.cin = CurrIngress(p)
          /\ l' = l + 1 /\ UNCHANGED <<p, last>>

TNext == TReset \/ TOp \/ TQuery
TSpec == TInit /\ [][TNext]_tvars

(* ---- P-layer on the recorded observations --------------------------------- *)
\* the real bytes were compared by the harness (field unchanged); the abstract header too
TErrIsAtomic == last.k = "err" => (last.unchanged /\ p = last.b)
TMonotone == last.op \in {"ing_int", "ing_ext", "egr"} => MonotoneCall(last.b, [k |-> last.k, p |-> p])
TEgressForward == last.op = "egr" => EgressForward(last.b, [k |-> last.k, p |-> p])
TXoverForward == last.op \in {"ing_int", "ing_ext"} => XoverForward(last.b, [k |-> last.k, p |-> p])
\* C12 on well-formed headers: the logical position survives reversal
TPosition == (last.op = "rev" /\ last.k = "ok" /\ WFFast(last.b)) =>
               /\ p.ch < Len(p.hop) /\ p.hop[p.ch + 1].id = last.b.hop[last.b.ch + 1].id
               /\ p.ci < Len(p.inf) /\ p.inf[p.ci + 1].id = last.b.inf[last.b.ci + 1].id

TraceAccepted ==
  LET d == TLCGet("stats").diameter IN
  IF d = Len(Rec) THEN TRUE
  ELSE /\ PrintT(<<"TRACE-REJECTED", "matched", d - 1, "of", Len(Rec) - 1, "first unmatched line", d + 1>>)
       /\ (d + 1 <= Len(Rec) => PrintT(<<"UNMATCHED", ToJson(Rec[d + 1])>>))
       /\ FALSE
=============================================================================
