----------------------------- MODULE PathHeader -----------------------------
(* The SCION standard-path header as the sciparse API sees it (C11, C12).        *)
(*                                                                               *)
(* I-layer: one operator per public call, transcribed from                        *)
(*   standard/view.rs    StandardPathView::{try_reverse, expiration, segments,   *)
(*                       calculate_segment_index}                                *)
(*   standard/model.rs   StandardPath::{from_view, wire_valid, encode,           *)
(*                       try_reverse, expiration}                                *)
(*   standard/routing.rs StandardPathView::{advance_ingress_with_validator,      *)
(*                       advance_egress_with_validator}                          *)
(*   dataplane_path/view.rs  first_egress/last_ingress/current_* queries         *)
(* every early return is a named outcome (field cls).                            *)
(*                                                                               *)
(* A path header p is  [sl, ci, ch, inf, hop]:                                   *)
(*   sl   <<l0,l1,l2>>  the three 6-bit segment lengths, ANY values              *)
(*   ci   0..3, ch 0..CHMOD-1   the pointers, ANY values                         *)
(*   inf  one record [id, cd, ts, sid] per NON-ZERO segment length (this is how  *)
(*        the view lays out info fields: (2,0,2) has two)                        *)
(*   hop  Total(sl) records [id, exp, in, eg, mac, ai, ae]                       *)
(* The accumulator algebra is a parameter: XorAcc(acc, mac) (symbolic = symmetric *)
(* difference of sets of MAC atoms; concrete = 16-bit XOR with the MAC prefix).  *)
EXTENDS Integers, Sequences, FiniteSets, TLC

CONSTANTS CHMOD,        \* 2^(width of CurrHF); writes to the field truncate (core/write.rs)
          U32CAP,       \* saturation bound of expiry arithmetic (u32::MAX, shifted origin)
          FIXREV,       \* TRUE: try_reverse validates before it mutates; FALSE: pinned commit
          FIXWRAP,      \* TRUE: advance refuses to move CurrHF beyond the field; FALSE: pinned
          FIXHOPS,      \* TRUE: the encoder refuses more hop fields than CurrHF can address; FALSE: pinned
          FIXOHEXP,     \* TRUE: one-hop expiry saturates; FALSE: pinned (plain addition)
          FIXOHFLG,     \* TRUE: OneHopPathView::set_second_hop clears the flags of the second hop field like the
                        \*       model (a fresh hop field); FALSE: pinned (the view keeps whatever flags were there)
          FIXOHSEC,     \* TRUE: OneHopPath::set_second_hop copies ExpTime from the first hop like the view
                        \*       (and SCION routers) do; FALSE: pinned (model writes ExpTime 0)
          PEERIMPL,     \* TRUE: SCION's peering rule (reference); FALSE: the code, which ignores the
                        \*       PEERING flag of the info field in advance_ingress / advance_egress
          XorAcc(_, _)  \* accumulator step

MAXSEGHOPS == 63
MAXPATHBYTES == 984       \* ScionHeaderPathLayout::MAX_SIZE_BYTES

Rev(s) == [i \in 1..Len(s) |-> s[Len(s) + 1 - i]]
MinOf(S) == CHOOSE x \in S : \A y \in S : x <= y

Total(sl) == sl[1] + sl[2] + sl[3]
NZ(x) == IF x > 0 THEN 1 ELSE 0
NInf(sl) == NZ(sl[1]) + NZ(sl[2]) + NZ(sl[3])            \* info_field_count
Off(sl, j) == IF j = 1 THEN 0 ELSE IF j = 2 THEN sl[1] ELSE sl[1] + sl[2]

(* ---- StandardPathView::_calculate_segment_index (seg is 0-based) ---------- *)
NoSeg == [seg |-> -1, start |-> FALSE, end |-> FALSE]
SegIndex(sl, h) ==
  IF h < sl[1] THEN [seg |-> 0, start |-> h = 0, end |-> h + 1 = sl[1]]
  ELSE IF h < sl[1] + sl[2] THEN [seg |-> 1, start |-> h = sl[1], end |-> h + 1 = sl[1] + sl[2]]
  ELSE IF h < Total(sl) THEN [seg |-> 2, start |-> h = sl[1] + sl[2], end |-> h + 1 = Total(sl)]
  ELSE NoSeg

(* ---- SegmentIterator: stops at the first zero length ---------------------- *)
IterSegCount(sl) == IF sl[1] = 0 THEN 0 ELSE IF sl[2] = 0 THEN 1 ELSE IF sl[3] = 0 THEN 2 ELSE 3
ViewSegments(p) ==
  [j \in 1..IterSegCount(p.sl) |->
     [inf |-> p.inf[j], hops |-> SubSeq(p.hop, Off(p.sl, j) + 1, Off(p.sl, j) + p.sl[j])]]

(* ---- well-formedness in the sense of C12: p is the encoding of a model the  *)
(*      encoder accepts (non-zero prefix of lengths, pointers inside)          *)
PrefixShape(sl) == sl[1] > 0 /\ (sl[2] = 0 => sl[3] = 0)

(* ---- StandardPathView::try_reverse ---------------------------------------- *)
RevSwap(sl) == CASE IterSegCount(sl) = 2 -> <<sl[2], sl[1], sl[3]>>
                 [] IterSegCount(sl) = 3 -> <<sl[3], sl[2], sl[1]>>
                 [] OTHER -> sl
Toggle(i) == [i EXCEPT !.cd = ~i.cd]
ViewReverse(p) ==
  LET n == IterSegCount(p.sl)       \* the (0,..)/(_,0,_)/(_,_,0) match is the same count
      tot == Total(p.sl) IN
  IF n = 0 THEN [ok |-> FALSE, cls |-> "no_segments", p |-> p]
  ELSE IF p.ch >= tot
       THEN [ok |-> FALSE, cls |-> "hop_oob", p |-> IF FIXREV THEN p ELSE [p EXCEPT !.sl = RevSwap(p.sl)]]
  ELSE IF p.ci >= n
       THEN [ok |-> FALSE, cls |-> "info_oob", p |-> IF FIXREV THEN p ELSE [p EXCEPT !.sl = RevSwap(p.sl)]]
  ELSE [ok |-> TRUE, cls |-> "ok",
        p |-> [sl |-> RevSwap(p.sl), ci |-> n - 1 - p.ci, ch |-> (tot - 1 - p.ch) % CHMOD,
               inf |-> Rev([j \in 1..Len(p.inf) |-> Toggle(p.inf[j])]),
               hop |-> Rev(p.hop)]]

(* ---- StandardPath (owned model) ------------------------------------------- *)
\* from_view: info fields zipped with the FIRST NInf lengths, hop fields taken in order
ModelOf(p) ==
  [ci |-> p.ci, ch |-> p.ch,
   segs |-> [j \in 1..NInf(p.sl) |->
               [inf |-> p.inf[j], hops |-> SubSeq(p.hop, Off(p.sl, j) + 1, Off(p.sl, j) + p.sl[j])]]]

SegLen(m, j) == IF j <= Len(m.segs) THEN Len(m.segs[j].hops) ELSE 0
MHops(m) == SegLen(m, 1) + SegLen(m, 2) + SegLen(m, 3)
MBytes(m) == 4 + 8 * NZ(SegLen(m, 1)) + 8 * NZ(SegLen(m, 2)) + 8 * NZ(SegLen(m, 3)) + 12 * MHops(m)

ModelValid(m) ==        \* wire_valid
  /\ MBytes(m) <= MAXPATHBYTES
  /\ (FIXHOPS => MHops(m) <= CHMOD)
  /\ Len(m.segs) \in 1..3
  /\ m.ch < MHops(m)
  /\ m.ci < Len(m.segs)
  /\ \A j \in 1..Len(m.segs) : Len(m.segs[j].hops) \in 1..MAXSEGHOPS

Concat3(a, b, c) == a \o b \o c
Encode(m) ==            \* encode_unchecked; pointer writes truncate
  [sl |-> <<SegLen(m, 1), SegLen(m, 2), SegLen(m, 3)>>,
   ci |-> m.ci % 4, ch |-> m.ch % CHMOD,
   inf |-> [j \in 1..Len(m.segs) |-> m.segs[j].inf],
   hop |-> Concat3(IF Len(m.segs) >= 1 THEN m.segs[1].hops ELSE <<>>,
                   IF Len(m.segs) >= 2 THEN m.segs[2].hops ELSE <<>>,
                   IF Len(m.segs) >= 3 THEN m.segs[3].hops ELSE <<>>)]

ModelReverse(m) ==      \* StandardPath::try_reverse
  LET n == Len(m.segs) IN
  IF n = 0 THEN [ok |-> FALSE, cls |-> "no_segments", m |-> m]
  ELSE IF m.ch >= MHops(m) THEN [ok |-> FALSE, cls |-> "hop_oob", m |-> m]
  ELSE IF m.ci >= n THEN [ok |-> FALSE, cls |-> "info_oob", m |-> m]
  ELSE [ok |-> TRUE, cls |-> "ok",
        m |-> [ci |-> n - 1 - m.ci, ch |-> MHops(m) - 1 - m.ch,
               segs |-> Rev([j \in 1..n |-> [inf |-> Toggle(m.segs[j].inf), hops |-> Rev(m.segs[j].hops)]])]]

\* p is the encoding of an accepted model
WF(p) == ModelValid(ModelOf(p)) /\ Encode(ModelOf(p)) = p
\* ... which is the case exactly for a non-zero prefix of segment lengths with both pointers inside
\* (equivalence checked as invariant WFEquiv of MC_PathOps)
WFFast(p) == /\ PrefixShape(p.sl) /\ p.ch < Total(p.sl) /\ p.ci < NInf(p.sl)
             /\ 4 + 8 * NInf(p.sl) + 12 * Total(p.sl) <= MAXPATHBYTES
             /\ (FIXHOPS => Total(p.sl) <= CHMOD)
             /\ p.sl[1] <= MAXSEGHOPS /\ p.sl[2] <= MAXSEGHOPS /\ p.sl[3] <= MAXSEGHOPS

(* ---- expiry ---------------------------------------------------------------- *)
Dur(e) == ((e + 1) * 675) \div 2            \* exp_time_to_duration(e).as_secs()
SatAdd(a, b) == IF a + b > U32CAP THEN U32CAP ELSE a + b
SegExpiry(s) == SatAdd(s.inf.ts, Dur(MinOf({s.hops[k].exp : k \in 1..Len(s.hops)})))
ViewExpiry(p) ==        \* StandardPathView::expiration
  LET ss == ViewSegments(p) IN
  IF Len(ss) = 0 THEN 0 ELSE MinOf({U32CAP} \cup {SegExpiry(ss[j]) : j \in 1..Len(ss)})
ModelExpiry(m) ==       \* StandardPath::expiration
  IF \E j \in 1..Len(m.segs) : Len(m.segs[j].hops) = 0 THEN 0
  ELSE MinOf({U32CAP} \cup {SegExpiry(m.segs[j]) : j \in 1..Len(m.segs)})

(* ---- interface queries (ScionDpPathViewExt) ------------------------------- *)
None == -1
TravelIn(h, i) == IF i.cd THEN h.in ELSE h.eg
TravelEg(h, i) == IF i.cd THEN h.eg ELSE h.in
FirstEgress(p) == IF Len(p.inf) = 0 \/ Len(p.hop) = 0 THEN None ELSE TravelEg(p.hop[1], p.inf[1])
LastIngress(p) == IF Len(p.inf) = 0 \/ Len(p.hop) = 0 THEN None ELSE TravelIn(p.hop[Len(p.hop)], p.inf[Len(p.inf)])
CurrEgress(p) == IF p.ci >= Len(p.inf) \/ p.ch >= Len(p.hop) THEN None ELSE TravelEg(p.hop[p.ch + 1], p.inf[p.ci + 1])
CurrIngress(p) == IF p.ci >= Len(p.inf) \/ p.ch >= Len(p.hop) THEN None ELSE TravelIn(p.hop[p.ch + 1], p.inf[p.ci + 1])


(* ---- one-hop paths (onehop/view.rs, onehop/model.rs, dataplane_path/model.rs) -------------- *)
(* o = [inf, h1, h2].  The view reverses in place; DpPath::try_reverse turns the one-hop path    *)
(* into a standard path with the two hop fields exchanged (documented).                          *)
OneHopReverse(o) ==        \* OneHopPathView::try_reverse == OneHopPath::try_reverse
  IF o.h2.in = 0 THEN [ok |-> FALSE, o |-> o]
  ELSE [ok |-> TRUE, o |-> [inf |-> Toggle(o.inf), h1 |-> o.h2, h2 |-> o.h1]]
OneHopToStdReversed(o) ==  \* OneHopPath::try_into_reversed_standard_path
  IF o.h2.in = 0 THEN [ok |-> FALSE, m |-> [ci |-> 0, ch |-> 0, segs |-> <<>>]]
  ELSE [ok |-> TRUE, m |-> [ci |-> 0, ch |-> 0, segs |-> <<[inf |-> Toggle(o.inf), hops |-> <<o.h2, o.h1>>]>>]]
\* OneHopPathView::expiration adds without saturation (FIXOHEXP = FALSE: pinned commit; the sum
\* overflows u32 for timestamps near the end of the epoch)
OneHopExpiry(o) ==
  LET d == Dur(IF o.h1.exp <= o.h2.exp THEN o.h1.exp ELSE o.h2.exp) IN
  IF o.inf.ts + d > U32CAP THEN (IF FIXOHEXP THEN [ok |-> TRUE, v |-> U32CAP] ELSE [ok |-> FALSE, v |-> 0])
  ELSE [ok |-> TRUE, v |-> o.inf.ts + d]
\* set_second_hop(ingress, key, segment_id_was_advanced): the receiving router fills the second hop
\* field; its MAC is taken over the accumulator AFTER the first hop (symbolic MAC record)
OneHopSecond(o, ifin, key, adv, exp) ==
  [id |-> 2, exp |-> exp, in |-> ifin, eg |-> 0, ai |-> FALSE, ae |-> FALSE,
   mac |-> <<"mac", key, IF adv THEN o.inf.sid ELSE XorAcc(o.inf.sid, o.h1.mac), o.inf.ts, exp, ifin, 0>>]
OneHopSetSecondView(o, ifin, key, adv) ==
  LET f == OneHopSecond(o, ifin, key, adv, o.h1.exp) IN
  [o EXCEPT !.h2 = IF FIXOHFLG THEN f ELSE [f EXCEPT !.ai = o.h2.ai, !.ae = o.h2.ae]]
OneHopSetSecondModel(o, ifin, key, adv) ==
  [o EXCEPT !.h2 = OneHopSecond(o, ifin, key, adv, IF FIXOHSEC THEN o.h1.exp ELSE 0)]
OneHopFirstEgress(o) == TravelEg(o.h1, o.inf)
OneHopLastIngress(o) == TravelIn(o.h2, o.inf)

(* ---- peering (SCION data plane; scionproto router determinePeer) --------------------------- *)
(* A peering path has exactly two segments, both with the P flag; the LAST hop field of the first *)
(* and the FIRST hop field of the second segment are peer hop fields, owned by the two ASes on    *)
(* either side of the peering link (no crossover AS).  A peer hop field is MACed under the        *)
(* accumulator AFTER the AS's regular hop field (beta_{i+1}); at a peer hop field the SegID is    *)
(* not updated, and the segment change happens at egress (CurrHF and CurrINF move together).     *)
IsPeer(i) == IF "peer" \in DOMAIN i THEN i.peer ELSE FALSE
PeerHere(p, si) ==
  /\ PEERIMPL
  /\ p.ci < Len(p.inf) /\ IsPeer(p.inf[p.ci + 1])
  /\ p.sl[3] = 0
  /\ ((p.ci = 0 /\ si.end) \/ (p.ci = 1 /\ si.start))

(* ---- advance (routing.rs) --------------------------------------------------- *)
(* v = [cur, seg, nxt]: verdicts of the validator (TRUE = accepts) for           *)
(* validate_hop(current), validate_segment_change, validate_hop(next).           *)
(* VH(idx, hop, inf, start, end) / VS(idx) let the caller compute the verdict    *)
(* from what the validator is shown (used with symbolic MACs).                   *)
ErrRes(p, c) == [k |-> "err", cls |-> c, act |-> "none", eif |-> 0, iif |-> 0, alert |-> FALSE, p |-> p, calls |-> <<>>]

PtrFits(h) == FIXWRAP => h < CHMOD

Ingress(p, internal, VH(_, _, _, _, _), VS(_)) ==
  LET h == p.ch
      si == SegIndex(p.sl, h)
      tot == Total(p.sl) IN
  IF si = NoSeg THEN ErrRes(p, "hop_oob")
  ELSE IF si.start /\ si.end /\ ~(si.seg = p.ci /\ PeerHere(p, si)) THEN ErrRes(p, "single_hop_segment")
  ELSE IF si.seg # p.ci THEN ErrRes(p, "segment_mismatch")
  ELSE IF p.ci >= NInf(p.sl) THEN ErrRes(p, "info_oob")
  ELSE
    LET final == h + 1 >= tot
        pk == PeerHere(p, si)
        inf == p.inf[p.ci + 1]
        hop == p.hop[h + 1]
        inf1 == IF ~internal /\ ~inf.cd /\ ~pk THEN [inf EXCEPT !.sid = XorAcc(@, hop.mac)] ELSE inf
        alert == IF inf.cd THEN hop.ai ELSE hop.ae
        hop1 == IF ~internal /\ alert
                THEN (IF inf.cd THEN [hop EXCEPT !.ai = FALSE] ELSE [hop EXCEPT !.ae = FALSE])
                ELSE hop
        iif == TravelIn(hop, inf)
        vcur == VH(h, hop, inf1, si.start, si.end)
        c1 == <<[f |-> "hop", idx |-> h, sid |-> inf1.sid, start |-> si.start, end |-> si.end]>>
        commit(q) == [q EXCEPT !.inf[p.ci + 1] = inf1, !.hop[h + 1] = hop1]
    IN
    IF final      \* final => si.end (the unreachable!() arm is really unreachable)
    THEN [k |-> IF vcur THEN "ok" ELSE "vfail", cls |-> "ok", act |-> "local", eif |-> 0, iif |-> iif,
          alert |-> alert, p |-> commit(p), calls |-> c1]
    ELSE IF ~si.end \/ pk      \* (reference peering: no crossover at a peer hop field, it leaves by its own egress)
    THEN [k |-> IF vcur THEN "ok" ELSE "vfail", cls |-> "ok", act |-> "egress", eif |-> TravelEg(hop1, inf1),
          iif |-> iif, alert |-> alert, p |-> commit(p), calls |-> c1]
    ELSE  \* segment change; hop h+1 exists because ~final
      \* (the validator has already been shown the current hop field when these two fail)
      IF si.seg + 1 >= NInf(p.sl) THEN [ErrRes(p, "info_oob") EXCEPT !.calls = c1]
      ELSE IF ~PtrFits(h + 1) THEN [ErrRes(p, "hop_oob") EXCEPT !.calls = c1]
      ELSE
        LET nh == p.hop[h + 2]
            ni == p.inf[si.seg + 2]
            vseg == VS(h)
            vnxt == VH(h + 1, nh, ni, TRUE, FALSE)
            c2 == IF vcur THEN <<[f |-> "seg", idx |-> h, sid |-> inf1.sid, start |-> FALSE, end |-> FALSE]>> ELSE <<>>
            c3 == IF vcur /\ vseg THEN <<[f |-> "hop", idx |-> h + 1, sid |-> ni.sid, start |-> TRUE, end |-> FALSE]>> ELSE <<>>
        IN [k |-> IF vcur /\ vseg /\ vnxt THEN "ok" ELSE "vfail", cls |-> "ok", act |-> "egress",
            eif |-> TravelEg(nh, ni), iif |-> iif, alert |-> alert,
            p |-> commit([p EXCEPT !.ch = (h + 1) % CHMOD, !.ci = si.seg + 1]),
            calls |-> c1 \o c2 \o c3]

Egress(p, VH(_, _, _, _, _)) ==
  LET h == p.ch
      si == SegIndex(p.sl, h)
      tot == Total(p.sl) IN
  IF si = NoSeg THEN ErrRes(p, "hop_oob")
  ELSE IF si.seg # p.ci THEN ErrRes(p, "segment_mismatch")
  ELSE IF p.ci >= NInf(p.sl) THEN ErrRes(p, "info_oob")
  ELSE IF h + 1 >= tot THEN ErrRes(p, "final_hop")
  ELSE IF si.end /\ ~PeerHere(p, si) THEN ErrRes(p, "segment_end")
  ELSE IF si.end /\ p.ci + 1 >= NInf(p.sl) THEN ErrRes(p, "info_oob")
  ELSE IF ~PtrFits(h + 1) THEN ErrRes(p, "hop_oob")
  ELSE
    LET pk == PeerHere(p, si)
        inf == p.inf[p.ci + 1]
        hop == p.hop[h + 1]
        vcur == VH(h, hop, inf, si.start, si.end)
        inf1 == IF inf.cd /\ ~pk THEN [inf EXCEPT !.sid = XorAcc(@, hop.mac)] ELSE inf
        alert == IF inf.cd THEN hop.ae ELSE hop.ai
        hop1 == IF alert THEN (IF inf.cd THEN [hop EXCEPT !.ae = FALSE] ELSE [hop EXCEPT !.ai = FALSE]) ELSE hop
    IN [k |-> IF vcur THEN "ok" ELSE "vfail", cls |-> "ok", act |-> "egress", eif |-> TravelEg(hop1, inf1),
        iif |-> 0, alert |-> alert,
        p |-> [p EXCEPT !.inf[p.ci + 1] = inf1, !.hop[h + 1] = hop1, !.ch = (h + 1) % CHMOD,
                        !.ci = IF si.end THEN p.ci + 1 ELSE p.ci],    \* (si.end only at a reference peer hop field)
        calls |-> <<[f |-> "hop", idx |-> h, sid |-> inf.sid, start |-> si.start, end |-> si.end]>>]

(* ---- P-layer, stated over one call: before-state b, result r ---------------- *)
\* C11/C12: an operation that reports an error leaves the bytes as they were
ErrIsAtomicCall(b, r) == r.k = "err" => r.p = b
\* C11: no call moves a pointer backwards; a call that succeeds moves CurrHF by at most one, and
\* CurrINF moves (by one) exactly when the hop pointer crosses into the next segment.
\* A validation failure (ValidationFailed) is a rejection after processing: only "not backwards".
MonotoneCall(b, r) ==
  /\ r.k = "vfail" => (r.p.ch >= b.ch /\ r.p.ci >= b.ci)
  /\ r.k = "ok" =>
      /\ r.p.ch \in {b.ch, b.ch + 1}
      /\ r.p.ci \in {b.ci, b.ci + 1}
      /\ (r.p.ci = b.ci + 1 => r.p.ch = b.ch + 1)
      /\ r.p.sl = b.sl
      \* CurrINF moves exactly when CurrHF crosses into another segment of the segment table
      /\ LET s0 == SegIndex(b.sl, b.ch).seg
             s1 == SegIndex(b.sl, r.p.ch).seg IN
         (r.p.ch # b.ch /\ s1 # -1) => ((r.p.ci = b.ci + 1) <=> (s1 # s0))
\* an egress call that succeeds is a forward step: strictly larger CurrHF
EgressForward(b, r) == r.k = "ok" => r.p.ch = b.ch + 1
\* an ingress call that asks for forwarding out of the *next* segment has moved both pointers
XoverForward(b, r) == (r.k = "ok" /\ r.p.ci # b.ci) => (r.p.ch = b.ch + 1 /\ r.p.ci = b.ci + 1)
=============================================================================
