SPECIFICATION MCSpec
VIEW MCView
CONSTANTS
  U = "A"
  Paths <- UPaths
  HopCount <- UHopCount
  Allowed <- UAllowed
  Issues <- UIssues
  IssueHits <- UHits
  IssuePen <- UPen
  IssueApplies <- UApplies
  BackoffTab <- MCBackoffTab
  RelTab <- MCRelTab
  IssTab <- MCIssTab
  Threshold = 2
  MinDelay = 1
  Interval = 4
  IdlePeriod = 5
  MaxCache = 2
  IssueCap = 2
  ChanCap = 2
  Dedup = 1
  SwapThr = 5000
  Late = 1
  FILTER_ALL = TRUE
  FIX_EXPIRY = TRUE
  FIX_FIFO = TRUE
  ExpChoices = {1, 3, 6}
  Depth = 5
  Horizon = 9
  AdvSet = {1, 2, 3, 4}
  ReportSet = {1}
  BadSet = {1}
  B1 = 2
  B2 = 3
  B3 = 3
  GEN = FALSE
  ViewDepth = 1
INVARIANTS
  PolicyHonoured Provenance ActiveInCache
  LiveAtHandout NoStarvation CacheBound IssueMapBound IssueFifoBound RefetchWindow NoWorkerPanic
  SteerAway Recovers IrrelevantReportNoChange
  Emit
