SPECIFICATION TSpec
CONSTANTS
  Callers <- TraceCallers
  Kind <- TraceKind
  KeyOf <- TraceKeyOf
  NW <- TraceNW
  Keys = {1, 2}
  MaxFetch = 1000
  CanCancel = {}
  ATOMIC = TRUE
  ENSURE_ATOMIC = TRUE
  EXIT_NOTIFY = TRUE
  COOP = FALSE
  LINGER = TRUE
  RECLAIM = TRUE
  USED = FALSE
INVARIANTS SingleWorker DeadIsError HandleAfterDropIsError Furthest
POSTCONDITION TraceAccepted
CHECK_DEADLOCK FALSE
