----------------------------- MODULE MC_PathSet -----------------------------
(* Exhaustive exploration of PathSet over every history of at most Depth steps   *)
(* from {maintenance tick with any lookup answer, report, ingest, send, advance} *)
(* inside the time horizon.  The same module is the generator of replay          *)
(* histories (GEN = TRUE: one line per distinct state, history hidden by VIEW).  *)
(*                                                                               *)
(* Universes (path sets with their interfaces, issue targets) are fixed here and *)
(* mirrored, with concrete interfaces, in lib/pathset_common.py (UNIVERSES); the *)
(* check compares both (ASSUME prints the abstract one).                         *)
EXTENDS PathSet, Json

CONSTANTS U,          \* universe selector: "A" (timing/policy), "B" (failover)
          ExpChoices, \* lifetimes a lookup may assign: expiry = now + e
          Depth, Horizon,
          AdvSet,     \* deltas by which the clock may advance in one step
          ReportSet,  \* issues the environment may report in this configuration
          BadSet,     \* path ids a lookup may also return as an object the policies reject (no / changed metadata)
          B1, B2, B3, \* backoff durations after 1, 2, >= 3 consecutive failures
          GEN,
          ViewDepth   \* 1 or 2: how many trailing steps distinguish histories in generation mode

VARIABLES h,         \* history (hidden from the fingerprint by VIEW)
          lastAct    \* the last step taken; part of the view in generation mode only, so that one history is printed
                     \* per distinct (state, last step): lookups that differ only in paths the filter removes lead to
                     \* the same state but are different tests of the code

\* ---- universe A: 3 allowed paths (1,2 equally long, 3 longer), path 4 violates the policy; one transit issue
\* ---- universe B: paths 1,2 share the first-hop interface, path 3 is disjoint and longer
UPaths    == IF U = "A" THEN {1, 2, 3, 4} ELSE {1, 2, 3}
UHopCount == IF U = "A" THEN (1 :> 3) @@ (2 :> 3) @@ (3 :> 4) @@ (4 :> 3)
                        ELSE (1 :> 3) @@ (2 :> 3) @@ (3 :> 4)
UAllowed  == IF U = "A" THEN {1, 2, 3} ELSE {1, 2, 3}
UIssues   == IF U = "A" THEN {1, 2, 3} ELSE {1, 2, 3, 4, 5, 6}
\* A: 1 = interface down behind path 1's transit AS, 2 = same on path 2, 3 = matches nothing
\* B: 1 = transit egress of path 1; 2 = source egress shared by paths 1,2 (SCMP); 3 = the same as a local
\*    first-hop send failure; 4 = transit ingress/egress pair of path 3 (internal connectivity);
\*    5 = matches nothing; 6 = first hop of another source AS (does not apply to the pair)
UHits     == IF U = "A" THEN (1 :> {1, 3}) @@ (2 :> {2}) @@ (3 :> {})
                        ELSE (1 :> {1}) @@ (2 :> {1, 2}) @@ (3 :> {1, 2}) @@ (4 :> {3}) @@ (5 :> {}) @@ (6 :> {})
UPen      == IF U = "A" THEN (1 :> 10000) @@ (2 :> 10000) @@ (3 :> 10000)
                        ELSE (1 :> 10000) @@ (2 :> 10000) @@ (3 :> 4000) @@ (4 :> 10000) @@ (5 :> 10000) @@ (6 :> 4000)
UApplies  == IF U = "A" THEN (1 :> TRUE) @@ (2 :> TRUE) @@ (3 :> TRUE)
                        ELSE (1 :> TRUE) @@ (2 :> TRUE) @@ (3 :> TRUE) @@ (4 :> TRUE) @@ (5 :> TRUE) @@ (6 :> FALSE)

\* backoff.duration(1), duration(2), duration(n >= 3) with jitter 0 (default {min 1, factor 2, max 3}: 2, 3, 3)
MCBackoffTab == <<B1, B2, B3>>
\* half-lives: reliability 90 s = 3 ticks of 30 s, cached issue 30 s = 1 tick
MCRelTab == <<10000, 7937, 6300>>
MCIssTab == <<10000>>

ASSUME PrintT(<<"UNIVERSE", ToJson([u |-> U, paths |-> UPaths, hops |-> UHopCount, allowed |-> UAllowed,
                                    issues |-> UIssues, hits |-> UHits, pen |-> UPen, applies |-> UApplies])>>)
\* apply_cached_issues iterates a HashMap; with at most two reportable issues matching a path the result is
\* order-independent (the clamp to [-1, 1] only bites from the third penalty on)
ASSUME \A p \in UPaths : Cardinality({i \in ReportSet : p \in UHits[i]}) <= 2

\* every answer of the lookup service: a non-empty set of paths with a lifetime each, nothing, or an error
FetchOutcomes ==
  LET Partial == [UPaths -> ExpChoices \cup {0}]   \* 0 = path not returned
      Bad     == SUBSET BadSet                    \* which of the returned paths come back as objects the policies reject
  IN {[k |-> "ok", ps |-> {[id |-> p, exp |-> now + g[p], ok |-> p \notin b] : p \in {q \in UPaths : g[q] # 0}}] :
        g \in {g \in Partial : \E p \in UPaths : g[p] # 0}, b \in Bad}
     \cup {[k |-> "empty"], [k |-> "err"]}

Proj == [now |-> now, alive |-> alive,
         cache |-> [k \in 1..Len(cache) |-> [id |-> cache[k].id, exp |-> cache[k].exp, ok |-> cache[k].ok]],
         sc |-> [k \in 1..Len(cache) |-> ScoreAt(cache[k], now)],
         active |-> active, nr |-> nextRefetch, ni |-> nextIdle, failed |-> failed, used |-> used,
         imap |-> MapSize(imap), ififo |-> Len(fifo), pend |-> (chan # <<>> \/ lag), nm |-> NextMaintain, out |-> out]

\* lastAct: the last ViewDepth steps (ViewDepth = 2 also separates histories in which a step that is a no-op in the
\* spec - e.g. a duplicate report - is followed by another step: the code may have changed hidden state)
Step(a) == /\ h' = Append(h, [a |-> a, s |-> Proj'])
           /\ lastAct' = IF ViewDepth = 1 THEN <<a>> ELSE <<lastAct[Len(lastAct)], a>>

MCInit == Init /\ h = <<>> /\ lastAct = <<[a |-> "init"]>>
Bounded == Len(h) < Depth
MCTick    == Bounded /\ \E f \in FetchOutcomes \cup {[k |-> "na"]} : Tick(f) /\ Step([a |-> "tick", fetch |-> f])
MCReport  == Bounded /\ \E i \in ReportSet : Report(i) /\ Step([a |-> "report", i |-> i])
MCIngest  == Bounded /\ Ingest /\ Step([a |-> "ingest"])
MCSend    == Bounded /\ Send /\ Step([a |-> "send"])
MCAdvance == Bounded /\ \E d \in AdvSet : now + d <= Horizon /\ Advance(d) /\ Step([a |-> "adv", d |-> d])
MCNext == MCTick \/ MCReport \/ MCIngest \/ MCSend \/ MCAdvance
MCSpec == MCInit /\ [][MCNext]_<<vars, h, lastAct>>

\* the history h and the unbounded ghost everOk are hidden; BFS reaches every state first at its minimal depth
MCView == <<now, alive, cache, active, nextRefetch, nextIdle, failed, used, imap, fifo, chan, lag, out,
            lastOk, lastFetch, lastAcc, IF GEN THEN lastAct ELSE 0>>

Emit == GEN => (h = <<>> \/ PrintT(<<"REPLAY", ToJson(h)>>))
=============================================================================
