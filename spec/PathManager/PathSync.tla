------------------------------ MODULE PathSync ------------------------------
(***************************************************************************)
(* Concurrency skeleton of the endhost path manager (property C20).        *)
(*                                                                         *)
(* I-layer: one action per critical section / lock-free access of          *)
(*   crates/scion-stack/src/path/manager.rs         (MultiPathManager)     *)
(*   crates/scion-stack/src/path/manager/pathset.rs (PathSet worker,       *)
(*                                                   PathSetHandle)        *)
(*                                                                         *)
(*   caller (path / path_wait)        Start (peek_with + try_active_path)  *)
(*                                    Ensure (entry_sync: occupied/vacant) *)
(*                                    ActiveLoad (handle.active_path: used *)
(*                                       flag, lock-free load)             *)
(*                                    CheckReg (await_ongoing_update: the  *)
(*                                       check and notified_owned() under  *)
(*                                       PathSetSharedState::sync)         *)
(*                                    Wake, Final (load + current_error)   *)
(*   caller (cached_path)             Start, Contains, Ensure              *)
(*   caller (a PathSetHandle kept by somebody: kind "handle")              *)
(*                                    GetHandle, ActiveLoad ... Final      *)
(*   worker (PathSet::manage task)    FirstPoll (upgrade), BeginFetch      *)
(*                                       (ongoing:=Some under sync)        *)
(*                                    FetchReturn(o) (fetcher answered;    *)
(*                                       current_error / active published) *)
(*                                    Finish (ongoing:=None, initialized,  *)
(*                                       notify_waiters under sync)        *)
(*                                    Refetch, IdleCheck, StopExit (select)*)
(*                                    ExitUpgrade, ExitRemove              *)
(*                                       (stop_managing_paths BY KEY),     *)
(*                                       ExitNotify, ExitClear             *)
(*   user                             Stop (stop_managing_paths), Drop     *)
(*   scc::HashIndex                   Reclaim: a removed entry is dropped  *)
(*                                       (PathSetTask::drop => cancel)     *)
(*                                       only LATER (epoch reclamation)    *)
(*                                                                         *)
(* tokio's Notify: a Notified future sees every notify_waiters() issued    *)
(* after its creation.  Modelled by one `notified` flag per caller that is *)
(* set by every notify of the worker the caller is registered with.  No    *)
(* epoch counters (they would make the state space infinite).              *)
(*                                                                         *)
(* The manager object (Arc<MultiPathManagerInner>) lives while the user    *)
(* holds it, while an API call borrows it, and while a worker holds the    *)
(* upgraded reference from its upgrade() until the end of the fetch, and   *)
(* during its exit-path removal: `Alive`.                                  *)
(* Otherwise workers only hold a Weak.                                     *)
(* When it dies the map entries are dropped (cancel) and the issue channel *)
(* closes, which a sleeping worker observes: StopExit.                     *)
(*                                                                         *)
(* Mutants kept for the oracle self-check:                                 *)
(*   ATOMIC = FALSE         registration after the sync lock is released   *)
(*   ENSURE_ATOMIC = FALSE  contains() then insert instead of entry API    *)
(*   EXIT_NOTIFY = FALSE    exit path forgets notify_waiters               *)
(***************************************************************************)
EXTENDS Naturals, FiniteSets, Sequences, TLC

CONSTANTS
  Callers,        \* set of caller ids (strings)
  NW,             \* number of worker generations available (Workers == 1..NW)
  Keys,           \* set of (src,dst) pairs
  Kind,           \* [Callers -> {"wait","cached","handle"}]
  KeyOf,          \* [Callers -> Keys]: pair an API caller asks for
  MaxFetch,       \* fetches per worker
  CanCancel,      \* subset of Callers whose future may be dropped while waiting (path_timeout)
  ATOMIC, ENSURE_ATOMIC, EXIT_NOTIFY,
  COOP,           \* TRUE: cooperative scheduling of a current_thread runtime (replay mode):
                  \*       a task keeps the CPU until its next pending await; external events
                  \*       (gates, timers, user calls) only happen when everything is blocked
  LINGER,         \* TRUE: a finished API caller keeps its clone of the manager until Release
                  \*       (trace validation: the instant of the release is not observable)
  RECLAIM,        \* TRUE: deferred drop of removed map entries may happen (cancels the orphan)
  USED            \* TRUE: track was_used_in_idle_period (idle check re-arms when set);
                  \* FALSE: over-approximation, an idle check may exit whenever the worker sleeps

Workers == 1..NW
None == 0
Outcomes == {"ok", "empty", "err"}

VARIABLES
  managed,    \* [Keys -> Workers \cup {None}]   managed_paths
  limbo,      \* workers whose map entry was removed but not yet dropped (no cancel yet)
  removed,    \* ghost: workers whose map entry was removed (by anybody)
  cancelled,  \* workers whose CancellationToken fired
  wpc, wkey, init, ongoing, err, active, used, fetches,
  userHeld,   \* the user still holds (a clone of) the MultiPathManager
  cpc, h, notified, res,
  linger,     \* finished API callers that still hold their clone of the manager (LINGER only)
  runC, runW  \* COOP only: the caller / worker task that holds the CPU ("none" / 0: CPU free)

wvars == <<wpc, wkey, init, ongoing, err, active, used, fetches>>
cvars == <<cpc, h, notified, res, linger>>
mvars == <<managed, limbo, removed, cancelled, userHeld>>
running == <<runC, runW>>
vars  == <<mvars, wvars, cvars, running>>

WPC == {"unborn", "spawned", "starting", "fetching", "finishing", "sleeping", "exiting", "removing", "exitnotify", "clearing", "dead"}
CPC == {"idle", "contains", "ensure", "insert", "have", "check", "late", "waiting", "final", "done"}

TypeOK ==
  /\ managed \in [Keys -> Workers \cup {None}]
  /\ limbo \subseteq Workers /\ removed \subseteq Workers /\ cancelled \subseteq Workers
  /\ wpc \in [Workers -> WPC]
  /\ wkey \in [Workers -> Keys \cup {None}]
  /\ init \in [Workers -> BOOLEAN] /\ ongoing \in [Workers -> BOOLEAN]
  /\ err \in [Workers -> BOOLEAN] /\ active \in [Workers -> BOOLEAN]
  /\ used \in [Workers -> BOOLEAN]
  /\ fetches \in [Workers -> 0..MaxFetch]
  /\ userHeld \in BOOLEAN
  /\ cpc \in [Callers -> CPC]
  /\ h \in [Callers -> Workers \cup {None}]
  /\ notified \in [Callers -> BOOLEAN]
  /\ res \in [Callers -> {"", "path", "error", "none", "cancelled"}]
  /\ linger \subseteq Callers
  /\ runC \in Callers \cup {"none"} /\ runW \in Workers \cup {None}

Init ==
  /\ managed = [k \in Keys |-> None]
  /\ limbo = {} /\ removed = {} /\ cancelled = {}
  /\ wpc = [w \in Workers |-> "unborn"]
  /\ wkey = [w \in Workers |-> None]
  /\ init = [w \in Workers |-> FALSE] /\ ongoing = [w \in Workers |-> FALSE]
  /\ err = [w \in Workers |-> FALSE] /\ active = [w \in Workers |-> FALSE]
  /\ used = [w \in Workers |-> FALSE]
  /\ fetches = [w \in Workers |-> 0]
  /\ userHeld = TRUE
  /\ cpc = [c \in Callers |-> "idle"]
  /\ h = [c \in Callers |-> None]
  /\ notified = [c \in Callers |-> FALSE]
  /\ res = [c \in Callers |-> ""]
  /\ linger = {}
  /\ runC = "none" /\ runW = None

-----------------------------------------------------------------------------
(* derived *)
Api(c) == Kind[c] \in {"wait", "cached"}
InFlight(c) == cpc[c] \notin {"idle", "done"}
\* strong references to the manager
Alive == \/ userHeld
         \/ \E c \in Callers : Api(c) /\ (InFlight(c) \/ c \in linger)
         \/ \E w \in Workers : wpc[w] \in {"starting", "fetching", "finishing", "removing"}
Live(w) == wpc[w] \notin {"unborn", "dead"}
Unborn == {w \in Workers : wpc[w] = "unborn"}
NextWorker == CHOOSE w \in Unborn : \A v \in Unborn : w <= v

\* notify_waiters of worker w: every caller registered with w
Notify(w) == [c \in Callers |-> IF cpc[c] = "waiting" /\ h[c] = w THEN TRUE ELSE notified[c]]

\* removal of the map entry of key k (stop_managing_paths): the value is NOT dropped now
RemoveKey(k) ==
  IF managed[k] = None
  THEN UNCHANGED <<managed, limbo, removed>>
  ELSE /\ managed' = [managed EXCEPT ![k] = None]
       /\ limbo' = limbo \cup {managed[k]}
       /\ removed' = removed \cup {managed[k]}

\* outcomes of the lock-free reads of a caller, as <<next pc, result>> (shared with the
\* trace specification, which re-evaluates them at other instants)
Hit(c) == LET w == managed[KeyOf[c]] IN w # None /\ active[w]
StartOutcome(c) == IF Hit(c) THEN <<"done", "path">>
                   ELSE IF Kind[c] = "cached" THEN <<"contains", "">> ELSE <<"ensure", "">>
ContainsOutcome(c) == IF managed[KeyOf[c]] # None THEN <<"done", "none">> ELSE <<"ensure", "">>
LoadOutcome(w) == IF active[w] THEN <<"done", "path">> ELSE <<"check", "">>
FinalOutcome(w) == IF active[w] THEN <<"done", "path">> ELSE <<"done", "error">>

-----------------------------------------------------------------------------
(* cooperative scheduling (COOP): tasks are callers, workers; "dir" = the harness director *)
CBlocked(c) == cpc'[c] \in {"idle", "done"} \/ (cpc'[c] = "waiting" /\ ~notified'[c])
WBlocked(w) == wpc'[w] \in {"unborn", "spawned", "fetching", "sleeping", "dead"}
\* a freshly spawned / woken task is merely queued: it needs the CPU to be free
CpuFree == runC = "none" /\ runW = None
CSched(c) == IF COOP THEN /\ (CpuFree \/ runC = c)
                          /\ runC' = (IF CBlocked(c) THEN "none" ELSE c) /\ runW' = None
             ELSE UNCHANGED running
WSched(w) == IF COOP THEN /\ (CpuFree \/ runW = w)
                          /\ runW' = (IF WBlocked(w) THEN None ELSE w) /\ runC' = "none"
             ELSE UNCHANGED running

-----------------------------------------------------------------------------
(* internal steps of workers *)

\* first poll of the spawned task: `let Some(manager) = self.manager.upgrade() else { return .. }`
FirstPoll(w) ==
  /\ wpc[w] = "spawned"
  /\ wpc' = [wpc EXCEPT ![w] = IF Alive THEN "starting" ELSE "exiting"]
  /\ UNCHANGED <<wkey, init, ongoing, err, active, used, fetches, mvars, cvars>>
  /\ WSched(w)

\* fetch_and_update, first critical section: ongoing_start := Some(now) under sync (the worker
\* holds the upgraded reference from FirstPoll / Refetch on)
BeginFetch(w) ==
  /\ wpc[w] = "starting"
  /\ wpc' = [wpc EXCEPT ![w] = "fetching"]
  /\ ongoing' = [ongoing EXCEPT ![w] = TRUE]
  /\ fetches' = [fetches EXCEPT ![w] = @ + 1]
  /\ UNCHANGED <<wkey, init, err, active, used, mvars, cvars>>
  /\ WSched(w)

\* end of fetch_and_update: under sync: ongoing := None, initialized := true, notify_waiters
Finish(w) ==
  /\ wpc[w] = "finishing"
  /\ wpc' = [wpc EXCEPT ![w] = "sleeping"]
  /\ ongoing' = [ongoing EXCEPT ![w] = FALSE]
  /\ init' = [init EXCEPT ![w] = TRUE]
  /\ notified' = Notify(w)
  /\ UNCHANGED <<wkey, err, active, used, fetches, mvars, cpc, h, res, linger>>
  /\ WSched(w)

\* select!: cancel token fired, or the manager is gone (issue channel closed / upgrade fails)
StopExit(w) ==
  /\ wpc[w] = "sleeping"
  /\ (w \in cancelled \/ ~Alive)
  /\ wpc' = [wpc EXCEPT ![w] = "exiting"]
  /\ UNCHANGED <<wkey, init, ongoing, err, active, used, fetches, mvars, cvars>>
  /\ WSched(w)

\* exit path 1a: `if let Some(mgr) = self.manager.upgrade()`
ExitUpgrade(w) ==
  /\ wpc[w] = "exiting"
  /\ wpc' = [wpc EXCEPT ![w] = IF Alive THEN "removing" ELSE "exitnotify"]
  /\ UNCHANGED <<wkey, init, ongoing, err, active, used, fetches, mvars, cvars>>
  /\ WSched(w)

\* exit path 1b: mgr.stop_managing_paths(src,dst) -- BY KEY (the worker holds the upgraded
\* reference meanwhile)
ExitRemove(w) ==
  /\ wpc[w] = "removing"
  /\ wpc' = [wpc EXCEPT ![w] = "exitnotify"]
  /\ RemoveKey(wkey[w])
  /\ UNCHANGED <<cancelled, userHeld, wkey, init, ongoing, err, active, used, fetches, cvars>>
  /\ WSched(w)

\* exit path 2: under sync: ongoing := None, initialized := true, notify_waiters, error set
ExitNotify(w) ==
  /\ wpc[w] = "exitnotify"
  /\ wpc' = [wpc EXCEPT ![w] = "clearing"]
  /\ ongoing' = [ongoing EXCEPT ![w] = FALSE]
  /\ init' = [init EXCEPT ![w] = TRUE]
  /\ err' = [err EXCEPT ![w] = TRUE]
  /\ notified' = IF EXIT_NOTIFY THEN Notify(w) ELSE notified
  /\ UNCHANGED <<wkey, active, used, fetches, mvars, cpc, h, res, linger>>
  /\ WSched(w)

\* exit path 3: active_path.store(None); task ends
ExitClear(w) ==
  /\ wpc[w] = "clearing"
  /\ wpc' = [wpc EXCEPT ![w] = "dead"]
  /\ active' = [active EXCEPT ![w] = FALSE]
  /\ UNCHANGED <<wkey, init, ongoing, err, used, fetches, mvars, cvars>>
  /\ WSched(w)

-----------------------------------------------------------------------------
(* callers *)

Done(c, r) == /\ cpc' = [cpc EXCEPT ![c] = "done"] /\ res' = [res EXCEPT ![c] = r]
              /\ linger' = IF LINGER /\ Api(c) THEN linger \cup {c} ELSE linger

\* fast_ensure_managed_paths: contains()
Contains(c) ==
  /\ cpc[c] = "contains"
  /\ IF ContainsOutcome(c)[1] = "done" THEN Done(c, ContainsOutcome(c)[2])
     ELSE cpc' = [cpc EXCEPT ![c] = ContainsOutcome(c)[1]] /\ UNCHANGED <<res, linger>>
  /\ UNCHANGED <<mvars, wvars, h, notified>>
  /\ CSched(c)

Spawn(w, k) ==
  /\ wpc' = [wpc EXCEPT ![w] = "spawned"]
  /\ wkey' = [wkey EXCEPT ![w] = k]

AfterEnsure(c) == IF Kind[c] = "cached" THEN Done(c, "none")
                  ELSE cpc' = [cpc EXCEPT ![c] = "have"] /\ UNCHANGED <<res, linger>>

\* ensure_managed_paths: entry_sync => occupied: clone handle; vacant: PathSet::new + manage()
Ensure(c) ==
  /\ cpc[c] = "ensure"
  /\ LET k == KeyOf[c] IN
     IF managed[k] # None
     THEN /\ h' = [h EXCEPT ![c] = managed[k]]
          /\ AfterEnsure(c)
          /\ UNCHANGED <<managed, wpc, wkey>>
     ELSE IF ENSURE_ATOMIC
          THEN /\ Unborn # {}
               /\ LET w == NextWorker IN
                  /\ Spawn(w, k)
                  /\ managed' = [managed EXCEPT ![k] = w]
                  /\ h' = [h EXCEPT ![c] = w]
               /\ AfterEnsure(c)
          ELSE /\ cpc' = [cpc EXCEPT ![c] = "insert"]
               /\ UNCHANGED <<managed, wpc, wkey, h, res, linger>>
  /\ UNCHANGED <<limbo, removed, cancelled, userHeld, init, ongoing, err, active, used, fetches, notified>>
  /\ CSched(c)

\* mutant only: `if !contains(k) { insert(k, PathSet::new(..).manage()) }`: the worker is
\* spawned before the insert; a lost insert drops the task entry again (cancel)
InsertLate(c) ==
  /\ cpc[c] = "insert" /\ Unborn # {}
  /\ LET k == KeyOf[c]  w == NextWorker IN
     /\ Spawn(w, k)
     /\ IF managed[k] = None
        THEN /\ managed' = [managed EXCEPT ![k] = w] /\ h' = [h EXCEPT ![c] = w]
             /\ UNCHANGED cancelled
        ELSE /\ h' = [h EXCEPT ![c] = managed[k]] /\ cancelled' = cancelled \cup {w}
             /\ UNCHANGED managed
  /\ AfterEnsure(c)
  /\ UNCHANGED <<limbo, removed, userHeld, init, ongoing, err, active, used, fetches, notified>>
  /\ CSched(c)

\* PathSetHandle::active_path: used flag, lock-free load
ActiveLoad(c) ==
  /\ cpc[c] = "have"
  /\ used' = IF USED THEN [used EXCEPT ![h[c]] = TRUE] ELSE used
  /\ IF LoadOutcome(h[c])[1] = "done" THEN Done(c, LoadOutcome(h[c])[2])
     ELSE cpc' = [cpc EXCEPT ![c] = LoadOutcome(h[c])[1]] /\ UNCHANGED <<res, linger>>
  /\ UNCHANGED <<mvars, wpc, wkey, init, ongoing, err, active, fetches, h, notified>>
  /\ CSched(c)

\* await_ongoing_update: under sync: return if no update is pending, else create the Notified
CheckReg(c) ==
  /\ cpc[c] = "check"
  /\ IF ~ongoing[h[c]] /\ init[h[c]]
     THEN cpc' = [cpc EXCEPT ![c] = "final"] /\ UNCHANGED notified
     ELSE IF ATOMIC
          THEN /\ cpc' = [cpc EXCEPT ![c] = "waiting"]
               /\ notified' = [notified EXCEPT ![c] = FALSE]
          ELSE cpc' = [cpc EXCEPT ![c] = "late"] /\ UNCHANGED notified
  /\ UNCHANGED <<mvars, wvars, h, res, linger>>
  /\ CSched(c)

\* mutant only: the Notified future is created after the lock was released
RegisterLate(c) ==
  /\ cpc[c] = "late"
  /\ cpc' = [cpc EXCEPT ![c] = "waiting"]
  /\ notified' = [notified EXCEPT ![c] = FALSE]
  /\ UNCHANGED <<mvars, wvars, h, res, linger>>
  /\ CSched(c)

Wake(c) ==
  /\ cpc[c] = "waiting" /\ notified[c]
  /\ cpc' = [cpc EXCEPT ![c] = "final"]
  /\ UNCHANGED <<mvars, wvars, h, notified, res, linger>>
  /\ CSched(c)

\* after waiting: load active path, else current_error (or NoPathsFound): an error result
Final(c) ==
  /\ cpc[c] = "final"
  /\ Done(c, FinalOutcome(h[c])[2])
  /\ UNCHANGED <<mvars, wvars, h, notified>>
  /\ CSched(c)

-----------------------------------------------------------------------------
WInternal(w) == FirstPoll(w) \/ BeginFetch(w) \/ Finish(w) \/ StopExit(w) \/ ExitUpgrade(w) \/ ExitRemove(w) \/ ExitNotify(w) \/ ExitClear(w)
CInternal(c) == Contains(c) \/ Ensure(c) \/ InsertLate(c) \/ ActiveLoad(c) \/ CheckReg(c)
                \/ RegisterLate(c) \/ Wake(c) \/ Final(c)
Internal == (\E w \in Workers : WInternal(w)) \/ (\E c \in Callers : CInternal(c))

\* COOP: the director acts only when every task is blocked (run-to-quiescence)
Quiescent == CpuFree /\ ~ENABLED Internal
ExtOK == COOP => Quiescent

-----------------------------------------------------------------------------
(* events an environment decides: arrival of callers, the fetcher's answer, timers, the   *)
(* user's stop/drop, dropped caller futures, deferred reclamation inside scc::HashIndex   *)

\* the lookup finished with outcome o: error slot written under sync, active path published
\* (lock-free ArcSwap); far-future expiries: a failed refetch keeps the active path
FetchReturn(w, o) ==
  /\ ExtOK
  /\ wpc[w] = "fetching"
  /\ wpc' = [wpc EXCEPT ![w] = "finishing"]
  /\ err' = [err EXCEPT ![w] = (o # "ok")]
  /\ active' = [active EXCEPT ![w] = (o = "ok") \/ @]
  /\ UNCHANGED <<wkey, init, ongoing, used, fetches, mvars, cvars>>
  /\ WSched(w)

\* maintenance tick at next_idle_check: used flag set => re-arm, else exit "idle"
IdleCheck(w) ==
  /\ ExtOK /\ ~COOP
  /\ wpc[w] = "sleeping" /\ Alive
  /\ IF USED /\ used[w]
     THEN /\ used' = [used EXCEPT ![w] = FALSE] /\ UNCHANGED wpc
     ELSE /\ wpc' = [wpc EXCEPT ![w] = "exiting"] /\ UNCHANGED used
  /\ UNCHANGED <<wkey, init, ongoing, err, active, fetches, mvars, cvars>>
  /\ WSched(w)

\* replay mode: time passes until the worker goes idle (one or two idle checks)
IdleExpire(w) ==
  /\ ExtOK /\ COOP
  /\ wpc[w] = "sleeping" /\ Alive
  /\ used' = [used EXCEPT ![w] = FALSE]
  /\ wpc' = [wpc EXCEPT ![w] = "exiting"]
  /\ UNCHANGED <<wkey, init, ongoing, err, active, fetches, mvars, cvars>>
  /\ WSched(w)

\* maintenance tick at next_refetch: upgrade succeeds, maintain() goes on to fetch_and_update
Refetch(w) ==
  /\ ExtOK
  /\ wpc[w] = "sleeping" /\ Alive /\ fetches[w] < MaxFetch
  /\ wpc' = [wpc EXCEPT ![w] = "starting"]
  /\ UNCHANGED <<wkey, init, ongoing, err, active, used, fetches, mvars, cvars>>
  /\ WSched(w)

\* path()/cached_path(): peek_with(..., try_active_path): sets the used flag, loads active
Start(c) ==
  /\ ExtOK
  /\ cpc[c] = "idle" /\ Api(c) /\ userHeld
  /\ LET w == managed[KeyOf[c]] IN
     /\ used' = IF w # None /\ USED THEN [used EXCEPT ![w] = TRUE] ELSE used
     /\ IF StartOutcome(c)[1] = "done"
        THEN Done(c, StartOutcome(c)[2])
        ELSE /\ cpc' = [cpc EXCEPT ![c] = StartOutcome(c)[1]]
             /\ UNCHANGED <<res, linger>>
  /\ UNCHANGED <<mvars, wpc, wkey, init, ongoing, err, active, fetches, h, notified>>
  /\ CSched(c)

\* somebody holds a PathSetHandle of worker w and asks it for the active path
GetHandle(c, w) ==
  /\ ExtOK
  /\ cpc[c] = "idle" /\ Kind[c] = "handle" /\ wpc[w] # "unborn"
  /\ h' = [h EXCEPT ![c] = w]
  /\ cpc' = [cpc EXCEPT ![c] = "have"]
  /\ UNCHANGED <<mvars, wvars, notified, res, linger>>
  /\ CSched(c)

\* the caller's future is dropped while pending (path_timeout elapsed)
CancelWait(c) ==
  /\ ExtOK
  /\ cpc[c] = "waiting" /\ ~notified[c] /\ c \in CanCancel
  /\ Done(c, "cancelled")
  /\ UNCHANGED <<mvars, wvars, h, notified>>
  /\ CSched(c)

\* LINGER only: the owner of a finished call drops its clone of the manager
Release(c) ==
  /\ ExtOK
  /\ c \in linger
  /\ linger' = linger \ {c}
  /\ UNCHANGED <<mvars, wvars, cpc, h, notified, res, running>>

Stop(k) ==
  /\ ExtOK
  /\ userHeld /\ managed[k] # None
  /\ RemoveKey(k)
  /\ UNCHANGED <<cancelled, userHeld, wvars, cvars, running>>

Drop ==
  /\ ExtOK
  /\ userHeld /\ userHeld' = FALSE
  /\ UNCHANGED <<managed, limbo, removed, cancelled, wvars, cvars, running>>

\* scc::HashIndex drops a removed entry some time later: PathSetTask::drop cancels the token
Reclaim(w) ==
  /\ ExtOK
  /\ RECLAIM /\ w \in limbo /\ Alive
  /\ wpc[w] \in {"spawned", "starting", "fetching", "finishing", "sleeping"}   \* afterwards it is unobservable
  /\ limbo' = limbo \ {w}
  /\ cancelled' = cancelled \cup {w}
  /\ UNCHANGED <<managed, removed, userHeld, wvars, cvars, running>>

External ==
  \/ \E c \in Callers : Start(c) \/ CancelWait(c) \/ Release(c) \/ (\E w \in Workers : GetHandle(c, w))
  \/ \E w \in Workers : (\E o \in Outcomes : FetchReturn(w, o)) \/ Refetch(w) \/ Reclaim(w)
                        \/ IdleExpire(w) \/ IdleCheck(w)
  \/ \E k \in Keys : Stop(k)
  \/ Drop

Next == Internal \/ External

Fairness ==
  /\ \A w \in Workers : /\ WF_vars(FirstPoll(w)) /\ WF_vars(BeginFetch(w)) /\ WF_vars(Finish(w)) /\ WF_vars(StopExit(w))
                        /\ WF_vars(ExitUpgrade(w)) /\ WF_vars(ExitRemove(w))
                        /\ WF_vars(ExitNotify(w)) /\ WF_vars(ExitClear(w))
                        /\ WF_vars(\E o \in Outcomes : FetchReturn(w, o))   \* lookups complete
  /\ \A c \in Callers : WF_vars(CInternal(c))

Spec == Init /\ [][Next]_vars /\ Fairness

-----------------------------------------------------------------------------
(* P-layer *)

\* concurrent first requests for a pair start exactly one worker: a further worker for the
\* pair is started only after the entry of an earlier one was removed from the map
SpawnedFor(k) == {w \in Workers : wkey[w] = k}
SingleWorker ==
  \A k \in Keys :
    /\ Cardinality(SpawnedFor(k)) <= Cardinality(SpawnedFor(k) \cap removed) + 1
    /\ \A w \in SpawnedFor(k) \ removed : managed[k] = w

\* a worker that terminated leaves its handles with an error and without a path
DeadIsError == \A w \in Workers : wpc[w] = "dead" => (err[w] /\ ~active[w] /\ init[w] /\ ~ongoing[w])

AllQuiet == \A w \in Workers : wpc[w] \in {"unborn", "dead"}
\* after the manager is gone and the workers ended, a handle never yields a path
HandleAfterDropIsError ==
  (~Alive /\ AllQuiet) =>
     /\ \A w \in Workers : wpc[w] = "dead" => (err[w] /\ ~active[w])
     /\ \A c \in Callers : (cpc[c] = "final") => ~active[h[c]]

\* the manager cannot come back
DeadStaysDead == [][~Alive => ~Alive']_vars

\* liveness
HoldsHandle(c) == cpc[c] \in {"have", "check", "late", "waiting", "final"}
NoLostWakeup == \A c \in Callers : HoldsHandle(c) ~> (cpc[c] = "done")
CallersFinish == \A c \in Callers : InFlight(c) ~> (cpc[c] = "done")
DropStopsAll == (~userHeld) ~> (~Alive /\ AllQuiet)
=============================================================================
