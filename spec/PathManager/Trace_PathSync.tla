--------------------------- MODULE Trace_PathSync ---------------------------
(* Trace validation for C20: every execution of the real MultiPathManager     *)
(* recorded through the verif_sync hook must be a behaviour of PathSync.       *)
(*                                                                             *)
(* Events carry a global sequence number drawn while the lock protecting the   *)
(* described state was held (PathSetSharedState::sync for fetch_start,         *)
(* fetch_done, exit_notify, worker_exit, caller_check; the bucket lock of the  *)
(* map for map_insert, map_load).  A removal from the map (remove_sync does    *)
(* not expose its lock) is bracketed: map_remove_begin, [map_remove if an      *)
(* entry was removed], map_remove_end; it took effect at some instant in       *)
(* between (hidden HStop / HExitRemove).  Steps of the I-spec that are lock-free *)
(* in the code have no event of their own; their instant is only known to lie  *)
(* between two events of the same task:                                        *)
(*   - the caller's lock-free reads (Start = peek_with/try_active_path,         *)
(*     Contains, ActiveLoad, Final): performed EAGERLY together with the        *)
(*     preceding event of that caller and RE-EVALUATED (ReRead) whenever the    *)
(*     outcome would be different later in the window -- this explores every    *)
(*     instant of the window without keeping a "not yet read" copy of the state *)
(*   - FetchReturn (the fetcher's answer is published between the harness's     *)
(*     fetch_ret stamp and fetch_done), the worker's upgrade of its Weak before *)
(*     fetch_start, the effect of a removal (inside its                         *)
(*     bracket), a failed upgrade of the exiting worker's Weak (between exiting *)
(*     and exit_notify), the final active_path.store(None) (between             *)
(*     exit_notify and worker_exit), the release of the director's clone        *)
(*     (between drop_begin and drop), the drop of an aborted future: HIDDEN     *)
(*     steps placed by TLC                                                      *)
(*   - deferred reclamation inside scc (Reclaim) is folded into the exiting     *)
(*     event of the orphaned worker                                             *)
(*   - a finished API caller releases its clone at some instant before its      *)
(*     caller_done stamp (LINGER = TRUE, hidden HReleaseAll)                       *)
(* The trace is accepted iff some placement explains every line (POSTCONDITION  *)
(* TraceAccepted).  The P-invariants are checked on every state of every        *)
(* candidate explanation.                                                       *)
(*                                                                             *)
(*   {"ev":"meta","nw":N,"callers":{name:{kind,k}}}  first line                *)
(*   {"ev":"reset",...}                              fresh manager             *)
(*   {"ev":E,"seq","w","c","k","by","note","snap","init","ongoing","err","active"} *)
EXTENDS PathSync, Json, IOUtils

Rec == ndJsonDeserialize(IOEnv.TRACE)
\* the meta line (written by the check driver) lists every caller name of the file with its
\* kind and pair, and the largest number of workers of a run
Meta == Rec[1]
TraceCallers == DOMAIN Meta.callers
TraceKind == [c \in TraceCallers |-> Meta.callers[c].kind]
TraceKeyOf == [c \in TraceCallers |-> Meta.callers[c].k]
TraceNW == Meta.nw

VARIABLES l,           \* next line of the trace
          fresh,       \* per caller: which lock-free read produced its current pc since its last event
          pend,        \* per worker: outcome announced by fetch_ret, not yet published ("" = none)
          dropArmed,   \* the director started to drop its clone
          cancelArmed, \* callers whose task was aborted (future dropped at an unknown instant)
          rem          \* removals in progress, by remover (0 = the user, w = exiting worker w):
                       \* [st |-> "" | "armed" | "removed" | "noop" | "reported", k |-> pair]

aux == <<fresh, pend, dropArmed, cancelArmed, rem>>
Rem0 == [b \in 0..NW |-> [st |-> "", k |-> 0]]
tvars == <<vars, l, aux>>

TInit == /\ Init /\ l = 2
         /\ fresh = [c \in Callers |-> ""] /\ pend = [w \in Workers |-> ""]
         /\ dropArmed = FALSE /\ cancelArmed = {} /\ rem = Rem0

E == Rec[l]
IsCaller(c) == c \in Callers

\* caller c moves to <<pc, result>>
SetC(c, o) ==
  /\ cpc' = [cpc EXCEPT ![c] = o[1]]
  /\ res' = [res EXCEPT ![c] = o[2]]
  /\ linger' = IF o[1] = "done" /\ Api(c) THEN linger \cup {c} ELSE linger \ {c}
Now(c) == <<cpc[c], res[c]>>
Fresh(c, f) == fresh' = [fresh EXCEPT ![c] = f]

\* peek and (cached_path only) contains, both evaluated now
StartAll(c) == IF StartOutcome(c)[1] = "contains" THEN ContainsOutcome(c) ELSE StartOutcome(c)

-----------------------------------------------------------------------------
(* recorded events *)
TReset ==
  /\ E.ev = "reset"
  /\ managed' = [k \in Keys |-> None]
  /\ limbo' = {} /\ removed' = {} /\ cancelled' = {}
  /\ wpc' = [w \in Workers |-> "unborn"]
  /\ wkey' = [w \in Workers |-> None]
  /\ init' = [w \in Workers |-> FALSE] /\ ongoing' = [w \in Workers |-> FALSE]
  /\ err' = [w \in Workers |-> FALSE] /\ active' = [w \in Workers |-> FALSE]
  /\ used' = [w \in Workers |-> FALSE]
  /\ fetches' = [w \in Workers |-> 0]
  /\ userHeld' = TRUE
  /\ cpc' = [c \in Callers |-> "idle"]
  /\ h' = [c \in Callers |-> None]
  /\ notified' = [c \in Callers |-> FALSE]
  /\ res' = [c \in Callers |-> ""]
  /\ linger' = {}
  /\ runC' = "none" /\ runW' = None
  /\ fresh' = [c \in Callers |-> ""] /\ pend' = [w \in Workers |-> ""]
  /\ dropArmed' = FALSE /\ cancelArmed' = {} /\ rem' = Rem0

\* the task of an API caller was spawned with its own clone: Start (+ Contains) evaluated now
TCallerStart ==
  /\ E.ev = "caller_start" /\ IsCaller(E.c) /\ Api(E.c)
  /\ cpc[E.c] = "idle" /\ userHeld
  /\ SetC(E.c, StartAll(E.c)) /\ Fresh(E.c, "start")
  /\ UNCHANGED <<mvars, wvars, h, notified, running, pend, dropArmed, cancelArmed, rem>>

\* a task awaiting PathSetHandle::active_path of worker w was spawned: ActiveLoad evaluated now
THandleGet ==
  /\ E.ev = "handle_get" /\ IsCaller(E.c) /\ E.w \in Workers
  /\ cpc[E.c] = "idle" /\ Kind[E.c] = "handle" /\ wpc[E.w] # "unborn"
  /\ h' = [h EXCEPT ![E.c] = E.w]
  /\ SetC(E.c, LoadOutcome(E.w)) /\ Fresh(E.c, "load")
  /\ UNCHANGED <<mvars, wvars, notified, running, pend, dropArmed, cancelArmed, rem>>

\* after Ensure: cached_path returns None; path() goes on to handle.active_path()
AfterEnsureT(c, w, act) ==
  IF Kind[c] = "cached" THEN SetC(c, <<"done", "none">>) /\ Fresh(c, "")
  ELSE SetC(c, IF act THEN <<"done", "path">> ELSE <<"check", "">>) /\ Fresh(c, "load")

TMapInsert ==
  /\ E.ev = "map_insert" /\ IsCaller(E.c) /\ E.w \in Workers
  /\ cpc[E.c] = "ensure" /\ KeyOf[E.c] = E.k /\ managed[E.k] = None
  /\ Unborn # {} /\ NextWorker = E.w
  /\ Spawn(E.w, E.k)
  /\ managed' = [managed EXCEPT ![E.k] = E.w]
  /\ h' = [h EXCEPT ![E.c] = E.w]
  /\ AfterEnsureT(E.c, E.w, FALSE)
  /\ UNCHANGED <<limbo, removed, cancelled, userHeld, init, ongoing, err, active, used, fetches, notified, running,
                 pend, dropArmed, cancelArmed, rem>>

TMapLoad ==
  /\ E.ev = "map_load" /\ IsCaller(E.c) /\ E.w \in Workers
  /\ cpc[E.c] = "ensure" /\ KeyOf[E.c] = E.k /\ managed[E.k] = E.w
  /\ h' = [h EXCEPT ![E.c] = E.w]
  /\ AfterEnsureT(E.c, E.w, active[E.w])
  /\ UNCHANGED <<mvars, wvars, notified, running, pend, dropArmed, cancelArmed, rem>>

\* stop_managing_paths is about to access the map; an exiting worker has upgraded its Weak
TRemoveBegin ==
  /\ E.ev = "map_remove_begin" /\ E.by \in 0..NW /\ rem[E.by].st = ""
  /\ rem' = [rem EXCEPT ![E.by] = [st |-> "armed", k |-> E.k]]
  /\ IF E.by = 0 THEN userHeld /\ UNCHANGED vars
     ELSE wkey[E.by] = E.k /\ ExitUpgrade(E.by) /\ wpc'[E.by] = "removing"
  /\ UNCHANGED <<fresh, pend, dropArmed, cancelArmed>>

\* reported after the fact: an entry was removed
TRemoved ==
  /\ E.ev = "map_remove" /\ E.by \in 0..NW /\ rem[E.by].st = "removed"
  /\ rem' = [rem EXCEPT ![E.by].st = "reported"]
  /\ UNCHANGED <<vars, fresh, pend, dropArmed, cancelArmed>>

TRemoveEnd ==
  /\ E.ev = "map_remove_end" /\ E.by \in 0..NW /\ rem[E.by].st \in {"noop", "reported"}
  /\ rem' = [rem EXCEPT ![E.by] = [st |-> "", k |-> 0]]
  /\ UNCHANGED <<vars, fresh, pend, dropArmed, cancelArmed>>

\* first critical section of fetch_and_update.  The upgrade of the worker's Weak happened earlier;
\* unless the user is dropping the manager (HUpgrade) its instant does not matter and it is folded in
TFetchStart ==
  /\ E.ev = "fetch_start" /\ E.w \in Workers
  /\ \/ BeginFetch(E.w)
     \/ /\ wpc[E.w] \in {"spawned", "sleeping"} /\ Alive
        /\ wpc' = [wpc EXCEPT ![E.w] = "fetching"]
        /\ ongoing' = [ongoing EXCEPT ![E.w] = TRUE]
        /\ fetches' = [fetches EXCEPT ![E.w] = @ + 1]
        /\ UNCHANGED <<wkey, init, err, active, used, mvars, cvars, running>>
  /\ UNCHANGED aux

\* harness stamp: the fetcher is about to return outcome `note`
TFetchRet ==
  /\ E.ev = "fetch_ret" /\ E.w \in Workers
  /\ wpc[E.w] = "fetching" /\ pend[E.w] = ""
  /\ pend' = [pend EXCEPT ![E.w] = E.note]
  /\ UNCHANGED <<vars, fresh, dropArmed, cancelArmed, rem>>

TFetchDone ==
  /\ E.ev = "fetch_done" /\ E.w \in Workers
  /\ Finish(E.w)
  /\ err[E.w] = E.err /\ active[E.w] = E.active
  /\ UNCHANGED aux

\* deferred reclamation of the removed map entry (cancel) folded into the orphan's exit
ReclaimThenStop(w) ==
  /\ w \in limbo /\ Alive /\ wpc[w] = "sleeping"
  /\ limbo' = limbo \ {w}
  /\ cancelled' = cancelled \cup {w}
  /\ wpc' = [wpc EXCEPT ![w] = "exiting"]
  /\ UNCHANGED <<managed, removed, userHeld, wkey, init, ongoing, err, active, used, fetches, cvars, running>>

TExiting ==
  /\ E.ev = "exiting" /\ E.w \in Workers
  /\ IF E.note = "idle" THEN IdleCheck(E.w)
     ELSE (StopExit(E.w) \/ FirstPoll(E.w) \/ ReclaimThenStop(E.w))
  /\ wpc'[E.w] = "exiting"
  /\ UNCHANGED aux

TExitNotify == E.ev = "exit_notify" /\ E.w \in Workers /\ ExitNotify(E.w) /\ UNCHANGED aux
TWorkerExit == E.ev = "worker_exit" /\ E.w \in Workers /\ ExitClear(E.w) /\ UNCHANGED aux

\* await_ongoing_update under the sync lock; when nothing is pending the caller goes on to its
\* final lock-free load (evaluated now, re-evaluated by ReRead)
TCallerCheck ==
  /\ E.ev = "caller_check" /\ IsCaller(E.c) /\ E.w \in Workers
  /\ cpc[E.c] = "check" /\ h[E.c] = E.w
  /\ ongoing[E.w] = E.ongoing /\ init[E.w] = E.init
  /\ IF ~ongoing[E.w] /\ init[E.w]
     THEN SetC(E.c, FinalOutcome(E.w)) /\ Fresh(E.c, "final") /\ UNCHANGED notified
     ELSE /\ SetC(E.c, <<"waiting", "">>) /\ Fresh(E.c, "")
          /\ notified' = [notified EXCEPT ![E.c] = FALSE]
  /\ UNCHANGED <<mvars, wvars, h, running, pend, dropArmed, cancelArmed, rem>>

TCallerWoken ==
  /\ E.ev = "caller_woken" /\ IsCaller(E.c)
  /\ cpc[E.c] = "waiting" /\ notified[E.c]
  /\ SetC(E.c, FinalOutcome(h[E.c])) /\ Fresh(E.c, "final")
  /\ UNCHANGED <<mvars, wvars, h, notified, running, pend, dropArmed, cancelArmed, rem>>

\* the call returned (stamped after the caller's clone was released)
TCallerDone ==
  /\ E.ev = "caller_done" /\ IsCaller(E.c)
  /\ cpc[E.c] = "done" /\ res[E.c] = E.note
  /\ linger' = linger \ {E.c} /\ Fresh(E.c, "")
  /\ UNCHANGED <<mvars, wvars, cpc, h, notified, res, running, pend, dropArmed, cancelArmed, rem>>

TDropBegin == E.ev = "drop_begin" /\ userHeld /\ dropArmed' = TRUE /\ UNCHANGED <<vars, fresh, pend, cancelArmed, rem>>
TDropEnd == E.ev = "drop" /\ ~userHeld /\ UNCHANGED <<vars, aux>>

TCancelBegin ==
  /\ E.ev = "caller_cancel" /\ IsCaller(E.c)
  /\ cancelArmed' = cancelArmed \cup {E.c}
  /\ UNCHANGED <<vars, fresh, pend, dropArmed, rem>>

\* harness-side bookkeeping events without a counterpart in the spec
TSkip == E.ev \in {"fetch_call", "stop_call", "note"} /\ UNCHANGED <<vars, aux>>

TEvent ==
  /\ l <= Len(Rec)
  /\ l' = l + 1
  /\ \/ TReset \/ TCallerStart \/ THandleGet \/ TMapInsert \/ TMapLoad
     \/ TRemoveBegin \/ TRemoved \/ TRemoveEnd
     \/ TFetchStart \/ TFetchRet \/ TFetchDone \/ TExiting \/ TExitNotify \/ TWorkerExit
     \/ TCallerCheck \/ TCallerWoken \/ TCallerDone \/ TDropBegin \/ TDropEnd
     \/ TCancelBegin \/ TSkip

-----------------------------------------------------------------------------
(* hidden steps *)

\* the lock-free read that produced the caller's pc may as well have happened now
Targets(c) ==
  CASE fresh[c] = "start" ->
         {StartAll(c)} \cup (IF Kind[c] = "cached" /\ Now(c) \in {<<"ensure", "">>, <<"done", "none">>}
                             THEN {ContainsOutcome(c)} ELSE {})
    [] fresh[c] = "load" -> {LoadOutcome(h[c])}
    [] fresh[c] = "final" -> {FinalOutcome(h[c])}
    [] OTHER -> {}
ReRead(c) ==
  /\ fresh[c] # ""
  /\ \E o \in Targets(c) \ {Now(c)} : SetC(c, o)
  /\ UNCHANGED <<mvars, wvars, h, notified, running, aux>>

\* an aborted task: its future is dropped at its await point, or before it ever ran
HCancel(c) ==
  /\ c \in cancelArmed /\ (cpc[c] = "waiting" \/ fresh[c] = "start")   \* "start": the task never ran
  /\ SetC(c, <<"done", "cancelled">>)
  /\ UNCHANGED <<mvars, wvars, h, notified, running, aux>>

\* finished calls have returned and their clones of the manager are gone (before their caller_done
\* stamps).  Only the instant at which the LAST clone disappears matters (the manager dies), so
\* all lingering callers are released in one step; individual releases happen at caller_done.
HReleaseAll ==
  /\ linger # {}
  /\ (dropArmed \/ ~userHeld)    \* otherwise the user's clone keeps the manager alive anyway
  /\ linger' = {}
  /\ fresh' = [c \in Callers |-> IF c \in linger THEN "" ELSE fresh[c]]
  /\ UNCHANGED <<mvars, wvars, cpc, h, notified, res, running, pend, dropArmed, cancelArmed, rem>>

HFetchReturn(w) ==
  /\ pend[w] # ""
  /\ FetchReturn(w, pend[w])
  /\ pend' = [pend EXCEPT ![w] = ""]
  /\ UNCHANGED <<fresh, dropArmed, cancelArmed, rem>>

\* the removal takes effect (or finds nothing) inside its bracket
HStop ==
  /\ rem[0].st = "armed"
  /\ IF managed[rem[0].k] # None
     THEN Stop(rem[0].k) /\ rem' = [rem EXCEPT ![0].st = "removed"]
     ELSE UNCHANGED vars /\ rem' = [rem EXCEPT ![0].st = "noop"]
  /\ UNCHANGED <<fresh, pend, dropArmed, cancelArmed>>

HExitRemove(w) ==
  /\ rem[w].st = "armed" /\ wpc[w] = "removing"
  /\ ExitRemove(w)
  /\ rem' = [rem EXCEPT ![w].st = IF managed[wkey[w]] # None THEN "removed" ELSE "noop"]
  /\ UNCHANGED <<fresh, pend, dropArmed, cancelArmed>>

\* the worker upgraded its Weak (first poll or refetch tick) some time before it stamps fetch_start
HUpgrade(w) ==
  /\ (dropArmed \/ ~userHeld)    \* only then can the manager die before fetch_start
  /\ (FirstPoll(w) \/ Refetch(w))
  /\ wpc'[w] = "starting"
  /\ UNCHANGED aux

\* the manager was gone when the exiting worker tried to upgrade its Weak: no removal
HExitSkip(w) ==
  /\ wpc[w] = "exiting" /\ ~Alive
  /\ ExitUpgrade(w)
  /\ UNCHANGED aux

\* active_path.store(None) precedes the worker_exit stamp
HClear(w) ==
  /\ wpc[w] = "clearing" /\ active[w]
  /\ active' = [active EXCEPT ![w] = FALSE]
  /\ UNCHANGED <<mvars, wpc, wkey, init, ongoing, err, used, fetches, cvars, running, aux>>

HDrop == dropArmed /\ Drop /\ UNCHANGED aux

THidden ==
  /\ l <= Len(Rec) /\ Rec[l].ev # "reset"
  /\ UNCHANGED l
  /\ \/ \E c \in Callers : ReRead(c) \/ HCancel(c)
     \/ HReleaseAll
     \/ \E w \in Workers : HUpgrade(w) \/ HFetchReturn(w) \/ HExitRemove(w) \/ HExitSkip(w) \/ HClear(w)
     \/ HStop \/ HDrop

TNext == TEvent \/ THidden
TSpec == TInit /\ [][TNext]_tvars

\* (debugging aid: adding Accepted to INVARIANTS makes TLC print the explanation it found)
Accepted == l <= Len(Rec)
\* diagnostics when rejected: furthest line reached (registers are per worker: run with 1 worker)
ASSUME TLCSet(7, 0)
Furthest == TLCSet(7, IF l > TLCGet(7) THEN l ELSE TLCGet(7))
\* POSTCONDITION: the trace is accepted iff some explanation consumed every line
TraceAccepted ==
  LET f == TLCGet(7) IN
  /\ PrintT(<<"FURTHEST", f, "of", Len(Rec)>>)
  /\ (f <= Len(Rec) => PrintT(<<"UNMATCHED", ToJson(Rec[f])>>))
  /\ f = Len(Rec) + 1
=============================================================================
