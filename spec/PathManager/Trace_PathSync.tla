--------------------------- MODULE Trace_PathSync ---------------------------
(* Trace validation for C20: every execution of the real MultiPathManager     *)
(* recorded through the verif_sync hook must be a behaviour of PathSync.       *)
(*                                                                             *)
(* Events carry a global sequence number drawn while the lock protecting the   *)
(* described state was held (PathSetSharedState::sync for fetch_start,         *)
(* fetch_done, exit_notify, worker_exit, caller_check; the map guard for       *)
(* map_insert, map_load, map_remove).  Steps of the I-spec that are lock-free  *)
(* in the code (peek/contains/active loads, the fetcher's return, a removal    *)
(* that finds nothing, deferred reclamation, the instant at which a dropped    *)
(* clone or an aborted future disappears) have no event of their own: they are *)
(* HIDDEN steps that TLC places between the recorded ones.  The trace is       *)
(* accepted iff some placement explains every line; then Accepted is violated  *)
(* (that is the success signal).  The P-invariants are checked on every state  *)
(* of the explanation.                                                         *)
(*                                                                             *)
(*   {"ev":"meta",...}                               first line                *)
(*   {"ev":"reset","nw":n,"callers":{name:{kind,k}}} fresh manager             *)
(*   {"ev":E,"seq","w","c","k","by","note","snap","init","ongoing","err","active"} *)
EXTENDS PathSync, Json, IOUtils

Rec == ndJsonDeserialize(IOEnv.TRACE)
ResetLines == {i \in 1..Len(Rec) : Rec[i].ev = "reset"}
TraceCallers == UNION {DOMAIN Rec[i].callers : i \in ResetLines}
MetaOf(c) == LET i == CHOOSE i \in ResetLines : c \in DOMAIN Rec[i].callers IN Rec[i].callers[c]
TraceKind == [c \in TraceCallers |-> MetaOf(c).kind]
TraceKeyOf == [c \in TraceCallers |-> MetaOf(c).k]
MaxOf(S) == IF S = {} THEN 1 ELSE CHOOSE x \in S : \A y \in S : y <= x
TraceNW == MaxOf({Rec[i].nw : i \in ResetLines})

VARIABLES l,          \* next line of the trace
          dropArmed,  \* the director started to drop its clone
          cancelArmed \* callers whose task was aborted (future dropped at an unknown instant)

tvars == <<vars, l, dropArmed, cancelArmed>>
aux == <<dropArmed, cancelArmed>>

TInit == Init /\ l = 2 /\ dropArmed = FALSE /\ cancelArmed = {}

E == Rec[l]
IsCaller(c) == c \in Callers

-----------------------------------------------------------------------------
(* recorded events *)
TReset ==
  /\ E.ev = "reset"
  /\ managed' = [k \in Keys |-> None]
  /\ limbo' = {} /\ removed' = {} /\ cancelled' = {}
  /\ wpc' = [w \in Workers |-> "unborn"]
  /\ wkey' = [w \in Workers |-> None]
  /\ init' = [w \in Workers |-> FALSE] /\ ongoing' = [w \in Workers |-> FALSE]
  /\ err' = [w \in Workers |-> FALSE] /\ active' = [w \in Workers |-> FALSE]
  /\ used' = [w \in Workers |-> FALSE]
  /\ fetches' = [w \in Workers |-> 0]
  /\ userHeld' = TRUE
  /\ cpc' = [c \in Callers |-> "idle"]
  /\ h' = [c \in Callers |-> None]
  /\ notified' = [c \in Callers |-> FALSE]
  /\ res' = [c \in Callers |-> ""]
  /\ runC' = "none" /\ runW' = None
  /\ dropArmed' = FALSE /\ cancelArmed' = {}

TCallerStart ==
  /\ E.ev = "caller_start" /\ IsCaller(E.c)
  /\ cpc[E.c] = "idle" /\ userHeld
  /\ cpc' = [cpc EXCEPT ![E.c] = "armed"]
  /\ UNCHANGED <<mvars, wvars, h, notified, res, running, aux>>

THandleGet == E.ev = "handle_get" /\ IsCaller(E.c) /\ E.w \in Workers /\ GetHandle(E.c, E.w) /\ UNCHANGED aux

TMapInsert ==
  /\ E.ev = "map_insert" /\ IsCaller(E.c) /\ E.w \in Workers
  /\ managed[KeyOf[E.c]] = None /\ KeyOf[E.c] = E.k
  /\ Ensure(E.c) /\ h'[E.c] = E.w
  /\ UNCHANGED aux

TMapLoad ==
  /\ E.ev = "map_load" /\ IsCaller(E.c)
  /\ managed[KeyOf[E.c]] = E.w /\ E.w # None /\ KeyOf[E.c] = E.k
  /\ Ensure(E.c)
  /\ UNCHANGED aux

TMapRemove ==
  /\ E.ev = "map_remove"
  /\ IF E.by = 0
     THEN Stop(E.k)
     ELSE /\ E.by \in Workers /\ Alive /\ wkey[E.by] = E.k /\ managed[E.k] # None
          /\ ExitRemove(E.by)
  /\ UNCHANGED aux

TFetchStart ==
  /\ E.ev = "fetch_start" /\ E.w \in Workers
  /\ (FirstPoll(E.w) \/ Refetch(E.w))
  /\ wpc'[E.w] = "fetching"
  /\ UNCHANGED aux

TFetchDone ==
  /\ E.ev = "fetch_done" /\ E.w \in Workers
  /\ Finish(E.w)
  /\ err[E.w] = E.err /\ active[E.w] = E.active
  /\ UNCHANGED aux

TExiting ==
  /\ E.ev = "exiting" /\ E.w \in Workers
  /\ IF E.note = "idle" THEN IdleCheck(E.w) ELSE (StopExit(E.w) \/ FirstPoll(E.w))
  /\ wpc'[E.w] = "exiting"
  /\ UNCHANGED aux

TExitNotify == E.ev = "exit_notify" /\ E.w \in Workers /\ ExitNotify(E.w) /\ UNCHANGED aux
TWorkerExit == E.ev = "worker_exit" /\ E.w \in Workers /\ ExitClear(E.w) /\ UNCHANGED aux

TCallerCheck ==
  /\ E.ev = "caller_check" /\ IsCaller(E.c)
  /\ h[E.c] = E.w
  /\ ongoing[E.w] = E.ongoing /\ init[E.w] = E.init
  /\ CheckReg(E.c)
  /\ UNCHANGED aux

TCallerWoken == E.ev = "caller_woken" /\ IsCaller(E.c) /\ Wake(E.c) /\ UNCHANGED aux

TCallerDone ==
  /\ E.ev = "caller_done" /\ IsCaller(E.c)
  /\ cpc[E.c] = "done" /\ res[E.c] = E.note
  /\ UNCHANGED <<vars, aux>>

TDropBegin == E.ev = "drop_begin" /\ userHeld /\ dropArmed' = TRUE /\ UNCHANGED <<vars, cancelArmed>>
TDropEnd == E.ev = "drop" /\ ~userHeld /\ UNCHANGED <<vars, aux>>

TCancelBegin ==
  /\ E.ev = "caller_cancel" /\ IsCaller(E.c)
  /\ cancelArmed' = cancelArmed \cup {E.c}
  /\ UNCHANGED <<vars, dropArmed>>

\* harness-side bookkeeping events without a counterpart in the spec
TSkip == E.ev \in {"fetch_call", "fetch_ret", "stop_call", "note"} /\ UNCHANGED <<vars, aux>>

TEvent ==
  /\ l <= Len(Rec)
  /\ l' = l + 1
  /\ \/ TReset \/ TCallerStart \/ THandleGet \/ TMapInsert \/ TMapLoad \/ TMapRemove
     \/ TFetchStart \/ TFetchDone \/ TExiting \/ TExitNotify \/ TWorkerExit
     \/ TCallerCheck \/ TCallerWoken \/ TCallerDone \/ TDropBegin \/ TDropEnd
     \/ TCancelBegin \/ TSkip

-----------------------------------------------------------------------------
(* hidden steps *)
HCancel(c) ==
  /\ c \in cancelArmed /\ cpc[c] \in {"armed", "waiting"}
  /\ Done(c, "cancelled")
  /\ UNCHANGED <<mvars, wvars, h, notified, running>>

HExitRemoveNoop(w) ==
  /\ wpc[w] = "exiting" /\ (~Alive \/ managed[wkey[w]] = None)
  /\ ExitRemove(w)

THidden ==
  /\ l <= Len(Rec) /\ Rec[l].ev # "reset"
  /\ UNCHANGED l
  /\ \/ /\ UNCHANGED aux
        /\ \/ \E c \in Callers : \/ cpc[c] = "armed" /\ Start(c)
                                 \/ Contains(c) \/ ActiveLoad(c) \/ Final(c)
           \/ \E w \in Workers : \/ \E o \in {"ok", "err"} : FetchReturn(w, o)
                                 \/ HExitRemoveNoop(w)
                                 \/ Reclaim(w)
           \/ dropArmed /\ Drop
     \/ \E c \in Callers : HCancel(c) /\ UNCHANGED aux

TNext == TEvent \/ THidden
TSpec == TInit /\ [][TNext]_tvars

\* success signal: the whole file was explained
Accepted == l <= Len(Rec)
\* diagnostics when rejected: furthest line reached (registers are per worker: run with 1 worker)
ASSUME TLCSet(7, 0)
Furthest == TLCSet(7, IF l > TLCGet(7) THEN l ELSE TLCGet(7))
Report ==
  LET f == TLCGet(7) IN
  /\ PrintT(<<"FURTHEST", f, "of", Len(Rec)>>)
  /\ (f <= Len(Rec) => PrintT(<<"UNMATCHED", ToJson(Rec[f])>>))
=============================================================================
