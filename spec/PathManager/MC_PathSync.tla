---------------------------- MODULE MC_PathSync ----------------------------
(* Exhaustive configurations of PathSync (C20).                              *)
(*  - MCSpec      : all interleavings at the grain of the code's critical    *)
(*                  sections, with weak fairness: safety + liveness          *)
(*  (Gen_PathSync extends this module for schedule generation)             *)
EXTENDS PathSync

CONSTANTS WaitC, CachedC, HandleC,   \* callers by kind
          Key2C                      \* callers asking for pair 2 (all others: pair 1)

MCCallers == WaitC \cup CachedC \cup HandleC
MCKind == [c \in MCCallers |-> IF c \in WaitC THEN "wait" ELSE IF c \in CachedC THEN "cached" ELSE "handle"]
MCKeyOf == [c \in MCCallers |-> IF c \in Key2C THEN 2 ELSE 1]

MCSpec == Spec

=============================================================================
