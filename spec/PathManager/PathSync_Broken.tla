--------------------------- MODULE PathSync_Broken ---------------------------
(* Oracle self-check for C20: mutants of the I-spec that the P-layer must       *)
(* reject.  The mutations are switches of PathSync.tla; this module only names  *)
(* the configurations (checks/C20.py generates one cfg per mutant):             *)
(*   ATOMIC = FALSE         the Notified future is created after the sync lock  *)
(*                          was released (check and registration in two steps)  *)
(*                          => lost wake-up: NoLostWakeup violated              *)
(*   ENSURE_ATOMIC = FALSE  contains() then insert() instead of the entry API   *)
(*                          => two workers for one pair: SingleWorker violated  *)
(*   EXIT_NOTIFY = FALSE    the exit path forgets notify_waiters                *)
(*                          => a waiter of a worker that exits before its first *)
(*                             lookup hangs: NoLostWakeup violated              *)
EXTENDS MC_PathSync
=============================================================================
