SPECIFICATION FineSpec
CONSTANTS
  WaitC = {"c1", "c2"}
  CachedC = {}
  HandleC = {"c3"}
  Key2C = {}
  Callers <- MCCallers
  Kind <- MCKind
  KeyOf <- MCKeyOf
  NW = 2
  Keys = {1}
  MaxFetch = 1
  CanCancel = {"c2"}
  ATOMIC = TRUE
  ENSURE_ATOMIC = TRUE
  EXIT_NOTIFY = TRUE
  COOP = FALSE
  LINGER = FALSE
  RECLAIM = FALSE
  USED = FALSE
  MaxEv = 40
  MinDrop = 5
INVARIANTS TypeOK SingleWorker DeadIsError HandleAfterDropIsError FEmit
CHECK_DEADLOCK FALSE
