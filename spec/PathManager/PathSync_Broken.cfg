SPECIFICATION MCSpec
CONSTANTS
  WaitC = {"c1"}
  CachedC = {}
  HandleC = {}
  Key2C = {}
  Callers <- MCCallers
  Kind <- MCKind
  KeyOf <- MCKeyOf
  NW = 2
  Keys = {1}
  MaxFetch = 1
  CanCancel = {}
  ATOMIC = FALSE
  ENSURE_ATOMIC = TRUE
  EXIT_NOTIFY = TRUE
  COOP = FALSE
  LINGER = FALSE
  RECLAIM = FALSE
  USED = FALSE
INVARIANTS TypeOK SingleWorker DeadIsError HandleAfterDropIsError
PROPERTIES NoLostWakeup CallersFinish DropStopsAll DeadStaysDead
CHECK_DEADLOCK FALSE
