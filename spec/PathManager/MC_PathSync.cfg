SPECIFICATION MCSpec
CONSTANTS
  WaitC = {"c1", "c2"}
  CachedC = {}
  HandleC = {"c3"}
  Key2C = {}
  Callers <- MCCallers
  Kind <- MCKind
  KeyOf <- MCKeyOf
  NW = 2
  Keys = {1}
  MaxFetch = 2
  CanCancel = {}
  ATOMIC = TRUE
  ENSURE_ATOMIC = TRUE
  EXIT_NOTIFY = TRUE
  COOP = FALSE
  RECLAIM = TRUE
INVARIANTS TypeOK SingleWorker DeadIsError HandleAfterDropIsError
PROPERTIES NoLostWakeup CallersFinish DropStopsAll DeadStaysDead
CHECK_DEADLOCK FALSE
