---------------------------- MODULE Gen_PathSync ----------------------------
(* Schedule generation for the deterministic replay of C20.                  *)
(* Cooperative (current_thread) scheduling, run-to-quiescence after every    *)
(* external event (COOP = TRUE); the sequence of external events with the    *)
(* observation at every quiescent point is the replay schedule.  hist is     *)
(* part of the VIEW so that every distinct schedule of at most MaxEv events  *)
(* is explored and printed when it is complete.                              *)
EXTENDS MC_PathSync, Json

CONSTANT MaxEv   \* bound on external events per schedule

VARIABLE hist   \* sequence of [ev, pre]: external event and observation before it

ObsC(c) == IF cpc[c] = "done" THEN res[c] ELSE IF cpc[c] = "idle" THEN "idle" ELSE "pending"
ObsW(w) == IF wpc[w] = "dead" THEN "dead" ELSE IF wpc[w] = "unborn" THEN "unborn" ELSE wpc[w]
Obs == [c |-> [c \in Callers |-> ObsC(c)], w |-> [w \in Workers |-> ObsW(w)],
        m |-> managed]

Ev(a, c, w, o) == [a |-> a, c |-> c, w |-> w, o |-> o]
Log(e) == hist' = Append(hist, [ev |-> e, pre |-> Obs])

GenExternal ==
  \/ \E c \in Callers : \/ Start(c) /\ Log(Ev("start", c, 0, ""))
                        \/ CancelWait(c) /\ Log(Ev("cancel", c, 0, ""))
                        \/ \E w \in Workers : GetHandle(c, w) /\ Log(Ev("handle", c, w, ""))
  \/ \E w \in Workers : \/ \E o \in Outcomes : FetchReturn(w, o) /\ Log(Ev("ret", "", w, o))
                        \/ Refetch(w) /\ Log(Ev("refetch", "", w, ""))
                        \/ Reclaim(w) /\ Log(Ev("reclaim", "", w, ""))
                        \/ IdleExpire(w) /\ Log(Ev("idle", "", w, ""))
  \/ \E k \in Keys : Stop(k) /\ Log(Ev("stop", "", k, ""))
  \/ Drop /\ Log(Ev("drop", "", 0, ""))

GenNext == \/ Internal /\ UNCHANGED hist
           \/ Quiescent /\ Len(hist) < MaxEv /\ GenExternal
GenInit == Init /\ hist = <<>>
GenSpec == GenInit /\ [][GenNext]_<<vars, hist>>
GenView == <<vars, hist>>

\* a complete run: manager dropped, everything finished
Complete == Quiescent /\ ~userHeld /\ AllQuiet /\ \A c \in Callers : cpc[c] \in {"idle", "done"}
Emit == Complete => PrintT(<<"REPLAY", ToJson([h |-> hist, final |-> Obs])>>)
=============================================================================
