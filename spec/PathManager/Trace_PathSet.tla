--------------------------- MODULE Trace_PathSet ---------------------------
(* Trace validation: every recorded execution of the real per-pair path set      *)
(* (harness/vh-stack/src/bin/pathset.rs over the VerifPathSet hook) must be a     *)
(* behaviour of PathSet: at every step the action of the I-spec named by the      *)
(* event, taken from the spec's current state, must lead to the state the real    *)
(* object projected (cache order, active slot, timers, failure counter, used      *)
(* flag, issue map / FIFO sizes, pending notifications) and to the same outcome.  *)
(*                                                                               *)
(* Scores: decisions are validated against LOGGED scores (integers, 1e-4), not    *)
(* re-modelled floating point: ScoreAt/Gap are substituted (cfg) by the values    *)
(* the harness logged for the event (ranking = sort by logged score, ties in the  *)
(* order observed; swap iff logged gap > threshold).  The spec's own integer      *)
(* reliability bookkeeping is still carried along and must agree with the logged  *)
(* reliability within RelTol (coarse decay law).                                  *)
(*                                                                               *)
(* Events (ndjson, file named by env TRACE), produced by lib/pathset_common.py:   *)
(*  line 1  {"ev":"meta","cfg":{..},"au":{hops:[..],allowed:[..],hits:[[..]],pen:[..],applies:[..]},..} *)
(*  {"ev":"reset"}                                   a fresh path set, clock 0    *)
(*  {"ev":"tick","f":{"k","ps":[{"id","exp","ok"}]},"res",.. ,"s":{..},"sc":{id:..},"raw":{id:..}}     *)
(*  {"ev":"report","i","res","s"}  {"ev":"ingest","res","s","sc","raw"}           *)
(*  {"ev":"send","id","exp","s"}   {"ev":"adv","d","s"}                           *)
EXTENDS PathSet, Json, IOUtils

Rec == ndJsonDeserialize(IOEnv.TRACE)
M == Rec[1]

VARIABLE l
tvars == <<vars, l>>

SeqRange(s) == {s[k] : k \in 1..Len(s)}
TPaths   == 1..Len(M.au.hops)
THop     == [p \in TPaths |-> M.au.hops[p]]
TAllowed == SeqRange(M.au.allowed)
TIssues  == 1..Len(M.au.pen)
THits    == [i \in TIssues |-> SeqRange(M.au.hits[i])]
TPen     == [i \in TIssues |-> M.au.pen[i]]
TApplies == [i \in TIssues |-> M.au.applies[i]]
TBackoff == M.backoff_tab
TRelTab  == M.rel_tab
TIssTab  == M.iss_tab

\* logged scores of the current event (key = path id as string)
TScoreAt(e, t) == Rec[l].sc[ToString(e.id)]
\* a logged gap within 2e-4 of the swap threshold is a tie in real numbers that f32 rounding decides: either decision
\* is accepted (the gap is nudged to the side the real object took)
TGap(eb, ea, t) ==
  LET g == Rec[l].raw[ToString(eb.id)] - Rec[l].raw[ToString(ea.id)]
  IN IF g - SwapThr <= 2 /\ SwapThr - g <= 2
     THEN (IF Rec[l].s.active.id = eb.id THEN SwapThr + 1 ELSE SwapThr)
     ELSE g

RelTol == 60   \* 1e-4 units: integer decay tables vs f32 arithmetic, accumulated over a few updates
AbsI(x) == IF x < 0 THEN -x ELSE x

\* the real object's projection after the step
Match(s) ==
  /\ now' = s.now
  /\ Len(cache') = Len(s.cache)
  /\ \A k \in 1..Len(s.cache) : /\ cache'[k].id = s.cache[k].id /\ cache'[k].exp = s.cache[k].exp
                                /\ cache'[k].ok = s.cache[k].ok
                                /\ AbsI(RelAt(cache'[k], now') - s.cache[k].rel) <= RelTol
  /\ active' = [id |-> s.active.id, exp |-> s.active.exp]
  /\ nextRefetch' = s.nr /\ nextIdle' = s.ni /\ failed' = s.failed /\ used' = s.used
  /\ MapSize(imap') = s.imap /\ Len(fifo') = s.ififo
  /\ (chan' # <<>> \/ lag') = (s.pend > 0)

E == Rec[l]
Has == l <= Len(Rec)

TInit == Init /\ l = 2

TReset ==
  /\ Has /\ E.ev = "reset"
  /\ now' = 0 /\ alive' = TRUE /\ cache' = <<>> /\ active' = NoAct
  /\ nextRefetch' = 0 /\ nextIdle' = IdlePeriod /\ failed' = 0 /\ used' = FALSE
  /\ imap' = [i \in Issues |-> -1] /\ fifo' = <<>> /\ chan' = <<>> /\ lag' = FALSE
  /\ out' = [kind |-> "init"]
  /\ lastOk' = {} /\ everOk' = {} /\ lastFetch' = NoFetch /\ lastAcc' = [i \in Issues |-> -1]
  /\ l' = l + 1

Fetch(f) == IF f.k = "ok" THEN [k |-> "ok", ps |-> SeqRange(f.ps)] ELSE [k |-> f.k]

TTick ==
  /\ Has /\ E.ev = "tick"
  /\ Tick(Fetch(E.f))
  /\ (IF E.res = "nofetch" THEN out'.res \in {"none", "expiry"} ELSE out'.res = E.res)
  /\ (E.res \in {"idle", "panic"} \/ Match(E.s))
  /\ l' = l + 1

TReport == /\ Has /\ E.ev = "report" /\ Report(E.i) /\ out'.res = E.res /\ Match(E.s) /\ l' = l + 1
TIngest == /\ Has /\ E.ev = "ingest" /\ Ingest /\ out'.res = E.res /\ Match(E.s) /\ l' = l + 1
\* id = -1: the hand-out hit the debug assertion on an expired path (the slot content is still compared)
TSend   == /\ Has /\ E.ev = "send" /\ Send /\ (E.id = -1 \/ out'.res = [id |-> E.id, exp |-> E.exp]) /\ Match(E.s) /\ l' = l + 1
TAdv    == /\ Has /\ E.ev = "adv" /\ Advance(E.d) /\ Match(E.s) /\ l' = l + 1

TNext == TReset \/ TTick \/ TReport \/ TIngest \/ TSend \/ TAdv
TSpec == TInit /\ [][TNext]_tvars

TraceAccepted ==
  LET d == TLCGet("stats").diameter IN
  IF d = Len(Rec) THEN TRUE
  ELSE /\ PrintT(<<"TRACE-REJECTED", "matched", d - 1, "of", Len(Rec) - 1, "first unmatched line", d + 1>>)
       /\ (d + 1 <= Len(Rec) => PrintT(<<"UNMATCHED", ToJson(Rec[d + 1])>>))
       /\ FALSE
=============================================================================
