SPECIFICATION GenSpec
VIEW GenView
CONSTANTS
  WaitC = {"c1", "c2"}
  CachedC = {}
  HandleC = {"c3"}
  Key2C = {}
  Callers <- MCCallers
  Kind <- MCKind
  KeyOf <- MCKeyOf
  NW = 2
  Keys = {1}
  MaxFetch = 1
  CanCancel = {"c2"}
  ATOMIC = TRUE
  ENSURE_ATOMIC = TRUE
  EXIT_NOTIFY = TRUE
  COOP = TRUE
  LINGER = FALSE
  RECLAIM = FALSE
  USED = FALSE
  MaxEv = 6
INVARIANTS TypeOK SingleWorker DeadIsError HandleAfterDropIsError Emit
CHECK_DEADLOCK FALSE
