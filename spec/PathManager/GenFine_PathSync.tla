-------------------------- MODULE GenFine_PathSync --------------------------
(* Fine-grained schedule generation for C20 (Binding 1b).                     *)
(*                                                                             *)
(* The verif hook has a yield point at every boundary between two steps of the *)
(* I-spec that a task performs without awaiting:                               *)
(*   caller  path.after_peek     (Start   | Ensure)                            *)
(*           path.after_ensure   (Ensure  | ActiveLoad)                        *)
(*           handle.after_load   (ActiveLoad | CheckReg)                       *)
(*           lock.await          (in front of CheckReg's lock acquisition: no  *)
(*                                step of the I-spec in between, ghost prelock)*)
(*           await.registered    (CheckReg   | polling the Notified future)    *)
(*   worker  worker.start        (spawn      | FirstPoll)                      *)
(*           fetch.before_finish (FetchReturn | Finish)                        *)
(*           exit.before_remove  (StopExit/IdleCheck | ExitUpgrade+ExitRemove) *)
(*           exit.before_notify  (ExitRemove | ExitNotify+ExitClear)           *)
(* On a multi-thread runtime the harness parks every task at these points and  *)
(* releases exactly one task per step of the schedule, so the real code is     *)
(* driven through the interleaving TLC chose, at the grain of the I-spec.      *)
(*                                                                             *)
(* Steps without a yield point in front of them run on their own as soon as    *)
(* they are enabled (URGENT): Wake+Final of a notified caller, Final after a   *)
(* check that found nothing pending, the whole of cached_path, the first load  *)
(* of a kept handle, StopExit of a cancelled/orphaned sleeping worker,         *)
(* BeginFetch after the upgrade, ExitRemove after ExitUpgrade, ExitClear after *)
(* ExitNotify.                                                                 *)
(*                                                                             *)
(* `parked[c]`: the caller registered and sits at await.registered; it polls   *)
(* its Notified future only after `unpark` (no step of the I-spec: the         *)
(* registration already happened under the lock -- which is exactly what the   *)
(* mutant ATOMIC = FALSE gets wrong).                                          *)
(* Timers (idle expiry, refetch) and deferred reclamation are not part of the  *)
(* fine schedules.  Used with TLC -simulate: one random behaviour per walk.    *)
EXTENDS MC_PathSync, Json

CONSTANTS MaxEv,   \* bound on director steps per schedule
          MinDrop  \* the user does not drop the manager before this many steps (longer random walks)

VARIABLES hist,    \* sequence of [ev, pre]: director step and observation before it
          parked,  \* callers sitting at await.registered
          prelock  \* callers sitting at lock.await (in front of the critical section of CheckReg)

fvars == <<vars, hist, parked, prelock>>

UrgentC(c) == \/ ~parked[c] /\ Wake(c)
              \/ Final(c)
              \/ Contains(c)
              \/ Kind[c] = "cached" /\ Ensure(c)
              \/ Kind[c] = "handle" /\ ActiveLoad(c)
UrgentW(w) == BeginFetch(w) \/ StopExit(w) \/ ExitRemove(w) \/ ExitClear(w)
Urgent == (\E c \in Callers : UrgentC(c)) \/ (\E w \in Workers : UrgentW(w))
AtRest == ~ENABLED Urgent

FObsC(c) == CASE cpc[c] = "done" -> res[c]
              [] cpc[c] = "idle" -> "idle"
              [] cpc[c] = "ensure" -> "g:path.after_peek"
              [] cpc[c] = "have" -> "g:path.after_ensure"
              [] cpc[c] = "check" -> IF c \in prelock THEN "g:lock.await" ELSE "g:handle.after_load"
              [] cpc[c] = "waiting" -> IF parked[c] THEN "g:await.registered" ELSE "await"
              [] OTHER -> "running"
FObsW(w) == CASE wpc[w] = "spawned" -> "g:worker.start"
              [] wpc[w] = "finishing" -> "g:fetch.before_finish"
              [] wpc[w] = "exiting" -> "g:exit.before_remove"
              [] wpc[w] = "exitnotify" -> "g:exit.before_notify"
              [] wpc[w] \in {"starting", "removing", "clearing"} -> "running"
              [] OTHER -> wpc[w]
FObs == [c |-> [c \in Callers |-> FObsC(c)], w |-> [w \in Workers |-> FObsW(w)], m |-> managed]

Ev(a, c, w, o) == [a |-> a, c |-> c, w |-> w, o |-> o]
Log(e) == hist' = Append(hist, [ev |-> e, pre |-> FObs])
KeepP == UNCHANGED <<parked, prelock>>

StepC(c) ==
  \/ Kind[c] = "wait" /\ (Ensure(c) \/ ActiveLoad(c)) /\ KeepP
  \/ cpc[c] = "check" /\ c \notin prelock /\ prelock' = prelock \cup {c} /\ UNCHANGED <<vars, parked>>
  \/ c \in prelock /\ CheckReg(c) /\ prelock' = prelock \ {c}
     /\ parked' = [parked EXCEPT ![c] = (cpc'[c] = "waiting")]
Unpark(c) == parked[c] /\ parked' = [parked EXCEPT ![c] = FALSE] /\ UNCHANGED <<vars, prelock>>
StepW(w) == (FirstPoll(w) \/ Finish(w) \/ ExitUpgrade(w) \/ ExitNotify(w)) /\ KeepP

Director ==
  \/ \E c \in Callers : \/ Start(c) /\ KeepP /\ Log(Ev("start", c, 0, ""))
                        \/ StepC(c) /\ Log(Ev("step", c, 0, ""))
                        \/ Unpark(c) /\ Log(Ev("unpark", c, 0, ""))
                        \/ CancelWait(c) /\ parked' = [parked EXCEPT ![c] = FALSE] /\ UNCHANGED prelock
                           /\ Log(Ev("cancel", c, 0, ""))
                        \/ \E w \in Workers : GetHandle(c, w) /\ KeepP /\ Log(Ev("handle", c, w, ""))
  \/ \E w \in Workers : \/ StepW(w) /\ Log(Ev("step", "", w, ""))
                        \/ \E o \in Outcomes : FetchReturn(w, o) /\ KeepP /\ Log(Ev("ret", "", w, o))
  \/ \E k \in Keys : Stop(k) /\ KeepP /\ Log(Ev("stop", "", k, ""))
  \/ Len(hist) >= MinDrop /\ Drop /\ KeepP /\ Log(Ev("drop", "", 0, ""))

FComplete == AtRest /\ ~userHeld /\ AllQuiet /\ \A c \in Callers : cpc[c] \in {"idle", "done"}

FineNext == \/ Urgent /\ UNCHANGED <<hist, parked, prelock>>
            \/ AtRest /\ ~FComplete /\ Len(hist) < MaxEv /\ Director
FineInit == Init /\ hist = <<>> /\ parked = [c \in Callers |-> FALSE] /\ prelock = {}
FineSpec == FineInit /\ [][FineNext]_fvars

FEmit == FComplete => PrintT(<<"REPLAY", ToJson([h |-> hist, final |-> FObs])>>)
=============================================================================
