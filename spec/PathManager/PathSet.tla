------------------------------- MODULE PathSet -------------------------------
(***************************************************************************)
(* Endhost path manager of crates/scion-stack, one (src,dst) pair:          *)
(*   src/path/manager/pathset.rs  (PathSet worker: maintain, fetch_and_     *)
(*       update, update_path_cache, merge_new_paths_algo, rerank,           *)
(*       decide/apply_active_path_update, handle_issue_rx, hand-out)        *)
(*   src/path/manager.rs          (PathIssueManager::add_issue/pop_front,   *)
(*       apply_cached_issues, cached_path/path)                             *)
(*   src/path/manager/reliability.rs, issues.rs, strategy/scoring.rs        *)
(*   libs/scion-sdk-utils/src/backoff.rs                                    *)
(*                                                                         *)
(* I-layer: one action per step of the worker loop / public call, at the   *)
(* code's grain of atomicity (a maintenance tick including the lookup is   *)
(* one step: the worker is sequential and the hand-out reads one atomic    *)
(* slot).  P-layer: the invariants at the end (C05, C06, C07).             *)
(*                                                                         *)
(* Time is an integer grid (ticks).  Scores are integers in 1e-4 units.    *)
(* FIX_EXPIRY / FIX_FIFO = FALSE give the manager as found at the pinned   *)
(* commit; TRUE the repaired one (DESIGN.md section 8, items 8 and 13).    *)
(***************************************************************************)
EXTENDS Naturals, Integers, Sequences, FiniteSets, TLC

CONSTANTS
  Paths,         \* set of path ids (positive integers)
  HopCount,      \* [Paths -> Nat]     hop fields of the path (length scorer)
  Allowed,       \* SUBSET Paths       paths the attached policy accepts (a policy error counts as reject)
  Issues,        \* set of issue ids (positive integers); one id = one dedup id (target + message)
  IssueHits,     \* [Issues -> SUBSET Paths]  paths whose interfaces match the issue's target
  IssuePen,      \* [Issues -> Nat]    penalty magnitude, 1e-4 units (10000 = SCMP link failure, 4000 = first hop)
  IssueApplies,  \* [Issues -> BOOLEAN] target can apply to this (src,dst) pair
  Threshold,     \* min_expiry_threshold
  MinDelay,      \* min_refetch_delay
  Interval,      \* refetch_interval
  IdlePeriod,    \* max_idle_period
  BackoffTab,    \* sequence: BackoffTab[n] = backoff.duration(n) for n >= 1 (last entry repeats; jitter 0)
  MaxCache,      \* max_cached_paths_per_pair (>= 1)
  IssueCap,      \* issue_cache_size
  ChanCap,       \* effective capacity of the issue broadcast channel (tokio rounds up to a power of two)
  Dedup,         \* issue_deduplication_window
  SwapThr,       \* path_swap_score_threshold, 1e-4 units
  RelTab,        \* decay table of the reliability score: RelTab[r+1] = 10000 * 2^(-r/Len(RelTab)), r = 0..Len-1
  IssTab,        \* same for the cached-issue decay (half-life Len(IssTab) ticks)
  Late,          \* how many ticks late a maintenance tick may be taken (0 or 1)
  FILTER_ALL,    \* TRUE: every fetched path passes the policy filter; FALSE (mutant, oracle self-check): paths whose
                 \*       fingerprint is already cached skip it
  FIX_EXPIRY,    \* TRUE: the active path's expiry is a maintenance instant
  FIX_FIFO       \* TRUE: eviction pops until a map slot is free; the FIFO is compacted at 2 x IssueCap

VARIABLES
  now,        \* injected clock
  alive,      \* the worker has not exited
  cache,      \* ranked sequence of [id, exp, rel, relAt, ok]   (PathSetInternal::cached_paths); ok: the policies
              \* accept the cached OBJECT (a lookup may return a known fingerprint as an object they reject)
  active,     \* NoAct or [id, exp]: the slot holds its own copy of the path  (PathSetSharedState::active_path)
  nextRefetch, nextIdle, failed, used,
  imap,       \* [Issues -> Int]: timestamp of the cached marker, -1 = absent   (PathIssueManager::cache)
  fifo,       \* sequence of [id, stamp]                                       (PathIssueManager::fifo_issues)
  chan, lag,  \* this worker's view of the broadcast channel: retained notifications, "receiver lagged"
  out,        \* outcome of the last step (what the caller / the log sees)
  \* ---- ghosts of the P-layer
  lastOk,     \* set of [id, exp] of the admissible paths of the most recent lookup that returned any
  everOk,     \* union of all of them
  lastFetch,  \* NoFetch or [at, ok]: the most recent lookup attempt
  lastAcc     \* [Issues -> Int]: instant of the most recent accepted (non-duplicate) report, -1 = never

vars == <<now, alive, cache, active, nextRefetch, nextIdle, failed, used, imap, fifo, chan, lag, out,
          lastOk, everOk, lastFetch, lastAcc>>

NoAct   == [id |-> 0, exp |-> 0]
NoFetch == [at |-> -1, ok |-> FALSE]

--------------------------------------------------------------------------------
(* arithmetic *)
MaxI(a, b) == IF a >= b THEN a ELSE b
MinI(a, b) == IF a <= b THEN a ELSE b
Clamp1(v)  == MaxI(-10000, MinI(10000, v))            \* Score::new_clamped
Pow2(n)    == IF n >= 24 THEN 16777216 ELSE 2^n
\* exponential_decay(v, dt, half-life Len(tab)) on magnitudes, truncating
Decay(v, dt, tab) ==
  LET hl == Len(tab)
      q  == dt \div hl
      r  == dt % hl
      m  == IF v < 0 THEN -v ELSE v
      d  == ((m * tab[r + 1]) \div 10000) \div Pow2(q)
  IN IF dt <= 0 THEN v ELSE IF v < 0 THEN -d ELSE d

Backoff(n) == BackoffTab[MinI(n, Len(BackoffTab))]

\* check_path_expiry
Class(exp, t) == IF exp <= t THEN "expired" ELSE IF exp - t <= Threshold THEN "near" ELSE "valid"

Ids(c) == {c[k].id : k \in 1..Len(c)}
Pos(c, id) == CHOOSE k \in 1..Len(c) : c[k].id = id

\* ReliabilityScore::score / update
RelAt(e, t)   == Clamp1(Decay(e.rel, t - e.relAt, RelTab))
Penalise(e, pen, t) == [e EXCEPT !.rel = RelAt(e, t) - pen, !.relAt = t]
\* PathScorer with the default scorers: reliability x 1.0 + (1 - hops/50) x 0.1
LenScore(id)  == 1000 - 20 * HopCount[id]
ScoreAt(e, t) == RelAt(e, t) + LenScore(e.id)
\* the quantity compared with path_swap_score_threshold (separate operator: Trace_PathSet substitutes logged values)
Gap(eb, ea, t) == ScoreAt(eb, t) - ScoreAt(ea, t)

\* PathStrategy::rank_inplace: stable sort, best score first
InsertStable(s, x, t) ==
  LET k == Cardinality({i \in 1..Len(s) : ScoreAt(s[i], t) >= ScoreAt(x, t)})
  IN SubSeq(s, 1, k) \o <<x>> \o SubSeq(s, k + 1, Len(s))
RECURSIVE Rank(_, _)
Rank(s, t) == IF s = <<>> THEN <<>> ELSE InsertStable(Rank(SubSeq(s, 1, Len(s) - 1), t), s[Len(s)], t)

\* PathSet::best_path: first entry of the ranked cache in the Valid class
Best(c, t) ==
  LET S == {k \in 1..Len(c) : Class(c[k].exp, t) = "valid"}
  IN IF S = {} THEN NoAct ELSE LET k == CHOOSE k \in S : \A j \in S : k <= j IN [id |-> c[k].id, exp |-> c[k].exp]

\* decide_active_path_update + apply_active_path_decision
Decide(c, act, t) ==
  LET best == Best(c, t)
      decision ==
        IF act = NoAct THEN "replace"
        ELSE IF Class(act.exp, t) = "valid"
             THEN IF /\ best # NoAct /\ act.id \in Ids(c)
                     /\ Gap(c[Pos(c, best.id)], c[Pos(c, act.id)], t) > SwapThr
                  THEN "replace" ELSE "nochange"
             ELSE IF Class(act.exp, t) = "near" THEN "replace" ELSE "force"
      cand == IF best # NoAct /\ act # NoAct /\ best.id = act.id THEN NoAct ELSE best
  IN IF decision = "nochange" THEN act
     ELSE IF cand # NoAct THEN cand
     ELSE IF decision = "force" THEN NoAct
     ELSE act

\* PathSet::ingest_path_issue for a sequence of issue ids (Interface / FirstHop targets scan all entries)
RECURSIVE ApplyIssues(_, _, _)
ApplyIssues(c, is, t) ==
  IF is = <<>> THEN c
  ELSE LET i == Head(is)
           c1 == IF IssueApplies[i]
                 THEN [k \in 1..Len(c) |-> IF c[k].id \in IssueHits[i] THEN Penalise(c[k], IssuePen[i], t) ELSE c[k]]
                 ELSE c
       IN ApplyIssues(c1, Tail(is), t)

\* did one of the (applicable) issues touch the entry of the active path?
Touches(c, is, act) ==
  act # NoAct /\ act.id \in Ids(c) /\ \E k \in 1..Len(is) : IssueApplies[is[k]] /\ act.id \in IssueHits[is[k]]

\* PathIssueManager::apply_cached_issues on a fresh entry (issues in id order; see MC assumption on order)
RECURSIVE ApplyCached(_, _, _, _)
ApplyCached(e, S, m, t) ==
  IF S = {} THEN e
  ELSE LET i == CHOOSE i \in S : \A j \in S : i <= j
           pen == Clamp1(Decay(IssuePen[i], t - m[i], IssTab))
           e1 == IF m[i] >= 0 /\ e.id \in IssueHits[i] THEN Penalise(e, pen, t) ELSE e
       IN ApplyCached(e1, S \ {i}, m, t)

\* merge_new_paths_algo
RECURSIVE Sel(_, _, _, _, _)
Sel(ex, nw, ke, kn, t) ==
  IF ke + kn >= MaxCache THEN <<ke, kn>>
  ELSE IF ke < Len(ex) /\ kn < Len(nw)
       THEN IF ScoreAt(ex[ke + 1], t) >= ScoreAt(nw[kn + 1], t) THEN Sel(ex, nw, ke + 1, kn, t) ELSE Sel(ex, nw, ke, kn + 1, t)
       ELSE IF ke < Len(ex) THEN Sel(ex, nw, ke + 1, kn, t)
       ELSE IF kn < Len(nw) THEN Sel(ex, nw, ke, kn + 1, t)
       ELSE <<ke, kn>>
Swap(s, a, b) == [k \in 1..Len(s) |-> IF k = a THEN s[b] ELSE IF k = b THEN s[a] ELSE s[k]]
Merge(ex, nw, act, t) ==
  LET has == act # NoAct /\ act.id \in Ids(ex)
      ex1 == IF has THEN Swap(ex, 1, Pos(ex, act.id)) ELSE ex
      k   == Sel(ex1, nw, IF has THEN 1 ELSE 0, 0, t)
  IN SubSeq(ex1, 1, k[1]) \o SubSeq(nw, 1, k[2])

\* the candidates in ascending id order (the code iterates a HashMap: the order among equal scores is arbitrary)
RECURSIVE SeqOfIds(_)
SeqOfIds(S) == IF S = {} THEN <<>> ELSE LET i == CHOOSE i \in S : \A j \in S : i <= j IN <<i>> \o SeqOfIds(S \ {i})

MinExp(c) == LET E == {c[k].exp : k \in 1..Len(c)} IN CHOOSE e \in E : \A f \in E : e <= f

\* next_maintain
NextMaintain ==
  LET m == MinI(nextRefetch, nextIdle)
  IN IF FIX_EXPIRY /\ active # NoAct THEN MinI(m, active.exp) ELSE m

--------------------------------------------------------------------------------
Init ==
  /\ now = 0 /\ alive = TRUE
  /\ cache = <<>> /\ active = NoAct
  /\ nextRefetch = 0 /\ nextIdle = IdlePeriod /\ failed = 0 /\ used = FALSE
  /\ imap = [i \in Issues |-> -1] /\ fifo = <<>> /\ chan = <<>> /\ lag = FALSE
  /\ out = [kind |-> "init"]
  /\ lastOk = {} /\ everOk = {} /\ lastFetch = NoFetch
  /\ lastAcc = [i \in Issues |-> -1]

(***************************************************************************)
(* update_path_cache(F): refresh, prune expired, (drain + candidates +     *)
(* merge) if new paths remain.  F: set of [id, exp, ok] that passed the    *)
(* policy filter; result [c, act, ch, lg].                                 *)
(***************************************************************************)
UpdateCache(F, t) ==
  LET ExpOf(id) == (CHOOSE p \in F : p.id = id).exp
      OkOf(id)  == (CHOOSE p \in F : p.id = id).ok
      refreshed == [k \in 1..Len(cache) |->
                      IF \E p \in F : p.id = cache[k].id
                      THEN [cache[k] EXCEPT !.exp = ExpOf(cache[k].id), !.ok = OkOf(cache[k].id)] ELSE cache[k]]
      c1 == SelectSeq(refreshed, LAMBDA e : Class(e.exp, t) # "expired")
      act1 == IF active = NoAct THEN NoAct
              ELSE IF active.id \in Ids(c1) THEN [id |-> active.id, exp |-> c1[Pos(c1, active.id)].exp]
              ELSE IF active.id \in Ids(cache) THEN NoAct
              ELSE active
      newIds == {p.id : p \in F} \ Ids(cache)
  IN IF newIds = {}
     THEN [c |-> c1, act |-> act1, ch |-> chan, lg |-> lag]
     ELSE LET c2 == ApplyIssues(c1, chan, t)                 \* drain_and_apply_issue_channel
              ids == SeqOfIds(newIds)
              fresh == [k \in 1..Len(ids) |->
                          ApplyCached([id |-> ids[k], exp |-> ExpOf(ids[k]), rel |-> 0, relAt |-> t, ok |-> OkOf(ids[k])],
                                      Issues, imap, t)]
          IN [c |-> Merge(c2, Rank(fresh, t), act1, t), act |-> act1, ch |-> <<>>, lg |-> FALSE]

(***************************************************************************)
(* Tick(f): PathSet::maintain(now) as called by the worker loop.           *)
(* f: the lookup service's answer, used only when a lookup is due:         *)
(*    [k |-> "ok", ps |-> set of [id, exp, ok]], [k |-> "empty"], [k |-> "err"] *)
(*    (ok: the attached policies accept this returned object)              *)
(***************************************************************************)
FetchAndUpdate(f, ni, u) ==
  LET Adm(p) == p.ok /\ p.id \in Allowed                 \* PathStrategy::predicate on the returned object
      F  == IF f.k = "ok"
            THEN {p \in f.ps : Adm(p) \/ (~FILTER_ALL /\ p.id \in Ids(cache))} ELSE {}
      ok == F # {}
      got == IF f.k = "ok" THEN {[id |-> p.id, exp |-> p.exp] : p \in {q \in f.ps : Adm(q)}} ELSE {}
      r  == UpdateCache(F, now)
  IN IF ok /\ r.c = <<>>
     THEN \* earliest_expiry().expect("should have a path available ...") panics: the worker dies
          /\ out' = [kind |-> "tick", fetched |-> TRUE, res |-> "panic"]
          /\ alive' = FALSE
          /\ lastOk' = got /\ everOk' = everOk \cup got /\ lastFetch' = [at |-> now, ok |-> TRUE]
          /\ UNCHANGED <<now, cache, active, nextRefetch, nextIdle, failed, used, imap, fifo, chan, lag, lastAcc>>
     ELSE LET c3 == Rank(r.c, now)
          IN /\ cache' = c3
             /\ active' = Decide(c3, r.act, now)
             /\ chan' = r.ch /\ lag' = r.lg
             /\ failed' = IF ok THEN 0 ELSE failed + 1
             /\ nextRefetch' = IF ok THEN MaxI(MinI(now + Interval, MinExp(r.c) - Threshold), now + MinDelay)
                               ELSE now + MaxI(Backoff(failed + 1), MinDelay)
             /\ nextIdle' = ni /\ used' = u
             /\ out' = [kind |-> "tick", fetched |-> TRUE, res |-> IF ok THEN "ok" ELSE "failed"]
             /\ lastOk' = IF got # {} THEN got ELSE lastOk
             /\ everOk' = everOk \cup got
             /\ lastFetch' = [at |-> now, ok |-> ok]
             /\ UNCHANGED <<now, alive, imap, fifo, lastAcc>>

\* repaired manager only: the active path ran out between two lookups
ExpiryMaintenance(ni, u) ==
  LET r  == UpdateCache({}, now)
      c3 == Rank(r.c, now)
  IN /\ cache' = c3 /\ active' = Decide(c3, r.act, now)
     /\ nextIdle' = ni /\ used' = u
     /\ out' = [kind |-> "tick", fetched |-> FALSE, res |-> "expiry"]
     /\ UNCHANGED <<now, alive, nextRefetch, failed, imap, fifo, chan, lag, lastOk, everOk, lastFetch, lastAcc>>

Tick(f) ==
  /\ alive /\ now >= NextMaintain
  /\ LET idleDue == now >= nextIdle IN
     IF idleDue /\ ~used
     THEN \* idle: the worker exits; the exit path clears the slot
          /\ f.k = "na"
          /\ alive' = FALSE /\ active' = NoAct
          /\ out' = [kind |-> "tick", fetched |-> FALSE, res |-> "idle"]
          /\ UNCHANGED <<now, cache, nextRefetch, nextIdle, failed, used, imap, fifo, chan, lag, lastOk, everOk, lastFetch, lastAcc>>
     ELSE LET ni == IF idleDue THEN now + IdlePeriod ELSE nextIdle
              u  == IF idleDue THEN FALSE ELSE used
          IN IF now >= nextRefetch
             THEN f.k # "na" /\ FetchAndUpdate(f, ni, u)
             ELSE /\ f.k = "na"
                  /\ IF FIX_EXPIRY /\ active # NoAct /\ active.exp <= now
                     THEN ExpiryMaintenance(ni, u)
                     ELSE /\ nextIdle' = ni /\ used' = u
                          /\ out' = [kind |-> "tick", fetched |-> FALSE, res |-> "none"]
                          /\ UNCHANGED <<now, alive, cache, active, nextRefetch, failed, imap, fifo, chan, lag,
                                         lastOk, everOk, lastFetch, lastAcc>>

(***************************************************************************)
(* Report(i): MultiPathManager::report_path_issue -> add_issue             *)
(***************************************************************************)
PopFront(m, q) ==      \* pinned commit: the map entry goes only if the timestamps match
  IF q = <<>> THEN [m |-> m, q |-> q, bad |-> FALSE]
  ELSE LET h == Head(q) IN
       IF m[h.id] = h.stamp THEN [m |-> [m EXCEPT ![h.id] = -1], q |-> Tail(q), bad |-> FALSE]
       ELSE [m |-> m, q |-> Tail(q), bad |-> m[h.id] = -1]

MapSize(m) == Cardinality({i \in Issues : m[i] >= 0})

RECURSIVE PopUntilRoom(_, _)
PopUntilRoom(m, q) ==
  IF MapSize(m) >= IssueCap /\ q # <<>>
  THEN LET p == PopFront(m, q) r == PopUntilRoom(p.m, p.q) IN [m |-> r.m, q |-> r.q, bad |-> p.bad \/ r.bad]
  ELSE [m |-> m, q |-> q, bad |-> FALSE]

Report(i) ==
  /\ alive
  /\ IF imap[i] >= 0 /\ now - imap[i] < Dedup
     THEN /\ out' = [kind |-> "report", res |-> "dup"]
          /\ UNCHANGED <<now, alive, cache, active, nextRefetch, nextIdle, failed, used, imap, fifo, chan, lag,
                         lastOk, everOk, lastFetch, lastAcc>>
     ELSE /\ IF Len(chan) >= ChanCap
             THEN chan' = Tail(chan) \o <<i>> /\ lag' = TRUE
             ELSE chan' = Append(chan, i) /\ lag' = lag
          /\ IF FIX_FIFO
             THEN \* repaired: pop until a slot is really free (only for a new id); compact the FIFO at 2 x capacity
                  LET p  == IF imap[i] < 0 THEN PopUntilRoom(imap, fifo) ELSE [m |-> imap, q |-> fifo, bad |-> FALSE]
                      q2 == IF Len(p.q) >= 2 * MaxI(IssueCap, 1)
                            THEN SelectSeq(p.q, LAMBDA x : p.m[x.id] = x.stamp) ELSE p.q
                  IN /\ fifo' = Append(q2, [id |-> i, stamp |-> now])
                     /\ imap' = [p.m EXCEPT ![i] = now]
                     /\ out' = [kind |-> "report", res |-> IF p.bad THEN "badcache" ELSE "accepted"]
             ELSE LET p == IF MapSize(imap) >= IssueCap THEN PopFront(imap, fifo) ELSE [m |-> imap, q |-> fifo, bad |-> FALSE]
                  IN /\ fifo' = Append(p.q, [id |-> i, stamp |-> now])
                     /\ imap' = [p.m EXCEPT ![i] = now]
                     /\ out' = [kind |-> "report", res |-> IF p.bad THEN "badcache" ELSE "accepted"]
          /\ lastAcc' = [lastAcc EXCEPT ![i] = now]
          /\ UNCHANGED <<now, alive, cache, active, nextRefetch, nextIdle, failed, used, lastOk, everOk, lastFetch>>

(***************************************************************************)
(* Ingest: the worker loop's issue arm, PathSet::handle_issue_rx           *)
(***************************************************************************)
Ingest ==
  /\ alive /\ (lag \/ chan # <<>>)
  /\ IF lag
     THEN \* RecvError::Lagged: warn and return; the retained notifications follow
          /\ lag' = FALSE
          /\ out' = [kind |-> "ingest", res |-> "lagged", relevant |-> FALSE, changed |-> FALSE]
          /\ UNCHANGED <<now, alive, cache, active, nextRefetch, nextIdle, failed, used, imap, fifo, chan,
                         lastOk, everOk, lastFetch, lastAcc>>
     ELSE IF ~IssueApplies[Head(chan)]
     THEN /\ chan' = Tail(chan)
          /\ out' = [kind |-> "ingest", res |-> "handled", relevant |-> FALSE, changed |-> FALSE]
          /\ UNCHANGED <<now, alive, cache, active, nextRefetch, nextIdle, failed, used, imap, fifo, lag,
                         lastOk, everOk, lastFetch, lastAcc>>
     ELSE LET c1 == ApplyIssues(cache, chan, now)
              c2 == IF Touches(cache, chan, active) THEN Rank(c1, now) ELSE c1
              a2 == IF Touches(cache, chan, active) THEN Decide(c2, active, now) ELSE active
          IN /\ cache' = c2 /\ active' = a2 /\ chan' = <<>>
             /\ out' = [kind |-> "ingest", res |-> "handled",
                        relevant |-> \E k \in 1..Len(chan) : IssueApplies[chan[k]] /\ IssueHits[chan[k]] \cap Ids(cache) # {},
                        changed |-> (a2 # active \/ [k \in 1..Len(c2) |-> c2[k].id] # [k \in 1..Len(cache) |-> cache[k].id])]
             /\ UNCHANGED <<now, alive, nextRefetch, nextIdle, failed, used, imap, fifo, lag,
                            lastOk, everOk, lastFetch, lastAcc>>

(***************************************************************************)
(* Send: MultiPathManager::cached_path / path for the pair: reads the slot *)
(***************************************************************************)
Send ==
  /\ alive
  /\ used' = TRUE
  /\ out' = [kind |-> "send", res |-> active]
  /\ UNCHANGED <<now, alive, cache, active, nextRefetch, nextIdle, failed, imap, fifo, chan, lag,
                 lastOk, everOk, lastFetch, lastAcc>>

(***************************************************************************)
(* Advance(d): time passes while the worker is alive: it sleeps at most    *)
(* until its next maintenance instant (+ Late) and has nothing to ingest.  *)
(***************************************************************************)
Advance(d) ==
  /\ alive /\ d >= 1
  /\ chan = <<>> /\ ~lag
  /\ now + d <= NextMaintain + Late
  /\ now' = now + d
  /\ out' = [kind |-> "adv"]
  /\ UNCHANGED <<alive, cache, active, nextRefetch, nextIdle, failed, used, imap, fifo, chan, lag,
                 lastOk, everOk, lastFetch, lastAcc>>

--------------------------------------------------------------------------------
(* P-layer *)

\* the worker is asleep with nothing to do: what a sender sees now is what the manager stands for
NoTickPending == alive /\ now < NextMaintain
Quiescent     == NoTickPending /\ chan = <<>> /\ ~lag

\* ---- C05
\* the path OBJECT in the slot satisfies every attached policy (never an unfiltered path) ...
PolicyHonoured == active # NoAct => (active.id \in Allowed /\ (active.id \in Ids(cache) => cache[Pos(cache, active.id)].ok))
\* ... and is a path a lookup really returned, from the most recent lookup that returned paths or still unexpired
Provenance ==
  active # NoAct =>
    /\ active \in everOk
    /\ (NoTickPending => (active \in lastOk \/ active.exp > now))
ActiveInCache == active # NoAct => (active.id \in Ids(cache) /\ cache[Pos(cache, active.id)].exp = active.exp)

\* ---- C06
LiveAtHandout == (NoTickPending /\ active # NoAct) => active.exp > now
NoStarvation  == (NoTickPending /\ \E k \in 1..Len(cache) : Class(cache[k].exp, now) = "valid") => active # NoAct
CacheBound    == Len(cache) <= MaxCache
IssueMapBound == MapSize(imap) <= IssueCap
IssueFifoBound == Len(fifo) <= 2 * IssueCap
BackoffMax    == LET S == {BackoffTab[k] : k \in 1..Len(BackoffTab)} IN CHOOSE b \in S : \A c \in S : c <= b
RefetchWindow ==
  (alive /\ lastFetch # NoFetch) =>
    /\ nextRefetch >= lastFetch.at + MinDelay
    /\ nextRefetch <= lastFetch.at + (IF lastFetch.ok THEN Interval ELSE MaxI(BackoffMax, MinDelay))
NoWorkerPanic == ~(out.kind = "tick" /\ out.res = "panic") /\ ~(out.kind = "report" /\ out.res = "badcache")

\* ---- C07
\* a path counts as penalised while a report that hit it is younger than RecoverWin
RecoverWin == 10 * Len(RelTab)
\* a report is fresh while it is younger than the shortest half-life the stack applies to a penalty (a path
\* fetched after the report carries the cached issue's penalty, which halves every Len(IssTab) ticks = 30 s)
FreshWin   == Len(IssTab)
HitSince(p, w) == \E i \in Issues : lastAcc[i] >= 0 /\ now - lastAcc[i] < w /\ IssueApplies[i] /\ p \in IssueHits[i]
\* while a report on an interface of the path in use is fresh and a valid, unpenalised cached path avoids the
\* interface, the slot does not hold a path crossing it (covers "very next send" and "no return while fresh")
\* the bounded issue memory may have forgotten a report once IssueCap other issues were accepted after it
Remembered(i) == Cardinality({j \in Issues \ {i} : lastAcc[j] >= lastAcc[i]}) < IssueCap
SteerAway ==
  (Quiescent /\ active # NoAct) =>
    ~ \E i \in Issues :
        /\ lastAcc[i] >= 0 /\ now - lastAcc[i] < FreshWin /\ IssueApplies[i] /\ Remembered(i)
        /\ active.id \in IssueHits[i]
        /\ \E k \in 1..Len(cache) : /\ Class(cache[k].exp, now) = "valid"
                                    /\ cache[k].id \notin IssueHits[i]
                                    /\ ~HitSince(cache[k].id, RecoverWin)
\* once the penalty has decayed the path is eligible again: its reliability is back within 1 %
Recovers == \A k \in 1..Len(cache) : ~HitSince(cache[k].id, RecoverWin) => RelAt(cache[k], now) > -100
\* a report that matches no cached path changes nothing
IrrelevantReportNoChange == (out.kind = "ingest" /\ ~out.relevant) => ~out.changed
=============================================================================
