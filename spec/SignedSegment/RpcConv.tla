------------------------------- MODULE RpcConv -------------------------------
(***************************************************************************)
(* Decision table: which abstract RPC messages convert                     *)
(* (sciparse scion/segment/rpc.rs, scion/path.rs ScionPath::try_from_rpc,  *)
(* scion/path/metadata.rs).  A cell is [k |-> kind, f |-> <<features>>];   *)
(* a feature is the boundary class of one field.  Conv(cell) is "ok" or    *)
(* "err".  The table is transcribed from the code check by check (I-layer);*)
(* the P-layer statements evaluated on the REAL results are in             *)
(* Trace_RpcConv (never a panic; a converted value survives to_rpc /       *)
(* try_from_rpc unchanged).                                                *)
(***************************************************************************)
EXTENDS Naturals, Sequences, FiniteSets, TLC

\* boundary classes of unsigned integer fields
U64C  == {"0", "1", "255", "256", "65535", "65536", "u32max", "u32max1", "u64max"}
U32C  == {"0", "1", "255", "256", "65535", "65536", "u32max"}
FitsU8(c)  == c \in {"0", "1", "255"}
FitsU16(c) == c \in {"0", "1", "255", "256", "65535"}
FitsU32(c) == c \in {"0", "1", "255", "256", "65535", "65536", "u32max"}

\* ---- control_plane.v1.HopField: f = <<mac, exp_time, ingress, egress>>
MacC == {"len0", "len5", "len6", "len7"}
HopFieldCells == {[k |-> "HopField", f |-> <<m, e, i, g>>] :
                    m \in MacC, e \in {"0", "255", "256", "u32max"},
                    i \in {"0", "65535", "65536", "u64max"}, g \in {"1", "65535", "65536", "u32max1"}}
HopFieldOk(f) == f[1] = "len6" /\ FitsU8(f[2]) /\ FitsU16(f[3]) /\ FitsU16(f[4])

\* ---- HopEntry: f = <<hop_field (missing|bad|good), ingress_mtu>>
SubC == {"missing", "bad", "good"}
HopEntryCells == {[k |-> "HopEntry", f |-> <<h, m>>] : h \in SubC, m \in {"0", "65535", "65536", "u32max"}}
HopEntryOk(f) == f[1] = "good" /\ FitsU16(f[2])

\* ---- PeerEntry: f = <<hop_field, peer_interface, peer_mtu, peer_isd_as>>
PeerEntryCells == {[k |-> "PeerEntry", f |-> <<h, i, m, a>>] :
                     h \in SubC, i \in {"0", "65535", "65536", "u64max"},
                     m \in {"0", "65535", "65536", "u32max"}, a \in {"0", "u64max"}}
PeerEntryOk(f) == f[1] = "good" /\ FitsU16(f[2]) /\ FitsU16(f[3])

\* ---- SegmentInformation: f = <<timestamp (int64), segment_id (uint32)>>
TsC == {"i64min", "neg1", "0", "u32max", "u32max1", "i64max"}
SegInfoCells == {[k |-> "SegInfo", f |-> <<t, s>>] : t \in TsC, s \in {"0", "65535", "65536", "u32max"}}
SegInfoOk(f) == FitsU32(f[1]) /\ FitsU16(f[2])   \* i64min, neg1, u32max1, i64max do not fit

\* ---- ASEntry: f = <<signed (missing|present), header_and_body (garbage|ok), body (garbage|ok),
\*                    hop_entry (missing|bad|good), peers (none|good|onebad), as mtu>>
AsEntryCells == {[k |-> "AsEntry", f |-> <<s, hb, b, h, p, m>>] :
                   s \in {"missing", "present"}, hb \in {"garbage", "ok"}, b \in {"garbage", "ok"},
                   h \in SubC, p \in {"none", "good", "onebad"}, m \in {"0", "u32max"}}
AsEntryOk(f) == f[1] = "present" /\ f[2] = "ok" /\ f[3] = "ok" /\ f[4] = "good" /\ f[5] # "onebad"

\* ---- PathSegment: f = <<segment_info (garbage|badrange|ok|empty), entries (none|good|onebad)>>
PathSegCells == {[k |-> "PathSegment", f |-> <<i, e>>] :
                   i \in {"garbage", "badrange", "ok", "empty"}, e \in {"none", "good", "onebad"}}
PathSegOk(f) == f[1] \in {"ok", "empty"} /\ f[2] # "onebad"

\* ---- SegmentsResponse map: f = <<segment type key, segment (good|bad)>>
\*      an unknown key is skipped without looking at its segments; under key 0 (UNSPECIFIED)
\*      every segment is converted first and then skipped
SegmentsCells == {[k |-> "Segments", f |-> <<t, s>>] :
                    t \in {"up", "down", "core", "unspecified", "unknown"}, s \in {"good", "bad"}}
SegmentsOk(f) == f[2] = "good" \/ f[1] = "unknown"

\* ---- daemon.v1.PathInterface: f = <<id, isd_as>>
PathIfCells == {[k |-> "PathInterface", f |-> <<i, a>>] : i \in U64C, a \in {"0", "u64max"}}
PathIfOk(f) == FitsU16(f[1])

\* ---- daemon.v1.Path: f = <<raw, ia, next hop, interfaces, expiration, mtu, metadata vectors>>
\*      raw: empty|garbage|valid|trailing       ia (src,dst handed to try_from_rpc): same|diff|wild
\*      next hop: none|noaddr|valid|garbage      interfaces: zero|odd|even|badid
\*      expiration: missing|present|negative     mtu: ok|big
\*      vectors (latency, bandwidth, geo, link_type, internal_hops, notes): match|short|long|empty
PathCells == {[k |-> "Path", f |-> <<r, a, n, i, e, m, v>>] :
                r \in {"empty", "garbage", "valid", "trailing"}, a \in {"same", "diff", "wild"},
                n \in {"none", "noaddr", "valid", "garbage"}, i \in {"zero", "odd", "even", "badid"},
                e \in {"missing", "present", "negative"}, m \in {"ok", "big"},
                v \in {"match", "short", "long", "empty"}}
PathOk(f) ==
  IF f[1] = "empty" THEN f[2] = "same"     \* wildcard src and dst, or src # dst: error; src = dst: local path
  ELSE /\ f[1] = "valid"                   \* parse failure / trailing bytes
       /\ f[3] # "garbage"                 \* next hop address must parse if present
       /\ f[4] = "even"                    \* even number > 0 of interfaces, every id fits u16
       /\ f[5] = "present"                 \* expiration must be there and must not be negative
       /\ f[6] = "ok"
       \* vectors of unexpected length are ignored, never an error

Cells == HopFieldCells \cup HopEntryCells \cup PeerEntryCells \cup SegInfoCells \cup AsEntryCells
         \cup PathSegCells \cup SegmentsCells \cup PathIfCells \cup PathCells

Kinds == {"HopField", "HopEntry", "PeerEntry", "SegInfo", "AsEntry", "PathSegment", "Segments",
          "PathInterface", "Path"}

Ok(c) == CASE c.k = "HopField"      -> HopFieldOk(c.f)
           [] c.k = "HopEntry"      -> HopEntryOk(c.f)
           [] c.k = "PeerEntry"     -> PeerEntryOk(c.f)
           [] c.k = "SegInfo"       -> SegInfoOk(c.f)
           [] c.k = "AsEntry"       -> AsEntryOk(c.f)
           [] c.k = "PathSegment"   -> PathSegOk(c.f)
           [] c.k = "Segments"      -> SegmentsOk(c.f)
           [] c.k = "PathInterface" -> PathIfOk(c.f)
           [] c.k = "Path"          -> PathOk(c.f)

Conv(c) == IF Ok(c) THEN "ok" ELSE "err"

\* FromRpc(ToRpc(v)) = v is meaningful for the cells that convert; the table says which of them
\* are in the image of to_rpc at all (every field in range, vectors as to_rpc writes them)
=============================================================================
