SPECIFICATION TSpec
CONSTANTS
  FIXED = TRUE
  NMAX = 7
INVARIANTS NoPanic SameLength NoInvalidAccepted NoValidRejected ConversionRefusal
POSTCONDITION TraceAccepted
CHECK_DEADLOCK FALSE
