---------------------------- MODULE SignedSegment ----------------------------
(***************************************************************************)
(* Chained signatures of a SCION path segment                              *)
(* (crates/libs/sciparse/src/scion/segment.rs, signed_message.rs).         *)
(*                                                                         *)
(* A segment is <<info, e_1 .. e_n>>, e_i = [body, hdr, sig].  Crypto is   *)
(* symbolic: a signature is the injective record                           *)
(*      Sign(k, hdr, body, info, pre)   pre = <<e_1 .. e_{i-1}>>           *)
(* i.e. it "opens" to exactly the key and the bytes it was made over.      *)
(* Bytes are abstract: a body / header / signature / info is an atom plus  *)
(* the SET of bit positions that were flipped (toggle semantics), so two   *)
(* byte strings are equal iff the records are equal.                       *)
(*                                                                         *)
(* P-layer  Valid(i): the signature of the entry at POSITION i opens under *)
(*          the key the verifier resolves for hdr.kid to exactly           *)
(*          (hdr, body, info, <<e_1..e_{i-1}>>)  (seg.proto: associated    *)
(*          data (ps, i) is positional).                                   *)
(* I-layer  ImplValid(i): SignedAsEntry::validate_signature as written:    *)
(*          AsEntry::associated_data locates the entry in the segment,     *)
(*          SignedMessage::validate checks header.associated_data_length   *)
(*          (early return) and then the signature.                         *)
(*          FIXED = FALSE: lookup by AsEntry equality (take_while(e.entry  *)
(*          != self)), the pinned commit; FIXED = TRUE: lookup by position.*)
(*                                                                         *)
(* Tamper actions (what a hostile control service / on-path attacker can   *)
(* do to the RPC message) are listed at "Tampers".                         *)
(***************************************************************************)
EXTENDS Naturals, Sequences, FiniteSets, TLC

CONSTANTS FIXED,     \* TRUE = positional lookup (repaired), FALSE = pinned commit
          NMAX       \* largest honest segment considered (tables below are computed once)

(***************************************************************************)
(* Symbolic byte strings                                                   *)
(***************************************************************************)
Atom(x)       == [id |-> x, flips |-> {}]
Toggle(v, b)  == [v EXCEPT !.flips = IF b \in @ THEN @ \ {b} ELSE @ \cup {b}]

\* key ids and keys: the AS with id x signs with key x and announces key id x
\* (the harness gives every AS its own P-256 key and VerificationKeyId).
KeyOf(id) == id
WRONGKEY  == 999      \* a key nobody signed with
NOKEY     == 998      \* the resolver has no key for the id (KeyMissing)

Hdr(kid, alen) == [id |-> kid, alen |-> alen, flips |-> {}]

Sign(k, hdr, body, info, pre) ==
  [k |-> k, hdr |-> hdr, body |-> body, info |-> info, pre |-> pre, flips |-> {}]

\* honest construction: SignedPathSegment::add_entry for ids[1..n] in order
RECURSIVE Build(_, _, _)
Build(info, ids, n) ==
  IF n = 0 THEN <<>>
  ELSE LET pre  == Build(info, ids, n - 1)
           hdr  == Hdr(ids[n], Len(pre))
           body == Atom(ids[n])
       IN Append(pre, [body |-> body, hdr |-> hdr,
                       sig |-> Sign(KeyOf(ids[n]), hdr, body, info, pre)])

InfoI == Atom("I")
InfoJ == Atom("J")

\* the honest segment under attack, a foreign segment (other info, other ASes),
\* and the legitimate next entry a child AS would append to the honest segment.
\* Variant v = 1 (n >= 3): the LAST entry of the honest segment is a copy of the AS entry of the first
\* AS (same body, honestly signed at its own position) - the signer meets an entry equal to an earlier one.
BaseIds(n)    == [i \in 1..n |-> i]
DupIds(n)     == [i \in 1..n |-> IF i = n THEN 1 ELSE i]
ForeignIds(n) == [i \in 1..n |-> 20 + i]
\* constant tables (TLC evaluates constant definitions once); Build is prefix-consistent
BaseAll       == Build(InfoI, BaseIds(NMAX), NMAX)
DupTab        == [n \in 3..NMAX |-> Build(InfoI, DupIds(n), n)]
ForeignAll    == Build(InfoJ, ForeignIds(NMAX), NMAX)
BaseEs(n, v)  == IF v = 1 THEN DupTab[n] ELSE SubSeq(BaseAll, 1, n)
LegitTab      == [n \in 1..NMAX |-> [v \in 0..1 |->
                    IF v = 1 /\ n < 3 THEN <<>> ELSE
                    LET pre  == BaseEs(n, v)
                        hdr  == Hdr(30, n)
                        body == Atom(30)
                    IN [body |-> body, hdr |-> hdr, sig |-> Sign(KeyOf(30), hdr, body, InfoI, pre)]]]
BaseV(n, v)      == [info |-> InfoI, es |-> BaseEs(n, v)]
Base(n)          == BaseV(n, 0)
Foreign(n)       == [info |-> InfoJ, es |-> SubSeq(ForeignAll, 1, n)]
LegitNextV(n, v) == LegitTab[n][v]

HonestResolve(n) == [kid \in (1..n) \cup (21..(20+n)) \cup {30} |-> KeyOf(kid)]

(***************************************************************************)
(* Validation                                                              *)
(***************************************************************************)
Opens(sig, k, hdr, body, info, pre) ==
  /\ sig.flips = {}
  /\ sig.k = k /\ sig.hdr = hdr /\ sig.body = body /\ sig.info = info /\ sig.pre = pre

Resolve(res, hdr) == IF hdr.id \in DOMAIN res THEN res[hdr.id] ELSE NOKEY

\* P-layer: positional
Valid(seg, res, i) ==
  LET e == seg.es[i] IN
  Opens(e.sig, Resolve(res, e.hdr), e.hdr, e.body, seg.info, SubSeq(seg.es, 1, i - 1))

\* I-layer: AsEntry::associated_data.  AsEntry equality = equality of the decoded body.
FirstEqual(seg, i) == CHOOSE j \in 1..i : /\ seg.es[j].body = seg.es[i].body
                                          /\ \A k \in 1..(j-1) : seg.es[k].body # seg.es[i].body
ImplPrefix(seg, i) == IF FIXED THEN SubSeq(seg.es, 1, i - 1)
                      ELSE SubSeq(seg.es, 1, FirstEqual(seg, i) - 1)

\* outcome class of SignedMessage::validate, coarse (only "ok" is compared for the verdict)
ImplOutcome(seg, res, i) ==
  LET e   == seg.es[i]
      pre == ImplPrefix(seg, i)
      k   == Resolve(res, e.hdr)
  IN IF e.hdr.flips # {} THEN "hdr"            \* any of: decode error, key missing, length, algorithm, signature
     ELSE IF k = NOKEY THEN "nokey"            \* key_provider returned Err
     ELSE IF e.hdr.alen # Len(pre) THEN "alen" \* InvalidAssociatedDataLength (early return)
     ELSE IF Opens(e.sig, k, e.hdr, e.body, seg.info, pre) THEN "ok"
     ELSE "sig"                                \* SignatureMalformed / SignatureVerificationFailed

ImplValid(seg, res, i) == ImplOutcome(seg, res, i) = "ok"

(***************************************************************************)
(* Tampers: operators from (seg, res) to (seg, res).  op = [op, a, b].     *)
(***************************************************************************)
InsertAt(s, p, x) == SubSeq(s, 1, p - 1) \o <<x>> \o SubSeq(s, p, Len(s))
RemoveAt(s, p)    == SubSeq(s, 1, p - 1) \o SubSeq(s, p + 1, Len(s))
SwapAt(s, i, j)   == [s EXCEPT ![i] = s[j], ![j] = s[i]]

OpNames == {"FlipBody", "FlipHdr", "FlipSig", "FlipInfo", "Swap", "Truncate", "Remove",
            "InsertCopy", "ExtendForeign", "ExtendLegit", "SubstKey", "NoKey"}

\* is op applicable to a segment with L entries whose honest base had n0 entries?
Applicable(t, L, n0, maxlen) ==
  CASE t.op \in {"FlipBody", "FlipHdr", "FlipSig"} -> t.a \in 1..L
    [] t.op = "FlipInfo"      -> TRUE
    [] t.op = "Swap"          -> t.a \in 1..L /\ t.b \in 1..L /\ t.a < t.b
    [] t.op = "Truncate"      -> t.a \in 0..(L - 1)                 \* keep the first a entries
    [] t.op = "Remove"        -> t.a \in 1..L
    [] t.op = "InsertCopy"    -> t.a \in 1..L /\ t.b \in 1..(L + 1) /\ L < maxlen  \* copy of e_a inserted at position b
    [] t.op = "ExtendForeign" -> t.a \in 1..n0 /\ L < maxlen        \* entry a of the foreign segment appended
    [] t.op = "ExtendLegit"   -> L < maxlen                         \* the entry a child of the LAST honest AS would append
    [] t.op \in {"SubstKey", "NoKey"} -> t.a \in 1..n0              \* verifier resolves another / no key for AS a
    [] OTHER -> FALSE

Apply(t, seg, res, n0, v) ==
  CASE t.op = "FlipBody" -> [seg |-> [seg EXCEPT !.es[t.a].body = Toggle(@, t.b)], res |-> res]
    [] t.op = "FlipHdr"  -> [seg |-> [seg EXCEPT !.es[t.a].hdr  = Toggle(@, t.b)], res |-> res]
    [] t.op = "FlipSig"  -> [seg |-> [seg EXCEPT !.es[t.a].sig  = Toggle(@, t.b)], res |-> res]
    [] t.op = "FlipInfo" -> [seg |-> [seg EXCEPT !.info = Toggle(@, t.b)], res |-> res]
    [] t.op = "Swap"     -> [seg |-> [seg EXCEPT !.es = SwapAt(@, t.a, t.b)], res |-> res]
    [] t.op = "Truncate" -> [seg |-> [seg EXCEPT !.es = SubSeq(@, 1, t.a)], res |-> res]
    [] t.op = "Remove"   -> [seg |-> [seg EXCEPT !.es = RemoveAt(@, t.a)], res |-> res]
    [] t.op = "InsertCopy"    -> [seg |-> [seg EXCEPT !.es = InsertAt(@, t.b, seg.es[t.a])], res |-> res]
    [] t.op = "ExtendForeign" -> [seg |-> [seg EXCEPT !.es = Append(@, Foreign(n0).es[t.a])], res |-> res]
    [] t.op = "ExtendLegit"   -> [seg |-> [seg EXCEPT !.es = Append(@, LegitNextV(n0, v))], res |-> res]
    [] t.op = "SubstKey" -> [seg |-> seg, res |-> [res EXCEPT ![t.a] = IF @ = WRONGKEY THEN KeyOf(t.a) ELSE WRONGKEY]]
    [] t.op = "NoKey"    -> [seg |-> seg, res |-> [res EXCEPT ![t.a] = IF @ = NOKEY THEN KeyOf(t.a) ELSE NOKEY]]

(***************************************************************************)
(* P-layer statements over a (tampered) segment                            *)
(***************************************************************************)
Positions(seg) == 1..Len(seg.es)

\* the code's verdict is the positional one, for every entry
VerdictsAgree(seg, res) == \A i \in Positions(seg) : ImplValid(seg, res, i) <=> Valid(seg, res, i)

\* authentic segments: prefixes of the honest base segment, possibly extended by the legitimate child entry
IsAuthentic(seg, n0, v) ==
  \/ seg.es = <<>>          \* nothing is claimed (the info of an empty segment is not authenticated by anything)
  \/ \E k \in 1..n0 : seg = [info |-> InfoI, es |-> SubSeq(BaseEs(n0, v), 1, k)]
  \/ seg = [info |-> InfoI, es |-> Append(BaseEs(n0, v), LegitNextV(n0, v))]

\* if the verifier resolves the right keys and every entry validates, nothing was tampered with
AcceptedOnlyIfAuthentic(seg, res, n0, v) ==
  (res = HonestResolve(n0) /\ \A i \in Positions(seg) : ImplValid(seg, res, i)) => IsAuthentic(seg, n0, v)

\* conversely an authentic segment validates completely under the right keys
AuthenticAccepted(seg, res, n0, v) ==
  (res = HonestResolve(n0) /\ IsAuthentic(seg, n0, v)) => \A i \in Positions(seg) : ImplValid(seg, res, i)

\* a tampered entry invalidates itself and everything after it (valid positions form a prefix)
ValidIsPrefixClosed(seg, res, n0) ==
  res = HonestResolve(n0) =>
    \A i \in Positions(seg) : ImplValid(seg, res, i) => \A j \in 1..i : ImplValid(seg, res, j)
=============================================================================
