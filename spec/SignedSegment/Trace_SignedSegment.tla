------------------------ MODULE Trace_SignedSegment ------------------------
(* Trace validation: seeded tamper sequences applied by the harness to real   *)
(* P-256 signed segments.  The tampers are replayed on the symbolic segment   *)
(* and the P-layer is evaluated by TLC on the verdicts the REAL code returned *)
(* (SignedAsEntry::validate_signature, SignedMessage::validate,               *)
(* SignedMessage::decode_validated).  Events (ndjson, file named by TRACE):   *)
(*   {"ev":"meta",..}                                     first line          *)
(*   {"ev":"reset","n":n0,"v":0|1}         fresh honest segment of n0 entries *)
(*   {"ev":"tamper","op","a","b"}          b = concrete bit offset for flips  *)
(*   {"ev":"validate","conv":"ok|err|panic","len","vs":[bool],"vm":[bool],"dv":[bool]} *)
EXTENDS SignedSegment, Json, IOUtils

Rec == ndJsonDeserialize(IOEnv.TRACE)

VARIABLES l, n0, vt, seg, res, obs

tvars == <<l, n0, vt, seg, res, obs>>

NoObs == [conv |-> "none"]

TInit == /\ l = 2 /\ n0 = 1 /\ vt = 0 /\ seg = Base(1) /\ res = HonestResolve(1) /\ obs = NoObs

TReset == /\ l <= Len(Rec) /\ Rec[l].ev = "reset"
          /\ Rec[l].n \in 1..NMAX /\ Rec[l].v \in 0..1 /\ (Rec[l].v = 1 => Rec[l].n >= 3)
          /\ n0' = Rec[l].n /\ vt' = Rec[l].v /\ seg' = BaseV(Rec[l].n, Rec[l].v) /\ res' = HonestResolve(Rec[l].n)
          /\ obs' = NoObs /\ l' = l + 1

TTamper == /\ l <= Len(Rec) /\ Rec[l].ev = "tamper"
           /\ LET t == [op |-> Rec[l].op, a |-> Rec[l].a, b |-> Rec[l].b] IN
              /\ t.op \in OpNames
              /\ Applicable(t, Len(seg.es), n0, 64)
              /\ LET r == Apply(t, seg, res, n0, vt) IN seg' = r.seg /\ res' = r.res
           /\ obs' = NoObs /\ l' = l + 1 /\ UNCHANGED <<n0, vt>>

TValidate == /\ l <= Len(Rec) /\ Rec[l].ev = "validate"
             /\ obs' = Rec[l] /\ l' = l + 1 /\ UNCHANGED <<n0, vt, seg, res>>

TNext == TReset \/ TTamper \/ TValidate
TSpec == TInit /\ [][TNext]_tvars

BytesDamaged == \/ seg.info.flips # {}
                \/ \E i \in Positions(seg) : seg.es[i].body.flips # {} \/ seg.es[i].hdr.flips # {}

Observed == obs.conv # "none"
Apis     == IF obs.conv = "ok" THEN {obs.vs, obs.vm, obs.dv} ELSE {}

\* ---- P-layer, on real verdicts
NoPanic           == Observed => obs.conv # "panic"
SameLength        == obs.conv = "ok" => /\ obs.len = Len(seg.es)
                                        /\ \A v \in Apis : Len(v) = Len(seg.es)
NoInvalidAccepted == obs.conv = "ok" => \A v \in Apis : \A i \in Positions(seg) : v[i] => Valid(seg, res, i)
NoValidRejected   == obs.conv = "ok" => \A v \in Apis : \A i \in Positions(seg) : Valid(seg, res, i) => v[i]
\* refusing the whole segment at conversion is a rejection; it must not hit a segment with intact bytes
\* that contains an entry which is authentic in place
ConversionRefusal == obs.conv = "err" => (BytesDamaged \/ \A i \in Positions(seg) : ~Valid(seg, res, i))

TraceAccepted ==
  LET d == TLCGet("stats").diameter IN
  IF d = Len(Rec) THEN TRUE
  ELSE /\ PrintT(<<"TRACE-REJECTED", "matched", d - 1, "of", Len(Rec) - 1, "first unmatched line", d + 1>>)
       /\ (d + 1 <= Len(Rec) => PrintT(<<"UNMATCHED", ToJson(Rec[d + 1])>>))
       /\ FALSE
=============================================================================
