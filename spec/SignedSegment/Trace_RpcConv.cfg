SPECIFICATION TSpec
INVARIANTS NoPanic RoundTrip
POSTCONDITION TraceAccepted
CHECK_DEADLOCK FALSE
