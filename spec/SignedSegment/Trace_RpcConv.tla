---------------------------- MODULE Trace_RpcConv ----------------------------
(* Validation of RPC conversions executed on the real code: one line per       *)
(* message {"k":kind,"f":[features extracted by the harness],"got":"ok|err|panic","rt":..}; *)
(* k = "Bytes" for byte-level damaged encodings that prost still decodes.                 *)
(* P-layer (raises violations): never a panic; a value obtained from a message  *)
(* converts to RPC and back to the same value.  I-layer: got = Conv(cell).      *)
EXTENDS RpcConv, Json, IOUtils

Rec == ndJsonDeserialize(IOEnv.TRACE)

VARIABLES l, cur
tvars == <<l, cur>>

None == [k |-> "none", f |-> <<>>, got |-> "none", rt |-> "na"]

TInit == l = 1 /\ cur = None

\* I-layer conformance is the enabling condition: a line whose outcome differs from the table stops the trace
\* kind "Bytes": a damaged encoding that still decodes; the table makes no prediction for it
TLine == /\ l <= Len(Rec)
         /\ Rec[l].k \in Kinds \cup {"Bytes"}
         /\ \/ Rec[l].got = "panic"
            \/ Rec[l].k = "Bytes"
            \/ (Rec[l].k \in Kinds /\ Rec[l].got = Conv([k |-> Rec[l].k, f |-> Rec[l].f]))
         /\ cur' = Rec[l] /\ l' = l + 1

\* a mismatching line is skipped (reported as drift by the driver via SKIPPED lines)
TSkip == /\ l <= Len(Rec)
         /\ Rec[l].k \in Kinds
         /\ Rec[l].got # "panic"
         /\ Rec[l].got # Conv([k |-> Rec[l].k, f |-> Rec[l].f])
         /\ PrintT(<<"SKIPPED", ToJson(Rec[l])>>)
         /\ cur' = [Rec[l] EXCEPT !.got = "skipped"] /\ l' = l + 1

TNext == TLine \/ TSkip
TSpec == TInit /\ [][TNext]_tvars

NoPanic   == cur.got # "panic"
RoundTrip == cur.got = "ok" => cur.rt = "same"

TraceAccepted ==
  LET d == TLCGet("stats").diameter IN
  IF d = Len(Rec) + 1 THEN TRUE
  ELSE /\ PrintT(<<"TRACE-REJECTED", "matched", d - 1, "of", Len(Rec)>>)
       /\ FALSE
=============================================================================
