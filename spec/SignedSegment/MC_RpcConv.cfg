SPECIFICATION MCSpec
CONSTANTS
  GEN = TRUE
INVARIANTS Emit
