-------------------------- MODULE MC_SignedSegment --------------------------
(* Exhaustive: every honest segment of 1..MAXN entries x every sequence of at  *)
(* most DEPTH tampers over the alphabet below.  GEN = TRUE prints one line per *)
(* distinct tampered (segment, resolver): the tamper history that reached it   *)
(* and the expected verdict of every entry (replayed on the real code).        *)
EXTENDS SignedSegment, Json

CONSTANTS MAXN, DEPTH, BITS, GEN,
          VARIANTS   \* subset of {0, 1}: 1 = honest segment whose last entry equals the first AS entry

VARIABLES n0, v, seg, res, h, d

vars == <<n0, v, seg, res, h, d>>

MAXLEN == MAXN + 2

\* the tamper alphabet applicable to a segment of L entries (honest base: n entries)
Tampers(L, n) ==
  {[op |-> o, a |-> i, b |-> b] : o \in {"FlipBody", "FlipHdr", "FlipSig"}, i \in 1..L, b \in BITS}
  \cup {[op |-> "FlipInfo", a |-> 0, b |-> b] : b \in BITS}
  \cup {t \in [op : {"Swap"}, a : 1..L, b : 1..L] : t.a < t.b}
  \cup {[op |-> "Truncate", a |-> k, b |-> 0] : k \in 0..(L - 1)}
  \cup {[op |-> "Remove", a |-> i, b |-> 0] : i \in 1..L}
  \cup (IF L < MAXLEN
        THEN {[op |-> "InsertCopy", a |-> i, b |-> p] : i \in 1..L, p \in 1..(L + 1)}
             \cup {[op |-> "ExtendForeign", a |-> i, b |-> 0] : i \in 1..n}
             \cup {[op |-> "ExtendLegit", a |-> 0, b |-> 0]}
        ELSE {})
  \cup {[op |-> o, a |-> i, b |-> 0] : o \in {"SubstKey", "NoKey"}, i \in 1..n}

\* every generated tamper satisfies the applicability predicate shared with the trace specification
ASSUME \A L \in 0..MAXLEN : \A n \in 1..MAXN : \A t \in Tampers(L, n) : Applicable(t, L, n, MAXLEN)

MCInit == /\ n0 \in 1..MAXN
          /\ v \in VARIANTS /\ (v = 1 => n0 >= 3)
          /\ seg = BaseV(n0, v)
          /\ res = HonestResolve(n0)
          /\ h = <<>>
          /\ d = 0

MCNext == /\ d < DEPTH
          /\ \E t \in Tampers(Len(seg.es), n0) :
               LET r == Apply(t, seg, res, n0, v) IN
               /\ seg' = r.seg /\ res' = r.res
               /\ h' = Append(h, t)
          /\ d' = d + 1
          /\ UNCHANGED <<n0, v>>

MCSpec == MCInit /\ [][MCNext]_vars

\* the history and the depth are not part of the state identity for generation
MCView == <<n0, v, seg, res, IF GEN THEN 0 ELSE d>>

Sound          == VerdictsAgree(seg, res)
OnlyAuthentic  == AcceptedOnlyIfAuthentic(seg, res, n0, v)
AuthenticOk    == AuthenticAccepted(seg, res, n0, v)
PrefixClosed   == ValidIsPrefixClosed(seg, res, n0)

Expect == [i \in Positions(seg) |-> [v |-> Valid(seg, res, i), o |-> ImplOutcome(seg, res, i)]]

Emit == GEN => PrintT(<<"REPLAY", ToJson([n |-> n0, v |-> v, h |-> h, e |-> Expect])>>)
=============================================================================
