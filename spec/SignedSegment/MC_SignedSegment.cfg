SPECIFICATION MCSpec
VIEW MCView
CONSTANTS
  FIXED = TRUE
  NMAX = 5
  MAXN = 3
  DEPTH = 2
  BITS = {0}
  GEN = FALSE
  VARIANTS = {0, 1}
INVARIANTS Sound OnlyAuthentic AuthenticOk PrefixClosed
