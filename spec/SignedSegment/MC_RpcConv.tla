----------------------------- MODULE MC_RpcConv -----------------------------
(* Enumerates the decision table: one state per cell; GEN prints the cell and *)
(* the expected outcome for replay on the real TryFrom implementations.       *)
EXTENDS RpcConv, Json

CONSTANT GEN
VARIABLE cell

MCInit == cell \in Cells
MCNext == UNCHANGED cell
MCSpec == MCInit /\ [][MCNext]_cell

\* vacuity: every kind has converting and failing cells
ASSUME \A k \in Kinds : /\ \E c \in Cells : c.k = k /\ Conv(c) = "ok"
                        /\ \E c \in Cells : c.k = k /\ Conv(c) = "err"

Emit == GEN => PrintT(<<"CELL", ToJson([k |-> cell.k, f |-> cell.f, x |-> Conv(cell)])>>)
=============================================================================
