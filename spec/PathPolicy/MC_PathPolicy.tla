--------------------------- MODULE MC_PathPolicy ---------------------------
(***************************************************************************)
(* Exhaustive evaluation of the policy semantics over small alphabets.     *)
(* KIND selects the table:                                                 *)
(*   "hopmatch"  every predicate shape x every hop of a small domain       *)
(*   "acl"       every ACL with <= NACL entries over the predicate alphabet*)
(*               x every hop sequence of length <= WLEN                    *)
(*   "pattern"   every pattern (series of <= 2 expressions of depth <= D-1,*)
(*               single expressions of depth <= D, short series of         *)
(*               predicates) x every hop sequence of length <= WLEN        *)
(*   "hops"      every interface list of length <= ILEN: hop extraction    *)
(*   "tokens"    every token string of length <= TLEN over predicates,     *)
(*               | ? + * ( ) : does it parse, and what does it mean        *)
(* For every item: the code-shaped evaluation (AclCode, PatCode) equals    *)
(* the denotational one (AclAllows, PatAllows) - except the documented ACL *)
(* deviation for the empty path - and printing then parsing a pattern      *)
(* gives the pattern back.  With GEN the expected verdict vectors are      *)
(* printed for replay on the real code.                                    *)
(* States form a tree root -> chunk -> item so that workers share items.   *)
(***************************************************************************)
EXTENDS PathPolicy, Json, SequencesExt

CONSTANTS KIND, DEPTH, WLEN, NACL, TLEN, NPRED, ILEN, GEN, CHUNK

VARIABLES c, k

\* ---- alphabets -----------------------------------------------------------------------------
Hop(isd, as, in, eg) == [isd |-> isd, as |-> as, in |-> in, eg |-> eg]
Pred(isd, as, ik, a, b) == [isd |-> isd, as |-> as, ik |-> ik, a |-> a, b |-> b]
H == <<Hop(1, 10, 0, 1), Hop(1, 20, 1, 2), Hop(2, 10, 2, 0)>>
\* wildcard ISD (everything) / exact AS {h2} / either interface 2 {h2,h3} / both, ingress wildcard, egress 1 in ISD 1 {h1}
P == <<Pred(0, NONE, "any", 0, 0), Pred(1, 20, "any", 0, 0), Pred(0, 0, "either", 2, 0), Pred(1, 0, "both", 0, 1)>>
NH == Len(H)
NP == Len(P)

RECURSIVE Pow(_, _)
Pow(b, n) == IF n = 0 THEN 1 ELSE b * Pow(b, n - 1)
\* hop sequences in a fixed order: by length, then as base-NH numbers (most significant digit first)
WOf(n, x) == [d \in 1..n |-> H[((x \div Pow(NH, n - d)) % NH) + 1]]
RECURSIVE WList(_)
WList(n) == IF n < 0 THEN <<>> ELSE WList(n - 1) \o [x \in 1..Pow(NH, n) |-> WOf(n, x - 1)]
W == WList(WLEN)

\* ---- items -------------------------------------------------------------------------------
RECURSIVE Exprs(_)
PSel == IF NPRED >= NP THEN 1..NP ELSE {2, 3}     \* reduced alphabet for the deepest table
Exprs(d) == IF d = 0 THEN {[t |-> "p", p |-> P[i]] : i \in PSel}
            ELSE LET S == Exprs(d - 1)
                 IN S \cup {[t |-> u, a |-> e] : u \in {"opt", "plus", "star"}, e \in S}
                      \cup {[t |-> "or", a |-> e1, b |-> e2] : e1 \in S, e2 \in S}
Patterns == {<<>>} \cup {<<e>> : e \in Exprs(DEPTH)}
            \cup {<<e1, e2>> : e1 \in Exprs(DEPTH - 1), e2 \in Exprs(DEPTH - 1)}
            \cup {<<e1, e2, e3>> : e1 \in Exprs(0), e2 \in Exprs(0), e3 \in Exprs(0)}

Entries == {[op |-> o, p |-> P[i]] : o \in {"+", "-"}, i \in 1..NP}
Acls == {[entries |-> es, def |-> d] : es \in UNION {[1..n -> Entries] : n \in 0..NACL}, d \in {"+", "-"}}

Toks == {[k |-> "p", p |-> P[2]], [k |-> "p", p |-> P[3]], [k |-> "or"], [k |-> "opt"], [k |-> "plus"], [k |-> "star"], [k |-> "lp"], [k |-> "rp"]}
TokStrings == UNION {[1..n -> Toks] : n \in 0..TLEN}

\* predicate shapes and hops of the hop-match table
PredShapes == {Pred(i, a, "any", 0, 0) : i \in 0..2, a \in {NONE, 0, 10, 20}}
              \cup {Pred(i, a, "either", x, 0) : i \in 0..2, a \in {NONE, 0, 10, 20}, x \in 0..2}
              \cup {Pred(i, a, "both", x, y) : i \in 0..2, a \in {NONE, 0, 10, 20}, x \in 0..2, y \in 0..2}
HopDomain == SetToSeq({Hop(i, a, x, y) : i \in 1..2, a \in {10, 20}, x \in 0..2, y \in 0..2})

\* interface lists of path metadata: every list of length <= ILEN over 2 ASes x 2 interface ids
IfAlpha == {[ia |-> [isd |-> 1, as |-> a], id |-> i] : a \in {10, 20}, i \in 1..2}
IfLists == UNION {[1..n -> IfAlpha] : n \in 0..ILEN}

Items == CASE KIND = "pattern"  -> SetToSeq(Patterns)
           [] KIND = "hops"     -> SetToSeq(IfLists)
           [] KIND = "acl"      -> SetToSeq(Acls)
           [] KIND = "tokens"   -> SetToSeq(TokStrings)
           [] KIND = "hopmatch" -> SetToSeq(PredShapes)
NI == Len(Items)
NChunks == (NI + CHUNK - 1) \div CHUNK

MCInit == c = 0 /\ k = 0
MCNext == \/ c = 0 /\ k = 0 /\ c' \in 1..NChunks /\ k' = 0
          \/ c > 0 /\ k = 0 /\ c' = c /\ k' \in (1 + (c-1) * CHUNK)..(IF c * CHUNK < NI THEN c * CHUNK ELSE NI)
MCSpec == MCInit /\ [][MCNext]_<<c, k>>

Bit(b) == IF b THEN 1 ELSE 0

\* ---- statements ----------------------------------------------------------------------------
\* the position-set matcher computes the denotational semantics
PatConform == (KIND = "pattern" /\ k > 0) => \A x \in 1..Len(W) : PatCode(Items[k], W[x]) = PatAllows(Items[k], W[x])
\* printing and parsing give the pattern back
PatRoundTrip == (KIND = "pattern" /\ k > 0) => LET r == PatParse(ShowPat(Items[k])) IN r.ok /\ r.pat = Items[k]
\* the ACL code agrees with "every hop's first match allows" except on the documented deviation
KnownAclDeviation(acl, w) == w = <<>> /\ acl.def = "-"
AclConform == (KIND = "acl" /\ k > 0) => \A x \in 1..Len(W) :
                 AclCode(Items[k], W[x]) = AclAllows(Items[k], W[x]) \/ KnownAclDeviation(Items[k], W[x])
\* strict form: violated by the pinned code (self-check that the model sees the empty-path deviation)
AclStrict  == (KIND = "acl" /\ k > 0) => \A x \in 1..Len(W) : AclCode(Items[k], W[x]) = AclAllows(Items[k], W[x])
\* whatever parses, prints back to something that parses to the same series
TokRoundTrip == (KIND = "tokens" /\ k > 0) =>
                  LET r == PatParse(Items[k]) IN r.ok => (PatParse(ShowPat(r.pat)).ok /\ PatParse(ShowPat(r.pat)).pat = r.pat)

Emit == (GEN /\ k > 0) =>
  CASE KIND = "pattern"  -> PrintT(<<"CASE", ToJson([kind |-> KIND, pat |-> Items[k],
                                      v |-> [x \in 1..Len(W) |-> Bit(PatAllows(Items[k], W[x]))]])>>)
    [] KIND = "acl"      -> PrintT(<<"CASE", ToJson([kind |-> KIND, acl |-> Items[k],
                                      v |-> [x \in 1..Len(W) |-> Bit(AclAllows(Items[k], W[x]))]])>>)
    [] KIND = "tokens"   -> LET r == PatParse(Items[k]) IN
                            PrintT(<<"CASE", ToJson([kind |-> KIND, ts |-> Items[k], ok |-> r.ok,
                                      v |-> IF r.ok THEN [x \in 1..Len(W) |-> Bit(PatAllows(r.pat, W[x]))] ELSE <<>>])>>)
    [] KIND = "hops"     -> PrintT(<<"CASE", ToJson([kind |-> KIND, ifs |-> Items[k], ok |-> HopsOf(Items[k]).ok, hops |-> HopsOf(Items[k]).hops])>>)
    [] KIND = "hopmatch" -> PrintT(<<"CASE", ToJson([kind |-> KIND, p |-> Items[k],
                                      v |-> [x \in 1..Len(HopDomain) |-> Bit(HopMatches(Items[k], HopDomain[x]))]])>>)

\* printed once (root state): the alphabets, so that the harness uses exactly the same hops / order
EmitMeta == (GEN /\ c = 0) => PrintT(<<"META", ToJson([kind |-> KIND, H |-> H, wlen |-> WLEN, nw |-> Len(W), hops |-> HopDomain, items |-> NI])>>)
=============================================================================
