SPECIFICATION MCSpec
CONSTANTS
  NONE = 1000000
  BROKEN = ""
  KIND = "pattern"
  DEPTH = 1
  WLEN = 3
  NACL = 2
  TLEN = 3
  NPRED = 4
  ILEN = 3
  GEN = FALSE
  CHUNK = 64
INVARIANTS PatConform PatRoundTrip AclConform TokRoundTrip Emit EmitMeta
