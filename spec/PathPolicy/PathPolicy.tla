----------------------------- MODULE PathPolicy -----------------------------
(***************************************************************************)
(* SCION path policy languages (property C16).                             *)
(*                                                                         *)
(* Values                                                                  *)
(*   hop        [isd, as, in, eg]            (interface 0 = none: first    *)
(*                                            hop ingress, last hop egress)*)
(*   predicate  [isd, as, ik, a, b]   as = NONE: no AS given               *)
(*              ik = "any" | "either" (#a) | "both" (#a,b)                 *)
(*   acl        [entries |-> <<[op, p]>>, def]     op, def in {"+", "-"}   *)
(*   expression [t |-> "p", p |-> predicate] | [t |-> "or", a, b]          *)
(*              | [t |-> "opt"|"plus"|"star", a]                           *)
(*   pattern    sequence of expressions (matched in order)                 *)
(*                                                                         *)
(* P-layer (what the languages MEAN, from their documentation)             *)
(*   HopMatches, AclAllows (first matching entry decides, default when     *)
(*   none, for EVERY hop), InLang (regular language by structural          *)
(*   recursion), PatParse (the documented concrete syntax: series of       *)
(*   expressions; postfix ? + * bind tighter than |; parentheses hold one  *)
(*   expression).                                                          *)
(* I-layer (how the Rust code computes it)                                 *)
(*   AclCode (early return of the default for an empty path / empty ACL),  *)
(*   MatchFrom / AllNested / PatCode (position sets with fixpoint).        *)
(***************************************************************************)
EXTENDS Naturals, Integers, Sequences, FiniteSets, TLC

CONSTANTS NONE,      \* "no AS in the predicate"
          BROKEN     \* oracle self-check: "" = faithful; "nofix" = repetition without fixpoint;
                     \* "greedy" = alternation commits to the left arm

(***************************************************************************)
(* Hop predicates.  0 is the wildcard of the predicate's ISD, AS and       *)
(* interface numbers.                                                      *)
(***************************************************************************)
IdM(x, y)  == x = 0 \/ y = 0 \/ x = y     \* ISD / AS (the code lets a 0 on either side match)
IfM(x, y)  == x = 0 \/ x = y              \* interface: only the predicate's 0 is a wildcard
HopMatches(p, h) ==
  /\ IdM(p.isd, h.isd)
  /\ (p.as = NONE \/ IdM(p.as, h.as))
  /\ CASE p.ik = "any"    -> TRUE
       [] p.ik = "either" -> IfM(p.a, h.in) \/ IfM(p.a, h.eg)
       [] p.ik = "both"   -> IfM(p.a, h.in) /\ IfM(p.b, h.eg)

PredIsWildcard(p) ==
  /\ p.isd = 0 /\ (p.as = NONE \/ p.as = 0)
  /\ (p.ik = "any" \/ (p.ik = "either" /\ p.a = 0) \/ (p.ik = "both" /\ p.a = 0 /\ p.b = 0))

(***************************************************************************)
(* ACL.                                                                    *)
(***************************************************************************)
FirstMatch(acl, h) ==
  LET S == {k \in 1..Len(acl.entries) : HopMatches(acl.entries[k].p, h)}
  IN IF S = {} THEN 0 ELSE CHOOSE k \in S : \A m \in S : k <= m

HopAllowed(acl, h) == LET k == FirstMatch(acl, h) IN IF k = 0 THEN acl.def = "+" ELSE acl.entries[k].op = "+"

\* P: for every hop the first matching entry is an allow entry (vacuously true without hops)
AclAllows(acl, hops) == \A k \in 1..Len(hops) : HopAllowed(acl, hops[k])

\* I: acl.rs AclPolicy::matches
AclCode(acl, hops) ==
  IF Len(hops) = 0 \/ Len(acl.entries) = 0 THEN acl.def = "+"
  ELSE \A k \in 1..Len(hops) : HopAllowed(acl, hops[k])

(***************************************************************************)
(* Hop patterns: denotational semantics.  InLang(e, w, i, j): the hops     *)
(* w[i+1..j] belong to the language of e.                                  *)
(***************************************************************************)
RECURSIVE InLang(_, _, _, _)
InLang(e, w, i, j) ==
  CASE e.t = "p"    -> j = i + 1 /\ HopMatches(e.p, w[j])
    [] e.t = "or"   -> InLang(e.a, w, i, j) \/ InLang(e.b, w, i, j)
    [] e.t = "opt"  -> i = j \/ InLang(e.a, w, i, j)
    [] e.t = "star" -> i = j \/ \E k \in (i+1)..j : InLang(e.a, w, i, k) /\ InLang(e, w, k, j)
    [] e.t = "plus" -> \E k \in i..j : InLang(e.a, w, i, k) /\ InLang([t |-> "star", a |-> e.a], w, k, j)

RECURSIVE InLangSeq(_, _, _, _, _)
InLangSeq(pat, n, w, i, j) ==
  IF n > Len(pat) THEN i = j
  ELSE \E k \in i..j : InLang(pat[n], w, i, k) /\ InLangSeq(pat, n + 1, w, k, j)

PatAllows(pat, w) == InLangSeq(pat, 1, w, 0, Len(w))

(***************************************************************************)
(* Hop patterns: the position-set matcher of hop_pattern.rs.               *)
(***************************************************************************)
RECURSIVE MatchFrom(_, _, _)
RECURSIVE Closure(_, _, _, _)
\* all_nested_matches: frontier loop until no new position appears
Closure(e, w, all, frontier) ==
  IF frontier = {} THEN all
  ELSE LET new == (UNION {MatchFrom(e, w, p) : p \in frontier}) \ all
       IN Closure(e, w, all \cup new, new)
AllNested(e, w, pos) ==
  LET first == MatchFrom(e, w, pos)
  IN IF BROKEN = "nofix" THEN first ELSE Closure(e, w, first, first)

MatchFrom(e, w, pos) ==
  CASE e.t = "p"    -> IF pos < Len(w) /\ HopMatches(e.p, w[pos + 1]) THEN {pos + 1} ELSE {}
    [] e.t = "or"   -> IF BROKEN = "greedy" /\ MatchFrom(e.a, w, pos) # {} THEN MatchFrom(e.a, w, pos)
                       ELSE MatchFrom(e.a, w, pos) \cup MatchFrom(e.b, w, pos)
    [] e.t = "opt"  -> {pos} \cup MatchFrom(e.a, w, pos)
    [] e.t = "plus" -> AllNested(e.a, w, pos)
    [] e.t = "star" -> {pos} \cup AllNested(e.a, w, pos)

RECURSIVE PatCodeFrom(_, _, _, _)
PatCodeFrom(pat, n, w, positions) ==
  IF n > Len(pat) THEN Len(w) \in positions
  ELSE LET nx == UNION {MatchFrom(pat[n], w, p) : p \in positions}
       IN IF nx = {} THEN FALSE ELSE PatCodeFrom(pat, n + 1, w, nx)
PatCode(pat, w) == PatCodeFrom(pat, 1, w, {0})

(***************************************************************************)
(* Hop extraction from path metadata.  The interface list of a path names, *)
(* in travel order, the egress interface of the first AS, the ingress and   *)
(* egress interface of every transit AS and the ingress interface of the    *)
(* last AS: [ia, id].  The first hop has no ingress (0), the last no egress.*)
(* A list that is not of that shape has no hops (ok = FALSE).              *)
(***************************************************************************)
HopsOf(ifs) ==
  LET n == Len(ifs)  m == (n - 2) \div 2 IN
  IF n < 2 \/ n % 2 = 1 \/ \E k \in 1..m : ifs[2*k].ia # ifs[2*k + 1].ia
  THEN [ok |-> FALSE, hops |-> <<>>]
  ELSE [ok |-> TRUE,
        hops |-> <<[isd |-> ifs[1].ia.isd, as |-> ifs[1].ia.as, in |-> 0, eg |-> ifs[1].id]>>
                 \o [k \in 1..m |-> [isd |-> ifs[2*k].ia.isd, as |-> ifs[2*k].ia.as, in |-> ifs[2*k].id, eg |-> ifs[2*k + 1].id]]
                 \o <<[isd |-> ifs[n].ia.isd, as |-> ifs[n].ia.as, in |-> ifs[n].id, eg |-> 0]>>]

\* Policy { acl, hop_pattern }: both must allow
PolicyAllows(acl, pat, w) == PatAllows(pat, w) /\ AclAllows(acl, w)

(***************************************************************************)
(* Concrete syntax of hop patterns, on tokens                              *)
(*   [k |-> "p", p |-> predicate] | "or" | "opt" | "plus" | "star" | "lp" | "rp"                 *)
(*   pattern := expr*          expr := postfix ( "|" postfix )*   (left associative)             *)
(*   postfix := atom ( "?" | "+" | "*" )*        atom := predicate | "(" expr ")"                *)
(* A parse result is [ok, e (expression), nx (next token position)].       *)
(***************************************************************************)
TK(ts, i) == IF i \in 1..Len(ts) THEN ts[i].k ELSE "eoi"
Fail == [ok |-> FALSE, e |-> [t |-> "none"], nx |-> 0]

RECURSIVE PExpr(_, _)
RECURSIVE PPostfix(_, _, _)
RECURSIVE POrTail(_, _, _)
PAtom(ts, i) ==
  IF TK(ts, i) = "p" THEN [ok |-> TRUE, e |-> [t |-> "p", p |-> ts[i].p], nx |-> i + 1]
  ELSE IF TK(ts, i) = "lp"
       THEN LET r == PExpr(ts, i + 1) IN
            IF r.ok /\ TK(ts, r.nx) = "rp" THEN [r EXCEPT !.nx = r.nx + 1] ELSE Fail
       ELSE Fail
PPostfix(ts, e, i) ==
  IF TK(ts, i) \in {"opt", "plus", "star"} THEN PPostfix(ts, [t |-> TK(ts, i), a |-> e], i + 1)
  ELSE [ok |-> TRUE, e |-> e, nx |-> i]
PPost(ts, i) == LET a == PAtom(ts, i) IN IF a.ok THEN PPostfix(ts, a.e, a.nx) ELSE Fail
POrTail(ts, lhs, i) ==
  IF TK(ts, i) = "or"
  THEN LET r == PPost(ts, i + 1) IN IF r.ok THEN POrTail(ts, [t |-> "or", a |-> lhs, b |-> r.e], r.nx) ELSE Fail
  ELSE [ok |-> TRUE, e |-> lhs, nx |-> i]
PExpr(ts, i) == LET a == PPost(ts, i) IN IF a.ok THEN POrTail(ts, a.e, a.nx) ELSE Fail

RECURSIVE PSeries(_, _, _)
PSeries(ts, i, acc) ==
  IF i > Len(ts) THEN [ok |-> TRUE, pat |-> acc]
  ELSE LET r == PExpr(ts, i) IN IF r.ok THEN PSeries(ts, r.nx, Append(acc, r.e)) ELSE [ok |-> FALSE, pat |-> <<>>]
PatParse(ts) == PSeries(ts, 1, <<>>)

(***************************************************************************)
(* Printer: expression -> tokens (parenthesises every compound operand).   *)
(***************************************************************************)
RECURSIVE ShowE(_)
Paren(ts) == <<[k |-> "lp"]>> \o ts \o <<[k |-> "rp"]>>
ShowOperand(e) == IF e.t = "p" THEN ShowE(e) ELSE Paren(ShowE(e))
ShowE(e) ==
  CASE e.t = "p"  -> <<[k |-> "p", p |-> e.p]>>
    [] e.t = "or" -> ShowOperand(e.a) \o <<[k |-> "or"]>> \o ShowOperand(e.b)
    [] OTHER      -> ShowOperand(e.a) \o <<[k |-> e.t]>>
RECURSIVE ShowPat(_)
ShowPat(pat) == IF pat = <<>> THEN <<>> ELSE (IF Head(pat).t = "or" THEN Paren(ShowE(Head(pat))) ELSE ShowE(Head(pat))) \o ShowPat(Tail(pat))
=============================================================================
