-------------------------- MODULE Trace_PathPolicy --------------------------
(***************************************************************************)
(* Trace validation for C16: every line of the ndjson file named by env    *)
(* TRACE (line 1 = meta) is one policy evaluated by the REAL code on a     *)
(* list of hop sequences ws with the real verdicts real (0/1):             *)
(*   ev = "pat"  pat = expression series (the AST the harness printed and  *)
(*               the real parser parsed back)                              *)
(*   ev = "acl"  acl = entries + default                                   *)
(*   ev = "tok"  ts = token string given to the real parser, ok = accepted *)
(*   ev = "wp"   pols = weighted policies [w, hasacl, acl, haspat, pat];   *)
(*               real = weight chosen by match_highest (-1 = none)         *)
(* P-verdict on the real output ("PV"): Lang / Acl (verdict differs from   *)
(* the denotational semantics), Unsound (the parser accepts a string that  *)
(* is not in the documented syntax), Reject (the parser rejects a string   *)
(* of the documented syntax).  I-layer only differences are "DRIFT".       *)
(***************************************************************************)
EXTENDS PathPolicy, Json, IOUtils

Rec == ndJsonDeserialize(IOEnv.TRACE)
CHUNK == 64

VARIABLES c, l

Bit(b) == IF b THEN 1 ELSE 0
Say(tag, ln, kind, x) == PrintT(<<tag, ToJson([l |-> ln, kind |-> kind, x |-> x])>>)

\* Policy { acl, hop_pattern }: every part that is present must allow; weight -1 = no policy allows
PolAllows(pol, w) == (pol.haspat => PatAllows(pol.pat, w)) /\ (pol.hasacl => AclAllows(pol.acl, w))
Best(pols, w) ==
  LET S == {k \in 1..Len(pols) : PolAllows(pols[k], w)}
  IN IF S = {} THEN -1 ELSE LET k == CHOOSE k \in S : \A m \in S : pols[k].w >= pols[m].w IN pols[k].w

PatLine(e, pat) ==
  \A x \in 1..Len(e.ws) :
     IF e.real[x] # Bit(PatAllows(pat, e.ws[x])) THEN Say("PV", l, "Lang", x)
     ELSE e.real[x] = Bit(PatCode(pat, e.ws[x])) \/ Say("DRIFT", l, "matcher", x)

LineOk ==
  l = 0 \/
  LET e == Rec[l] IN
  CASE e.ev = "pat" -> PatLine(e, e.pat)
    [] e.ev = "acl" -> \A x \in 1..Len(e.ws) :
                          IF e.real[x] # Bit(AclAllows(e.acl, e.ws[x]))
                          THEN Say("PV", l, IF e.ws[x] = <<>> THEN "AclEmptyPath" ELSE "Acl", x)
                          ELSE e.real[x] = Bit(AclCode(e.acl, e.ws[x])) \/ Say("DRIFT", l, "acl", x)
    [] e.ev = "tok" -> LET r == PatParse(e.ts) IN
                       IF e.ok /\ ~r.ok THEN Say("PV", l, "Unsound", 0)
                       ELSE IF ~e.ok /\ r.ok THEN Say("PV", l, "Reject", 0)
                       ELSE IF ~e.ok THEN TRUE
                       ELSE PatLine(e, r.pat)
    [] e.ev = "wp"  -> \* WeightedPolicies::match_highest: the policy of the highest weight that allows the hops
                       \A x \in 1..Len(e.ws) :
                          e.real[x] = Best(e.pols, e.ws[x]) \/ Say("PV", l, "Weighted", x)
    [] OTHER -> TRUE

NChunks == (Len(Rec) - 1 + CHUNK - 1) \div CHUNK
TInit == c = 0 /\ l = 0
TNext == \/ /\ c = 0 /\ l = 0 /\ c' \in 1..NChunks /\ l' = 0
         \/ /\ c > 0 /\ l = 0 /\ c' = c
            /\ l' \in (2 + (c-1) * CHUNK)..(IF c * CHUNK + 1 < Len(Rec) THEN c * CHUNK + 1 ELSE Len(Rec))
TSpec == TInit /\ [][TNext]_<<c, l>>
=============================================================================
