SPECIFICATION TSpec
CONSTANTS
  NONE = 1000000
  BROKEN = ""
INVARIANTS LineOk
CHECK_DEADLOCK FALSE
