--------------------------- MODULE MC_SnapIngress ---------------------------
(* Enumerates the ingress decision table: (A) all 16 x 16 address type/length nibbles x path     *)
(* types x peer families x source/peer relations on complete packets, (B) every parse/length     *)
(* class on a reduced nibble set.  Each cell is one initial state; invariant = refinement I => P; *)
(* in generation mode every feasible cell is printed with the expected decision.                 *)
EXTENDS SnapIngress, Json

CONSTANTS GEN, FULL

VARIABLE d

PTs    == {0, 1, 2, 3, 4, 200}
Peers  == {"v4", "v6", "v4mapped"}
Rels   == {"same", "mappedform", "low4", "other"}
Segs   == {<<1, 0, 0>>, <<2, 3, 0>>, <<3, 2, 4>>, <<0, 0, 0>>, <<0, 2, 0>>}
BigSeg == <<63, 63, 63>>

A == [ver : {0}, pt : PTs, st : 0..15, dt : (IF FULL THEN 0..15 ELSE {0, 3, 4, 6, 9, 15}), seg : {<<2, 3, 0>>}, plen : {8},
      hl : {"exact"}, cut : {"full"}, peer : Peers, rel : Rels]
B == [ver : {0, 1, 4, 15}, pt : PTs, st : {0, 3, 4, 1, 14}, dt : {0, 3},
      seg : Segs \cup {BigSeg}, plen : {0, 8, 64},
      hl : {"exact", "less", "more"},
      cut : {"full", "extra", "nopayload", "in_path", "in_addr", "in_common", "empty"},
      peer : {"v4", "v6"}, rel : {"same", "other"}]

\* prune B: one deviation class at a time beyond the address/path product (keeps the table printable)
Plain(x) == (IF x.ver = 0 THEN 0 ELSE 1) + (IF x.hl = "exact" THEN 0 ELSE 1) + (IF x.cut = "full" THEN 0 ELSE 1)
            + (IF x.seg = <<2, 3, 0>> THEN 0 ELSE 1) + (IF x.plen = 8 THEN 0 ELSE 1)
Cells == {x \in A : Feasible(x)} \cup {x \in B : Feasible(x) /\ Plain(x) <= (IF FULL THEN 2 ELSE 1)}

MCInit == d \in Cells
MCNext == UNCHANGED d
MCSpec == MCInit /\ [][MCNext]_d

InvRefines == Refines(d)
Emit == GEN => PrintT(<<"CELL", ToJson([case |-> d, decide |-> Decide(d), may |-> ~MustNotDispatch(d),
                                         hdr |-> HdrBytes(d), adv |-> Advertised(d)])>>)
=============================================================================
