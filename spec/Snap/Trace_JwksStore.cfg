SPECIFICATION TSpec
CONSTANTS
  Kids <- TraceKids
  KeyVals <- TraceVals
  VARIANT = "code"
INVARIANTS ResolvedWasServed FreshOnFetch MissWhenDown RefreshPicksUp ResolvesServed CacheWasServed
POSTCONDITION TraceAccepted
CHECK_DEADLOCK FALSE
