SPECIFICATION TSpec
CONSTANTS
  Keys <- TraceKeys
  Ids <- TraceIds
  Addrs <- TraceAddrs
  MaxT = 100000000
  Lifes = {1}
  TIMERDROP = FALSE
  VARIANT = "code"
INVARIANTS TFwdOnlyAuthorised TFwdNeverForged TEncOnlyAuthorised THsOnlyAuthorised TAttribution TObsAuthRefines TNoPanic
POSTCONDITION TraceAccepted
CHECK_DEADLOCK FALSE
