--------------------------- MODULE MC_JwksStore ---------------------------
(* Exhaustive exploration of JwksStore up to Depth calls; in generation mode one history per    *)
(* distinct (state, observable) is printed for replay on the real JwksKeyStore.                  *)
EXTENDS JwksStore, Json, Sequences

CONSTANTS Depth, GEN

VARIABLES n, h

MCInit == Init /\ n = 0 /\ h = <<>>
Obs == [ev |-> ev', cache |-> cache', served |-> served', ever |-> ever', up |-> up']
Bump == n < Depth /\ n' = n + 1 /\ h' = IF GEN THEN Append(h, Obs) ELSE h
MCPublish  == (\E k \in Kids, v \in KeyVals : Publish(k, v)) /\ Bump
MCWithdraw == (\E k \in Kids : Withdraw(k)) /\ Bump
MCToggle   == Toggle /\ Bump
MCAwait    == (\E k \in Kids : Await(k)) /\ Bump
MCRefresh  == Refresh /\ Bump
MCNext == MCPublish \/ MCWithdraw \/ MCToggle \/ MCAwait \/ MCRefresh
MCSpec == MCInit /\ [][MCNext]_<<vars, n, h>>
MCView == <<served, up, cache, ever, ev, warm, n>>
MCViewU == <<served, up, cache, ever, ev, warm>>
Emit == GEN => (n = 0 \/ PrintT(<<"REPLAY", ToJson(h)>>))
=============================================================================
