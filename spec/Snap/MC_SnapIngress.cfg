SPECIFICATION MCSpec
CONSTANTS
  VARIANT = "code"
  GEN = FALSE
  FULL = FALSE
INVARIANTS InvRefines Emit
