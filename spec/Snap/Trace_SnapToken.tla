-------------------------- MODULE Trace_SnapToken --------------------------
(* Trace validation for C10: every line is one string given to the real verifier, with the      *)
(* feature record extracted by the harness's independent splitter and the observed verdict.     *)
(*   {"ev":"meta",...}                                            first line                    *)
(*   {"ev":"tok","i":n,"case":{<feature record; "unk" = outside the abstract domain>},"got":g}   *)
(* P-layer: Must(case) = "accept" => got = "ok";  Must(case) = "reject" => got # "ok".           *)
(* A P-violation is printed as <<"PV", ...>> (the run continues, so that every violating line    *)
(* is reported); a disagreement with the I-layer outcome is printed as <<"DRIFT", ...>>.         *)
EXTENDS SnapToken, Json, IOUtils

Rec == ndJsonDeserialize(IOEnv.TRACE)

VARIABLE l

InDomain(t) == \A f \in Fields : t[f] \in Dom[f]

PCheck(e) ==
  LET t == e.case
      m == Must(t) IN
  /\ IF m = "accept" /\ e.got # "ok"
     THEN PrintT(<<"PV", ToJson([i |-> e.i, kind |-> "rejected-valid", why |-> {}, got |-> e.got])>>)
     ELSE TRUE
  /\ IF m = "reject" /\ e.got = "ok"
     THEN PrintT(<<"PV", ToJson([i |-> e.i, kind |-> "accepted", why |-> Reasons(t), got |-> e.got])>>)
     ELSE TRUE
  /\ IF InDomain(t) /\ ImplOutcome(t) # e.got
     THEN PrintT(<<"DRIFT", ToJson([i |-> e.i, impl |-> ImplOutcome(t), got |-> e.got])>>)
     ELSE TRUE
  /\ IF m # "either" THEN PrintT(<<"DECIDED", m>>) ELSE TRUE

TInit == l = 2
TNext == /\ l <= Len(Rec) /\ Rec[l].ev = "tok"
         /\ PCheck(Rec[l])
         /\ l' = l + 1
TSpec == TInit /\ [][TNext]_l

TraceAccepted ==
  LET d == TLCGet("stats").diameter IN
  IF d = Len(Rec) THEN TRUE
  ELSE /\ PrintT(<<"TRACE-REJECTED", "matched", d - 1, "of", Len(Rec) - 1>>)
       /\ FALSE
=============================================================================
