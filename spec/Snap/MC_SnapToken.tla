--------------------------- MODULE MC_SnapToken ---------------------------
(* Enumerates the decision table of SnapToken: every base token (v0/v1 x verifier configuration  *)
(* x kid) with up to DEPTH successive single-field mutations (mutations beyond HOTFROM are        *)
(* restricted to the security-relevant fields).  Each reachable cell is one state; the           *)
(* invariants are the refinement I => P; in generation mode every cell is printed with its       *)
(* expected verdict.                                                                              *)
EXTENDS SnapToken, Json

CONSTANTS DEPTH, HOTFROM, GEN

VARIABLES cell, k

Hot == {"cfg", "kid", "alg", "sig", "ver", "aud", "exp", "nbf"}
HotMuts == {m \in Muts : m[1] \in Hot}

MCInit == cell \in Bases /\ k = 0
MCNext == /\ k < DEPTH
          /\ k' = k + 1
          /\ \E m \in (IF k + 1 >= HOTFROM THEN HotMuts ELSE Muts) : cell' = Mutate(cell, m)
MCSpec == MCInit /\ [][MCNext]_<<cell, k>>

MCView == cell

InvDisjoint == Disjoint(cell)
InvRefines  == Refines(cell)

Emit == GEN => PrintT(<<"CELL", ToJson([case |-> cell, must |-> Must(cell), impl |-> ImplOutcome(cell),
                                         why |-> Reasons(cell), life |-> LifetimeBound(cell)])>>)

ASSUME PrintT(<<"META", ToJson([leeway |-> Leeway, expoff |-> ExpOff, nbfoff |-> NbfOff])>>)
=============================================================================
