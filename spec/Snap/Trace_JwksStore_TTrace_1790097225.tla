---- MODULE Trace_JwksStore_TTrace_1790097225 ----
EXTENDS Sequences, TLCExt, Toolbox, Trace_JwksStore, Naturals, TLC

_expression ==
    LET Trace_JwksStore_TEExpression == INSTANCE Trace_JwksStore_TEExpression
    IN Trace_JwksStore_TEExpression!expression
----

_trace ==
    LET Trace_JwksStore_TETrace == INSTANCE Trace_JwksStore_TETrace
    IN Trace_JwksStore_TETrace!trace
----

_inv ==
    ~(
        TLCGet("level") = Len(_TETrace)
        /\
        ev = ([kind |-> "refresh", reached |-> TRUE])
        /\
        ever = ([kid1 |-> {"v1", "v3"}, kid2 |-> {"v1", "v4"}, kid3 |-> {"v1", "v3", "v5"}, kid4 |-> {"v2", "v5"}])
        /\
        cache = ([kid1 |-> "none", kid2 |-> "none", kid3 |-> "none", kid4 |-> "none"])
        /\
        served = ([kid1 |-> "v1", kid2 |-> "v4", kid3 |-> "v1", kid4 |-> "v5"])
        /\
        up = (TRUE)
        /\
        l = (60)
    )
----

_init ==
    /\ l = _TETrace[1].l
    /\ ev = _TETrace[1].ev
    /\ served = _TETrace[1].served
    /\ ever = _TETrace[1].ever
    /\ up = _TETrace[1].up
    /\ cache = _TETrace[1].cache
----

_next ==
    /\ \E i,j \in DOMAIN _TETrace:
        /\ \/ /\ j = i + 1
              /\ i = TLCGet("level")
        /\ l  = _TETrace[i].l
        /\ l' = _TETrace[j].l
        /\ ev  = _TETrace[i].ev
        /\ ev' = _TETrace[j].ev
        /\ served  = _TETrace[i].served
        /\ served' = _TETrace[j].served
        /\ ever  = _TETrace[i].ever
        /\ ever' = _TETrace[j].ever
        /\ up  = _TETrace[i].up
        /\ up' = _TETrace[j].up
        /\ cache  = _TETrace[i].cache
        /\ cache' = _TETrace[j].cache

\* Uncomment the ASSUME below to write the states of the error trace
\* to the given file in Json format. Note that you can pass any tuple
\* to `JsonSerialize`. For example, a sub-sequence of _TETrace.
    \* ASSUME
    \*     LET J == INSTANCE Json
    \*         IN J!JsonSerialize("Trace_JwksStore_TTrace_1790097225.json", _TETrace)

=============================================================================

 Note that you can extract this module `Trace_JwksStore_TEExpression`
  to a dedicated file to reuse `expression` (the module in the 
  dedicated `Trace_JwksStore_TEExpression.tla` file takes precedence 
  over the module `Trace_JwksStore_TEExpression` below).

---- MODULE Trace_JwksStore_TEExpression ----
EXTENDS Sequences, TLCExt, Toolbox, Trace_JwksStore, Naturals, TLC

expression == 
    [
        \* To hide variables of the `Trace_JwksStore` spec from the error trace,
        \* remove the variables below.  The trace will be written in the order
        \* of the fields of this record.
        l |-> l
        ,ev |-> ev
        ,served |-> served
        ,ever |-> ever
        ,up |-> up
        ,cache |-> cache
        
        \* Put additional constant-, state-, and action-level expressions here:
        \* ,_stateNumber |-> _TEPosition
        \* ,_lUnchanged |-> l = l'
        
        \* Format the `l` variable as Json value.
        \* ,_lJson |->
        \*     LET J == INSTANCE Json
        \*     IN J!ToJson(l)
        
        \* Lastly, you may build expressions over arbitrary sets of states by
        \* leveraging the _TETrace operator.  For example, this is how to
        \* count the number of times a spec variable changed up to the current
        \* state in the trace.
        \* ,_lModCount |->
        \*     LET F[s \in DOMAIN _TETrace] ==
        \*         IF s = 1 THEN 0
        \*         ELSE IF _TETrace[s].l # _TETrace[s-1].l
        \*             THEN 1 + F[s-1] ELSE F[s-1]
        \*     IN F[_TEPosition - 1]
    ]

=============================================================================



Parsing and semantic processing can take forever if the trace below is long.
 In this case, it is advised to uncomment the module below to deserialize the
 trace from a generated binary file.

\*
\*---- MODULE Trace_JwksStore_TETrace ----
\*EXTENDS IOUtils, Trace_JwksStore, TLC
\*
\*trace == IODeserialize("Trace_JwksStore_TTrace_1790097225.bin", TRUE)
\*
\*=============================================================================
\*

---- MODULE Trace_JwksStore_TETrace ----
EXTENDS Trace_JwksStore, TLC

trace == 
    <<
    ([ev |-> [kind |-> "init"],ever |-> [kid1 |-> {}, kid2 |-> {}, kid3 |-> {}, kid4 |-> {}],cache |-> [kid1 |-> "none", kid2 |-> "none", kid3 |-> "none", kid4 |-> "none"],served |-> [kid1 |-> "none", kid2 |-> "none", kid3 |-> "none", kid4 |-> "none"],up |-> TRUE,l |-> 2]),
    ([ev |-> [kind |-> "init"],ever |-> [kid1 |-> {}, kid2 |-> {}, kid3 |-> {}, kid4 |-> {}],cache |-> [kid1 |-> "none", kid2 |-> "none", kid3 |-> "none", kid4 |-> "none"],served |-> [kid1 |-> "none", kid2 |-> "none", kid3 |-> "none", kid4 |-> "none"],up |-> TRUE,l |-> 3]),
    ([ev |-> [kind |-> "down"],ever |-> [kid1 |-> {}, kid2 |-> {}, kid3 |-> {}, kid4 |-> {}],cache |-> [kid1 |-> "none", kid2 |-> "none", kid3 |-> "none", kid4 |-> "none"],served |-> [kid1 |-> "none", kid2 |-> "none", kid3 |-> "none", kid4 |-> "none"],up |-> FALSE,l |-> 4]),
    ([ev |-> [k |-> "kid3", kind |-> "publish", v |-> "v3"],ever |-> [kid1 |-> {}, kid2 |-> {}, kid3 |-> {"v3"}, kid4 |-> {}],cache |-> [kid1 |-> "none", kid2 |-> "none", kid3 |-> "none", kid4 |-> "none"],served |-> [kid1 |-> "none", kid2 |-> "none", kid3 |-> "v3", kid4 |-> "none"],up |-> FALSE,l |-> 5]),
    ([ev |-> [k |-> "kid4", kind |-> "await", reached |-> FALSE, res |-> "none", fetched |-> TRUE],ever |-> [kid1 |-> {}, kid2 |-> {}, kid3 |-> {"v3"}, kid4 |-> {}],cache |-> [kid1 |-> "none", kid2 |-> "none", kid3 |-> "none", kid4 |-> "none"],served |-> [kid1 |-> "none", kid2 |-> "none", kid3 |-> "v3", kid4 |-> "none"],up |-> FALSE,l |-> 6]),
    ([ev |-> [k |-> "kid1", kind |-> "await", reached |-> FALSE, res |-> "none", fetched |-> TRUE],ever |-> [kid1 |-> {}, kid2 |-> {}, kid3 |-> {"v3"}, kid4 |-> {}],cache |-> [kid1 |-> "none", kid2 |-> "none", kid3 |-> "none", kid4 |-> "none"],served |-> [kid1 |-> "none", kid2 |-> "none", kid3 |-> "v3", kid4 |-> "none"],up |-> FALSE,l |-> 7]),
    ([ev |-> [k |-> "kid3", kind |-> "publish", v |-> "v1"],ever |-> [kid1 |-> {}, kid2 |-> {}, kid3 |-> {"v1", "v3"}, kid4 |-> {}],cache |-> [kid1 |-> "none", kid2 |-> "none", kid3 |-> "none", kid4 |-> "none"],served |-> [kid1 |-> "none", kid2 |-> "none", kid3 |-> "v1", kid4 |-> "none"],up |-> FALSE,l |-> 8]),
    ([ev |-> [kind |-> "refresh", reached |-> FALSE],ever |-> [kid1 |-> {}, kid2 |-> {}, kid3 |-> {"v1", "v3"}, kid4 |-> {}],cache |-> [kid1 |-> "none", kid2 |-> "none", kid3 |-> "none", kid4 |-> "none"],served |-> [kid1 |-> "none", kid2 |-> "none", kid3 |-> "v1", kid4 |-> "none"],up |-> FALSE,l |-> 9]),
    ([ev |-> [k |-> "kid3", kind |-> "withdraw"],ever |-> [kid1 |-> {}, kid2 |-> {}, kid3 |-> {"v1", "v3"}, kid4 |-> {}],cache |-> [kid1 |-> "none", kid2 |-> "none", kid3 |-> "none", kid4 |-> "none"],served |-> [kid1 |-> "none", kid2 |-> "none", kid3 |-> "none", kid4 |-> "none"],up |-> FALSE,l |-> 10]),
    ([ev |-> [k |-> "kid2", kind |-> "withdraw"],ever |-> [kid1 |-> {}, kid2 |-> {}, kid3 |-> {"v1", "v3"}, kid4 |-> {}],cache |-> [kid1 |-> "none", kid2 |-> "none", kid3 |-> "none", kid4 |-> "none"],served |-> [kid1 |-> "none", kid2 |-> "none", kid3 |-> "none", kid4 |-> "none"],up |-> FALSE,l |-> 11]),
    ([ev |-> [k |-> "kid2", kind |-> "await", reached |-> FALSE, res |-> "none", fetched |-> FALSE],ever |-> [kid1 |-> {}, kid2 |-> {}, kid3 |-> {"v1", "v3"}, kid4 |-> {}],cache |-> [kid1 |-> "none", kid2 |-> "none", kid3 |-> "none", kid4 |-> "none"],served |-> [kid1 |-> "none", kid2 |-> "none", kid3 |-> "none", kid4 |-> "none"],up |-> FALSE,l |-> 12]),
    ([ev |-> [k |-> "kid1", kind |-> "await", reached |-> FALSE, res |-> "none", fetched |-> FALSE],ever |-> [kid1 |-> {}, kid2 |-> {}, kid3 |-> {"v1", "v3"}, kid4 |-> {}],cache |-> [kid1 |-> "none", kid2 |-> "none", kid3 |-> "none", kid4 |-> "none"],served |-> [kid1 |-> "none", kid2 |-> "none", kid3 |-> "none", kid4 |-> "none"],up |-> FALSE,l |-> 13]),
    ([ev |-> [k |-> "kid1", kind |-> "withdraw"],ever |-> [kid1 |-> {}, kid2 |-> {}, kid3 |-> {"v1", "v3"}, kid4 |-> {}],cache |-> [kid1 |-> "none", kid2 |-> "none", kid3 |-> "none", kid4 |-> "none"],served |-> [kid1 |-> "none", kid2 |-> "none", kid3 |-> "none", kid4 |-> "none"],up |-> FALSE,l |-> 14]),
    ([ev |-> [kind |-> "refresh", reached |-> FALSE],ever |-> [kid1 |-> {}, kid2 |-> {}, kid3 |-> {"v1", "v3"}, kid4 |-> {}],cache |-> [kid1 |-> "none", kid2 |-> "none", kid3 |-> "none", kid4 |-> "none"],served |-> [kid1 |-> "none", kid2 |-> "none", kid3 |-> "none", kid4 |-> "none"],up |-> FALSE,l |-> 15]),
    ([ev |-> [k |-> "kid3", kind |-> "await", reached |-> FALSE, res |-> "none", fetched |-> FALSE],ever |-> [kid1 |-> {}, kid2 |-> {}, kid3 |-> {"v1", "v3"}, kid4 |-> {}],cache |-> [kid1 |-> "none", kid2 |-> "none", kid3 |-> "none", kid4 |-> "none"],served |-> [kid1 |-> "none", kid2 |-> "none", kid3 |-> "none", kid4 |-> "none"],up |-> FALSE,l |-> 16]),
    ([ev |-> [k |-> "kid3", kind |-> "await", reached |-> FALSE, res |-> "none", fetched |-> FALSE],ever |-> [kid1 |-> {}, kid2 |-> {}, kid3 |-> {"v1", "v3"}, kid4 |-> {}],cache |-> [kid1 |-> "none", kid2 |-> "none", kid3 |-> "none", kid4 |-> "none"],served |-> [kid1 |-> "none", kid2 |-> "none", kid3 |-> "none", kid4 |-> "none"],up |-> FALSE,l |-> 17]),
    ([ev |-> [k |-> "kid1", kind |-> "await", reached |-> FALSE, res |-> "none", fetched |-> FALSE],ever |-> [kid1 |-> {}, kid2 |-> {}, kid3 |-> {"v1", "v3"}, kid4 |-> {}],cache |-> [kid1 |-> "none", kid2 |-> "none", kid3 |-> "none", kid4 |-> "none"],served |-> [kid1 |-> "none", kid2 |-> "none", kid3 |-> "none", kid4 |-> "none"],up |-> FALSE,l |-> 18]),
    ([ev |-> [k |-> "kid4", kind |-> "withdraw"],ever |-> [kid1 |-> {}, kid2 |-> {}, kid3 |-> {"v1", "v3"}, kid4 |-> {}],cache |-> [kid1 |-> "none", kid2 |-> "none", kid3 |-> "none", kid4 |-> "none"],served |-> [kid1 |-> "none", kid2 |-> "none", kid3 |-> "none", kid4 |-> "none"],up |-> FALSE,l |-> 19]),
    ([ev |-> [k |-> "kid3", kind |-> "await", reached |-> FALSE, res |-> "none", fetched |-> FALSE],ever |-> [kid1 |-> {}, kid2 |-> {}, kid3 |-> {"v1", "v3"}, kid4 |-> {}],cache |-> [kid1 |-> "none", kid2 |-> "none", kid3 |-> "none", kid4 |-> "none"],served |-> [kid1 |-> "none", kid2 |-> "none", kid3 |-> "none", kid4 |-> "none"],up |-> FALSE,l |-> 20]),
    ([ev |-> [k |-> "kid3", kind |-> "await", reached |-> FALSE, res |-> "none", fetched |-> FALSE],ever |-> [kid1 |-> {}, kid2 |-> {}, kid3 |-> {"v1", "v3"}, kid4 |-> {}],cache |-> [kid1 |-> "none", kid2 |-> "none", kid3 |-> "none", kid4 |-> "none"],served |-> [kid1 |-> "none", kid2 |-> "none", kid3 |-> "none", kid4 |-> "none"],up |-> FALSE,l |-> 21]),
    ([ev |-> [k |-> "kid2", kind |-> "publish", v |-> "v1"],ever |-> [kid1 |-> {}, kid2 |-> {"v1"}, kid3 |-> {"v1", "v3"}, kid4 |-> {}],cache |-> [kid1 |-> "none", kid2 |-> "none", kid3 |-> "none", kid4 |-> "none"],served |-> [kid1 |-> "none", kid2 |-> "v1", kid3 |-> "none", kid4 |-> "none"],up |-> FALSE,l |-> 22]),
    ([ev |-> [k |-> "kid1", kind |-> "await", reached |-> FALSE, res |-> "none", fetched |-> FALSE],ever |-> [kid1 |-> {}, kid2 |-> {"v1"}, kid3 |-> {"v1", "v3"}, kid4 |-> {}],cache |-> [kid1 |-> "none", kid2 |-> "none", kid3 |-> "none", kid4 |-> "none"],served |-> [kid1 |-> "none", kid2 |-> "v1", kid3 |-> "none", kid4 |-> "none"],up |-> FALSE,l |-> 23]),
    ([ev |-> [kind |-> "refresh", reached |-> FALSE],ever |-> [kid1 |-> {}, kid2 |-> {"v1"}, kid3 |-> {"v1", "v3"}, kid4 |-> {}],cache |-> [kid1 |-> "none", kid2 |-> "none", kid3 |-> "none", kid4 |-> "none"],served |-> [kid1 |-> "none", kid2 |-> "v1", kid3 |-> "none", kid4 |-> "none"],up |-> FALSE,l |-> 24]),
    ([ev |-> [k |-> "kid4", kind |-> "await", reached |-> FALSE, res |-> "none", fetched |-> FALSE],ever |-> [kid1 |-> {}, kid2 |-> {"v1"}, kid3 |-> {"v1", "v3"}, kid4 |-> {}],cache |-> [kid1 |-> "none", kid2 |-> "none", kid3 |-> "none", kid4 |-> "none"],served |-> [kid1 |-> "none", kid2 |-> "v1", kid3 |-> "none", kid4 |-> "none"],up |-> FALSE,l |-> 25]),
    ([ev |-> [k |-> "kid3", kind |-> "await", reached |-> FALSE, res |-> "none", fetched |-> FALSE],ever |-> [kid1 |-> {}, kid2 |-> {"v1"}, kid3 |-> {"v1", "v3"}, kid4 |-> {}],cache |-> [kid1 |-> "none", kid2 |-> "none", kid3 |-> "none", kid4 |-> "none"],served |-> [kid1 |-> "none", kid2 |-> "v1", kid3 |-> "none", kid4 |-> "none"],up |-> FALSE,l |-> 26]),
    ([ev |-> [k |-> "kid2", kind |-> "withdraw"],ever |-> [kid1 |-> {}, kid2 |-> {"v1"}, kid3 |-> {"v1", "v3"}, kid4 |-> {}],cache |-> [kid1 |-> "none", kid2 |-> "none", kid3 |-> "none", kid4 |-> "none"],served |-> [kid1 |-> "none", kid2 |-> "none", kid3 |-> "none", kid4 |-> "none"],up |-> FALSE,l |-> 27]),
    ([ev |-> [k |-> "kid3", kind |-> "publish", v |-> "v5"],ever |-> [kid1 |-> {}, kid2 |-> {"v1"}, kid3 |-> {"v1", "v3", "v5"}, kid4 |-> {}],cache |-> [kid1 |-> "none", kid2 |-> "none", kid3 |-> "none", kid4 |-> "none"],served |-> [kid1 |-> "none", kid2 |-> "none", kid3 |-> "v5", kid4 |-> "none"],up |-> FALSE,l |-> 28]),
    ([ev |-> [k |-> "kid1", kind |-> "await", reached |-> FALSE, res |-> "none", fetched |-> FALSE],ever |-> [kid1 |-> {}, kid2 |-> {"v1"}, kid3 |-> {"v1", "v3", "v5"}, kid4 |-> {}],cache |-> [kid1 |-> "none", kid2 |-> "none", kid3 |-> "none", kid4 |-> "none"],served |-> [kid1 |-> "none", kid2 |-> "none", kid3 |-> "v5", kid4 |-> "none"],up |-> FALSE,l |-> 29]),
    ([ev |-> [k |-> "kid2", kind |-> "await", reached |-> FALSE, res |-> "none", fetched |-> FALSE],ever |-> [kid1 |-> {}, kid2 |-> {"v1"}, kid3 |-> {"v1", "v3", "v5"}, kid4 |-> {}],cache |-> [kid1 |-> "none", kid2 |-> "none", kid3 |-> "none", kid4 |-> "none"],served |-> [kid1 |-> "none", kid2 |-> "none", kid3 |-> "v5", kid4 |-> "none"],up |-> FALSE,l |-> 30]),
    ([ev |-> [k |-> "kid2", kind |-> "await", reached |-> FALSE, res |-> "none", fetched |-> FALSE],ever |-> [kid1 |-> {}, kid2 |-> {"v1"}, kid3 |-> {"v1", "v3", "v5"}, kid4 |-> {}],cache |-> [kid1 |-> "none", kid2 |-> "none", kid3 |-> "none", kid4 |-> "none"],served |-> [kid1 |-> "none", kid2 |-> "none", kid3 |-> "v5", kid4 |-> "none"],up |-> FALSE,l |-> 31]),
    ([ev |-> [k |-> "kid4", kind |-> "publish", v |-> "v2"],ever |-> [kid1 |-> {}, kid2 |-> {"v1"}, kid3 |-> {"v1", "v3", "v5"}, kid4 |-> {"v2"}],cache |-> [kid1 |-> "none", kid2 |-> "none", kid3 |-> "none", kid4 |-> "none"],served |-> [kid1 |-> "none", kid2 |-> "none", kid3 |-> "v5", kid4 |-> "v2"],up |-> FALSE,l |-> 32]),
    ([ev |-> [kind |-> "up"],ever |-> [kid1 |-> {}, kid2 |-> {"v1"}, kid3 |-> {"v1", "v3", "v5"}, kid4 |-> {"v2"}],cache |-> [kid1 |-> "none", kid2 |-> "none", kid3 |-> "none", kid4 |-> "none"],served |-> [kid1 |-> "none", kid2 |-> "none", kid3 |-> "v5", kid4 |-> "v2"],up |-> TRUE,l |-> 33]),
    ([ev |-> [k |-> "kid1", kind |-> "publish", v |-> "v3"],ever |-> [kid1 |-> {"v3"}, kid2 |-> {"v1"}, kid3 |-> {"v1", "v3", "v5"}, kid4 |-> {"v2"}],cache |-> [kid1 |-> "none", kid2 |-> "none", kid3 |-> "none", kid4 |-> "none"],served |-> [kid1 |-> "v3", kid2 |-> "none", kid3 |-> "v5", kid4 |-> "v2"],up |-> TRUE,l |-> 34]),
    ([ev |-> [k |-> "kid3", kind |-> "await", reached |-> FALSE, res |-> "none", fetched |-> FALSE],ever |-> [kid1 |-> {"v3"}, kid2 |-> {"v1"}, kid3 |-> {"v1", "v3", "v5"}, kid4 |-> {"v2"}],cache |-> [kid1 |-> "none", kid2 |-> "none", kid3 |-> "none", kid4 |-> "none"],served |-> [kid1 |-> "v3", kid2 |-> "none", kid3 |-> "v5", kid4 |-> "v2"],up |-> TRUE,l |-> 35]),
    ([ev |-> [kind |-> "down"],ever |-> [kid1 |-> {"v3"}, kid2 |-> {"v1"}, kid3 |-> {"v1", "v3", "v5"}, kid4 |-> {"v2"}],cache |-> [kid1 |-> "none", kid2 |-> "none", kid3 |-> "none", kid4 |-> "none"],served |-> [kid1 |-> "v3", kid2 |-> "none", kid3 |-> "v5", kid4 |-> "v2"],up |-> FALSE,l |-> 36]),
    ([ev |-> [kind |-> "refresh", reached |-> FALSE],ever |-> [kid1 |-> {"v3"}, kid2 |-> {"v1"}, kid3 |-> {"v1", "v3", "v5"}, kid4 |-> {"v2"}],cache |-> [kid1 |-> "none", kid2 |-> "none", kid3 |-> "none", kid4 |-> "none"],served |-> [kid1 |-> "v3", kid2 |-> "none", kid3 |-> "v5", kid4 |-> "v2"],up |-> FALSE,l |-> 37]),
    ([ev |-> [kind |-> "refresh", reached |-> FALSE],ever |-> [kid1 |-> {"v3"}, kid2 |-> {"v1"}, kid3 |-> {"v1", "v3", "v5"}, kid4 |-> {"v2"}],cache |-> [kid1 |-> "none", kid2 |-> "none", kid3 |-> "none", kid4 |-> "none"],served |-> [kid1 |-> "v3", kid2 |-> "none", kid3 |-> "v5", kid4 |-> "v2"],up |-> FALSE,l |-> 38]),
    ([ev |-> [k |-> "kid1", kind |-> "await", reached |-> FALSE, res |-> "none", fetched |-> FALSE],ever |-> [kid1 |-> {"v3"}, kid2 |-> {"v1"}, kid3 |-> {"v1", "v3", "v5"}, kid4 |-> {"v2"}],cache |-> [kid1 |-> "none", kid2 |-> "none", kid3 |-> "none", kid4 |-> "none"],served |-> [kid1 |-> "v3", kid2 |-> "none", kid3 |-> "v5", kid4 |-> "v2"],up |-> FALSE,l |-> 39]),
    ([ev |-> [k |-> "kid1", kind |-> "publish", v |-> "v1"],ever |-> [kid1 |-> {"v1", "v3"}, kid2 |-> {"v1"}, kid3 |-> {"v1", "v3", "v5"}, kid4 |-> {"v2"}],cache |-> [kid1 |-> "none", kid2 |-> "none", kid3 |-> "none", kid4 |-> "none"],served |-> [kid1 |-> "v1", kid2 |-> "none", kid3 |-> "v5", kid4 |-> "v2"],up |-> FALSE,l |-> 40]),
    ([ev |-> [kind |-> "refresh", reached |-> FALSE],ever |-> [kid1 |-> {"v1", "v3"}, kid2 |-> {"v1"}, kid3 |-> {"v1", "v3", "v5"}, kid4 |-> {"v2"}],cache |-> [kid1 |-> "none", kid2 |-> "none", kid3 |-> "none", kid4 |-> "none"],served |-> [kid1 |-> "v1", kid2 |-> "none", kid3 |-> "v5", kid4 |-> "v2"],up |-> FALSE,l |-> 41]),
    ([ev |-> [k |-> "kid1", kind |-> "await", reached |-> FALSE, res |-> "none", fetched |-> FALSE],ever |-> [kid1 |-> {"v1", "v3"}, kid2 |-> {"v1"}, kid3 |-> {"v1", "v3", "v5"}, kid4 |-> {"v2"}],cache |-> [kid1 |-> "none", kid2 |-> "none", kid3 |-> "none", kid4 |-> "none"],served |-> [kid1 |-> "v1", kid2 |-> "none", kid3 |-> "v5", kid4 |-> "v2"],up |-> FALSE,l |-> 42]),
    ([ev |-> [kind |-> "refresh", reached |-> FALSE],ever |-> [kid1 |-> {"v1", "v3"}, kid2 |-> {"v1"}, kid3 |-> {"v1", "v3", "v5"}, kid4 |-> {"v2"}],cache |-> [kid1 |-> "none", kid2 |-> "none", kid3 |-> "none", kid4 |-> "none"],served |-> [kid1 |-> "v1", kid2 |-> "none", kid3 |-> "v5", kid4 |-> "v2"],up |-> FALSE,l |-> 43]),
    ([ev |-> [k |-> "kid3", kind |-> "publish", v |-> "v1"],ever |-> [kid1 |-> {"v1", "v3"}, kid2 |-> {"v1"}, kid3 |-> {"v1", "v3", "v5"}, kid4 |-> {"v2"}],cache |-> [kid1 |-> "none", kid2 |-> "none", kid3 |-> "none", kid4 |-> "none"],served |-> [kid1 |-> "v1", kid2 |-> "none", kid3 |-> "v1", kid4 |-> "v2"],up |-> FALSE,l |-> 44]),
    ([ev |-> [k |-> "kid1", kind |-> "publish", v |-> "v1"],ever |-> [kid1 |-> {"v1", "v3"}, kid2 |-> {"v1"}, kid3 |-> {"v1", "v3", "v5"}, kid4 |-> {"v2"}],cache |-> [kid1 |-> "none", kid2 |-> "none", kid3 |-> "none", kid4 |-> "none"],served |-> [kid1 |-> "v1", kid2 |-> "none", kid3 |-> "v1", kid4 |-> "v2"],up |-> FALSE,l |-> 45]),
    ([ev |-> [kind |-> "up"],ever |-> [kid1 |-> {"v1", "v3"}, kid2 |-> {"v1"}, kid3 |-> {"v1", "v3", "v5"}, kid4 |-> {"v2"}],cache |-> [kid1 |-> "none", kid2 |-> "none", kid3 |-> "none", kid4 |-> "none"],served |-> [kid1 |-> "v1", kid2 |-> "none", kid3 |-> "v1", kid4 |-> "v2"],up |-> TRUE,l |-> 46]),
    ([ev |-> [k |-> "kid2", kind |-> "publish", v |-> "v4"],ever |-> [kid1 |-> {"v1", "v3"}, kid2 |-> {"v1", "v4"}, kid3 |-> {"v1", "v3", "v5"}, kid4 |-> {"v2"}],cache |-> [kid1 |-> "none", kid2 |-> "none", kid3 |-> "none", kid4 |-> "none"],served |-> [kid1 |-> "v1", kid2 |-> "v4", kid3 |-> "v1", kid4 |-> "v2"],up |-> TRUE,l |-> 47]),
    ([ev |-> [k |-> "kid2", kind |-> "await", reached |-> FALSE, res |-> "none", fetched |-> FALSE],ever |-> [kid1 |-> {"v1", "v3"}, kid2 |-> {"v1", "v4"}, kid3 |-> {"v1", "v3", "v5"}, kid4 |-> {"v2"}],cache |-> [kid1 |-> "none", kid2 |-> "none", kid3 |-> "none", kid4 |-> "none"],served |-> [kid1 |-> "v1", kid2 |-> "v4", kid3 |-> "v1", kid4 |-> "v2"],up |-> TRUE,l |-> 48]),
    ([ev |-> [k |-> "kid2", kind |-> "publish", v |-> "v4"],ever |-> [kid1 |-> {"v1", "v3"}, kid2 |-> {"v1", "v4"}, kid3 |-> {"v1", "v3", "v5"}, kid4 |-> {"v2"}],cache |-> [kid1 |-> "none", kid2 |-> "none", kid3 |-> "none", kid4 |-> "none"],served |-> [kid1 |-> "v1", kid2 |-> "v4", kid3 |-> "v1", kid4 |-> "v2"],up |-> TRUE,l |-> 49]),
    ([ev |-> [kind |-> "down"],ever |-> [kid1 |-> {"v1", "v3"}, kid2 |-> {"v1", "v4"}, kid3 |-> {"v1", "v3", "v5"}, kid4 |-> {"v2"}],cache |-> [kid1 |-> "none", kid2 |-> "none", kid3 |-> "none", kid4 |-> "none"],served |-> [kid1 |-> "v1", kid2 |-> "v4", kid3 |-> "v1", kid4 |-> "v2"],up |-> FALSE,l |-> 50]),
    ([ev |-> [kind |-> "refresh", reached |-> FALSE],ever |-> [kid1 |-> {"v1", "v3"}, kid2 |-> {"v1", "v4"}, kid3 |-> {"v1", "v3", "v5"}, kid4 |-> {"v2"}],cache |-> [kid1 |-> "none", kid2 |-> "none", kid3 |-> "none", kid4 |-> "none"],served |-> [kid1 |-> "v1", kid2 |-> "v4", kid3 |-> "v1", kid4 |-> "v2"],up |-> FALSE,l |-> 51]),
    ([ev |-> [k |-> "kid3", kind |-> "await", reached |-> FALSE, res |-> "none", fetched |-> FALSE],ever |-> [kid1 |-> {"v1", "v3"}, kid2 |-> {"v1", "v4"}, kid3 |-> {"v1", "v3", "v5"}, kid4 |-> {"v2"}],cache |-> [kid1 |-> "none", kid2 |-> "none", kid3 |-> "none", kid4 |-> "none"],served |-> [kid1 |-> "v1", kid2 |-> "v4", kid3 |-> "v1", kid4 |-> "v2"],up |-> FALSE,l |-> 52]),
    ([ev |-> [k |-> "kid1", kind |-> "publish", v |-> "v1"],ever |-> [kid1 |-> {"v1", "v3"}, kid2 |-> {"v1", "v4"}, kid3 |-> {"v1", "v3", "v5"}, kid4 |-> {"v2"}],cache |-> [kid1 |-> "none", kid2 |-> "none", kid3 |-> "none", kid4 |-> "none"],served |-> [kid1 |-> "v1", kid2 |-> "v4", kid3 |-> "v1", kid4 |-> "v2"],up |-> FALSE,l |-> 53]),
    ([ev |-> [k |-> "kid4", kind |-> "publish", v |-> "v5"],ever |-> [kid1 |-> {"v1", "v3"}, kid2 |-> {"v1", "v4"}, kid3 |-> {"v1", "v3", "v5"}, kid4 |-> {"v2", "v5"}],cache |-> [kid1 |-> "none", kid2 |-> "none", kid3 |-> "none", kid4 |-> "none"],served |-> [kid1 |-> "v1", kid2 |-> "v4", kid3 |-> "v1", kid4 |-> "v5"],up |-> FALSE,l |-> 54]),
    ([ev |-> [k |-> "kid1", kind |-> "await", reached |-> FALSE, res |-> "none", fetched |-> FALSE],ever |-> [kid1 |-> {"v1", "v3"}, kid2 |-> {"v1", "v4"}, kid3 |-> {"v1", "v3", "v5"}, kid4 |-> {"v2", "v5"}],cache |-> [kid1 |-> "none", kid2 |-> "none", kid3 |-> "none", kid4 |-> "none"],served |-> [kid1 |-> "v1", kid2 |-> "v4", kid3 |-> "v1", kid4 |-> "v5"],up |-> FALSE,l |-> 55]),
    ([ev |-> [kind |-> "refresh", reached |-> FALSE],ever |-> [kid1 |-> {"v1", "v3"}, kid2 |-> {"v1", "v4"}, kid3 |-> {"v1", "v3", "v5"}, kid4 |-> {"v2", "v5"}],cache |-> [kid1 |-> "none", kid2 |-> "none", kid3 |-> "none", kid4 |-> "none"],served |-> [kid1 |-> "v1", kid2 |-> "v4", kid3 |-> "v1", kid4 |-> "v5"],up |-> FALSE,l |-> 56]),
    ([ev |-> [kind |-> "up"],ever |-> [kid1 |-> {"v1", "v3"}, kid2 |-> {"v1", "v4"}, kid3 |-> {"v1", "v3", "v5"}, kid4 |-> {"v2", "v5"}],cache |-> [kid1 |-> "none", kid2 |-> "none", kid3 |-> "none", kid4 |-> "none"],served |-> [kid1 |-> "v1", kid2 |-> "v4", kid3 |-> "v1", kid4 |-> "v5"],up |-> TRUE,l |-> 57]),
    ([ev |-> [k |-> "kid2", kind |-> "await", reached |-> FALSE, res |-> "none", fetched |-> FALSE],ever |-> [kid1 |-> {"v1", "v3"}, kid2 |-> {"v1", "v4"}, kid3 |-> {"v1", "v3", "v5"}, kid4 |-> {"v2", "v5"}],cache |-> [kid1 |-> "none", kid2 |-> "none", kid3 |-> "none", kid4 |-> "none"],served |-> [kid1 |-> "v1", kid2 |-> "v4", kid3 |-> "v1", kid4 |-> "v5"],up |-> TRUE,l |-> 58]),
    ([ev |-> [k |-> "kid1", kind |-> "publish", v |-> "v1"],ever |-> [kid1 |-> {"v1", "v3"}, kid2 |-> {"v1", "v4"}, kid3 |-> {"v1", "v3", "v5"}, kid4 |-> {"v2", "v5"}],cache |-> [kid1 |-> "none", kid2 |-> "none", kid3 |-> "none", kid4 |-> "none"],served |-> [kid1 |-> "v1", kid2 |-> "v4", kid3 |-> "v1", kid4 |-> "v5"],up |-> TRUE,l |-> 59]),
    ([ev |-> [kind |-> "refresh", reached |-> TRUE],ever |-> [kid1 |-> {"v1", "v3"}, kid2 |-> {"v1", "v4"}, kid3 |-> {"v1", "v3", "v5"}, kid4 |-> {"v2", "v5"}],cache |-> [kid1 |-> "none", kid2 |-> "none", kid3 |-> "none", kid4 |-> "none"],served |-> [kid1 |-> "v1", kid2 |-> "v4", kid3 |-> "v1", kid4 |-> "v5"],up |-> TRUE,l |-> 60])
    >>
----


=============================================================================

---- CONFIG Trace_JwksStore_TTrace_1790097225 ----
CONSTANTS
    Kids <- TraceKids
    KeyVals <- TraceVals
    VARIANT = "code"

INVARIANT
    _inv

CHECK_DEADLOCK
    \* CHECK_DEADLOCK off because of PROPERTY or INVARIANT above.
    FALSE

INIT
    _init

NEXT
    _next

CONSTANT
    _TETrace <- _trace

ALIAS
    _expression
=============================================================================
\* Generated on Tue Sep 22 17:14:09 UTC 2026