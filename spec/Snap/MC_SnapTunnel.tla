--------------------------- MODULE MC_SnapTunnel ---------------------------
(* Exhaustive exploration of SnapTunnel: all interleavings of at most Depth calls for the      *)
(* configured keys x identities x addresses.  In generation mode (GEN) one history per          *)
(* distinct (state, last observable) is printed for replay on the real registry + server.       *)
EXTENDS SnapTunnel, Json, Sequences

CONSTANTS Depth, GEN

VARIABLES n, h

MCInit == Init /\ n = 0 /\ h = <<>>

\* what the replay compares after the step: the expected observable and the expected authorisation
Obs == [ev |-> ev', auth |-> [i \in Ids |-> sess'[i] > now'], pauth |-> [i \in Ids |-> pauth'[i] > now'],
        assoc |-> assoc', now |-> now']

MCNext == /\ n < Depth
          /\ n' = n + 1
          /\ Next
          /\ h' = IF GEN THEN Append(h, Obs) ELSE h
MCSpec == MCInit /\ [][MCNext]_<<vars, n, h>>

MCView == <<now, assoc, sess, tun, cli, pkey, pauth, ev, n>>
\* exhaustive mode without depth bound: the state space is finite (clock <= MaxT)
MCViewU == <<now, assoc, sess, tun, cli, pkey, pauth, ev>>

Emit == GEN => (n = 0 \/ PrintT(<<"REPLAY", ToJson(h)>>))
=============================================================================
