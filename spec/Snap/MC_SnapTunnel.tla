--------------------------- MODULE MC_SnapTunnel ---------------------------
(* Exhaustive exploration of SnapTunnel: all interleavings of at most Depth calls for the      *)
(* configured keys x identities x addresses.  In generation mode (GEN) one history per          *)
(* distinct (state, last observable) is printed for replay on the real registry + server.       *)
EXTENDS SnapTunnel, Json, Sequences

CONSTANTS Depth, GEN

VARIABLES n, h

MCInit == Init /\ n = 0 /\ h = <<>>

\* what the replay compares after the step: the expected observable and the expected authorisation
Obs == [ev |-> ev', auth |-> [i \in Ids |-> sess'[i] > now'], pauth |-> [i \in Ids |-> pauth'[i] > now'],
        assoc |-> assoc', now |-> now']

Bump == n < Depth /\ n' = n + 1 /\ h' = IF GEN THEN Append(h, Obs) ELSE h
\* one named action per public call, so that TLC's coverage shows every one of them was taken
MCRegister  == (\E k \in Keys, i \in Ids, l \in Lifes : Register(k, i, l)) /\ Bump
MCAdvance   == (\E d \in {1, 2} : Advance(d)) /\ Bump
MCPurge     == (Purge) /\ Bump
MCHandshake == (\E a \in Addrs, i \in Ids : Handshake(a, i)) /\ Bump
MCDataIn    == (\E a \in Addrs, i \in Ids : DataIn(a, i)) /\ Bump
MCForged    == (\E a \in Addrs : Forged(a)) /\ Bump
MCDataOut   == (\E a \in Addrs : DataOut(a)) /\ Bump
MCTimer     == (Timer) /\ Bump
MCTimerDrop == (\E a \in Addrs : TimerDrop(a)) /\ Bump
MCNext == MCRegister \/ MCAdvance \/ MCPurge \/ MCHandshake \/ MCDataIn \/ MCForged \/ MCDataOut \/ MCTimer \/ MCTimerDrop
MCSpec == MCInit /\ [][MCNext]_<<vars, n, h>>

MCView == <<now, assoc, sess, tun, cli, pkey, pauth, ev, n>>
\* exhaustive mode without depth bound: the state space is finite (clock <= MaxT)
MCViewU == <<now, assoc, sess, tun, cli, pkey, pauth, ev>>

Emit == GEN => (n = 0 \/ PrintT(<<"REPLAY", ToJson(h)>>))
=============================================================================
