SPECIFICATION Spec
INVARIANTS NoViolation
POSTCONDITION TraceAccepted
CHECK_DEADLOCK FALSE
