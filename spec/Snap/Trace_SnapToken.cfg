SPECIFICATION TSpec
CONSTANTS
  NBF_CHECKED = TRUE
POSTCONDITION TraceAccepted
CHECK_DEADLOCK FALSE
