SPECIFICATION Spec
CONSTANTS
  THR = 3
  MINLIFE = 1
  RETRY = 2
  LAT = 1
  Lifes = {1, 2, 5, 6, 8}
  MaxT = 24
  HEALTHY = FALSE
  VARIANT = "code"
INVARIANTS PublishedFresh KeepWhileValid NoGapWhenHealthy AlwaysATokenWhenHealthy
