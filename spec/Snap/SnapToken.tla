----------------------------- MODULE SnapToken -----------------------------
(* C10 - a SNAP token is accepted exactly when authentic, for SNAP, and within lifetime.      *)
(*                                                                                              *)
(* A token is described by an abstract FEATURE RECORD (all fields are strings, so that a        *)
(* mutation is just <<field, value>>).  The harness concretises a record into a real JWT        *)
(* string (and, in the other direction, extracts a record from an arbitrary string with its     *)
(* own splitter).                                                                               *)
(*                                                                                              *)
(* P-layer (written from the property text and RFC 7515/7519 + the documented v0/v1 claim       *)
(* sets, NOT from the Rust):                                                                    *)
(*    MustAccept(t)  - the token is a canonical, authentic, in-window SNAP token                *)
(*    Reasons(t)     - the set of refusal reasons the property text names; MustReject(t) iff    *)
(*                     it is non-empty                                                          *)
(*    everything else is latitude (verdict "either"): the property text does not decide it      *)
(*    (e.g. expiry inside the leeway window, `typ` of another value, a float `exp`).            *)
(* I-layer: ImplOutcome(t) follows the verifier's code path (decode_header -> key selection ->  *)
(*    signature -> registered-claim validation -> AnyClaims), every early return is a named     *)
(*    outcome.  NBF_CHECKED says whether the verifier evaluates `nbf` (pinned commit: FALSE).   *)
(* TLC checks  MustAccept => Impl accepts  and  MustReject => Impl rejects  on every cell.      *)
EXTENDS Naturals, Sequences, FiniteSets, TLC

CONSTANT NBF_CHECKED

Leeway == 60

\* ---------------------------------------------------------------- feature domains
Dom == [
  cfg    |-> {"static", "jwks"},                 \* verifier configuration: static key only / static + JWKS store
  parts  |-> {"3", "0", "1", "2", "4"},          \* number of dot-separated segments
  hb64   |-> {"ok", "padded", "std", "garbage", "trail"},   \* encoding of the header segment
  pb64   |-> {"ok", "padded", "std", "garbage", "trail"},   \*   payload segment
  sb64   |-> {"ok", "padded", "std", "garbage", "trail"},   \*   signature segment
  hjson  |-> {"obj", "notjson", "array"},
  pjson  |-> {"obj", "notjson", "array"},
  alg    |-> {"EdDSA", "HS256", "ES256", "RS256", "none", "absent", "lower", "other", "num"},
  typ    |-> {"JWT", "absent", "other", "num"},
  kid    |-> {"absent", "known", "unknown", "num"},
  hextra |-> {"none", "str", "num"},             \* an unregistered header parameter
  sig    |-> {"static", "jwks", "other", "flip", "splice", "empty", "hmacpub"},
  ver    |-> {"absent", "1", "2", "0", "str", "str2", "null", "bool", "float", "neg", "arr", "obj"},
             \* absent | 1 | 2 | 0 | "1" | "2" | null | true | 1.5 | -1 | [1] | {}
  pssid  |-> {"v0", "v1", "absent", "badstr", "num", "null", "v1ver1", "v1len16"},
  exp    |-> {"fut", "soon", "lee", "gone", "old", "absent", "str", "null", "float", "neg"},
  nbf    |-> {"absent", "past", "now", "lee", "notyet", "far", "str", "null", "float"},
  iat    |-> {"ok", "absent", "str"},
  jti    |-> {"ok", "absent", "num"},
  iss    |-> {"ssr", "other", "absent", "num"},
  aud    |-> {"absent", "snap", "other", "arr_snap", "arr_other", "arr_empty", "num"},
  pextra |-> {"none", "str", "obj"} ]            \* an unregistered private claim

\* offsets (seconds relative to the verifier's clock) the harness uses for the time classes.
\* Every class is >= 15 s away from now and from now +- Leeway (DESIGN.md S4), and every class
\* whose verdict the property decides keeps that verdict when the verification happens up to
\* 120 s after the token was built (a stalled machine): "soon" is still unexpired-or-in-leeway,
\* "notyet" is still beyond the leeway; the other decided classes only move away from the boundary.
ExpOff == [fut |-> 3600, soon |-> 120, lee |-> 0 - 30, gone |-> 0 - 75, old |-> 0 - 86400, float |-> 3600, neg |-> 0 - 5]
NbfOff == [past |-> 0 - 3600, now |-> 0 - 15, lee |-> 30, notyet |-> 180, far |-> 3600, float |-> 0 - 3600]

Fields == DOMAIN Dom

\* ---------------------------------------------------------------- helpers
BadB64 == {"padded", "std", "garbage"}          \* not base64url-without-padding (RFC 7515 s.2)

\* the key the documented key-selection rule designates for this token
Designated(t) ==
  IF t.kid = "absent" THEN "static"
  ELSE IF t.cfg = "static" THEN "static"         \* no JWKS store: documented fallback
  ELSE IF t.kid = "known" THEN "jwks"
  ELSE IF t.kid \in {"unknown", "num"} THEN "none"   \* unknown / ill-typed kid with a JWKS store
  ELSE "unk"

SigValid(t) == t.sig = Designated(t)

\* a PRESENT `ver` that is not a supported version number is refused whatever the rest of the token looks
\* like (in particular a v0-shaped token does not become acceptable by carrying "ver":"2", null, true, ...)
Version(t) == CASE t.ver = "absent" -> "v0"
                [] t.ver = "1" -> "v1"
                [] t.ver \in Dom.ver \ {"absent", "1"} -> "unknown"
                [] OTHER -> "odd"        \* outside the abstract domain (the extractor's "unk", e.g. 1.0)

Required(v) == IF v = "v0" THEN {"pssid", "exp", "jti"}
               ELSE {"ver", "iss", "aud", "exp", "nbf", "iat", "jti", "pssid"}

\* state of a claim: good / absent / badtype (wrong JSON type or null) / odd (latitude; also any
\* value outside the abstract domain, which the harness's extractor reports as "unk")
ClaimState(t, c, v) ==
  CASE c = "ver"   -> "good"
    [] c = "pssid" -> (CASE t.pssid = "absent" -> "absent"
                         [] t.pssid \in {"num", "null"} -> "badtype"
                         [] t.pssid = "v0" /\ v = "v0" -> "good"
                         [] t.pssid = "v1" /\ v = "v1" -> "good"
                         [] OTHER -> "odd")
    [] c = "exp"   -> (CASE t.exp = "absent" -> "absent"
                         [] t.exp \in {"str", "null", "neg"} -> "badtype"
                         [] t.exp \in {"fut", "soon", "lee", "gone", "old"} -> "good"
                         [] OTHER -> "odd")
    [] c = "nbf"   -> (CASE t.nbf = "absent" -> "absent"
                         [] t.nbf \in {"str", "null"} -> "badtype"
                         [] t.nbf \in {"past", "now", "lee", "notyet", "far"} -> "good"
                         [] OTHER -> "odd")
    [] c = "iat"   -> (CASE t.iat = "absent" -> "absent" [] t.iat = "str" -> "badtype"
                         [] t.iat = "ok" -> "good" [] OTHER -> "odd")
    [] c = "jti"   -> (CASE t.jti = "absent" -> "absent" [] t.jti = "num" -> "badtype"
                         [] t.jti = "ok" -> "good" [] OTHER -> "odd")
    [] c = "iss"   -> (CASE t.iss = "absent" -> "absent" [] t.iss = "num" -> "badtype"
                         [] t.iss = "ssr" -> "good" [] OTHER -> "odd")
    [] c = "aud"   -> (CASE t.aud = "absent" -> "absent"
                         [] t.aud = "num" -> "badtype"
                         [] t.aud \in {"snap", "other", "arr_other"} -> "good"
                         [] t.aud = "arr_snap" /\ v = "v0" -> "good"  \* documented v1 `aud` is a string
                         [] OTHER -> "odd")

AllClaims == {"ver", "iss", "aud", "exp", "nbf", "iat", "jti", "pssid"}

\* ---------------------------------------------------------------- P-layer
Reasons(t) ==
  LET v == Version(t) IN
    (IF t.parts \in Dom.parts \ {"3"} THEN {"structure"} ELSE {})
    \cup (IF t.hb64 \in BadB64 \/ t.pb64 \in BadB64 \/ t.sb64 \in BadB64 THEN {"encoding"} ELSE {})
    \cup (IF t.hjson \in {"notjson", "array"} THEN {"header-json"} ELSE {})
    \cup (IF t.pjson \in {"notjson", "array"} THEN {"payload-json"} ELSE {})
    \cup (IF t.alg \in Dom.alg \ {"EdDSA"} THEN {"algorithm"} ELSE {})
    \cup (IF Designated(t) = "none" \/ (Designated(t) # "unk" /\ t.sig \in ({"static", "jwks", "other"} \ {Designated(t)}))
          THEN {"untrusted-key"} ELSE {})
    \cup (IF t.sig \in {"flip", "splice", "empty", "hmacpub"} THEN {"bad-signature"} ELSE {})
    \cup (IF v = "unknown" THEN {"version"} ELSE {})
    \cup (IF v \in {"v0", "v1"} /\ \E c \in Required(v) : ClaimState(t, c, v) \in {"absent", "badtype"}
          THEN {"missing-claim"} ELSE {})
    \cup (IF t.aud \in {"other", "arr_other"} THEN {"audience"} ELSE {})
    \cup (IF t.exp \in {"gone", "old"} THEN {"expired"} ELSE {})
    \cup (IF t.nbf \in {"notyet", "far"} THEN {"not-yet-valid"} ELSE {})

MustReject(t) == Reasons(t) # {}

MustAccept(t) ==
  LET v == Version(t) IN
  /\ t.parts = "3" /\ t.hb64 = "ok" /\ t.pb64 = "ok" /\ t.sb64 = "ok"
  /\ t.hjson = "obj" /\ t.pjson = "obj"
  /\ t.alg = "EdDSA" /\ t.typ \in {"JWT", "absent"} /\ t.kid \in {"absent", "known"}
  /\ t.hextra \in {"none", "str"}
  /\ Designated(t) # "none" /\ SigValid(t)
  /\ v \in {"v0", "v1"}
  /\ \A c \in Required(v) : ClaimState(t, c, v) = "good"
  /\ \A c \in AllClaims \ Required(v) : ClaimState(t, c, v) \in {"good", "absent"}
  /\ t.aud \in {"absent", "snap", "arr_snap"}
  /\ t.exp \in {"fut", "soon"}
  /\ t.nbf \in {"absent", "past", "now"}

Must(t) == IF MustAccept(t) THEN "accept" ELSE IF MustReject(t) THEN "reject" ELSE "either"

\* the registration lifetime may never exceed this many seconds (exp - now); <= 0: no registration
LifetimeBound(t) == IF t.exp \in DOMAIN ExpOff THEN ExpOff[t.exp] ELSE 0

\* ---------------------------------------------------------------- I-layer (shaped like the code)
KnownAlg == {"EdDSA", "HS256", "ES256", "RS256"}          \* members of jsonwebtoken::Algorithm used here
NonCanon == BadB64 \cup {"trail"}

ImplClaims(t) ==  \* AnyClaims::deserialize: dispatch on `ver`, then the versioned struct
  IF t.ver = "absent" THEN
    /\ t.pssid = "v0" /\ t.exp \in {"fut", "soon", "lee", "gone", "old"} /\ t.jti = "ok"
  ELSE IF t.ver = "1" THEN
    /\ t.iss \in {"ssr", "other"} /\ t.aud \in {"snap", "other"}
    /\ t.exp \in {"fut", "soon", "lee", "gone", "old"}
    /\ t.nbf \in {"past", "now", "lee", "notyet", "far"}
    /\ t.iat = "ok" /\ t.jti = "ok" /\ t.pssid = "v1"
  ELSE FALSE

ImplOutcome(t) ==
  CASE t.parts # "3" -> "HeaderDecodeError"
    [] t.hb64 \in NonCanon \/ t.hjson # "obj" -> "HeaderDecodeError"
    [] t.alg \notin KnownAlg \/ t.typ = "num" \/ t.kid = "num" \/ t.hextra = "num" -> "HeaderDecodeError"
    [] t.cfg = "jwks" /\ t.kid = "unknown" -> "UnknownKid"
    [] t.alg # "EdDSA" -> "VerificationFailed"                       \* InvalidAlgorithm
    [] t.sb64 \in NonCanon \/ ~SigValid(t) -> "VerificationFailed"   \* Base64 / InvalidSignature
    [] t.pb64 \in NonCanon \/ t.pjson # "obj" -> "VerificationFailed"
    [] t.exp \in {"absent", "null", "str", "neg"} -> "VerificationFailed"   \* MissingRequiredClaim(exp)
    [] NBF_CHECKED /\ t.nbf \in {"str", "null"} -> "VerificationFailed"   \* InvalidClaimFormat(nbf); null is not "absent" for jsonwebtoken's numeric claims
    [] t.exp \in {"gone", "old"} -> "VerificationFailed"             \* ExpiredSignature
    [] NBF_CHECKED /\ t.nbf \in {"notyet", "far"} -> "VerificationFailed"   \* ImmatureSignature
    [] t.aud \in {"other", "arr_other", "arr_empty"} -> "VerificationFailed"  \* InvalidAudience
    [] ~ImplClaims(t) -> "VerificationFailed"                        \* claims JSON error
    [] OTHER -> "ok"

ImplAccept(t) == ImplOutcome(t) = "ok"

\* ---------------------------------------------------------------- refinement  I => P
Disjoint(t) == ~(MustAccept(t) /\ MustReject(t))
Refines(t)  == (MustAccept(t) => ImplAccept(t)) /\ (MustReject(t) => ~ImplAccept(t))

\* ---------------------------------------------------------------- cells
Mutate(b, m) == [f \in Fields |-> IF f = m[1] THEN m[2] ELSE b[f]]
Muts == UNION {{<<f, x>> : x \in Dom[f]} : f \in Fields}

Base(v, c, k) ==
  LET t0 == [cfg |-> c, parts |-> "3", hb64 |-> "ok", pb64 |-> "ok", sb64 |-> "ok", hjson |-> "obj",
             pjson |-> "obj", alg |-> "EdDSA", typ |-> "JWT", kid |-> k, hextra |-> "none",
             sig |-> "static", ver |-> "absent", pssid |-> "v0", exp |-> "fut", nbf |-> "absent",
             iat |-> "absent", jti |-> "ok", iss |-> "absent", aud |-> "absent", pextra |-> "none"]
      t1 == IF v = "v0" THEN t0
            ELSE [t0 EXCEPT !.ver = "1", !.pssid = "v1", !.nbf = "past", !.iat = "ok", !.iss = "ssr", !.aud = "snap"]
  IN [t1 EXCEPT !.sig = Designated(t1)]

Bases == {Base(v, ck[1], ck[2]) : v \in {"v0", "v1"},
          ck \in {<<"static", "absent">>, <<"static", "known">>, <<"jwks", "absent">>, <<"jwks", "known">>}}

=============================================================================
