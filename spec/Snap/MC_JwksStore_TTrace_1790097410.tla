---- MODULE MC_JwksStore_TTrace_1790097410 ----
EXTENDS Sequences, TLCExt, Toolbox, Naturals, TLC, MC_JwksStore

_expression ==
    LET MC_JwksStore_TEExpression == INSTANCE MC_JwksStore_TEExpression
    IN MC_JwksStore_TEExpression!expression
----

_trace ==
    LET MC_JwksStore_TETrace == INSTANCE MC_JwksStore_TETrace
    IN MC_JwksStore_TETrace!trace
----

_inv ==
    ~(
        TLCGet("level") = Len(_TETrace)
        /\
        ev = ([k |-> "ka", kind |-> "await", res |-> "none", fetched |-> TRUE, reached |-> TRUE])
        /\
        ever = ([ka |-> {"v1"}, kb |-> {}])
        /\
        cache = ([ka |-> "v1", kb |-> "none"])
        /\
        served = ([ka |-> "v1", kb |-> "none"])
        /\
        h = (<<>>)
        /\
        up = (TRUE)
        /\
        n = (2)
    )
----

_init ==
    /\ h = _TETrace[1].h
    /\ n = _TETrace[1].n
    /\ ev = _TETrace[1].ev
    /\ served = _TETrace[1].served
    /\ ever = _TETrace[1].ever
    /\ up = _TETrace[1].up
    /\ cache = _TETrace[1].cache
----

_next ==
    /\ \E i,j \in DOMAIN _TETrace:
        /\ \/ /\ j = i + 1
              /\ i = TLCGet("level")
        /\ h  = _TETrace[i].h
        /\ h' = _TETrace[j].h
        /\ n  = _TETrace[i].n
        /\ n' = _TETrace[j].n
        /\ ev  = _TETrace[i].ev
        /\ ev' = _TETrace[j].ev
        /\ served  = _TETrace[i].served
        /\ served' = _TETrace[j].served
        /\ ever  = _TETrace[i].ever
        /\ ever' = _TETrace[j].ever
        /\ up  = _TETrace[i].up
        /\ up' = _TETrace[j].up
        /\ cache  = _TETrace[i].cache
        /\ cache' = _TETrace[j].cache

\* Uncomment the ASSUME below to write the states of the error trace
\* to the given file in Json format. Note that you can pass any tuple
\* to `JsonSerialize`. For example, a sub-sequence of _TETrace.
    \* ASSUME
    \*     LET J == INSTANCE Json
    \*         IN J!JsonSerialize("MC_JwksStore_TTrace_1790097410.json", _TETrace)

=============================================================================

 Note that you can extract this module `MC_JwksStore_TEExpression`
  to a dedicated file to reuse `expression` (the module in the 
  dedicated `MC_JwksStore_TEExpression.tla` file takes precedence 
  over the module `MC_JwksStore_TEExpression` below).

---- MODULE MC_JwksStore_TEExpression ----
EXTENDS Sequences, TLCExt, Toolbox, Naturals, TLC, MC_JwksStore

expression == 
    [
        \* To hide variables of the `MC_JwksStore` spec from the error trace,
        \* remove the variables below.  The trace will be written in the order
        \* of the fields of this record.
        h |-> h
        ,n |-> n
        ,ev |-> ev
        ,served |-> served
        ,ever |-> ever
        ,up |-> up
        ,cache |-> cache
        
        \* Put additional constant-, state-, and action-level expressions here:
        \* ,_stateNumber |-> _TEPosition
        \* ,_hUnchanged |-> h = h'
        
        \* Format the `h` variable as Json value.
        \* ,_hJson |->
        \*     LET J == INSTANCE Json
        \*     IN J!ToJson(h)
        
        \* Lastly, you may build expressions over arbitrary sets of states by
        \* leveraging the _TETrace operator.  For example, this is how to
        \* count the number of times a spec variable changed up to the current
        \* state in the trace.
        \* ,_hModCount |->
        \*     LET F[s \in DOMAIN _TETrace] ==
        \*         IF s = 1 THEN 0
        \*         ELSE IF _TETrace[s].h # _TETrace[s-1].h
        \*             THEN 1 + F[s-1] ELSE F[s-1]
        \*     IN F[_TEPosition - 1]
    ]

=============================================================================



Parsing and semantic processing can take forever if the trace below is long.
 In this case, it is advised to uncomment the module below to deserialize the
 trace from a generated binary file.

\*
\*---- MODULE MC_JwksStore_TETrace ----
\*EXTENDS IOUtils, TLC, MC_JwksStore
\*
\*trace == IODeserialize("MC_JwksStore_TTrace_1790097410.bin", TRUE)
\*
\*=============================================================================
\*

---- MODULE MC_JwksStore_TETrace ----
EXTENDS TLC, MC_JwksStore

trace == 
    <<
    ([ev |-> [kind |-> "init"],ever |-> [ka |-> {}, kb |-> {}],cache |-> [ka |-> "none", kb |-> "none"],served |-> [ka |-> "none", kb |-> "none"],h |-> <<>>,up |-> TRUE,n |-> 0]),
    ([ev |-> [k |-> "ka", v |-> "v1", kind |-> "publish"],ever |-> [ka |-> {"v1"}, kb |-> {}],cache |-> [ka |-> "none", kb |-> "none"],served |-> [ka |-> "v1", kb |-> "none"],h |-> <<>>,up |-> TRUE,n |-> 1]),
    ([ev |-> [k |-> "ka", kind |-> "await", res |-> "none", fetched |-> TRUE, reached |-> TRUE],ever |-> [ka |-> {"v1"}, kb |-> {}],cache |-> [ka |-> "v1", kb |-> "none"],served |-> [ka |-> "v1", kb |-> "none"],h |-> <<>>,up |-> TRUE,n |-> 2])
    >>
----


=============================================================================

---- CONFIG MC_JwksStore_TTrace_1790097410 ----
CONSTANTS
    Kids = { "ka" , "kb" }
    KeyVals = { "v1" , "v2" , "v3" }
    VARIANT = "nowait"
    Depth = 1000000
    GEN = FALSE

INVARIANT
    _inv

CHECK_DEADLOCK
    \* CHECK_DEADLOCK off because of PROPERTY or INVARIANT above.
    FALSE

INIT
    _init

NEXT
    _next

CONSTANT
    _TETrace <- _trace

ALIAS
    _expression
=============================================================================
\* Generated on Tue Sep 22 17:17:02 UTC 2026