----------------------------- MODULE JwksStore -----------------------------
(* Growth of C10 ("... signed by the configured (or JWKS-RESOLVED) key"): the key store that     *)
(* resolves a token's `kid` (snap-control/src/server/jwks_key_store.rs).                          *)
(*                                                                                                *)
(* Environment: the JWKS endpoint serves served[kid] (key material or None) and may be down.      *)
(* I-layer (shaped like the code):                                                                *)
(*   Await(k)  = JwksKeyStore::await_key: cache hit -> the cached key, NO fetch; miss -> one      *)
(*               fetch cycle (do_fetch merges every served key into the cache: new kids are       *)
(*               added, changed material replaces the old one, nothing is ever evicted), then     *)
(*               the cache is looked up again                                                     *)
(*   Refresh   = one fetch cycle without a lookup (periodic timer, or a miss on another kid)      *)
(*   Publish / Withdraw / Down / Up = the issuer rotates keys, the endpoint fails                 *)
(* P-layer (what "JWKS-resolved key" must mean under any reading):                                *)
(*   ResolvedWasServed   a key returned for kid k was served under k at some time (never a key    *)
(*                       of another kid, never an invented one, never a fallback)                  *)
(*   FreshOnFetch        a lookup that had to fetch (and reached the endpoint) returns exactly    *)
(*                       what the endpoint serves for k now                                       *)
(*   RefreshPicksUp      after a fetch cycle that reached the endpoint, every kid the endpoint    *)
(*                       serves resolves to the served material (rotation is picked up)           *)
(*   MissWhenDown        a miss while the endpoint is down resolves to nothing                    *)
(*   ResolvesServed      a kid the endpoint serves resolves whenever the endpoint is reachable    *)
(*                       (a valid token with a newly published kid is not refused)                *)
(* Deliberately NOT demanded (the property text does not decide it; documented I-layer facts):    *)
(*   a withdrawn kid stays resolvable (no eviction); between fetch cycles the cache may be stale. *)
EXTENDS Naturals, FiniteSets, TLC

CONSTANTS Kids, KeyVals,
          VARIANT     \* "code" | "keepold" (rotation never picked up) | "fallback" (unknown kid -> any cached key)
                      \* | "nowait" (once a fetch cycle has happened, a miss answers from the cache as it was BEFORE the fetch it triggers)

None == "none"

VARIABLES served, up, cache, ever, ev,
          warm    \* a fetch cycle has completed before (the code keeps a fetch-generation counter; the
                  \* behaviour of a correct store does not depend on it, histories are distinguished by it)

vars == <<served, up, cache, ever, ev, warm>>

Init == /\ served = [k \in Kids |-> None]
        /\ up = TRUE
        /\ cache = [k \in Kids |-> None]
        /\ ever = [k \in Kids |-> {}]
        /\ ev = [kind |-> "init"]
        /\ warm = FALSE

\* do_fetch: merge the served keys into the cache
Merged == [k \in Kids |-> IF served[k] = None THEN cache[k]
                          ELSE IF VARIANT = "keepold" /\ cache[k] # None THEN cache[k]
                          ELSE served[k]]

Publish(k, v) == /\ served' = [served EXCEPT ![k] = v]
                 /\ ever' = [ever EXCEPT ![k] = @ \cup {v}]
                 /\ ev' = [kind |-> "publish", k |-> k, v |-> v]
                 /\ UNCHANGED <<up, cache, warm>>

Withdraw(k) == /\ served[k] # None
               /\ served' = [served EXCEPT ![k] = None]
               /\ ev' = [kind |-> "withdraw", k |-> k]
               /\ UNCHANGED <<up, cache, ever, warm>>

Toggle == /\ up' = ~up
          /\ ev' = [kind |-> IF up THEN "down" ELSE "up"]
          /\ UNCHANGED <<served, cache, ever, warm>>

Fallback == IF \E j \in Kids : cache[j] # None THEN cache[CHOOSE j \in Kids : cache[j] # None] ELSE None

Await(k) ==
  IF cache[k] # None THEN
       /\ ev' = [kind |-> "await", k |-> k, res |-> cache[k], fetched |-> FALSE, reached |-> FALSE, waswarm |-> warm]
       /\ UNCHANGED <<served, up, cache, ever, warm>>
  ELSE LET c2 == IF up THEN Merged ELSE cache
           r == IF VARIANT = "nowait" /\ warm THEN None
                ELSE IF c2[k] # None THEN c2[k] ELSE IF VARIANT = "fallback" THEN Fallback ELSE None IN
       /\ cache' = c2 /\ warm' = TRUE
       /\ ev' = [kind |-> "await", k |-> k, res |-> r, fetched |-> TRUE, reached |-> up, waswarm |-> warm]
       /\ UNCHANGED <<served, up, ever>>

Refresh == /\ cache' = IF up THEN Merged ELSE cache
           /\ warm' = TRUE
           /\ ev' = [kind |-> "refresh", reached |-> up]
           /\ UNCHANGED <<served, up, ever>>

Next == \/ \E k \in Kids, v \in KeyVals : Publish(k, v)
        \/ \E k \in Kids : Withdraw(k)
        \/ Toggle
        \/ \E k \in Kids : Await(k)
        \/ Refresh

Spec == Init /\ [][Next]_vars

\* ---------------------------------------------------------------- P-layer
ResolvedWasServed == (ev.kind = "await" /\ ev.res # None) => ev.res \in ever[ev.k]
FreshOnFetch      == (ev.kind = "await" /\ ev.fetched /\ ev.reached) => ev.res = served[ev.k]
MissWhenDown      == (ev.kind = "await" /\ ev.fetched /\ ~ev.reached) => ev.res = None
RefreshPicksUp    == ((ev.kind = "refresh" \/ (ev.kind = "await" /\ ev.fetched)) /\ ev.reached)
                       => \A k \in Kids : served[k] # None => cache[k] = served[k]
ResolvesServed    == (ev.kind = "await" /\ up /\ served[ev.k] # None) => ev.res # None
CacheWasServed    == \A k \in Kids : cache[k] # None => cache[k] \in ever[k]
=============================================================================
