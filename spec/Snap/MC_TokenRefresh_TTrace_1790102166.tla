---- MODULE MC_TokenRefresh_TTrace_1790102166 ----
EXTENDS Sequences, TLCExt, Toolbox, MC_TokenRefresh, Naturals, TLC

_expression ==
    LET MC_TokenRefresh_TEExpression == INSTANCE MC_TokenRefresh_TEExpression
    IN MC_TokenRefresh_TEExpression!expression
----

_trace ==
    LET MC_TokenRefresh_TETrace == INSTANCE MC_TokenRefresh_TETrace
    IN MC_TokenRefresh_TETrace!trace
----

_inv ==
    ~(
        TLCGet("level") = Len(_TETrace)
        /\
        ev = ([kind |-> "tick"])
        /\
        cur = (6)
        /\
        wake = (1)
        /\
        puberr = (FALSE)
        /\
        now = (6)
        /\
        pub = (6)
        /\
        inflight = (-1)
    )
----

_init ==
    /\ ev = _TETrace[1].ev
    /\ pub = _TETrace[1].pub
    /\ inflight = _TETrace[1].inflight
    /\ now = _TETrace[1].now
    /\ puberr = _TETrace[1].puberr
    /\ cur = _TETrace[1].cur
    /\ wake = _TETrace[1].wake
----

_next ==
    /\ \E i,j \in DOMAIN _TETrace:
        /\ \/ /\ j = i + 1
              /\ i = TLCGet("level")
        /\ ev  = _TETrace[i].ev
        /\ ev' = _TETrace[j].ev
        /\ pub  = _TETrace[i].pub
        /\ pub' = _TETrace[j].pub
        /\ inflight  = _TETrace[i].inflight
        /\ inflight' = _TETrace[j].inflight
        /\ now  = _TETrace[i].now
        /\ now' = _TETrace[j].now
        /\ puberr  = _TETrace[i].puberr
        /\ puberr' = _TETrace[j].puberr
        /\ cur  = _TETrace[i].cur
        /\ cur' = _TETrace[j].cur
        /\ wake  = _TETrace[i].wake
        /\ wake' = _TETrace[j].wake

\* Uncomment the ASSUME below to write the states of the error trace
\* to the given file in Json format. Note that you can pass any tuple
\* to `JsonSerialize`. For example, a sub-sequence of _TETrace.
    \* ASSUME
    \*     LET J == INSTANCE Json
    \*         IN J!JsonSerialize("MC_TokenRefresh_TTrace_1790102166.json", _TETrace)

=============================================================================

 Note that you can extract this module `MC_TokenRefresh_TEExpression`
  to a dedicated file to reuse `expression` (the module in the 
  dedicated `MC_TokenRefresh_TEExpression.tla` file takes precedence 
  over the module `MC_TokenRefresh_TEExpression` below).

---- MODULE MC_TokenRefresh_TEExpression ----
EXTENDS Sequences, TLCExt, Toolbox, MC_TokenRefresh, Naturals, TLC

expression == 
    [
        \* To hide variables of the `MC_TokenRefresh` spec from the error trace,
        \* remove the variables below.  The trace will be written in the order
        \* of the fields of this record.
        ev |-> ev
        ,pub |-> pub
        ,inflight |-> inflight
        ,now |-> now
        ,puberr |-> puberr
        ,cur |-> cur
        ,wake |-> wake
        
        \* Put additional constant-, state-, and action-level expressions here:
        \* ,_stateNumber |-> _TEPosition
        \* ,_evUnchanged |-> ev = ev'
        
        \* Format the `ev` variable as Json value.
        \* ,_evJson |->
        \*     LET J == INSTANCE Json
        \*     IN J!ToJson(ev)
        
        \* Lastly, you may build expressions over arbitrary sets of states by
        \* leveraging the _TETrace operator.  For example, this is how to
        \* count the number of times a spec variable changed up to the current
        \* state in the trace.
        \* ,_evModCount |->
        \*     LET F[s \in DOMAIN _TETrace] ==
        \*         IF s = 1 THEN 0
        \*         ELSE IF _TETrace[s].ev # _TETrace[s-1].ev
        \*             THEN 1 + F[s-1] ELSE F[s-1]
        \*     IN F[_TEPosition - 1]
    ]

=============================================================================



Parsing and semantic processing can take forever if the trace below is long.
 In this case, it is advised to uncomment the module below to deserialize the
 trace from a generated binary file.

\*
\*---- MODULE MC_TokenRefresh_TETrace ----
\*EXTENDS IOUtils, MC_TokenRefresh, TLC
\*
\*trace == IODeserialize("MC_TokenRefresh_TTrace_1790102166.bin", TRUE)
\*
\*=============================================================================
\*

---- MODULE MC_TokenRefresh_TETrace ----
EXTENDS MC_TokenRefresh, TLC

trace == 
    <<
    ([ev |-> [kind |-> "init"],cur |-> -1,wake |-> 0,puberr |-> FALSE,now |-> 0,pub |-> -1,inflight |-> -1]),
    ([ev |-> [kind |-> "start", at |-> 0],cur |-> -1,wake |-> 0,puberr |-> FALSE,now |-> 0,pub |-> -1,inflight |-> 0]),
    ([ev |-> [kind |-> "tick"],cur |-> -1,wake |-> 0,puberr |-> FALSE,now |-> 1,pub |-> -1,inflight |-> 0]),
    ([ev |-> [kind |-> "publish", at |-> 1, exp |-> 6],cur |-> 6,wake |-> 1,puberr |-> FALSE,now |-> 1,pub |-> 6,inflight |-> -1]),
    ([ev |-> [kind |-> "tick"],cur |-> 6,wake |-> 1,puberr |-> FALSE,now |-> 2,pub |-> 6,inflight |-> -1]),
    ([ev |-> [kind |-> "tick"],cur |-> 6,wake |-> 1,puberr |-> FALSE,now |-> 3,pub |-> 6,inflight |-> -1]),
    ([ev |-> [kind |-> "tick"],cur |-> 6,wake |-> 1,puberr |-> FALSE,now |-> 4,pub |-> 6,inflight |-> -1]),
    ([ev |-> [kind |-> "tick"],cur |-> 6,wake |-> 1,puberr |-> FALSE,now |-> 5,pub |-> 6,inflight |-> -1]),
    ([ev |-> [kind |-> "tick"],cur |-> 6,wake |-> 1,puberr |-> FALSE,now |-> 6,pub |-> 6,inflight |-> -1])
    >>
----


=============================================================================

---- CONFIG MC_TokenRefresh_TTrace_1790102166 ----
CONSTANTS
    THR = 3
    MINLIFE = 1
    RETRY = 2
    LAT = 1
    Lifes = { 1 , 2 , 5 , 6 , 8 }
    MaxT = 24
    HEALTHY = TRUE
    VARIANT = "late"

INVARIANT
    _inv

CHECK_DEADLOCK
    \* CHECK_DEADLOCK off because of PROPERTY or INVARIANT above.
    FALSE

INIT
    _init

NEXT
    _next

CONSTANT
    _TETrace <- _trace

ALIAS
    _expression
=============================================================================
\* Generated on Tue Sep 22 18:36:14 UTC 2026