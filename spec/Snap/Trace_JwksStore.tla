-------------------------- MODULE Trace_JwksStore --------------------------
(* Trace validation for the JWKS key store: recorded histories of the real JwksKeyStore against  *)
(* a controlled loopback endpoint.                                                                *)
(*   {"ev":"meta","kids":[..],"vals":[..]}    {"ev":"reset"}                                      *)
(*   {"ev":"act","o":{kind,..observed..},"cache":{kid: material | "none"}}                        *)
(* The state FOLLOWS the observation (cache' = observed cache, ev' = observed event), so the      *)
(* P-invariants of JwksStore are evaluated on the real outputs; the I-layer prediction for the    *)
(* step (from the previous observed state) is compared and a disagreement printed as DRIFT.       *)
EXTENDS JwksStore, Json, IOUtils, Sequences

Rec == ndJsonDeserialize(IOEnv.TRACE)
ToSet(s) == {s[j] : j \in 1..Len(s)}
TraceKids == ToSet(Rec[1].kids)
TraceVals == ToSet(Rec[1].vals)

VARIABLE l
tvars == <<vars, l>>

ObsCache(e) == [k \in Kids |-> e.cache[k]]

Drift(e, what, pred) ==
  PrintT(<<"DRIFT", ToJson([line |-> l, what |-> what, o |-> e.o, observed_cache |-> e.cache, predicted |-> pred])>>)

TAct ==
  /\ l <= Len(Rec) /\ Rec[l].ev = "act"
  /\ LET e == Rec[l]
         o == e.o
         oc == ObsCache(e) IN
     /\ cache' = oc
     /\ warm' = (warm \/ o.kind = "refresh" \/ (o.kind = "await" /\ cache[o.k] = None))
     /\ CASE o.kind = "publish" ->
               /\ served' = [served EXCEPT ![o.k] = o.v] /\ ever' = [ever EXCEPT ![o.k] = @ \cup {o.v}]
               /\ up' = up /\ ev' = [kind |-> "publish", k |-> o.k, v |-> o.v]
               /\ (IF oc = cache THEN TRUE ELSE Drift(e, "cache changed without a fetch", cache))
          [] o.kind = "withdraw" ->
               /\ served' = [served EXCEPT ![o.k] = None] /\ UNCHANGED <<ever, up>>
               /\ ev' = [kind |-> "withdraw", k |-> o.k]
               /\ (IF oc = cache THEN TRUE ELSE Drift(e, "cache changed without a fetch", cache))
          [] o.kind \in {"down", "up"} ->
               /\ up' = (o.kind = "up") /\ UNCHANGED <<served, ever>>
               /\ ev' = [kind |-> o.kind]
               /\ (IF oc = cache THEN TRUE ELSE Drift(e, "cache changed without a fetch", cache))
          [] o.kind = "refresh" ->
               /\ UNCHANGED <<served, ever, up>>
               /\ ev' = [kind |-> "refresh", reached |-> up]
               /\ LET pred == IF up THEN Merged ELSE cache IN (IF oc = pred THEN TRUE ELSE Drift(e, "refresh", pred))
          [] o.kind = "await" ->
               /\ UNCHANGED <<served, ever, up>>
               /\ ev' = [kind |-> "await", k |-> o.k, res |-> o.res, fetched |-> o.fetched, reached |-> (o.fetched /\ up), waswarm |-> warm]
               /\ LET hit == cache[o.k] # None
                      pc == IF hit \/ ~up THEN cache ELSE Merged
                      pr == IF hit THEN cache[o.k] ELSE pc[o.k] IN
                  (IF oc = pc /\ o.res = pr /\ o.fetched = ~hit THEN TRUE ELSE Drift(e, "await", [cache |-> pc, res |-> pr, fetched |-> ~hit]))
          [] OTHER -> FALSE
  /\ l' = l + 1

TReset ==
  /\ l <= Len(Rec) /\ Rec[l].ev = "reset"
  /\ served' = [k \in Kids |-> None] /\ up' = TRUE /\ cache' = [k \in Kids |-> None]
  /\ ever' = [k \in Kids |-> {}] /\ ev' = [kind |-> "init"] /\ warm' = FALSE
  /\ l' = l + 1

TInit == Init /\ l = 2
TNext == TAct \/ TReset
TSpec == TInit /\ [][TNext]_tvars

\* the verifier accepts exactly the tokens signed with the resolved material (binding to C10)
\* is checked by the harness-side monitor; here the store's own P-layer:
TraceAccepted ==
  LET dm == TLCGet("stats").diameter IN
  IF dm = Len(Rec) THEN TRUE
  ELSE /\ PrintT(<<"TRACE-REJECTED", "matched", dm - 1, "of", Len(Rec) - 1>>)
       /\ (dm + 1 <= Len(Rec) => PrintT(<<"UNMATCHED", ToJson(Rec[dm + 1])>>))
       /\ FALSE
=============================================================================
