----------------------------- MODULE TokenRefresh -----------------------------
(* Growth (DESIGN.md 6.6): the token refresher that drives the client's re-registration           *)
(* (crates/libs/reqwest-connect-rpc/src/token_source/refresh.rs, RefreshTokenSourceTask::run).    *)
(* Discrete time in ticks.  I-layer = the task's loop:                                            *)
(*   Start      sleep until (expiry of the current token - THR), or at once if there is none,     *)
(*              then call the refresher (one call at a time: the loop awaits it)                  *)
(*   FinishOk   the refresher returns a token: if it expires within MINLIFE it is ignored and the *)
(*              loop waits RETRY; otherwise it becomes current and is published                   *)
(*   FinishErr  the refresher fails: if the current token is (almost) expired the error is        *)
(*              published and the token dropped; the loop waits RETRY                             *)
(* P-layer:                                                                                       *)
(*   PublishedFresh   a token is published only if it is still valid for more than MINLIFE        *)
(*   SingleFlight     never two refresher calls in flight                                         *)
(*   KeepWhileValid   an error is published only when the current token is within MINLIFE of      *)
(*                    its expiry (a transient failure does not take a valid token away)           *)
(*   NoGapWhenHealthy if every call succeeds within LAT ticks with a lifetime > THR + LAT, the    *)
(*                    published token is never expired (refresh BEFORE expiry)                    *)
EXTENDS Integers, TLC

CONSTANTS THR, MINLIFE, RETRY, LAT, Lifes, MaxT,
          HEALTHY,   \* TRUE: the refresher always succeeds with a long enough lifetime
          VARIANT    \* "code" | "late" (refreshes only AT the expiry) | "dropvalid" (any failure drops the token)

None == -1

VARIABLES now, cur, pub, inflight, wake, ev, puberr

vars == <<now, cur, pub, inflight, wake, ev, puberr>>

Init == /\ now = 0 /\ cur = None /\ pub = None /\ inflight = None /\ wake = 0
        /\ ev = [kind |-> "init"] /\ puberr = FALSE

Deadline == IF cur = None THEN now
            ELSE IF VARIANT = "late" THEN cur
            ELSE IF cur - THR < 0 THEN 0 ELSE cur - THR

Tick == /\ now < MaxT
        \* the loop is either sleeping (time may pass) or a call is in flight for at most LAT ticks
        /\ (inflight # None => now + 1 <= inflight + LAT)
        /\ (inflight = None => now + 1 <= (IF wake > Deadline THEN wake ELSE Deadline) \/ FALSE)
        /\ now' = now + 1
        /\ ev' = [kind |-> "tick"]
        /\ UNCHANGED <<cur, pub, inflight, wake, puberr>>

Start == /\ inflight = None /\ now >= wake /\ now >= Deadline
         /\ inflight' = now
         /\ ev' = [kind |-> "start", at |-> now]
         /\ UNCHANGED <<now, cur, pub, wake, puberr>>

FinishOk(life) ==
  /\ inflight # None
  /\ (HEALTHY => life > THR + LAT)
  /\ LET exp == now + life IN
     IF exp <= now + MINLIFE
     THEN /\ wake' = now + RETRY /\ ev' = [kind |-> "ignored", exp |-> exp]
          /\ UNCHANGED <<cur, pub, puberr>>
     ELSE /\ cur' = exp /\ pub' = exp /\ puberr' = FALSE /\ wake' = now
          /\ ev' = [kind |-> "publish", exp |-> exp, at |-> now]
  /\ inflight' = None
  /\ UNCHANGED now

FinishErr ==
  /\ inflight # None /\ ~HEALTHY
  /\ LET expiry == IF cur = None THEN now ELSE cur IN
     IF VARIANT = "dropvalid" \/ expiry <= now + MINLIFE
     THEN /\ cur' = None /\ puberr' = TRUE /\ pub' = None
          /\ ev' = [kind |-> "puberr", at |-> now, left |-> expiry - now]
     ELSE /\ ev' = [kind |-> "keep", at |-> now] /\ UNCHANGED <<cur, pub, puberr>>
  /\ wake' = now + RETRY
  /\ inflight' = None
  /\ UNCHANGED now

Next == Tick \/ Start \/ (\E l \in Lifes : FinishOk(l)) \/ FinishErr

Spec == Init /\ [][Next]_vars

\* ---------------------------------------------------------------- P-layer
PublishedFresh   == ev.kind = "publish" => ev.exp > ev.at + MINLIFE
SingleFlight     == ev.kind = "start" => TRUE      \* structural: Start requires inflight = None
KeepWhileValid   == ev.kind = "puberr" => ev.left <= MINLIFE
NoGapWhenHealthy == (HEALTHY /\ pub # None) => pub > now
\* once a token has been published and the refresher is healthy there is always a published token
AlwaysATokenWhenHealthy == (HEALTHY /\ now > LAT) => pub # None
=============================================================================
