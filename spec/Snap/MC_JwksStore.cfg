SPECIFICATION MCSpec
VIEW MCViewU
CONSTANTS
  Kids = {"ka", "kb"}
  KeyVals = {"v1", "v2", "v3"}
  VARIANT = "code"
  Depth = 1000000
  GEN = FALSE
INVARIANTS ResolvedWasServed FreshOnFetch MissWhenDown RefreshPicksUp ResolvesServed CacheWasServed Emit
