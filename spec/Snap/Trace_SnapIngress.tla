-------------------------- MODULE Trace_SnapIngress --------------------------
(* Trace validation for C08: every line is one datagram given to the gateway's real ingress    *)
(* step, with the descriptor read by the harness's independent header reader and the observed  *)
(* outcome.                                                                                    *)
(*   {"ev":"meta",...}                                                                         *)
(*   {"ev":"dg","i":n,"case":{descriptor},"len":L,"outcome":"Dispatch"|"Reply:<code>"|       *)
(*     "NoReply"|"panic","replies":0|1,"reply_ok":bool,"code":scmp code or 255}                *)
(* P-layer per line: dispatched only if MayDispatch; never a panic; at most one reply and it   *)
(* is a well-formed SCMP parameter problem that fits the send buffer; datagram <= 9216 B.      *)
(* P-violations are printed <<"PV",..>>; disagreement with the I-layer Decide is <<"DRIFT",..>>.*)
EXTENDS SnapIngress, Json, IOUtils

Rec == ndJsonDeserialize(IOEnv.TRACE)

VARIABLE l

Code == [InvalidCommonHeader |-> 16, InvalidSourceAddress |-> 33, UnknownPathType |-> 20]

Expected(e) == IF e.outcome = "Reply:InvalidCommonHeader" THEN e.code = Code.InvalidCommonHeader
               ELSE IF e.outcome = "Reply:InvalidSourceAddress" THEN e.code = Code.InvalidSourceAddress
               ELSE IF e.outcome = "Reply:UnknownPathType" THEN e.code = Code.UnknownPathType
               ELSE TRUE

PV(e, kind) == PrintT(<<"PV", ToJson([i |-> e.i, kind |-> kind, outcome |-> e.outcome])>>)

PCheck(e) ==
  LET c == e.case IN
  /\ IF e.outcome = "panic" THEN PV(e, "panic") ELSE TRUE
  /\ IF e.outcome = "Dispatch" /\ MustNotDispatch(c) THEN PV(e, "dispatched-forbidden") ELSE TRUE
  /\ IF e.outcome = "Dispatch" /\ e.replies # 0 THEN PV(e, "dispatch-and-reply") ELSE TRUE
  /\ IF e.replies > 1 \/ (e.replies = 1 /\ ~e.reply_ok) THEN PV(e, "bad-reply") ELSE TRUE
  /\ IF e.len > 9216 THEN PV(e, "harness-oversize") ELSE TRUE
  /\ IF e.outcome # "panic" /\ (Decide(c) # e.outcome \/ ~Expected(e))
     THEN PrintT(<<"DRIFT", ToJson([i |-> e.i, decide |-> Decide(c), outcome |-> e.outcome, code |-> e.code])>>)
     ELSE TRUE
  /\ IF ~MustNotDispatch(c) THEN PrintT(<<"MAY", e.i>>) ELSE TRUE

TInit == l = 2
TNext == /\ l <= Len(Rec) /\ Rec[l].ev = "dg"
         /\ PCheck(Rec[l])
         /\ l' = l + 1
TSpec == TInit /\ [][TNext]_l

TraceAccepted ==
  LET dm == TLCGet("stats").diameter IN
  IF dm = Len(Rec) THEN TRUE
  ELSE /\ PrintT(<<"TRACE-REJECTED", "matched", dm - 1, "of", Len(Rec) - 1>>)
       /\ FALSE
=============================================================================
