SPECIFICATION MCSpec
VIEW MCView
CONSTANTS
  NBF_CHECKED = TRUE
  DEPTH = 2
  HOTFROM = 3
  GEN = FALSE
INVARIANTS InvDisjoint InvRefines Emit
