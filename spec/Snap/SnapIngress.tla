---------------------------- MODULE SnapIngress ----------------------------
(* C08 - SNAP ingress filter: no spoofed source and no unsupported path type enters SCION.     *)
(*                                                                                              *)
(* A datagram that left a client's tunnel is described by a DESCRIPTOR (what an independent     *)
(* reader of the SCION header format - common header 12 B, address header 16 B + DstHost +      *)
(* SrcHost, path by type - sees in the bytes) and its relation to the tunnel peer's address.    *)
(*   ver   version nibble                     pt   path type octet                              *)
(*   st,dt source/destination type+length nibble (T<<2 | L), host length = (L+1)*4 bytes        *)
(*   seg   <<s0,s1,s2>> segment lengths of a standard path (pt = 1)                             *)
(*   plen  path bytes of a path of another type (the rest of the advertised header)             *)
(*   hl    advertised header length relative to the real one: "exact" | "less" | "more"         *)
(*   cut   where the datagram ends: "full" | "extra" | "nopayload" | "in_path" | "in_addr"      *)
(*         | "in_common" | "empty"                                                              *)
(*   peer  family of the tunnel peer address: "v4" | "v6" | "v4mapped"                          *)
(*   rel   source host bytes versus the peer address: "same" (exactly the peer's bytes),        *)
(*         "mappedform" (same IPv4 host, the other of v4 / v4-mapped-v6 representation),        *)
(*         "low4" (only the low four bytes agree), "other"                                      *)
(*                                                                                              *)
(* P-layer (from the property text): MayDispatch(d) - the only descriptors that may ever be     *)
(* handed to the dispatcher.  Everything else: at most one reply, an SCMP parameter problem     *)
(* that fits the buffer, and never a dispatch.                                                  *)
(* I-layer: Decide(d) follows inbound_datagram_check (parse -> source -> path type) and names    *)
(* the SCMP code of the reply.                                                                  *)
EXTENDS Naturals, Sequences, TLC

\* I-layer variant: "code" = the filter as implemented; the others are deliberately broken filters
\* used as oracle self-checks (TLC must refute them): "nosrc" skips the source comparison, "canon"
\* compares canonicalised addresses (the v4 / v4-mapped twin of the peer passes),
\* "alias" takes every 4-/16-byte address type for IPv4/IPv6, "nopath" skips the path-type test
CONSTANT VARIANT

AddrLen(n) == ((n % 4) + 1) * 4
IPV4 == 0      \* T = 0, L = 0
IPV6 == 3      \* T = 0, L = 3
SVC  == 4      \* T = 1, L = 0

NInf(seg) == (IF seg[1] > 0 THEN 1 ELSE 0) + (IF seg[2] > 0 THEN 1 ELSE 0) + (IF seg[3] > 0 THEN 1 ELSE 0)
NHop(seg) == seg[1] + seg[2] + seg[3]

PathLen(d) == CASE d.pt = 0 -> 0
                [] d.pt = 1 -> 4 + 8 * NInf(d.seg) + 12 * NHop(d.seg)
                [] d.pt = 2 -> 32
                [] OTHER -> d.plen

AddrEnd(d)  == 12 + 16 + AddrLen(d.dt) + AddrLen(d.st)
HdrBytes(d) == AddrEnd(d) + PathLen(d)
Advertised(d) == CASE d.hl = "exact" -> HdrBytes(d)
                   [] d.hl = "less" -> IF HdrBytes(d) - 4 > 1020 THEN 1020 ELSE HdrBytes(d) - 4
                   [] OTHER -> HdrBytes(d) + 4

\* a descriptor the harness can turn into bytes
Feasible(d) ==
  /\ Advertised(d) <= 1020                                         \* HdrLen is one octet of 4-byte units
  /\ (d.pt \notin {0, 1, 2} => d.hl = "exact")                      \* other types: the path IS the rest of the header
  /\ (d.rel = "same" => AddrLen(d.st) = (IF d.peer = "v4" THEN 4 ELSE 16))
  /\ (d.rel = "mappedform" => (d.peer = "v4" /\ AddrLen(d.st) = 16) \/ (d.peer = "v4mapped" /\ AddrLen(d.st) = 4))
  /\ (d.rel = "low4" => AddrLen(d.st) > 4 \/ d.peer = "v6")       \* with a 4-byte source "low 4 bytes" IS the address
  /\ (d.cut = "in_path" => PathLen(d) > 0)

\* ---------------------------------------------------------------- P-layer
HeaderParses(d) ==
  /\ d.cut \in {"full", "extra", "nopayload"}     \* the whole header is inside the datagram
  /\ d.ver = 0
  /\ d.hl = "exact"

SrcIsPeer(d) ==
  \/ d.st = IPV4 /\ d.peer = "v4" /\ d.rel = "same"
  \/ d.st = IPV6 /\ d.peer \in {"v6", "v4mapped"} /\ d.rel = "same"

\* the same IPv4 host written in the OTHER family (peer a.b.c.d with an IPv6 source ::ffff:a.b.c.d, or a
\* v4-mapped peer ::ffff:a.b.c.d with an IPv4 source a.b.c.d) is NOT the peer's address: the property demands
\* equality with the tunnel peer's address of the same family (DESIGN.md 7/C08), so these cells may never be
\* dispatched either
SrcIsPeerMapped(d) == d.st \in {IPV4, IPV6} /\ d.rel = "mappedform"

PathSupported(d) == d.pt \in {0, 1}

MustNotDispatch(d) == ~(HeaderParses(d) /\ SrcIsPeer(d) /\ PathSupported(d))
ShouldDispatch(d)  == HeaderParses(d) /\ SrcIsPeer(d) /\ PathSupported(d)

\* ---------------------------------------------------------------- I-layer (shaped like the code)
Decide(d) ==
  CASE ~HeaderParses(d) -> "Reply:InvalidCommonHeader"
    [] VARIANT = "code" /\ ~(d.st \in {IPV4, IPV6} /\ d.rel = "same") -> "Reply:InvalidSourceAddress"
    [] VARIANT = "canon" /\ ~(d.st \in {IPV4, IPV6} /\ d.rel \in {"same", "mappedform"}) -> "Reply:InvalidSourceAddress"
    [] VARIANT = "alias" /\ ~(AddrLen(d.st) \in {4, 16} /\ d.rel = "same") -> "Reply:InvalidSourceAddress"
    [] VARIANT = "nopath" /\ ~(d.st \in {IPV4, IPV6} /\ d.rel = "same") -> "Reply:InvalidSourceAddress"
    [] VARIANT # "nopath" /\ ~PathSupported(d) -> "Reply:UnknownPathType"
    [] OTHER -> "Dispatch"

Refines(d) == /\ (Decide(d) = "Dispatch" => ~MustNotDispatch(d))
              /\ (ShouldDispatch(d) => Decide(d) = "Dispatch")
=============================================================================
