SPECIFICATION MCSpec
VIEW MCView
CONSTANTS
  Keys = {"k1", "k2"}
  Ids = {"i1", "i2", "i3"}
  Addrs = {"a1", "a2"}
  MaxT = 4
  Lifes = {1, 2, 3}
  TIMERDROP = TRUE
  VARIANT = "code"
  Depth = 5
  GEN = FALSE
INVARIANTS FwdOnlyAuthorised FwdNeverForged EncOnlyAuthorised HsOnlyAuthorised Attribution OneToOne AuthRefines AuthExact Emit
PROPERTIES RegisterKeepsTunnels RenewalIsSeamless
