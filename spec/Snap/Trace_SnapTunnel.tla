-------------------------- MODULE Trace_SnapTunnel --------------------------
(* Trace validation for C09: recorded histories of the real IdentityRegistry + SnapTunServer    *)
(* (+ real client tunnels) must be behaviours of SnapTunnel, and the P-invariants are evaluated *)
(* on the OBSERVED events at every step.                                                        *)
(*   {"ev":"meta","keys":[..],"ids":[..],"addrs":[..]}              first line                  *)
(*   {"ev":"reset"}                                                 fresh registry and server   *)
(*   {"ev":"act","o":{kind,...observed event, same shape as the spec's ev...},"auth":[ids]}     *)
(* Conformance: the I-layer action with the same inputs must produce the observed outcome and   *)
(* the observed set of authorised identities; the first disagreement of a run is printed as     *)
(* <<"DRIFT",..>> and the rest of that run is checked against the P-layer only (ghost state     *)
(* pkey/pauth/now depends on the inputs only).                                                  *)
EXTENDS SnapTunnel, Json, IOUtils, Sequences

Rec == ndJsonDeserialize(IOEnv.TRACE)
ToSet(s) == {s[j] : j \in 1..Len(s)}
TraceKeys  == ToSet(Rec[1].keys)
TraceIds   == ToSet(Rec[1].ids)
TraceAddrs == ToSet(Rec[1].addrs)

VARIABLES l, okc, oauth

tvars == <<vars, l, okc, oauth>>

ResClass(r) == IF r \in {"rejected-unauthorized", "rejected-tunnel-unauthorized"} THEN "rejected-unauthorized"
               ELSE IF r = "rejected-other-identity" THEN "rejected-other" ELSE r

IStep(e) ==
  LET o == e.o IN
  /\ CASE o.kind = "register" -> Register(o.k, o.id, o.life) /\ ev'.wasnew = o.wasnew
       [] o.kind = "adv" -> Advance(o.d)
       [] o.kind = "purge" -> Purge
       [] o.kind = "timer" -> Timer
       [] o.kind = "hs" -> Handshake(o.a, o.id) /\ ResClass(ev'.res) = o.res
       [] o.kind = "in" -> DataIn(o.a, o.sender) /\ ev'.fwd = o.fwd /\ (o.fwd => ev'.id = o.id)
       [] o.kind = "forged" -> Forged(o.a) /\ ev'.fwd = o.fwd
       [] o.kind = "out" -> DataOut(o.a) /\ ev'.enc = o.enc /\ (o.enc => ev'.id = o.id)
       [] OTHER -> FALSE
  /\ {i \in Ids : sess'[i] > now'} = ToSet(e.auth)

\* property-level bookkeeping only (inputs), observed event taken as is
PStep(e) ==
  LET o == e.o IN
  /\ now' = IF o.kind = "adv" THEN now + o.d ELSE now
  /\ IF o.kind = "register"
     THEN /\ pkey' = [kk \in Keys |-> IF kk = o.k THEN o.id ELSE IF pkey[kk] = o.id THEN None ELSE pkey[kk]]
          /\ pauth' = [j \in Ids |-> IF j = o.id THEN now + o.life ELSE IF pkey[o.k] = j THEN 0 ELSE pauth[j]]
     ELSE UNCHANGED <<pkey, pauth>>
  /\ ev' = o
  /\ UNCHANGED <<assoc, sess, tun, cli>>

TAct ==
  /\ l <= Len(Rec) /\ Rec[l].ev = "act"
  /\ LET e == Rec[l] IN
     \/ /\ okc /\ IStep(e) /\ okc' = TRUE
     \/ /\ okc /\ ~ENABLED IStep(e)
        /\ PrintT(<<"DRIFT", ToJson([line |-> l, o |-> e.o, auth |-> e.auth,
                                     spec_auth |-> {i \in Ids : sess[i] > now}, spec_now |-> now, spec_tun |-> tun])>>)
        /\ PStep(e) /\ okc' = FALSE
     \/ /\ ~okc /\ PStep(e) /\ okc' = FALSE
  /\ oauth' = ToSet(Rec[l].auth)
  /\ l' = l + 1

TReset ==
  /\ l <= Len(Rec) /\ Rec[l].ev = "reset"
  /\ now' = 0
  /\ assoc' = [k \in Keys |-> None]
  /\ sess' = [i \in Ids |-> 0]
  /\ tun' = [a \in Addrs |-> [id |-> None, conf |-> FALSE]]
  /\ cli' = [a \in Addrs |-> [i \in Ids |-> FALSE]]
  /\ pkey' = [k \in Keys |-> None]
  /\ pauth' = [i \in Ids |-> 0]
  /\ ev' = [kind |-> "init"]
  /\ okc' = TRUE /\ oauth' = {}
  /\ l' = l + 1

TInit == Init /\ l = 2 /\ okc = TRUE /\ oauth = {}
TNext == TAct \/ TReset
TSpec == TInit /\ [][TNext]_tvars

\* ---- P-layer on the observed events (robust against identities the harness could not name)
TFwdOnlyAuthorised == (ev.kind \in {"in", "forged"} /\ ev.fwd) => (ev.id \in Ids /\ PAuthorized(ev.id))
TFwdNeverForged    == ev.kind = "forged" => ~ev.fwd
TEncOnlyAuthorised == (ev.kind = "out" /\ ev.enc) => (ev.id \in Ids /\ PAuthorized(ev.id))
THsOnlyAuthorised  == (ev.kind = "hs" /\ ev.res \in {"accepted-new", "accepted-rekey"}) => PAuthorized(ev.id)
TAttribution       == (ev.kind = "in" /\ ev.fwd) => ev.id = ev.sender
TObsAuthRefines    == \A i \in oauth : i \in Ids /\ PAuthorized(i)
TNoPanic           == ev.kind # "panic"

TraceAccepted ==
  LET dm == TLCGet("stats").diameter IN
  IF dm = Len(Rec) THEN TRUE
  ELSE /\ PrintT(<<"TRACE-REJECTED", "matched", dm - 1, "of", Len(Rec) - 1>>)
       /\ (dm + 1 <= Len(Rec) => PrintT(<<"UNMATCHED", ToJson(Rec[dm + 1])>>))
       /\ FALSE
=============================================================================
