----------------------------- MODULE SnapTunnel -----------------------------
(* C09 - the SNAP tunnel carries traffic only for identities authorised at that moment.       *)
(*                                                                                              *)
(* I-layer (one action per public call; early returns are named outcomes):                      *)
(*   assoc, sess      IdentityRegistryState: token key -> identity, identity -> expiry          *)
(*   tun              SnapTunServer::active_tunnels: address -> [id, conf]  (id = peer static   *)
(*                    key the tunnel was created for; conf = the server holds a confirmed       *)
(*                    session, i.e. may encrypt towards the client)                             *)
(*   cli              client side: cli[a][i] = TRUE iff the client with identity i at address a *)
(*                    holds a session with the server's tunnel at a                             *)
(*   now              model clock (the authorisation adapter's time)                            *)
(*   Register(k,i,l)  = IdentityRegistry::register (add_identity)                               *)
(*   Advance(d)       = time passes                                                             *)
(*   Purge            = IdentityRegistry::remove_expired (clean_expired)                        *)
(*   Handshake(a,i)   = client (a,i) sends a fresh handshake initiation; the response is        *)
(*                      delivered to the client and its keepalive back to the server            *)
(*   DataIn(a,i)      = client (a,i) sends one data packet through its session                  *)
(*   Forged(a)        = a data packet under no session key arrives from a                       *)
(*   DataOut(a)       = SnapTunServer::handle_outgoing_packet for address a                     *)
(*   Timer            = SnapTunServer::update_timers (TimerDrop(a): WireGuard expiry)           *)
(* P-layer: ghost pkey/pauth are the property's own bookkeeping of "identity holds an           *)
(*   unexpired registration" as a function of the register/advance history only (they do not    *)
(*   look at assoc/sess and are not touched by Purge); `ev` is the observable of the last call. *)
EXTENDS Naturals, FiniteSets, TLC

CONSTANTS Keys, Ids, Addrs, MaxT, Lifes, TIMERDROP,
          VARIANT   \* "code" | "nolapse" (expiry not re-checked per packet) | "keepprev" (superseded identity kept)

None == "none"

VARIABLES now, assoc, sess, tun, cli, pkey, pauth, ev

vars == <<now, assoc, sess, tun, cli, pkey, pauth, ev>>

Init ==
  /\ now = 0
  /\ assoc = [k \in Keys |-> None]
  /\ sess = [i \in Ids |-> 0]                      \* expiry; 0 = no session (expiries are > 0)
  /\ tun = [a \in Addrs |-> [id |-> None, conf |-> FALSE]]
  /\ cli = [a \in Addrs |-> [i \in Ids |-> FALSE]]
  /\ pkey = [k \in Keys |-> None]
  /\ pauth = [i \in Ids |-> 0]
  /\ ev = [kind |-> "init"]

\* -------- I-layer helpers
HasSess(i) == sess[i] > 0
Authorized(i) == IF VARIANT = "nolapse" THEN HasSess(i) ELSE sess[i] > now     \* expires_at > now

\* -------- P-layer helper: the property's notion of "holds an unexpired registration"
PAuthorized(i) == pauth[i] > now

\* -------- actions
Register(k, i, life) ==
  LET prev == assoc[k]
      exp == now + life
      a1 == [assoc EXCEPT ![k] = i]
      a2 == [kk \in Keys |-> IF a1[kk] = i /\ kk # k THEN None ELSE a1[kk]]
      s1 == IF prev # None /\ prev # i /\ VARIANT # "keepprev" THEN [sess EXCEPT ![prev] = 0] ELSE sess
  IN
  /\ assoc' = a2
  /\ sess' = [s1 EXCEPT ![i] = exp]
  \* property bookkeeping: the previous identity under this token is superseded; i holds only key k
  /\ pkey' = [kk \in Keys |-> IF kk = k THEN i ELSE IF pkey[kk] = i THEN None ELSE pkey[kk]]
  /\ pauth' = [j \in Ids |-> IF j = i THEN exp
                             ELSE IF pkey[k] = j THEN 0 ELSE pauth[j]]
  /\ ev' = [kind |-> "register", k |-> k, id |-> i, life |-> life, wasnew |-> ~HasSess(i)]
  /\ UNCHANGED <<now, tun, cli>>

Advance(d) ==
  /\ now + d <= MaxT
  /\ now' = now + d
  /\ ev' = [kind |-> "adv", d |-> d]
  /\ UNCHANGED <<assoc, sess, tun, cli, pkey, pauth>>

Purge ==
  LET dead == {i \in Ids : HasSess(i) /\ ~(sess[i] > now)} IN
  /\ sess' = [i \in Ids |-> IF i \in dead THEN 0 ELSE sess[i]]
  /\ assoc' = [k \in Keys |-> IF assoc[k] \in dead THEN None ELSE assoc[k]]
  /\ ev' = [kind |-> "purge"]
  /\ UNCHANGED <<now, tun, cli, pkey, pauth>>

\* client (a,i) initiates; outcome names the branch taken in handle_incoming_packet_with_session
Handshake(a, i) ==
  LET t == tun[a] IN
  IF t.id = None THEN
    IF Authorized(i) THEN
      /\ tun' = [tun EXCEPT ![a] = [id |-> i, conf |-> TRUE]]
      /\ cli' = [cli EXCEPT ![a][i] = TRUE]
      /\ ev' = [kind |-> "hs", a |-> a, id |-> i, res |-> "accepted-new"]
      /\ UNCHANGED <<now, assoc, sess, pkey, pauth>>
    ELSE
      /\ ev' = [kind |-> "hs", a |-> a, id |-> i, res |-> "rejected-unauthorized"]
      /\ UNCHANGED <<now, assoc, sess, tun, cli, pkey, pauth>>
  ELSE IF ~Authorized(t.id) THEN
      /\ ev' = [kind |-> "hs", a |-> a, id |-> i, res |-> "rejected-tunnel-unauthorized"]
      /\ UNCHANGED <<now, assoc, sess, tun, cli, pkey, pauth>>
  ELSE IF t.id = i THEN
      /\ tun' = [tun EXCEPT ![a].conf = TRUE]
      /\ cli' = [cli EXCEPT ![a][i] = TRUE]
      /\ ev' = [kind |-> "hs", a |-> a, id |-> i, res |-> "accepted-rekey"]
      /\ UNCHANGED <<now, assoc, sess, pkey, pauth>>
  ELSE
      /\ ev' = [kind |-> "hs", a |-> a, id |-> i, res |-> "rejected-other-identity"]
      /\ UNCHANGED <<now, assoc, sess, tun, cli, pkey, pauth>>

DataIn(a, i) ==
  /\ cli[a][i]                                   \* the client holds a session (otherwise it cannot encrypt)
  /\ LET t == tun[a] IN
     /\ ev' = [kind |-> "in", a |-> a, sender |-> i,
               fwd |-> (t.id = i /\ Authorized(i)),
               id |-> t.id]                      \* identity the payload is attributed to when forwarded
     /\ UNCHANGED <<now, assoc, sess, tun, cli, pkey, pauth>>

Forged(a) ==
  /\ ev' = [kind |-> "forged", a |-> a, fwd |-> FALSE]
  /\ UNCHANGED <<now, assoc, sess, tun, cli, pkey, pauth>>

DataOut(a) ==
  LET t == tun[a] IN
  /\ ev' = [kind |-> "out", a |-> a, id |-> t.id,
            enc |-> (t.id # None /\ Authorized(t.id) /\ t.conf)]
  /\ UNCHANGED <<now, assoc, sess, tun, cli, pkey, pauth>>

Timer ==
  /\ ev' = [kind |-> "timer"]
  /\ UNCHANGED <<now, assoc, sess, tun, cli, pkey, pauth>>

\* WireGuard-level expiry of an idle tunnel (not reachable within the real-time span of a replay)
TimerDrop(a) ==
  /\ TIMERDROP /\ tun[a].id # None
  /\ tun' = [tun EXCEPT ![a] = [id |-> None, conf |-> FALSE]]
  /\ cli' = [cli EXCEPT ![a] = [i \in Ids |-> FALSE]]
  /\ ev' = [kind |-> "timerdrop", a |-> a]
  /\ UNCHANGED <<now, assoc, sess, pkey, pauth>>

Next ==
  \/ \E k \in Keys, i \in Ids, l \in Lifes : Register(k, i, l)
  \/ \E d \in {1, 2} : Advance(d)
  \/ Purge
  \/ \E a \in Addrs, i \in Ids : Handshake(a, i)
  \/ \E a \in Addrs, i \in Ids : DataIn(a, i)
  \/ \E a \in Addrs : Forged(a)
  \/ \E a \in Addrs : DataOut(a)
  \/ Timer
  \/ \E a \in Addrs : TimerDrop(a)

Spec == Init /\ [][Next]_vars

\* ---------------------------------------------------------------- P-layer invariants
\* a payload is delivered to the SCION side only for an identity holding an unexpired registration
FwdOnlyAuthorised == (ev.kind = "in" /\ ev.fwd) => PAuthorized(ev.id)
FwdNeverForged    == ev.kind = "forged" => ~ev.fwd
\* an outbound payload is encrypted towards a client only if that client's identity is authorised
EncOnlyAuthorised == (ev.kind = "out" /\ ev.enc) => PAuthorized(ev.id)
\* accepted handshakes too need authorisation (a tunnel is only ever created for an authorised identity)
HsOnlyAuthorised  == (ev.kind = "hs" /\ ev.res \in {"accepted-new", "accepted-rekey"}) => PAuthorized(ev.id)
\* payloads are attributed to the identity that cryptographically authenticated them
Attribution       == (ev.kind = "in" /\ ev.fwd) => ev.id = ev.sender
\* at most one identity per token key and one key per identity; sessions and associations agree
OneToOne ==
  /\ \A k1, k2 \in Keys : (assoc[k1] # None /\ assoc[k1] = assoc[k2]) => k1 = k2
  /\ \A i \in Ids : HasSess(i) => Cardinality({k \in Keys : assoc[k] = i}) = 1
  /\ \A k \in Keys : assoc[k] # None => HasSess(assoc[k])
\* the implementation's authorisation is never wider than the property's
AuthRefines == \A i \in Ids : Authorized(i) => PAuthorized(i)
\* ... and (conformance, not needed for the property) never narrower either
AuthExact   == \A i \in Ids : Authorized(i) <=> PAuthorized(i)

\* ---------------------------------------------------------------- client side (growth, DESIGN.md 6.6)
\* snap-tun/src/client.rs: when the token source publishes a refreshed token, the endpoint's
\* identity_registration_loop registers the SAME identity again under the new token (a new key).
\* That is a Register(k, i, life) with k # the key i holds; what the client relies on:
\*   a registration never touches the tunnels or the clients' sessions (no new handshake is needed) ...
RegisterKeepsTunnels == [][ev'.kind = "register" => (tun' = tun /\ cli' = cli)]_vars
\*   ... and renewing BEFORE the lapse is seamless: the identity is authorised before and after, and the
\*   superseded token key no longer maps to it (OneToOne), so traffic keeps flowing across the renewal
RenewalIsSeamless == [][(ev'.kind = "register" /\ sess[ev'.id] > now)
                         => (sess'[ev'.id] > now' /\ pauth'[ev'.id] > now'
                             /\ Cardinality({k \in Keys : assoc'[k] = ev'.id}) = 1)]_vars
=============================================================================
