-------------------------- MODULE Trace_TokenRefresh --------------------------
(* Trace validation for the token refresher: timestamped (ms) events of the real                *)
(* RefreshTokenSource driven by a scripted refresher.                                            *)
(*   {"ev":"meta","thr":ms,"minlife":ms,"retry":ms}                                              *)
(*   {"ev":"start","t","n"}  {"ev":"end","t","n","ok","exp"}  {"ev":"pub","t","ok","exp"}        *)
(* P-layer on the observed events (real timestamps):                                             *)
(*   PublishedFresh     a published token is valid for more than MINLIFE at publication           *)
(*   SingleFlight       no refresher call starts while another one is in flight                   *)
(*   KeepWhileValid     an error is published only when the current token is within MINLIFE of    *)
(*                      its expiry                                                                *)
(*   RefreshBeforeExpiry a renewal call starts before the current token expires, and a renewed    *)
(*                      token is published before the previous one expired                        *)
(* I-layer (DRIFT): a renewal starts about THR before the expiry (not earlier, at most SLACK      *)
(* later); a retry starts about RETRY after the failed call.                                      *)
EXTENDS Integers, Sequences, Json, IOUtils, TLC

Rec == ndJsonDeserialize(IOEnv.TRACE)
THR == Rec[1].thr
MINLIFE == Rec[1].minlife
RETRY == Rec[1].retry
SLACK == 4000          \* scheduling tolerance for conformance only

VARIABLES l, cur, inflight, lastfail, viol, lastend

vars == <<l, cur, inflight, lastfail, viol, lastend>>

Init == l = 2 /\ cur = 0 /\ inflight = FALSE /\ lastfail = 0 - 1 /\ viol = "" /\ lastend = 0

Drift(e, what) == PrintT(<<"DRIFT", ToJson([line |-> l, what |-> what, e |-> e, cur |-> cur])>>)

Next ==
  /\ l <= Len(Rec)
  /\ LET e == Rec[l] IN
     CASE e.ev = "start" ->
            /\ viol' = (IF inflight THEN "SingleFlight"
                        ELSE IF cur > 0 /\ lastfail < 0 /\ e.t >= cur THEN "RefreshBeforeExpiry" ELSE "")
            /\ inflight' = TRUE
            /\ (IF cur > 0 /\ lastfail < 0 /\ (e.t < cur - THR - 50 \/ e.t > cur - THR + SLACK)
                THEN Drift(e, "renewal not started about THR before the expiry") ELSE TRUE)
            /\ (IF lastfail >= 0 /\ (e.t < lastfail + RETRY - 50 \/ e.t > lastfail + RETRY + SLACK)
                THEN Drift(e, "retry not started about RETRY after the failure") ELSE TRUE)
            /\ UNCHANGED <<cur, lastfail, lastend>>
       [] e.ev = "end" ->
            /\ inflight' = FALSE
            /\ lastend' = e.t
            /\ lastfail' = IF e.ok /\ e.exp > e.t + MINLIFE THEN 0 - 1 ELSE e.t
            /\ viol' = ""
            /\ UNCHANGED cur
       [] e.ev = "pub" ->
            /\ IF e.ok
               THEN /\ viol' = (IF e.exp <= e.t + MINLIFE THEN "PublishedFresh"
                                ELSE IF cur > 0 /\ e.t >= cur THEN "RefreshBeforeExpiry" ELSE "")
                    /\ cur' = e.exp
               ELSE /\ viol' = (IF cur > 0 /\ cur - lastend > MINLIFE THEN "KeepWhileValid" ELSE "")
                    /\ cur' = 0
            /\ UNCHANGED <<inflight, lastfail, lastend>>
       [] OTHER -> FALSE
  /\ l' = l + 1

Spec == Init /\ [][Next]_vars

NoViolation == viol = ""

TraceAccepted ==
  LET dm == TLCGet("stats").diameter IN
  IF dm = Len(Rec) THEN TRUE
  ELSE /\ PrintT(<<"TRACE-REJECTED", "matched", dm - 1, "of", Len(Rec) - 1>>) /\ FALSE
=============================================================================
