---------------------------- MODULE MC_AddrText ----------------------------
(***************************************************************************)
(* Exhaustive exploration of token strings: every string within K token    *)
(* edits (insert / delete / replace over the whole class alphabet) of the  *)
(* seeds.  Seeds are the DISPLAYED forms of representative values of every *)
(* type (built by the printers ShowIa, ShowAddr, ShowSock) and the empty      *)
(* string (so that K edits                                                 *)
(* of it give every string of length <= K).                                *)
(* On every string: the coded parsers (I_x) never panic, accept only what  *)
(* the documented grammar (G_x) accepts and with the same value (Sound),   *)
(* and accept everything the grammar accepts (Complete); every displayed   *)
(* form parses back (RoundTrip, an ASSUME).  With GEN = TRUE each distinct *)
(* string is printed with the expected result per target type for replay   *)
(* on the real parsers.                                                    *)
(***************************************************************************)
EXTENDS AddrText, Json

CONSTANTS K_EDITS, MAXLEN, SEEDSEL, TSEL, GEN      \* TSEL: the target types evaluated in this run

VARIABLES s,    \* the token string (sequence of class names)
          n,    \* number of edits applied to the seed
          res   \* [T |-> [g |-> grammar result, i |-> coded-parser result]] for s (a function of s)

Struct == [LB |-> [k |-> "lb"], RB |-> [k |-> "rb"], CM |-> [k |-> "cm"], DS |-> [k |-> "ds"],
           CL |-> [k |-> "cl"], SC |-> [k |-> "sc"], WS |-> [k |-> "ws"], HS |-> [k |-> "hs"]]
\* atom classes = fact vectors (see AddrText); literals per class are in the harness (fn literals)
AtomN1 == [k |-> "a", d16 |-> 1, d32 |-> 1, d64 |-> 1, h16 |-> 1, h4 |-> 1]  \* "0" "110" "9999"
AtomV4 == [k |-> "a", v4 |-> 1]
Atoms == [N1  |-> AtomN1,
          NP  |-> [k |-> "a", d16 |-> 1, d32 |-> 1, d64 |-> 1, h16 |-> 1],   \* "+7" "00001"
          N2  |-> [k |-> "a", d16 |-> 1, d32 |-> 1, d64 |-> 1],              \* "65535" "10000"
          N3  |-> [k |-> "a", d32 |-> 1, d64 |-> 1],                        \* "65536" "4294967295"
          N4  |-> [k |-> "a", d64 |-> 1],                                   \* "4294967296" u64::MAX
          H1  |-> [k |-> "a", h16 |-> 1, h4 |-> 1],                         \* "ff00" "FFFF" "a"
          V4  |-> AtomV4,
          SVC |-> [k |-> "a", svc |-> 1],
          PFX |-> [k |-> "a", pfx |-> 1],
          J   |-> [k |-> "a"],                                              \* junk, overflow, non-ASCII
          XN  |-> [k |-> "a", df |-> AtomN1],                               \* "x1": junk, valid after dropping byte 1
          V4X |-> [k |-> "a", dl |-> AtomV4]]                               \* "10.0.0.1y"
ClassTok == Struct @@ Atoms
Classes == DOMAIN ClassTok
IsAtomC(c) == c \in DOMAIN Atoms

Tok(str) == [p \in 1..Len(str) |-> ClassTok[str[p]]]
Cx(str)  == [ts |-> Tok(str), v6 |-> <<>>]

(***************************************************************************)
(* Printer: displayed forms at class level.                                *)
(***************************************************************************)
IsdF  == {<<"N1">>, <<"N2">>}
AsnF  == {<<"N1">>, <<"N3">>, <<"H1", "CL", "N1", "CL", "H1">>}     \* decimal below 2^32, else colon-hex
V6F   == {<<"CL", "CL">>, <<"CL", "CL", "N1">>, <<"H1", "CL", "N1", "CL", "CL", "N1">>,
          <<"CL", "CL", "H1", "CL", "V4">>,
          <<"H1", "CL", "N1", "CL", "N1", "CL", "N1", "CL", "H1", "CL", "N1", "CL", "N1", "CL", "H1">>}
HostF(kinds) == (IF "v4" \in kinds THEN {<<"V4">>} ELSE {}) \cup (IF "v6" \in kinds THEN V6F ELSE {})
                \cup (IF "svc" \in kinds THEN {<<"SVC">>} ELSE {})
HostFq == {<<"V4">>, <<"SVC">>, <<"CL", "CL">>, <<"CL", "CL", "N1">>, <<"H1", "CL", "N1", "CL", "CL", "N1">>, <<"CL", "CL", "H1", "CL", "V4">>}
ShowIa(isd, as)     == isd \o <<"DS">> \o as
ShowAddr(ia, h)     == ia \o <<"CM">> \o h
ShowSock(ia, h, p)  == <<"LB">> \o ShowAddr(ia, h) \o <<"RB", "CL">> \o p
ShowEntry(ia, h)    == <<"LB">> \o ShowAddr(ia, h) \o <<"RB">>

IaF    == {ShowIa(a, b) : a \in IsdF, b \in AsnF}
IaFew  == {ShowIa(<<"N1">>, b) : b \in {<<"N1">>, <<"H1", "CL", "N1", "CL", "H1">>}}
AddrF(kinds) == {ShowAddr(a, h) : a \in IaFew, h \in HostF(kinds)}
SockF(kinds) == {ShowSock(a, h, <<"N1">>) : a \in IaFew, h \in HostF(kinds)}
IaHex  == ShowIa(<<"N1">>, <<"H1", "CL", "N1", "CL", "H1">>)
TxtF   == {<<"PFX", "SC">> \o ShowEntry(IaHex, <<"V4">>),
           <<"PFX", "SC">> \o ShowEntry(IaHex, <<"CL", "CL", "N1">>),
           <<"PFX", "SC">> \o ShowEntry(IaHex, <<"V4">>) \o <<"CM">> \o ShowEntry(ShowIa(<<"N1">>, <<"N1">>), <<"CL", "CL", "N1">>)}
TxtWs  == {<<"PFX", "SC", "WS", "LB", "WS">> \o IaHex \o <<"WS", "CM", "WS", "V4", "WS", "RB", "WS", "CM", "WS">>
             \o ShowEntry(IaHex, <<"V4">>) \o <<"WS">>}

\* hop predicates of the policy language
PredF == {<<"N1">>, <<"N2", "DS", "N1">>, <<"N1", "DS", "H1", "CL", "N1", "CL", "H1">>,
          <<"N1", "DS", "N1", "HS", "N1">>, <<"N1", "DS", "N3", "HS", "N1", "CM", "N2">>,
          <<"N1", "DS", "H1", "CL", "N1", "CL", "H1", "HS", "N2", "CM", "N1">>}

\* (type, displayed form) pairs: every displayed form must parse back as that type
Shown == ({"Isd"} \X IsdF) \cup ({"Asn"} \X AsnF) \cup ({"IsdAsn"} \X IaF)
         \cup ({"Svc"} \X {<<"SVC">>}) \cup ({"Host"} \X HostF({"v4", "v6", "svc"}))
         \cup ({"AddrV4"} \X AddrF({"v4"})) \cup ({"AddrV6"} \X AddrF({"v6"})) \cup ({"AddrSvc"} \X AddrF({"svc"}))
         \cup ({"Addr"} \X AddrF({"v4", "v6", "svc"})) \cup ({"IpAddr"} \X AddrF({"v4", "v6"}))
         \cup ({"SockV4"} \X SockF({"v4"})) \cup ({"SockV6"} \X SockF({"v6"})) \cup ({"SockSvc"} \X SockF({"svc"}))
         \cup ({"Sock"} \X SockF({"v4", "v6", "svc"})) \cup ({"SockIp"} \X SockF({"v4", "v6"}))
         \cup ({"TxtRecord"} \X TxtF)
         \cup ({"TxtPayload"} \X {SubSeq(t, 3, Len(t)) : t \in TxtF})
         \cup ({"HopPred"} \X PredF) \cup ({"IfPred"} \X {<<"N1">>, <<"N1", "CM", "N2">>})

RoundTrip == \A tf \in Shown : tf[1] \in TSEL => LET cx == Cx(tf[2]) IN I(tf[1], cx).o = "acc" /\ I(tf[1], cx) = G(tf[1], cx)

\* seed groups selectable per configuration
SeedGroup(g) ==
  CASE g = "empty" -> {<<>>}
    [] g = "ids"   -> IsdF \cup AsnF \cup IaF \cup HostF({"v4", "v6", "svc"})
    [] g = "addr"  -> AddrF({"v4", "v6", "svc"})
    [] g = "sock"  -> SockF({"v4", "v6", "svc"})
    [] g = "addrq" -> {ShowAddr(a, h) : a \in IaFew, h \in HostFq}     \* quick tier: without the 8-group IPv6 forms
    [] g = "sockq" -> {ShowSock(a, h, <<"N1">>) : a \in IaFew, h \in HostFq}
    [] g = "idsq"  -> IsdF \cup AsnF \cup IaF \cup HostFq \cup {<<"H1", "CL", "N1", "CL", "N1", "CL", "N1", "CL", "H1", "CL", "N1", "CL", "N1", "CL", "H1">>}
    [] g = "socksmall" -> {ShowSock(ShowIa(<<"N1">>, <<"N1">>), h, <<"N1">>) : h \in {<<"V4">>, <<"SVC">>, <<"CL", "CL", "N1">>}}
    [] g = "addrsmall" -> {ShowAddr(ShowIa(<<"N1">>, <<"N1">>), h) : h \in {<<"V4">>, <<"CL", "CL", "N1">>}}
    [] g = "sockone" -> {ShowSock(ShowIa(<<"N1">>, <<"N1">>), <<"V4">>, <<"N1">>)}
    [] g = "pred"  -> PredF \cup {<<"N1", "CM", "N2">>}
    [] g = "txt"   -> TxtF \cup TxtWs
    [] g = "txtp"  -> {SubSeq(t, 3, Len(t)) : t \in TxtF}
    [] g = "txtsmall" -> {<<"PFX", "SC">> \o ShowEntry(ShowIa(<<"N1">>, <<"N1">>), <<"V4">>)}
Seeds == UNION {SeedGroup(g) : g \in SEEDSEL}

(***************************************************************************)
(* Edit graph.                                                             *)
(***************************************************************************)
Del(str, p)    == SubSeq(str, 1, p-1) \o SubSeq(str, p+1, Len(str))
Rep(str, p, c) == [str EXCEPT ![p] = c]
Ins(str, p, c) == SubSeq(str, 1, p) \o <<c>> \o SubSeq(str, p+1, Len(str))
\* two adjacent atoms would be lexed as one atom of unknown class
Lexable(str) == /\ Len(str) <= MAXLEN
                /\ \A p \in 1..(Len(str)-1) : ~(IsAtomC(str[p]) /\ IsAtomC(str[p+1]))

Results(str) == LET cx == Cx(str) IN [T \in TSEL |-> [g |-> G(T, cx), i |-> I(T, cx)]]

MCInit == s \in Seeds /\ n = 0 /\ res = Results(s)
MCNext == /\ n < K_EDITS
          /\ n' = n + 1
          /\ \/ \E p \in 1..Len(s) : s' = Del(s, p)
             \/ \E p \in 1..Len(s), c \in Classes : c # s[p] /\ s' = Rep(s, p, c)
             \/ \E p \in 0..Len(s), c \in Classes : s' = Ins(s, p, c)
          /\ Lexable(s')
          /\ res' = Results(s')
MCSpec == MCInit /\ [][MCNext]_<<s, n, res>>

ASSUME (FIXED /\ FIXTXT) => RoundTrip   \* (value positions of the pinned-commit variants are shifted)
ASSUME \A sd \in Seeds : Lexable(sd)

\* I => P on every explored string
NoPanic  == \A T \in TSEL : res[T].i.o # "panic"
Sound    == \A T \in TSEL : res[T].i.o = "acc" => res[T].g = res[T].i
Complete == \A T \in TSEL : res[T].g.o = "acc" => res[T].i.o = "acc"

\* generation: per string the grammar's verdict (expected acceptance set with value terms)
\* and the I-layer outcome per type where it is not "rej"
Emit == GEN => PrintT(<<"CASE", ToJson([s |-> s,
                 g |-> [T \in {T \in TSEL : res[T].g.o = "acc"} |-> res[T].g.v],
                 i |-> [T \in {T \in TSEL : res[T].i.o # "rej"} |-> res[T].i.o]])>>)
=============================================================================
