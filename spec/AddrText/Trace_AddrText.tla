--------------------------- MODULE Trace_AddrText ---------------------------
(***************************************************************************)
(* Trace validation for C15.  Every line of the ndjson file named by env   *)
(* TRACE (line 1 = meta) is one concrete string given to the real parsers: *)
(*   toks  the tokens of the string with the leaf facts decided by std,    *)
(*   v6    the token ranges that are IPv6 literals for std (with value),   *)
(*   chk   real outcomes: [T, e (entry point), o ("acc"|"rej"|"panic"),    *)
(*         v (numeric value)]                                              *)
(* and, for ev = "show", the value v whose displayed form the string is.   *)
(* The P-layer verdict is taken on the REAL outcome:                       *)
(*   Panic    the parser panicked                                          *)
(*   Unsound  accepted, but the documented grammar G does not accept it    *)
(*   Value    accepted with a value different from G's                     *)
(* (printed as "PV").  A difference between the I-layer and the real       *)
(* outcome that does not break P is printed as "DRIFT".  The invariant is  *)
(* always TRUE so that every line is judged; the driver checks that all    *)
(* lines were visited (number of distinct states).                         *)
(* States form a tree root -> chunk -> line so that several workers share  *)
(* the lines.                                                              *)
(***************************************************************************)
EXTENDS AddrText, Json, IOUtils

Rec == ndJsonDeserialize(IOEnv.TRACE)
CHUNK == 128

VARIABLES c, l

TCx(e) == [ts |-> e.toks, v6 |-> e.v6]

V6Val(cx, i, j) == LET r == CHOOSE r \in 1..Len(cx.v6) : cx.v6[r].i = i /\ cx.v6[r].j = j IN cx.v6[r].g

\* numeric value of a term: 16-bit groups taken from the leaf facts
Eval1(cx, v) ==
  [isd  |-> IF v.isd = <<>> THEN <<>> ELSE <<cx.ts[v.isd[1]].d16>>,
   as   |-> IF v.asd # <<>> THEN <<0>> \o cx.ts[v.asd[1]].d32
            ELSE IF v.ash # <<>> THEN <<cx.ts[v.ash[1]].h16, cx.ts[v.ash[2]].h16, cx.ts[v.ash[3]].h16>>
            ELSE <<>>,
   hk   |-> v.hk,
   hg   |-> CASE v.hk = "v4"  -> cx.ts[v.hp[1]].v4
              [] v.hk = "v6"  -> V6Val(cx, v.hp[1], v.hp[2])
              [] v.hk = "svc" -> <<cx.ts[v.hp[1]].svc>>
              [] v.hk = "if1" -> <<cx.ts[v.hp[1]].d16>>
              [] v.hk = "if2" -> <<cx.ts[v.hp[1]].d16, cx.ts[v.hp[2]].d16>>
              [] OTHER        -> <<>>,
   port |-> IF v.port = <<>> THEN <<>> ELSE <<cx.ts[v.port[1]].d16>>,
   list |-> <<>>]
EvalV(cx, v) == [Eval1(cx, v) EXCEPT !.list = [k \in 1..Len(v.list) |-> Eval1(cx, v.list[k])]]

ChkP(cx, x) ==
  IF x.o = "panic" THEN "Panic"
  ELSE IF x.o # "acc" THEN "ok"
  ELSE LET g == G(x.T, cx) IN
       IF g.o # "acc" THEN "Unsound"
       ELSE IF EvalV(cx, g.v) # x.v THEN "Value" ELSE "ok"

ChkI(cx, x) ==
  LET i == I(x.T, cx) IN
  IF i.o # x.o THEN "outcome" ELSE IF x.o = "acc" /\ EvalV(cx, i.v) # x.v THEN "value" ELSE "ok"

Report(tag, ln, e, x, kind) ==
  PrintT(<<tag, ToJson([l |-> ln, T |-> x.T, e |-> x.e, o |-> x.o, kind |-> kind, sig |-> e.sig, src |-> e.src])>>)

LineOk ==
  l = 0 \/
  LET e == Rec[l]  cx == TCx(e) IN
  /\ \A k \in 1..Len(e.chk) :
        LET x == e.chk[k]  p == ChkP(cx, x) IN
        IF p # "ok" THEN Report("PV", l, e, x, p)
        ELSE LET d == ChkI(cx, x) IN d = "ok" \/ Report("DRIFT", l, e, x, d)
  /\ (e.ev = "show" =>
        LET g == G(e.T, cx) IN
        \/ (g.o = "acc" /\ EvalV(cx, g.v) = e.v)
        \/ PrintT(<<"SHOWDRIFT", ToJson([l |-> l, T |-> e.T, sig |-> e.sig, g |-> g.o])>>))

NChunks == (Len(Rec) - 1 + CHUNK - 1) \div CHUNK
TInit == c = 0 /\ l = 0
TNext == \/ /\ c = 0 /\ l = 0 /\ c' \in 1..NChunks /\ l' = 0
         \/ /\ c > 0 /\ l = 0 /\ c' = c
            /\ l' \in (2 + (c-1) * CHUNK)..(IF c * CHUNK + 1 < Len(Rec) THEN c * CHUNK + 1 ELSE Len(Rec))
TSpec == TInit /\ [][TNext]_<<c, l>>

\* all lines visited: 1 root + NChunks chunk states + one state per line
Expected == 1 + NChunks + (Len(Rec) - 1)
AllVisited == TLCGet("distinct") = Expected \/ (PrintT(<<"NOT-ALL-VISITED", TLCGet("distinct"), Expected>>) /\ FALSE)
=============================================================================
