------------------------------ MODULE AddrText ------------------------------
(***************************************************************************)
(* Text forms of SCION identifiers and addresses (property C15).           *)
(*                                                                         *)
(* A string is seen as a sequence of TOKENS produced by a fixed lexer      *)
(* (harness: vh-sciparse/src/bin/addrtext.rs, fn lex):                     *)
(*   every occurrence of  [ ] , - : ; #  and every white-space character is *)
(*   a structural token (k = "lb","rb","cm","ds","cl","sc","hs","ws"); every *)
(*   maximal run of other characters is an ATOM (k = "a").                 *)
(* LEAF syntax is not specified here: an atom carries FACTS decided by     *)
(* Rust std (presence of a record field = the fact holds):                 *)
(*   d16  u16::from_str ok           d32  u64::from_str ok and <= 2^32-1   *)
(*   d64  u64::from_str ok           h16  u16::from_str_radix(16) ok       *)
(*   h4   1..4 hex digits (an IPv6 group)      v4  Ipv4Addr::from_str ok   *)
(*   svc  one of CS DS Wildcard, optionally followed by _A or _M           *)
(*   pfx  the atom is exactly  scion=v1                                    *)
(* and a token RANGE may carry the fact "is an IPv6 literal" (cx.v6 in     *)
(* trace mode; in mc mode predicted by V6Shape and re-checked against std  *)
(* by the harness).  None of the structural characters can occur inside a  *)
(* decimal, hex, IPv4 or service leaf, so those facts exist for single     *)
(* atoms only.                                                             *)
(*                                                                         *)
(* P-layer: G_x  = the DOCUMENTED grammars, declaratively ("there is a     *)
(*          split such that ...").  A string may be accepted only if G     *)
(*          accepts it, and then with G's value.                           *)
(* I-layer: I_x  = the algorithms of the Rust code (rsplit_once, splitn,   *)
(*          first ']' ...), one operator per parser function.              *)
(* A parse result is [o |-> "acc"|"rej"|"panic", v |-> value term]; value  *)
(* terms name token POSITIONS and the interpretation of each leaf.         *)
(***************************************************************************)
EXTENDS Naturals, Integers, Sequences, FiniteSets, TLC

CONSTANTS FIXED,    \* TRUE: parse_socket_addr after the fix; FALSE: pinned commit (`!a && b`)
          FIXTXT,   \* TRUE: parse_txt_payload rejects a dangling ','; FALSE: pinned commit
          MODE      \* "mc": IPv6 facts from V6Shape;  "trace": IPv6 facts supplied in cx.v6

K(ts, p)      == IF p \in 1..Len(ts) THEN ts[p].k ELSE "none"
Has(ts, p, f) == p \in 1..Len(ts) /\ ts[p].k = "a" /\ f \in DOMAIN ts[p]

V0 == [isd |-> <<>>, asd |-> <<>>, ash |-> <<>>, hk |-> "", hp |-> <<>>, port |-> <<>>, list |-> <<>>]
Rej    == [o |-> "rej",   v |-> V0]
Panic  == [o |-> "panic", v |-> V0]
Acc(v) == [o |-> "acc",   v |-> v]
Comb(a, b) == [isd |-> a.isd \o b.isd, asd |-> a.asd \o b.asd, ash |-> a.ash \o b.ash,
               hk |-> IF a.hk # "" THEN a.hk ELSE b.hk, hp |-> a.hp \o b.hp,
               port |-> a.port \o b.port, list |-> a.list \o b.list]

PosK(ts, i, j, k)   == {p \in i..j : K(ts, p) = k}
MinOf(S) == CHOOSE p \in S : \A q \in S : p <= q
MaxOf(S) == CHOOSE p \in S : \A q \in S : p >= q
FirstK(ts, i, j, k) == LET S == PosK(ts, i, j, k) IN IF S = {} THEN 0 ELSE MinOf(S)   \* 0 = none
LastK(ts, i, j, k)  == LET S == PosK(ts, i, j, k) IN IF S = {} THEN 0 ELSE MaxOf(S)
CountK(ts, i, j, k) == Cardinality(PosK(ts, i, j, k))

\* str::trim on a token range: white space is dropped at both ends
Trim(ts, i, j) ==
  LET S == {p \in i..j : K(ts, p) # "ws"}
  IN IF S = {} THEN [i |-> j + 1, j |-> j] ELSE [i |-> MinOf(S), j |-> MaxOf(S)]

(***************************************************************************)
(* IPv6 literal as a token range (used for PREDICTION in mc mode only).    *)
(***************************************************************************)
V6Shape(ts, i, j) ==
  /\ i < j /\ i >= 1 /\ j <= Len(ts)
  /\ \A p \in i..j : \/ K(ts, p) = "cl"
                     \/ Has(ts, p, "h4")
                     \/ (p = j /\ Has(ts, p, "v4"))
  /\ LET dbl == {p \in i..(j-1) : K(ts, p) = "cl" /\ K(ts, p+1) = "cl"}
         ng  == Cardinality({p \in i..j : Has(ts, p, "h4")}) + (IF Has(ts, j, "v4") THEN 2 ELSE 0)
     IN /\ Cardinality(dbl) <= 1
        /\ \A p \in i..j : (K(ts, p) = "cl" /\ p \notin dbl /\ (p-1) \notin dbl)
                             => (p > i /\ p < j /\ K(ts, p-1) = "a" /\ K(ts, p+1) = "a")
        /\ (Has(ts, j, "v4") => (j > i /\ K(ts, j-1) = "cl"))
        /\ IF dbl = {} THEN ng = 8 ELSE ng <= 7

IsV6(cx, i, j) == IF MODE = "mc" THEN V6Shape(cx.ts, i, j)
                  ELSE \E r \in 1..Len(cx.v6) : cx.v6[r].i = i /\ cx.v6[r].j = j

(***************************************************************************)
(* P-layer: documented grammars.                                           *)
(*   isd      = u16 decimal                                                *)
(*   as       = decimal < 2^32  |  hex16 ":" hex16 ":" hex16               *)
(*   isd-as   = isd "-" as                                                 *)
(*   host     = IPv4 | IPv6 | service                                      *)
(*   addr     = isd-as "," host                                            *)
(*   sockaddr = "[" addr "]" ":" port            port = u16 decimal        *)
(*   txt      = "scion=v1" ";" ws entry ws *( "," ws entry ws )            *)
(*   entry    = "[" ws isd-as ws "," ws iphost ws "]"                      *)
(***************************************************************************)
G_Isd(cx, i, j) == IF i = j /\ Has(cx.ts, i, "d16") THEN Acc([V0 EXCEPT !.isd = <<i>>]) ELSE Rej

G_Asn(cx, i, j) ==
  IF i = j /\ Has(cx.ts, i, "d32") THEN Acc([V0 EXCEPT !.asd = <<i>>])
  ELSE IF /\ j = i + 4
          /\ Has(cx.ts, i, "h16") /\ K(cx.ts, i+1) = "cl" /\ Has(cx.ts, i+2, "h16")
          /\ K(cx.ts, i+3) = "cl" /\ Has(cx.ts, i+4, "h16")
       THEN Acc([V0 EXCEPT !.ash = <<i, i+2, i+4>>])
       ELSE Rej

G_IsdAsn(cx, i, j) ==
  LET R  == [m \in PosK(cx.ts, i, j, "ds") |-> [a |-> G_Isd(cx, i, m-1), b |-> G_Asn(cx, m+1, j)]]
      ms == {m \in DOMAIN R : R[m].a.o = "acc" /\ R[m].b.o = "acc"}
  IN IF ms = {} THEN Rej
     ELSE LET m == CHOOSE m \in ms : TRUE IN Acc(Comb(R[m].a.v, R[m].b.v))

G_Svc(cx, i, j) == IF i = j /\ Has(cx.ts, i, "svc") THEN Acc([V0 EXCEPT !.hk = "svc", !.hp = <<i>>]) ELSE Rej

G_Host(cx, i, j, kinds) ==
  IF "v4" \in kinds /\ i = j /\ Has(cx.ts, i, "v4") THEN Acc([V0 EXCEPT !.hk = "v4", !.hp = <<i>>])
  ELSE IF "v6" \in kinds /\ IsV6(cx, i, j) THEN Acc([V0 EXCEPT !.hk = "v6", !.hp = <<i, j>>])
  ELSE IF "svc" \in kinds THEN G_Svc(cx, i, j)
  ELSE Rej

G_Addr(cx, i, j, kinds) ==
  LET R  == [m \in PosK(cx.ts, i, j, "cm") |-> [a |-> G_IsdAsn(cx, i, m-1), b |-> G_Host(cx, m+1, j, kinds)]]
      ms == {m \in DOMAIN R : R[m].a.o = "acc" /\ R[m].b.o = "acc"}
  IN IF ms = {} THEN Rej
     ELSE LET m == CHOOSE m \in ms : TRUE IN Acc(Comb(R[m].a.v, R[m].b.v))

G_Sock(cx, i, j, kinds) ==
  IF j >= i + 3 /\ K(cx.ts, i) = "lb" /\ K(cx.ts, j-2) = "rb" /\ K(cx.ts, j-1) = "cl" /\ Has(cx.ts, j, "d16")
  THEN LET a == G_Addr(cx, i+1, j-3, kinds)
       IN IF a.o = "acc" THEN Acc(Comb(a.v, [V0 EXCEPT !.port = <<j>>])) ELSE Rej
  ELSE Rej

\* one entry "[ ws isd-as ws , ws iphost ws ]" occupying exactly i..r
G_TxtEntry(cx, i, r) ==
  IF K(cx.ts, i) # "lb" \/ K(cx.ts, r) # "rb" \/ r <= i THEN Rej
  ELSE LET R  == [m \in PosK(cx.ts, i+1, r-1, "cm") |->
                    LET a == Trim(cx.ts, i+1, m-1)  b == Trim(cx.ts, m+1, r-1)
                    IN [a |-> G_IsdAsn(cx, a.i, a.j), b |-> G_Host(cx, b.i, b.j, {"v4", "v6"})]]
           ms == {m \in DOMAIN R : R[m].a.o = "acc" /\ R[m].b.o = "acc"}
       IN IF ms = {} THEN Rej
          ELSE LET m == CHOOSE m \in ms : TRUE IN Acc(Comb(R[m].a.v, R[m].b.v))

\* entry *( ws "," ws entry ) on the (already trimmed, non-empty) range i..j
RECURSIVE G_TxtList(_, _, _)
G_TxtList(cx, i, j) ==
  LET r == FirstK(cx.ts, i, j, "rb") IN      \* an entry contains no ']' before its end
  IF r = 0 THEN Rej
  ELSE LET e == G_TxtEntry(cx, i, r) IN
       IF e.o # "acc" THEN Rej
       ELSE LET rest == Trim(cx.ts, r+1, j) IN
            IF rest.i > rest.j THEN Acc([V0 EXCEPT !.list = <<e.v>>])
            ELSE IF K(cx.ts, rest.i) # "cm" THEN Rej
            ELSE LET nx == Trim(cx.ts, rest.i + 1, rest.j) IN
                 IF nx.i > nx.j THEN Rej           \* a comma must be followed by an entry
                 ELSE LET t == G_TxtList(cx, nx.i, nx.j) IN
                      IF t.o # "acc" THEN Rej ELSE Acc([V0 EXCEPT !.list = <<e.v>> \o t.v.list])

G_TxtPayload(cx, i, j) ==
  LET t == Trim(cx.ts, i, j) IN IF t.i > t.j THEN Rej ELSE G_TxtList(cx, t.i, t.j)

G_TxtRecord(cx, i, j) ==
  IF Has(cx.ts, i, "pfx") /\ K(cx.ts, i+1) = "sc" /\ j >= i + 1 THEN G_TxtPayload(cx, i+2, j) ELSE Rej

(***************************************************************************)
(* Hop predicate of the path policy language (policy/types.rs):            *)
(*   predicate  = isd [ "-" as [ "#" interfaces ] ]                        *)
(*   interfaces = if | if "," if           if = u16 decimal                *)
(* Value: isd, as (absent when not written), hk = "ifany" | "if1" | "if2"  *)
(* with the interface atoms in hp.                                         *)
(***************************************************************************)
G_Ifs(cx, i, j) ==
  IF i = j /\ Has(cx.ts, i, "d16") THEN Acc([V0 EXCEPT !.hk = "if1", !.hp = <<i>>])
  ELSE IF j = i + 2 /\ Has(cx.ts, i, "d16") /\ K(cx.ts, i+1) = "cm" /\ Has(cx.ts, j, "d16")
       THEN Acc([V0 EXCEPT !.hk = "if2", !.hp = <<i, j>>])
       ELSE Rej

IfAny == [V0 EXCEPT !.hk = "ifany"]
G_HopPred(cx, i, j) ==
  IF ~(i <= j /\ Has(cx.ts, i, "d16")) THEN Rej
  ELSE IF i = j THEN Acc(Comb([V0 EXCEPT !.isd = <<i>>], IfAny))
  ELSE IF K(cx.ts, i+1) # "ds" THEN Rej
  ELSE LET h  == FirstK(cx.ts, i+2, j, "hs")          \* an AS number contains no '#'
           as == G_Asn(cx, i+2, IF h = 0 THEN j ELSE h-1)
           fs == IF h = 0 THEN Acc(IfAny) ELSE G_Ifs(cx, h+1, j)
       IN IF as.o = "acc" /\ fs.o = "acc" THEN Acc(Comb(Comb([V0 EXCEPT !.isd = <<i>>], as.v), fs.v)) ELSE Rej

(***************************************************************************)
(* I-layer: the parsers as coded.                                          *)
(***************************************************************************)
\* isd.rs: u16::from_str
I_Isd(cx, i, j) == IF i = j /\ Has(cx.ts, i, "d16") THEN Acc([V0 EXCEPT !.isd = <<i>>]) ELSE Rej

\* asn.rs: u64::from_str first (<= u32::MAX or error), else splitn(3, ':') of u16 hex groups
I_Asn(cx, i, j) ==
  IF i = j /\ Has(cx.ts, i, "d64")
  THEN (IF Has(cx.ts, i, "d32") THEN Acc([V0 EXCEPT !.asd = <<i>>]) ELSE Rej)
  ELSE LET c1 == FirstK(cx.ts, i, j, "cl")
           c2 == IF c1 = 0 THEN 0 ELSE FirstK(cx.ts, c1+1, j, "cl")
       IN IF c1 = 0 \/ c2 = 0 THEN Rej                 \* fewer than three parts
          ELSE IF /\ c1 = i + 1 /\ Has(cx.ts, i, "h16")
                  /\ c2 = c1 + 2 /\ Has(cx.ts, c1+1, "h16")
                  /\ j = c2 + 1 /\ Has(cx.ts, j, "h16")    \* third part = rest of the string
               THEN Acc([V0 EXCEPT !.ash = <<i, c1+1, j>>])
               ELSE Rej

\* isd_asn.rs: exactly one '-', split_once, both halves must parse
I_IsdAsn(cx, i, j) ==
  IF CountK(cx.ts, i, j, "ds") # 1 THEN Rej
  ELSE LET m == FirstK(cx.ts, i, j, "ds")
           a == I_Isd(cx, i, m-1)  b == I_Asn(cx, m+1, j)
       IN IF a.o = "acc" /\ b.o = "acc" THEN Acc(Comb(a.v, b.v)) ELSE Rej

\* host_addr.rs: ServiceAddr::from_str / Ipv4Addr / Ipv6Addr
I_Leaf(cx, i, j, kind) ==
  CASE kind = "v4"  -> IF i = j /\ Has(cx.ts, i, "v4") THEN Acc([V0 EXCEPT !.hk = "v4", !.hp = <<i>>]) ELSE Rej
    [] kind = "v6"  -> IF IsV6(cx, i, j) THEN Acc([V0 EXCEPT !.hk = "v6", !.hp = <<i, j>>]) ELSE Rej
    [] kind = "svc" -> IF i = j /\ Has(cx.ts, i, "svc") THEN Acc([V0 EXCEPT !.hk = "svc", !.hp = <<i>>]) ELSE Rej

\* try alternatives in the order of the code, first success wins
Or2(a, b)    == IF a.o # "rej" THEN a ELSE b
Or3(a, b, c) == IF a.o # "rej" THEN a ELSE IF b.o # "rej" THEN b ELSE c

\* ScionHostAddr::from_str: Ipv4, Ipv6, Service
I_Host(cx, i, j) == Or3(I_Leaf(cx, i, j, "v4"), I_Leaf(cx, i, j, "v6"), I_Leaf(cx, i, j, "svc"))

\* addr.rs parse_scion_addr: splitn(2, ','), IsdAsn, host
I_AddrX(cx, i, j, kind) ==
  LET m == FirstK(cx.ts, i, j, "cm") IN
  IF m = 0 THEN Rej
  ELSE LET a == I_IsdAsn(cx, i, m-1)  b == I_Leaf(cx, m+1, j, kind)
       IN IF a.o = "acc" /\ b.o = "acc" THEN Acc(Comb(a.v, b.v)) ELSE Rej

I_Addr(cx, i, j)   == Or3(I_AddrX(cx, i, j, "svc"), I_AddrX(cx, i, j, "v4"), I_AddrX(cx, i, j, "v6"))   \* ScionAddr::from_str
I_IpAddr(cx, i, j) == Or2(I_AddrX(cx, i, j, "v4"), I_AddrX(cx, i, j, "v6"))          \* ScionIpAddr::from_str

\* socket_addr.rs parse_socket_addr: rsplit_once(':'), bracket test, slice [1..len-1], parse, port
JunkAtom == [k |-> "a"]
DropFirst(t) == IF t.k # "a" THEN <<>> ELSE IF "df" \in DOMAIN t THEN <<t.df>> ELSE <<JunkAtom>>
DropLast(t)  == IF t.k # "a" THEN <<>> ELSE IF "dl" \in DOMAIN t THEN <<t.dl>> ELSE <<JunkAtom>>

\* value terms of the stripped string name positions of `u`; move them back to positions of cx.ts
ShiftSeq(q, d) == [x \in DOMAIN q |-> q[x] + d]
Shift(v, d) == [v EXCEPT !.isd = ShiftSeq(v.isd, d), !.asd = ShiftSeq(v.asd, d), !.ash = ShiftSeq(v.ash, d), !.hp = ShiftSeq(v.hp, d)]

I_SockX(cx, i, j, kind) ==
  LET c == LastK(cx.ts, i, j, "cl") IN
  IF c = 0 THEN Rej
  ELSE LET starts == c - 1 >= i /\ K(cx.ts, i) = "lb"
           ends   == c - 1 >= i /\ K(cx.ts, c-1) = "rb"
           port   == IF c + 1 = j /\ Has(cx.ts, j, "d16") THEN Acc([V0 EXCEPT !.port = <<j>>]) ELSE Rej
       IN IF FIXED
          THEN IF ~(starts /\ ends) THEN Rej
               ELSE LET a == I_AddrX(cx, i+1, c-2, kind)
                    IN IF a.o = "acc" /\ port.o = "acc" THEN Acc(Comb(a.v, port.v)) ELSE Rej
          ELSE \* pinned commit: `!starts && ends` then unconditional byte slicing
               IF ~starts /\ ends THEN Rej
               ELSE IF c - 1 < i THEN Panic                                  \* "" [1..len-1]
               ELSE IF c - 1 = i /\ K(cx.ts, i) # "a" THEN Panic             \* one byte: [1..0]
               ELSE LET u == IF c - 1 = i THEN <<>>
                             ELSE DropFirst(cx.ts[i]) \o SubSeq(cx.ts, i+1, c-2) \o DropLast(cx.ts[c-1])
                        a == I_AddrX([ts |-> u, v6 |-> <<>>], 1, Len(u), kind)
                        d == IF K(cx.ts, i) = "a" THEN i - 1 ELSE i
                    IN IF a.o = "acc" /\ port.o = "acc" THEN Acc(Comb(Shift(a.v, d), port.v)) ELSE Rej

I_Sock(cx, i, j)   == Or3(I_SockX(cx, i, j, "svc"), I_SockX(cx, i, j, "v4"), I_SockX(cx, i, j, "v6"))   \* ScionSocketAddr::from_str
I_SockIp(cx, i, j) == Or2(I_SockX(cx, i, j, "v4"), I_SockX(cx, i, j, "v6"))          \* ScionSocketIpAddr::from_str

\* resolver/txt.rs parse_txt_payload (loop on `remaining` = i..j, non-empty)
RECURSIVE I_TxtLoop(_, _, _, _)
I_TxtLoop(cx, i, j, acc) ==
  IF K(cx.ts, i) # "lb" THEN Rej                                   \* ExpectedOpenBracket
  ELSE LET r == FirstK(cx.ts, i, j, "rb") IN
  IF r = 0 THEN Rej                                                \* MissingCloseBracket
  ELSE LET en   == Trim(cx.ts, i+1, r-1)
           rest == Trim(cx.ts, r+1, j)
           m    == FirstK(cx.ts, en.i, en.j, "cm")
       IN IF m = 0 THEN Rej                                        \* MissingSeparator
          ELSE LET a  == Trim(cx.ts, en.i, m-1)  b == Trim(cx.ts, m+1, en.j)
                   ia == I_IsdAsn(cx, a.i, a.j)
                   h  == Or2(I_Leaf(cx, b.i, b.j, "v4"), I_Leaf(cx, b.i, b.j, "v6"))   \* IpAddr::from_str
               IN IF ia.o # "acc" \/ h.o # "acc" THEN Rej
                  ELSE LET acc2 == Append(acc, Comb(ia.v, h.v)) IN
                       IF rest.i > rest.j THEN Acc([V0 EXCEPT !.list = acc2])
                       ELSE IF K(cx.ts, rest.i) # "cm" THEN Rej    \* ExpectedComma
                       ELSE LET nx == Trim(cx.ts, rest.i + 1, rest.j) IN
                            IF nx.i > nx.j
                            THEN (IF FIXTXT THEN Rej ELSE Acc([V0 EXCEPT !.list = acc2]))
                            ELSE I_TxtLoop(cx, nx.i, nx.j, acc2)

I_TxtPayload(cx, i, j) ==
  LET t == Trim(cx.ts, i, j) IN IF t.i > t.j THEN Rej ELSE I_TxtLoop(cx, t.i, t.j, <<>>)

\* resolve_txt_records_with_invalid on one record: strip_prefix("scion=v1;") else skipped
I_TxtRecord(cx, i, j) ==
  IF Has(cx.ts, i, "pfx") /\ K(cx.ts, i+1) = "sc" /\ j >= i + 1 THEN I_TxtPayload(cx, i+2, j) ELSE Rej

\* policy/types.rs InterfacesPredicate::from_str: splitn(2, ","), u16 each
I_Ifs(cx, i, j) ==
  LET c == FirstK(cx.ts, i, j, "cm") IN
  IF c = 0 THEN (IF i = j /\ Has(cx.ts, i, "d16") THEN Acc([V0 EXCEPT !.hk = "if1", !.hp = <<i>>]) ELSE Rej)
  ELSE IF c = i + 1 /\ Has(cx.ts, i, "d16") /\ j = c + 1 /\ Has(cx.ts, j, "d16")
       THEN Acc([V0 EXCEPT !.hk = "if2", !.hp = <<i, j>>]) ELSE Rej

\* policy/types.rs HopPredicate::from_str: splitn(2, "-") -> isd; splitn(2, "#") -> as; interfaces
I_HopPred(cx, i, j) ==
  LET d == FirstK(cx.ts, i, j, "ds") IN
  IF d = 0 THEN (LET a == I_Isd(cx, i, j) IN IF a.o = "acc" THEN Acc(Comb(a.v, IfAny)) ELSE Rej)
  ELSE LET a == I_Isd(cx, i, d-1) IN
       IF a.o # "acc" THEN Rej
       ELSE LET h  == FirstK(cx.ts, d+1, j, "hs")
                as == I_Asn(cx, d+1, IF h = 0 THEN j ELSE h-1)
            IN IF as.o # "acc" THEN Rej
               ELSE IF h = 0 THEN Acc(Comb(Comb(a.v, as.v), IfAny))
               ELSE LET fs == I_Ifs(cx, h+1, j) IN
                    IF fs.o = "acc" THEN Acc(Comb(Comb(a.v, as.v), fs.v)) ELSE Rej

(***************************************************************************)
(* Dispatch by target type.                                                *)
(***************************************************************************)
Types == {"Isd", "Asn", "IsdAsn", "Svc", "Host", "AddrV4", "AddrV6", "AddrSvc", "Addr", "IpAddr",
          "SockV4", "SockV6", "SockSvc", "Sock", "SockIp", "TxtPayload", "TxtRecord", "HopPred", "IfPred"}

G(T, cx) ==
  LET n == Len(cx.ts) IN
  CASE T = "Isd"     -> G_Isd(cx, 1, n)
    [] T = "Asn"     -> G_Asn(cx, 1, n)
    [] T = "IsdAsn"  -> G_IsdAsn(cx, 1, n)
    [] T = "Svc"     -> G_Svc(cx, 1, n)
    [] T = "Host"    -> G_Host(cx, 1, n, {"v4", "v6", "svc"})
    [] T = "AddrV4"  -> G_Addr(cx, 1, n, {"v4"})
    [] T = "AddrV6"  -> G_Addr(cx, 1, n, {"v6"})
    [] T = "AddrSvc" -> G_Addr(cx, 1, n, {"svc"})
    [] T = "Addr"    -> G_Addr(cx, 1, n, {"v4", "v6", "svc"})
    [] T = "IpAddr"  -> G_Addr(cx, 1, n, {"v4", "v6"})
    [] T = "SockV4"  -> G_Sock(cx, 1, n, {"v4"})
    [] T = "SockV6"  -> G_Sock(cx, 1, n, {"v6"})
    [] T = "SockSvc" -> G_Sock(cx, 1, n, {"svc"})
    [] T = "Sock"    -> G_Sock(cx, 1, n, {"v4", "v6", "svc"})
    [] T = "SockIp"  -> G_Sock(cx, 1, n, {"v4", "v6"})
    [] T = "TxtPayload" -> G_TxtPayload(cx, 1, n)
    [] T = "TxtRecord"  -> G_TxtRecord(cx, 1, n)
    [] T = "HopPred"    -> G_HopPred(cx, 1, n)
    [] T = "IfPred"     -> G_Ifs(cx, 1, n)

I(T, cx) ==
  LET n == Len(cx.ts) IN
  CASE T = "Isd"     -> I_Isd(cx, 1, n)
    [] T = "Asn"     -> I_Asn(cx, 1, n)
    [] T = "IsdAsn"  -> I_IsdAsn(cx, 1, n)
    [] T = "Svc"     -> I_Leaf(cx, 1, n, "svc")
    [] T = "Host"    -> I_Host(cx, 1, n)
    [] T = "AddrV4"  -> I_AddrX(cx, 1, n, "v4")
    [] T = "AddrV6"  -> I_AddrX(cx, 1, n, "v6")
    [] T = "AddrSvc" -> I_AddrX(cx, 1, n, "svc")
    [] T = "Addr"    -> I_Addr(cx, 1, n)
    [] T = "IpAddr"  -> I_IpAddr(cx, 1, n)
    [] T = "SockV4"  -> I_SockX(cx, 1, n, "v4")
    [] T = "SockV6"  -> I_SockX(cx, 1, n, "v6")
    [] T = "SockSvc" -> I_SockX(cx, 1, n, "svc")
    [] T = "Sock"    -> I_Sock(cx, 1, n)
    [] T = "SockIp"  -> I_SockIp(cx, 1, n)
    [] T = "TxtPayload" -> I_TxtPayload(cx, 1, n)
    [] T = "TxtRecord"  -> I_TxtRecord(cx, 1, n)
    [] T = "HopPred"    -> I_HopPred(cx, 1, n)
    [] T = "IfPred"     -> I_Ifs(cx, 1, n)

(***************************************************************************)
(* P-layer statements about one string (cx) and one parser outcome r.      *)
(***************************************************************************)
\* the property, for an arbitrary observed outcome r of a parser for T
POk(T, cx, r) == /\ r.o # "panic"
                 /\ (r.o = "acc" => (G(T, cx).o = "acc" /\ G(T, cx).v = r.v))
=============================================================================
