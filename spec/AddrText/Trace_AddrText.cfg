SPECIFICATION TSpec
CONSTANTS
  FIXED = TRUE
  FIXTXT = TRUE
  MODE = "trace"
INVARIANTS LineOk
POSTCONDITION AllVisited
CHECK_DEADLOCK FALSE
