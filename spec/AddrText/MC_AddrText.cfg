SPECIFICATION MCSpec
CONSTANTS
  FIXED = TRUE
  FIXTXT = TRUE
  MODE = "mc"
  K_EDITS = 1
  MAXLEN = 40
  SEEDSEL = {"empty", "ids", "addr", "sock", "txt"}
  GEN = FALSE
INVARIANTS NoPanic Sound Complete Emit
