SPECIFICATION MCSpec
CONSTANTS
  FIXED = TRUE
  FIXTXT = TRUE
  MODE = "mc"
  K_EDITS = 1
  MAXLEN = 40
  SEEDSEL = {"empty", "ids", "addr", "sock", "txt"}
  TSEL = {"Isd", "Asn", "IsdAsn", "Svc", "Host", "AddrV4", "AddrV6", "AddrSvc", "Addr", "IpAddr", "SockV4", "SockV6", "SockSvc", "Sock", "SockIp", "TxtPayload", "TxtRecord"}
  GEN = FALSE
INVARIANTS NoPanic Sound Complete Emit
