SPECIFICATION Spec
CONSTANTS
  MAXORIG = 2
  ANSWER_ERRORS = FALSE
  VERIFY_CKSUM = TRUE
  UNK_ERR_IS_ERR = TRUE
  ROUTER_VERIFY_CKSUM = TRUE
INVARIANTS NoErrorLoop NoReplyToMalformed EchoFaithful AtMostOneAnswer ChainBounded TotalBounded
PROPERTY Termination
CHECK_DEADLOCK FALSE
