SPECIFICATION Spec
CONSTANTS
  MAXORIG = 2
  ANSWER_ERRORS = FALSE
  GEN = TRUE
  Kinds = {"req", "rep", "treq", "trep", "err", "uerr", "uinfo", "bad", "dgram"}
  VERIFY_CKSUM = TRUE
  UNK_ERR_IS_ERR = TRUE
  ROUTER_VERIFY_CKSUM = TRUE
INVARIANTS NoErrorLoop NoReplyToMalformed EchoFaithful AtMostOneAnswer RouterServeFaithful ChainBounded TotalBounded Emit
PROPERTY Termination
CHECK_DEADLOCK FALSE
