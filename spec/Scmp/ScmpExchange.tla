---------------------------- MODULE ScmpExchange ----------------------------
(* (c) Two end hosts and a router exchanging SCMP messages and datagrams.        *)
(* Every message may be lost, delivered (and answered per the reply decision of  *)
(* Scmp.tla), hit a forwarding problem at the router (which may emit an SCMP     *)
(* error per RouterAnswers) or, when it carries a router alert, be served by the *)
(* router itself (echo / traceroute request -> reply per RouterEcho).            *)
(* Only MAXORIG messages are originated spontaneously;                           *)
(* everything else is caused by a received message.                              *)
(*   NoErrorLoop : no message is ever caused by an SCMP error (any type < 128)   *)
(*   NoReplyToMalformed : no end host answers a malformed SCMP message           *)
(*   ChainBounded / TotalBounded / Termination : every exchange dies out         *)
(* ANSWER_ERRORS = TRUE is the broken variant (errors are answered with errors). *)
EXTENDS Scmp, TLC, Json

CONSTANTS MAXORIG, ANSWER_ERRORS, GEN,
          Kinds          \* message kinds hosts originate: subset of AllKinds

Hosts == {"A", "B"}
AllKinds == {"req", "rep", "treq", "trep", "err", "uerr", "uinfo", "bad", "dgram"}
ASSUME Kinds \subseteq AllKinds
\* abstract kinds -> descriptors of Scmp.tla (one representative type per class)
KType(k) == CASE k = "req" -> 128 [] k = "rep" -> 129 [] k = "treq" -> 130 [] k = "trep" -> 131 [] k = "err" -> 4 [] k = "uerr" -> 100
              [] k = "uinfo" -> 200 [] k = "bad" -> 128 [] k = "dgram" -> 0
KDesc(k) == [t |-> KType(k), complete |-> TRUE, ck |-> (k # "bad"), parsed |-> TRUE, rev |-> TRUE, addr |-> TRUE]
KODesc(k) == [scmp |-> (k # "dgram"), t |-> KType(k), has4 |-> TRUE, parsed |-> TRUE]
IsErrKind(k) == k \in {"err", "uerr"}

VARIABLES net,     \* set of message ids in flight
          log,     \* id -> [k, src, dst, cause, gen, by]   (history of every message ever created)
          orig     \* number of spontaneously originated messages

vars == <<net, log, orig>>

NextId == Cardinality(DOMAIN log) + 1
Other(h) == IF h = "A" THEN "B" ELSE "A"

\* the log after message m met its fate and (optionally) one new message was created
Settle(m, fate) == [log EXCEPT ![m].fate = fate]
WithNew(base, k, src, dst, cause, gen, by) ==
  [i \in DOMAIN base \cup {NextId} |->
     IF i = NextId THEN [k |-> k, src |-> src, dst |-> dst, cause |-> cause, gen |-> gen, by |-> by, fate |-> "inflight"] ELSE base[i]]

Init == net = {} /\ log = <<>> /\ orig = 0

Originate(h, k) == /\ orig < MAXORIG
                   /\ orig' = orig + 1
                   /\ log' = WithNew(log, k, h, Other(h), 0, 0, "host")
                   /\ net' = net \cup {NextId}

Lose(m) == /\ m \in net /\ net' = net \ {m} /\ log' = Settle(m, "lost") /\ UNCHANGED orig

\* delivery to the destination end host: echo handler (+ error handler, which never sends)
HostAnswers(k) == IF ANSWER_ERRORS /\ IsErrKind(k) THEN 1
                  ELSE IF k = "dgram" THEN 0 ELSE EchoHandler(KDesc(k))
Deliver(m) == /\ m \in net
              /\ IF HostAnswers(log[m].k) = 1
                 THEN /\ log' = WithNew(Settle(m, "delivered"), IF IsErrKind(log[m].k) THEN "err" ELSE "rep", log[m].dst, log[m].src, m, log[m].gen + 1, "host")
                      /\ net' = (net \ {m}) \cup {NextId}
                 ELSE /\ net' = net \ {m} /\ log' = Settle(m, "delivered")
              /\ UNCHANGED orig

\* the router cannot forward m (expired hop, interface down, unknown destination ...)
RouterEmits(k) == IF ANSWER_ERRORS /\ IsErrKind(k) THEN 1 ELSE RouterAnswers(KODesc(k))
RouterFail(m) == /\ m \in net
                 /\ IF RouterEmits(log[m].k) = 1
                    THEN /\ log' = WithNew(Settle(m, "failed"), "err", "R", log[m].src, m, log[m].gen + 1, "router")
                         /\ net' = (net \ {m}) \cup {NextId}
                    ELSE /\ net' = net \ {m} /\ log' = Settle(m, "failed")
                 /\ UNCHANGED orig

\* m carries a router alert for the router on its path: the router is the receiver (handle_scmp)
RouterServes(k) == IF k = "dgram" THEN 0 ELSE RouterEcho(KDesc(k))
RouterServe(m) == /\ m \in net /\ log[m].k # "dgram" /\ log[m].by = "host" /\ log[m].cause = 0
                  /\ IF RouterServes(log[m].k) = 1
                     THEN /\ log' = WithNew(Settle(m, "served"), IF KType(log[m].k) = 128 THEN "rep" ELSE "trep", "R", log[m].src, m, log[m].gen + 1, "router")
                          /\ net' = (net \ {m}) \cup {NextId}
                     ELSE /\ net' = net \ {m} /\ log' = Settle(m, "served")
                  /\ UNCHANGED orig

LoseAny == \E m \in net : Lose(m)
RouterServeAny == \E m \in net : RouterServe(m)
DeliverAny == \E m \in net : Deliver(m)
RouterFailAny == \E m \in net : RouterFail(m)
Next == \/ \E h \in Hosts, k \in Kinds : Originate(h, k)
        \/ LoseAny
        \/ DeliverAny
        \/ RouterFailAny
        \/ RouterServeAny

Progress == \E m \in net : Lose(m) \/ Deliver(m) \/ RouterFail(m) \/ RouterServe(m)
Spec == Init /\ [][Next]_vars /\ WF_vars(Progress)

(* ------------------------------- P-layer ------------------------------------ *)
Caused == {i \in DOMAIN log : log[i].cause # 0}
NoErrorLoop == \A i \in Caused : ~IsErrKind(log[log[i].cause].k)
\* (a transit router's error about a malformed packet it cannot forward is not a reply of a receiver)
NoReplyToMalformed == \A i \in Caused : (log[log[i].cause].k = "bad" => (log[i].by = "router" /\ log[log[i].cause].fate = "failed"))
EchoFaithful == \A i \in Caused : (log[i].by = "host" =>
                   /\ log[log[i].cause].k = "req" /\ log[i].k = "rep"
                   /\ log[i].dst = log[log[i].cause].src /\ log[i].src = log[log[i].cause].dst)
\* the router's own service answers requests only, with the matching reply type, to the requester
RouterServeFaithful == \A i \in Caused : ((log[i].by = "router" /\ log[log[i].cause].fate = "served") =>
                   /\ \/ (KType(log[log[i].cause].k) = 128 /\ log[i].k = "rep")
                      \/ (KType(log[log[i].cause].k) = 130 /\ log[i].k = "trep")
                   /\ log[i].dst = log[log[i].cause].src)
AtMostOneAnswer == \A i, j \in Caused : (log[i].cause = log[j].cause => i = j)
\* request -> reply -> router error about the reply is the longest chain
ChainBounded == \A i \in DOMAIN log : log[i].gen <= 2
TotalBounded == Cardinality(DOMAIN log) <= 3 * MAXORIG
\* search bound for the broken variant only (errors answered => unbounded chains)
ChainLimit == \A i \in DOMAIN log : log[i].gen <= 4
Termination == <>[](net = {})
\* generation: every finished exchange (all originated, nothing in flight) as the list of messages with their fates
Emit == (GEN /\ net = {} /\ orig = MAXORIG) => PrintT(<<"REPLAY", ToJson([i \in 1..Cardinality(DOMAIN log) |-> log[i]])>>)
=============================================================================
