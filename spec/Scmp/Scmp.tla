-------------------------------- MODULE Scmp --------------------------------
(* SCMP handling of Anapaya/scion-sdk (property C14).                           *)
(*                                                                              *)
(* P-layer  = what the property says (section "P-layer" below).                 *)
(* I-layer  = transcription of the code:                                        *)
(*   scmp/layout.rs  *Layout::from_offending_packet_length   -> ImplPayloadLen  *)
(*   scmp/layout.rs  ScmpMessageLayout::try_from_slice       -> Parses          *)
(*   scmp_handler/echo.rs   DefaultEchoHandler::handle       -> EchoHandler     *)
(*   scmp_handler/error.rs  ScmpErrorHandler::handle         -> ErrorHandler    *)
(*   pocketscion local/simulator.rs maybe_create_scmp_reply  -> RouterAnswers   *)
(*   pocketscion local/simulator.rs handle_scmp              -> RouterEcho      *)
(* Switches name the places where the pinned code departs from the property:    *)
(*   VERIFY_CKSUM  : receivers verify the SCMP checksum (pinned tree: FALSE)    *)
(*   UNK_ERR_IS_ERR: routers treat unknown types < 128 as errors (pinned: FALSE)*)
(*   ROUTER_VERIFY_CKSUM: the simulated router verifies the checksum of SCMP     *)
(*                   requests addressed to it by a router alert (pinned: FALSE)  *)
(* (all three are TRUE in /repo since the fix: commits recorded in              *)
(*  known_findings.d/C14.json.)                                                  *)
EXTENDS Naturals, Sequences, FiniteSets

CONSTANTS VERIFY_CKSUM, UNK_ERR_IS_ERR, ROUTER_VERIFY_CKSUM

Min2(a, b) == IF a < b THEN a ELSE b
SatSub(a, b) == IF a > b THEN a - b ELSE 0

(* ------------------------------ (a) quoting -------------------------------- *)
MAXERR == 1232
ErrKinds == {"DestUnreach", "PacketTooBig", "ParamProblem", "ExtIfDown", "IntConnDown"}
ScmpType(k) == CASE k = "DestUnreach" -> 1 [] k = "PacketTooBig" -> 2 [] k = "ParamProblem" -> 4
                 [] k = "ExtIfDown" -> 5 [] k = "IntConnDown" -> 6
ScmpHdr(k) == CASE k = "DestUnreach" -> 8 [] k = "PacketTooBig" -> 8 [] k = "ParamProblem" -> 8
                [] k = "ExtIfDown" -> 20 [] k = "IntConnDown" -> 28
\* every SCION header size the 8-bit HdrLen field (4-byte units) can express above the minimum header
MINHDR == 36
MAXHDR == 1020
HdrLens == {MINHDR + 4 * i : i \in 0..((MAXHDR - MINHDR) \div 4)}

\* reference (DESIGN.md 7/C14)
Budget(k, hdrLen) == MAXERR - hdrLen - ScmpHdr(k)
QuoteLen(k, hdrLen, offLen) == Min2(offLen, Budget(k, hdrLen))
Total(k, hdrLen, offLen) == hdrLen + ScmpHdr(k) + QuoteLen(k, hdrLen, offLen)

\* I-layer: from_offending_packet_length (saturating arithmetic as in the code); BROKENQ drops the
\* subtraction of the SCMP header (oracle self-check variant)
ImplPayloadLen(k, hdrLen, offLen, brokenq) ==
  LET maxPayload == SatSub(MAXERR, hdrLen)
      maxOff == IF brokenq THEN maxPayload ELSE SatSub(maxPayload, ScmpHdr(k))
  IN ScmpHdr(k) + Min2(offLen, maxOff)
ImplQuoteLen(k, hdrLen, offLen, brokenq) == ImplPayloadLen(k, hdrLen, offLen, brokenq) - ScmpHdr(k)
ImplTotal(k, hdrLen, offLen, brokenq) == hdrLen + ImplPayloadLen(k, hdrLen, offLen, brokenq)

\* P-layer on one built error packet, given as lengths + facts measured on the bytes
PBounded(total) == total <= MAXERR
IsPrefix(q, s) == Len(q) <= Len(s) /\ \A i \in 1..Len(q) : q[i] = s[i]

(* --------------------------- (b) reply decision ----------------------------- *)
\* message descriptor: t = SCMP type 0..255; complete = at least the fixed part of its type is
\* present (and the datagram is not truncated); ck = checksum verifies; rev = the path of the
\* carrying packet can be reversed (empty, one-hop, standard with pointers in range); addr = both
\* host addresses are of a known type
KnownErr == {1, 2, 4, 5, 6}
IsErrType(t) == t < 128
Fixed(t) == CASE t \in {1, 2, 4} -> 8 [] t = 5 -> 20 [] t = 6 -> 28 [] t \in {128, 129} -> 8
              [] t \in {130, 131} -> 24 [] OTHER -> 4
\* what the SDK's parser needs (ScmpMessageLayout::try_from_slice: the generic 4-byte view first, then the
\* layout of the type; before /repo commit 33798c1 the generic view needed 8 bytes)
ParseFixed(t) == Fixed(t)

Malformed(d) == ~d.complete \/ ~d.ck
Class(d) == IF Malformed(d) THEN "malformed"
            ELSE IF d.t = 128 THEN "echo_req" ELSE IF d.t = 129 THEN "echo_rep"
            ELSE IF d.t = 130 THEN "tr_req" ELSE IF d.t = 131 THEN "tr_rep"
            ELSE IF d.t \in KnownErr THEN "err" ELSE IF IsErrType(d.t) THEN "uerr" ELSE "uinfo"

\* P-layer
PMustAnswerEcho(d) == Class(d) = "echo_req" /\ d.rev /\ d.addr
PMustNotAnswer(d)  == Class(d) \in {"malformed", "err", "uerr"}
PMustNotify(d)     == Class(d) = "err"

\* I-layer, end host (scion-stack).  parsed = the SDK's SCMP view accepts the payload.
\* (the *V operators take the switch as an argument: the tables evaluate the broken variants as oracle self-checks)
EchoHandlerV(d, verify) == IF d.parsed /\ (verify => ~Malformed(d)) /\ d.t = 128 /\ d.rev /\ d.addr THEN 1 ELSE 0
EchoHandler(d)  == EchoHandlerV(d, VERIFY_CKSUM)                                       \* number of replies
ErrorHandler(d) == IF d.parsed /\ d.t \in KnownErr THEN 1 ELSE 0                      \* notifications per receiver

\* I-layer, simulated router (pocketscion): answers a packet it cannot forward/deliver with an SCMP
\* error unless the packet is an SCMP error; o = descriptor of the offending packet
\* (o.scmp = FALSE for UDP and other payloads)
RouterAnswersV(o, unk) == IF o.scmp /\ ~o.parsed THEN 0          \* try_classify fails: simulation error, nothing sent
                          ELSE IF o.scmp /\ o.parsed /\ (o.t \in KnownErr \/ (unk /\ IsErrType(o.t))) THEN 0 ELSE 1
RouterAnswers(o) == RouterAnswersV(o, UNK_ERR_IS_ERR)
\* P-layer for routers: an SCMP error (ANY type below 128) never triggers a message
PRouterMustNotAnswer(o) == o.scmp /\ o.has4 /\ IsErrType(o.t)

\* I-layer, simulated router answering SCMP requests addressed to it by a router alert (handle_scmp):
\* an echo request gets an echo reply, a traceroute request a traceroute reply (same identifier and
\* sequence number, the router's ISD-AS and the alerted interface), both from the router's address to the
\* requester over the reversed path; everything else is an error of the simulation (nothing sent)
RouterEchoV(d, verify) == IF d.parsed /\ (verify => ~Malformed(d)) /\ d.t \in {128, 130} THEN 1 ELSE 0
RouterEcho(d) == RouterEchoV(d, ROUTER_VERIFY_CKSUM)
RouterReplyType(t) == IF t = 128 THEN 129 ELSE IF t = 130 THEN 131 ELSE 0
=============================================================================
