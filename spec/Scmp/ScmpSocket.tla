----------------------------- MODULE ScmpSocket -----------------------------
(* (d) The socket receive path (scion-stack socket.rs                            *)
(* PathUnawareUdpScionSocket::recv_from / recv_from_with_path) as a queue        *)
(* transformer.  Packets arrive on the underlay in some order; the application   *)
(* calls recv_from; the loop body runs synchronously per packet:                 *)
(*   next_header = UDP  -> parse; valid -> return datagram; invalid -> skip      *)
(*   next_header = SCMP -> every handler in order (error handler: notify the     *)
(*                         receivers; echo handler: try_send the reply); skip    *)
(*   anything else      -> skip                                                  *)
(* A packet is a record [id, proto, udp_ok, d] with d a descriptor of Scmp.tla.  *)
(* Properties: ErrorsReachReceivers, DatagramsUnaffected, RepliesOnlyToRequests. *)
(* DROP_AFTER_SCMP is a broken variant (a datagram following an SCMP packet is   *)
(* swallowed) used as oracle self-check.                                         *)
EXTENDS Scmp, TLC

CONSTANTS ECHO,            \* the socket has an echo handler installed
          NRECV,           \* number of registered error receivers
          DROP_AFTER_SCMP

VARIABLES inq,        \* packets waiting in the underlay
          consumed,   \* packets already taken off the underlay (history)
          delivered,  \* datagram ids returned to the application, in order
          notified,   \* per receiver: sequence of error ids reported
          sent,       \* ids of the requests answered (try_send of the reply)
          skipnext    \* broken variant state
svars == <<inq, consumed, delivered, notified, sent, skipnext>>

SInit == /\ inq = <<>> /\ consumed = <<>> /\ delivered = <<>> /\ sent = <<>>
         /\ notified = [r \in 1..NRECV |-> <<>>] /\ skipnext = FALSE

IsDgram(p) == p.proto = "udp" /\ p.udp_ok
IsScmp(p) == p.proto = "scmp"

Arrive(p) == /\ inq' = Append(inq, p)
             /\ UNCHANGED <<consumed, delivered, notified, sent, skipnext>>

\* one iteration of the receive loop (atomic: no await between underlay recv and the handlers)
Step == /\ inq # <<>>
        /\ LET p == Head(inq) IN
           /\ inq' = Tail(inq)
           /\ consumed' = Append(consumed, p)
           /\ IF IsDgram(p)
              THEN /\ delivered' = IF skipnext THEN delivered ELSE Append(delivered, p.id)
                   /\ UNCHANGED <<notified, sent>> /\ skipnext' = FALSE
              ELSE IF IsScmp(p)
              THEN /\ notified' = [r \in 1..NRECV |-> IF ErrorHandler(p.d) = 1 THEN Append(notified[r], p.id) ELSE notified[r]]
                   /\ sent' = IF ECHO /\ EchoHandler(p.d) = 1 THEN Append(sent, p.id) ELSE sent
                   /\ delivered' = delivered /\ skipnext' = DROP_AFTER_SCMP
              ELSE UNCHANGED <<delivered, notified, sent, skipnext>>

(* ------------------------------- P-layer ------------------------------------ *)
IdsOf(s, P(_)) == LET x == SelectSeq(s, P) IN [i \in 1..Len(x) |-> x[i].id]
RECURSIVE Keep(_, _)
Keep(ids, S) == IF ids = <<>> THEN <<>> ELSE IF Head(ids) \in S THEN <<Head(ids)>> \o Keep(Tail(ids), S) ELSE Keep(Tail(ids), S)
ToSet(s) == {s[i] : i \in 1..Len(s)}

MustNotifyP(p) == IsScmp(p) /\ PMustNotify(p.d)
MustAnswerP(p) == IsScmp(p) /\ PMustAnswerEcho(p.d)
MustNotAnswerP(p) == ~IsScmp(p) \/ PMustNotAnswer(p.d)

\* every valid datagram taken off the underlay is handed to the application exactly once, in arrival
\* order, whatever SCMP traffic is interleaved
DatagramsUnaffected == delivered = IdsOf(consumed, IsDgram)
\* every well-formed SCMP error taken off the underlay is reported once to every receiver, in order
ErrorsReachReceivers ==
  LET must == IdsOf(consumed, MustNotifyP) IN \A r \in 1..NRECV : Keep(notified[r], ToSet(must)) = must
\* a reply is sent for every well-formed echo request (when an echo handler is installed), once, and
\* never for an error, a malformed SCMP packet or a non-SCMP packet
RepliesOnlyToRequests ==
  /\ ToSet(sent) \cap ToSet(IdsOf(consumed, MustNotAnswerP)) = {}
  /\ LET must == IdsOf(consumed, MustAnswerP) IN
       IF ECHO THEN Keep(sent, ToSet(must)) = must ELSE sent = <<>>
=============================================================================
