---- MODULE MC_ScmpSocket_TTrace_1790063600 ----
EXTENDS Sequences, TLCExt, Toolbox, Naturals, TLC, MC_ScmpSocket

_expression ==
    LET MC_ScmpSocket_TEExpression == INSTANCE MC_ScmpSocket_TEExpression
    IN MC_ScmpSocket_TEExpression!expression
----

_trace ==
    LET MC_ScmpSocket_TETrace == INSTANCE MC_ScmpSocket_TETrace
    IN MC_ScmpSocket_TETrace!trace
----

_inv ==
    ~(
        TLCGet("level") = Len(_TETrace)
        /\
        consumed = (<<[k |-> "err", id |-> 1, proto |-> "scmp", udp_ok |-> FALSE, d |-> [t |-> 1, complete |-> TRUE, ck |-> TRUE, parsed |-> TRUE, rev |-> TRUE, addr |-> TRUE]], [k |-> "dgram", id |-> 2, proto |-> "udp", udp_ok |-> TRUE, d |-> [t |-> 0, complete |-> TRUE, ck |-> TRUE, parsed |-> TRUE, rev |-> TRUE, addr |-> TRUE]]>>)
        /\
        arrived = (2)
        /\
        notified = (<<<<1>>, <<1>>>>)
        /\
        delivered = (<<>>)
        /\
        inq = (<<>>)
        /\
        sent = (<<>>)
        /\
        skipnext = (FALSE)
    )
----

_init ==
    /\ delivered = _TETrace[1].delivered
    /\ consumed = _TETrace[1].consumed
    /\ inq = _TETrace[1].inq
    /\ arrived = _TETrace[1].arrived
    /\ sent = _TETrace[1].sent
    /\ skipnext = _TETrace[1].skipnext
    /\ notified = _TETrace[1].notified
----

_next ==
    /\ \E i,j \in DOMAIN _TETrace:
        /\ \/ /\ j = i + 1
              /\ i = TLCGet("level")
        /\ delivered  = _TETrace[i].delivered
        /\ delivered' = _TETrace[j].delivered
        /\ consumed  = _TETrace[i].consumed
        /\ consumed' = _TETrace[j].consumed
        /\ inq  = _TETrace[i].inq
        /\ inq' = _TETrace[j].inq
        /\ arrived  = _TETrace[i].arrived
        /\ arrived' = _TETrace[j].arrived
        /\ sent  = _TETrace[i].sent
        /\ sent' = _TETrace[j].sent
        /\ skipnext  = _TETrace[i].skipnext
        /\ skipnext' = _TETrace[j].skipnext
        /\ notified  = _TETrace[i].notified
        /\ notified' = _TETrace[j].notified

\* Uncomment the ASSUME below to write the states of the error trace
\* to the given file in Json format. Note that you can pass any tuple
\* to `JsonSerialize`. For example, a sub-sequence of _TETrace.
    \* ASSUME
    \*     LET J == INSTANCE Json
    \*         IN J!JsonSerialize("MC_ScmpSocket_TTrace_1790063600.json", _TETrace)

=============================================================================

 Note that you can extract this module `MC_ScmpSocket_TEExpression`
  to a dedicated file to reuse `expression` (the module in the 
  dedicated `MC_ScmpSocket_TEExpression.tla` file takes precedence 
  over the module `MC_ScmpSocket_TEExpression` below).

---- MODULE MC_ScmpSocket_TEExpression ----
EXTENDS Sequences, TLCExt, Toolbox, Naturals, TLC, MC_ScmpSocket

expression == 
    [
        \* To hide variables of the `MC_ScmpSocket` spec from the error trace,
        \* remove the variables below.  The trace will be written in the order
        \* of the fields of this record.
        delivered |-> delivered
        ,consumed |-> consumed
        ,inq |-> inq
        ,arrived |-> arrived
        ,sent |-> sent
        ,skipnext |-> skipnext
        ,notified |-> notified
        
        \* Put additional constant-, state-, and action-level expressions here:
        \* ,_stateNumber |-> _TEPosition
        \* ,_deliveredUnchanged |-> delivered = delivered'
        
        \* Format the `delivered` variable as Json value.
        \* ,_deliveredJson |->
        \*     LET J == INSTANCE Json
        \*     IN J!ToJson(delivered)
        
        \* Lastly, you may build expressions over arbitrary sets of states by
        \* leveraging the _TETrace operator.  For example, this is how to
        \* count the number of times a spec variable changed up to the current
        \* state in the trace.
        \* ,_deliveredModCount |->
        \*     LET F[s \in DOMAIN _TETrace] ==
        \*         IF s = 1 THEN 0
        \*         ELSE IF _TETrace[s].delivered # _TETrace[s-1].delivered
        \*             THEN 1 + F[s-1] ELSE F[s-1]
        \*     IN F[_TEPosition - 1]
    ]

=============================================================================



Parsing and semantic processing can take forever if the trace below is long.
 In this case, it is advised to uncomment the module below to deserialize the
 trace from a generated binary file.

\*
\*---- MODULE MC_ScmpSocket_TETrace ----
\*EXTENDS IOUtils, TLC, MC_ScmpSocket
\*
\*trace == IODeserialize("MC_ScmpSocket_TTrace_1790063600.bin", TRUE)
\*
\*=============================================================================
\*

---- MODULE MC_ScmpSocket_TETrace ----
EXTENDS TLC, MC_ScmpSocket

trace == 
    <<
    ([consumed |-> <<>>,arrived |-> 0,notified |-> <<<<>>, <<>>>>,delivered |-> <<>>,inq |-> <<>>,sent |-> <<>>,skipnext |-> FALSE]),
    ([consumed |-> <<>>,arrived |-> 1,notified |-> <<<<>>, <<>>>>,delivered |-> <<>>,inq |-> <<[k |-> "err", id |-> 1, proto |-> "scmp", udp_ok |-> FALSE, d |-> [t |-> 1, complete |-> TRUE, ck |-> TRUE, parsed |-> TRUE, rev |-> TRUE, addr |-> TRUE]]>>,sent |-> <<>>,skipnext |-> FALSE]),
    ([consumed |-> <<>>,arrived |-> 2,notified |-> <<<<>>, <<>>>>,delivered |-> <<>>,inq |-> <<[k |-> "err", id |-> 1, proto |-> "scmp", udp_ok |-> FALSE, d |-> [t |-> 1, complete |-> TRUE, ck |-> TRUE, parsed |-> TRUE, rev |-> TRUE, addr |-> TRUE]], [k |-> "dgram", id |-> 2, proto |-> "udp", udp_ok |-> TRUE, d |-> [t |-> 0, complete |-> TRUE, ck |-> TRUE, parsed |-> TRUE, rev |-> TRUE, addr |-> TRUE]]>>,sent |-> <<>>,skipnext |-> FALSE]),
    ([consumed |-> <<[k |-> "err", id |-> 1, proto |-> "scmp", udp_ok |-> FALSE, d |-> [t |-> 1, complete |-> TRUE, ck |-> TRUE, parsed |-> TRUE, rev |-> TRUE, addr |-> TRUE]]>>,arrived |-> 2,notified |-> <<<<1>>, <<1>>>>,delivered |-> <<>>,inq |-> <<[k |-> "dgram", id |-> 2, proto |-> "udp", udp_ok |-> TRUE, d |-> [t |-> 0, complete |-> TRUE, ck |-> TRUE, parsed |-> TRUE, rev |-> TRUE, addr |-> TRUE]]>>,sent |-> <<>>,skipnext |-> TRUE]),
    ([consumed |-> <<[k |-> "err", id |-> 1, proto |-> "scmp", udp_ok |-> FALSE, d |-> [t |-> 1, complete |-> TRUE, ck |-> TRUE, parsed |-> TRUE, rev |-> TRUE, addr |-> TRUE]], [k |-> "dgram", id |-> 2, proto |-> "udp", udp_ok |-> TRUE, d |-> [t |-> 0, complete |-> TRUE, ck |-> TRUE, parsed |-> TRUE, rev |-> TRUE, addr |-> TRUE]]>>,arrived |-> 2,notified |-> <<<<1>>, <<1>>>>,delivered |-> <<>>,inq |-> <<>>,sent |-> <<>>,skipnext |-> FALSE])
    >>
----


=============================================================================

---- CONFIG MC_ScmpSocket_TTrace_1790063600 ----
CONSTANTS
    MAXIN = 3
    ECHO = TRUE
    NRECV = 2
    DROP_AFTER_SCMP = TRUE
    GEN = FALSE
    VERIFY_CKSUM = TRUE
    UNK_ERR_IS_ERR = TRUE

INVARIANT
    _inv

CHECK_DEADLOCK
    \* CHECK_DEADLOCK off because of PROPERTY or INVARIANT above.
    FALSE

INIT
    _init

NEXT
    _next

CONSTANT
    _TETrace <- _trace

ALIAS
    _expression
=============================================================================
\* Generated on Tue Sep 22 07:53:40 UTC 2026