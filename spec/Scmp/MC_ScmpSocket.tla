---------------------------- MODULE MC_ScmpSocket ----------------------------
(* Exhaustive: every arrival sequence of at most MAXIN packets over the packet   *)
(* kinds below, every interleaving of arrivals with receive-loop iterations.     *)
(* GEN = TRUE prints one behaviour per complete input sequence for replay on the *)
(* real socket.                                                                  *)
EXTENDS ScmpSocket, Json
CONSTANTS MAXIN, GEN
VARIABLE arrived
vars == <<svars, arrived>>

PKinds == {"dgram", "bad_udp", "err", "bad_err", "uerr", "req", "bad_req", "rep", "treq", "uinfo", "other"}
SType(k) == CASE k \in {"err", "bad_err"} -> 1 [] k = "uerr" -> 100 [] k \in {"req", "bad_req"} -> 128
              [] k = "rep" -> 129 [] k = "treq" -> 130 [] k = "uinfo" -> 200 [] OTHER -> 0
\* bad_* = complete message with a wrong checksum
Pkt(k, id) == [id |-> id, k |-> k,
               proto |-> IF k \in {"dgram", "bad_udp"} THEN "udp" ELSE IF k = "other" THEN "other" ELSE "scmp",
               udp_ok |-> (k = "dgram"),
               d |-> [t |-> SType(k), complete |-> TRUE, ck |-> (k \notin {"bad_err", "bad_req"}), parsed |-> TRUE, rev |-> TRUE, addr |-> TRUE]]

Init == SInit /\ arrived = 0
Next == \/ /\ arrived < MAXIN /\ arrived' = arrived + 1 /\ \E k \in PKinds : Arrive(Pkt(k, arrived + 1))
        \/ Step /\ UNCHANGED arrived
Spec == Init /\ [][Next]_vars

Done == arrived = MAXIN /\ inq = <<>>
Kinds(s) == [i \in 1..Len(s) |-> s[i].k]
Emit == (GEN /\ Done) => PrintT(<<"REPLAY", ToJson([input |-> Kinds(consumed), delivered |-> delivered,
                                                  notified |-> IF NRECV > 0 THEN notified[1] ELSE <<>>, sent |-> sent])>>)
=============================================================================
