---------------------------- MODULE MC_ScmpTables ----------------------------
(* Decision tables of Scmp as one state space of one-step behaviours (Init-only); *)
(* every cell carries its table name in `tab`; TABLES selects the tables of a run: *)
(*   "quote": every (error kind, SCION header size 36..1020, offender             *)
(*           length in {0, 1, budget-1, budget, budget+1, 9216})                 *)
(*   "quote_dense": ParameterProblem x the three header sizes of the SNAP         *)
(*           gateway (36, 48, 60) x EVERY offender length 0..9216                *)
(*   "reply": every received SCMP message descriptor                             *)
(*           (type 0..255) x (bytes present) x (truncated datagram, checksum)    *)
(*           x (path reversible) x (addresses decodable)                         *)
(*   "router": every offending packet descriptor at a simulated router (also as   *)
(*           a request to the router's own echo / traceroute service)            *)
(* Invariants = P-layer evaluated on the I-layer's answer.  GEN = TRUE prints    *)
(* each cell with the I-layer's expectation (replayed on the real code).         *)
(* The ASSUMEs are the oracle self-checks: each broken variant of the I-layer    *)
(* violates its P-invariant on at least one cell.                                *)
EXTENDS Scmp, Json, TLC

CONSTANTS TABLES, GEN

VARIABLE cell

OffLens(k, h) == {0, 1, Budget(k, h) - 1, Budget(k, h), Budget(k, h) + 1, 9216}
QuoteCells == UNION {{[tab |-> "quote", kind |-> k, hdr |-> h, off |-> o] : o \in OffLens(k, h)} : k \in ErrKinds, h \in HdrLens}
DenseCells == {[tab |-> "quote_dense", kind |-> "ParamProblem", hdr |-> h, off |-> o] : h \in {36, 48, 60}, o \in 0..9216}

Haves == {0, 3, 4, 7, 8, 9, 12, 19, 20, 23, 24, 27, 28, 40, 200, 1300}
\* (trunc, ck): a truncated datagram never verifies
TC == {<<FALSE, TRUE>>, <<FALSE, FALSE>>, <<TRUE, FALSE>>}
ReplyCells == {[tab |-> "reply", t |-> t, have |-> n, trunc |-> tc[1], ck |-> tc[2], rev |-> r, addr |-> a] :
                 t \in 0..255, n \in Haves, tc \in TC, r \in BOOLEAN, a \in BOOLEAN}
Desc(c) == [t |-> c.t, complete |-> (~c.trunc /\ c.have >= Fixed(c.t)), ck |-> c.ck,
            parsed |-> c.have >= ParseFixed(c.t), rev |-> c.rev, addr |-> c.addr]

\* offending packets at a router: non-SCMP, or SCMP with `have` payload bytes of type t
RouterCells == {[tab |-> "router", scmp |-> FALSE, t |-> 0, have |-> 0, ck |-> TRUE]} \cup
               {[tab |-> "router", scmp |-> TRUE, t |-> t, have |-> n, ck |-> k] : t \in 0..255, n \in {0, 3, 4, 7, 8, 24, 28}, k \in BOOLEAN}
ODesc(c) == [scmp |-> c.scmp, t |-> c.t, has4 |-> c.have >= 4, parsed |-> c.have >= ParseFixed(c.t)]
\* the same packet as a message descriptor for the router's own echo / traceroute service
RDesc(c) == [t |-> c.t, complete |-> c.have >= Fixed(c.t), ck |-> (c.ck /\ c.have >= 4), parsed |-> c.have >= ParseFixed(c.t), rev |-> TRUE, addr |-> TRUE]

Cells == (IF "quote" \in TABLES THEN QuoteCells ELSE {}) \cup (IF "quote_dense" \in TABLES THEN DenseCells ELSE {})
         \cup (IF "reply" \in TABLES THEN ReplyCells ELSE {}) \cup (IF "router" \in TABLES THEN RouterCells ELSE {})

Init == cell \in Cells
Next == UNCHANGED cell
Spec == Init /\ [][Next]_cell

IsQuote == cell.tab \in {"quote", "quote_dense"}
IsReply == cell.tab = "reply"
IsRouter == cell.tab = "router"

(* ------------------------------ invariants --------------------------------- *)
\* (a) P: the I-layer's packet never exceeds 1232 bytes and its quote is a prefix (by length) of the offender
QuoteBounded == IsQuote => PBounded(ImplTotal(cell.kind, cell.hdr, cell.off, FALSE))
QuoteIsPrefixLen == IsQuote => ImplQuoteLen(cell.kind, cell.hdr, cell.off, FALSE) <= cell.off
\* conformance of the transcription with the closed form of DESIGN.md (maximal quote)
QuoteMaximal == IsQuote =>
                  /\ ImplQuoteLen(cell.kind, cell.hdr, cell.off, FALSE) = QuoteLen(cell.kind, cell.hdr, cell.off)
                  /\ ImplTotal(cell.kind, cell.hdr, cell.off, FALSE) = Total(cell.kind, cell.hdr, cell.off)
                  /\ Budget(cell.kind, cell.hdr) >= 184      \* the saturating subtractions never saturate

\* (b) P on the end-host handlers
EchoAnswered == IsReply => (PMustAnswerEcho(Desc(cell)) => EchoHandler(Desc(cell)) = 1)
NoReplyToErrorOrMalformed == IsReply => (PMustNotAnswer(Desc(cell)) => EchoHandler(Desc(cell)) = 0)
ErrorsNotified == IsReply => (PMustNotify(Desc(cell)) => ErrorHandler(Desc(cell)) = 1)
AtMostOneReply == IsReply => EchoHandler(Desc(cell)) <= 1

\* (b') P on the simulated router
RouterNeverAnswersError == IsRouter => (PRouterMustNotAnswer(ODesc(cell)) => RouterAnswers(ODesc(cell)) = 0)
RouterEchoAnswered == (IsRouter /\ cell.scmp) => (Class(RDesc(cell)) = "echo_req" => RouterEcho(RDesc(cell)) = 1)
RouterEchoNoReplyToErrorOrMalformed == (IsRouter /\ cell.scmp) => (PMustNotAnswer(RDesc(cell)) => RouterEcho(RDesc(cell)) = 0)

(* ------------------------- oracle self-checks ------------------------------- *)
\* budget that forgets the SCMP header
ASSUME SelfCheckQuote == \E c \in QuoteCells : ~PBounded(ImplTotal(c.kind, c.hdr, c.off, TRUE))
\* receivers that do not verify the checksum
ASSUME SelfCheckReply == \E c \in ReplyCells : PMustNotAnswer(Desc(c)) /\ EchoHandlerV(Desc(c), FALSE) = 1
\* routers that know only the five listed error types
ASSUME SelfCheckRouter == \E c \in RouterCells : PRouterMustNotAnswer(ODesc(c)) /\ RouterAnswersV(ODesc(c), FALSE) = 1
ASSUME SelfCheckRouterEcho == \E c \in RouterCells : c.scmp /\ PMustNotAnswer(RDesc(c)) /\ RouterEchoV(RDesc(c), FALSE) = 1

(* ------------------------------ generation --------------------------------- *)
Out == IF IsQuote THEN
         [tab |-> cell.tab, kind |-> cell.kind, t |-> ScmpType(cell.kind), hdr |-> cell.hdr, off |-> cell.off,
          scmphdr |-> ScmpHdr(cell.kind),
          quote |-> ImplQuoteLen(cell.kind, cell.hdr, cell.off, FALSE),
          total |-> ImplTotal(cell.kind, cell.hdr, cell.off, FALSE)]
       ELSE IF IsReply THEN
         [tab |-> cell.tab, t |-> cell.t, have |-> cell.have, trunc |-> cell.trunc, ck |-> cell.ck, rev |-> cell.rev, addr |-> cell.addr,
          class |-> Class(Desc(cell)),
          replies |-> EchoHandler(Desc(cell)), notified |-> ErrorHandler(Desc(cell)),
          must_answer |-> PMustAnswerEcho(Desc(cell)), must_not_answer |-> PMustNotAnswer(Desc(cell)),
          must_notify |-> PMustNotify(Desc(cell))]
       ELSE
         [tab |-> cell.tab, scmp |-> cell.scmp, t |-> cell.t, have |-> cell.have, ck |-> cell.ck,
          answers |-> RouterAnswers(ODesc(cell)), must_not_answer |-> PRouterMustNotAnswer(ODesc(cell)),
          echo_answers |-> IF cell.scmp THEN RouterEcho(RDesc(cell)) ELSE 0,
          reply_type |-> IF cell.scmp /\ RouterEcho(RDesc(cell)) = 1 THEN RouterReplyType(cell.t) ELSE 0,
          echo_must_answer |-> (cell.scmp /\ Class(RDesc(cell)) = "echo_req"),
          echo_must_not_answer |-> (cell.scmp /\ PMustNotAnswer(RDesc(cell)))]
Emit == GEN => PrintT(<<"CELL", ToJson(Out)>>)
=============================================================================
