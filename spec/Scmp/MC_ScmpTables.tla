---------------------------- MODULE MC_ScmpTables ----------------------------
(* Decision tables of Scmp as state spaces of one-step behaviours (Init-only):  *)
(*   TABLE = "quote": every (error kind, SCION header size 36..1020, offender     *)
(*           length in {0, 1, budget-1, budget, budget+1, 9216})                 *)
(*   TABLE = "quote_dense": ParameterProblem x the three header sizes of the SNAP *)
(*           gateway (36, 48, 60) x EVERY offender length 0..9216                *)
(*   TABLE = "reply": every received SCMP message descriptor                     *)
(*           (type 0..255) x (bytes present) x (truncated datagram, checksum)    *)
(*           x (path reversible) x (addresses decodable)                         *)
(*   TABLE = "router": every offending packet descriptor at a simulated router   *)
(* Invariants = P-layer evaluated on the I-layer's answer.  GEN = TRUE prints    *)
(* each cell with the I-layer's expectation (replayed on the real code).         *)
EXTENDS Scmp, Json, TLC

CONSTANTS TABLE, GEN, BROKENQ

VARIABLE cell

OffLens(k, h) == {0, 1, Budget(k, h) - 1, Budget(k, h), Budget(k, h) + 1, 9216}
QuoteCells == UNION {{[kind |-> k, hdr |-> h, off |-> o] : o \in OffLens(k, h)} : k \in ErrKinds, h \in HdrLens}

DenseCells == {[kind |-> "ParamProblem", hdr |-> h, off |-> o] : h \in {36, 48, 60}, o \in 0..9216}
IsQuote == TABLE \in {"quote", "quote_dense"}

Haves == {0, 3, 4, 7, 8, 9, 12, 19, 20, 23, 24, 27, 28, 40, 200, 1300}
\* (trunc, ck): a truncated datagram never verifies
TC == {<<FALSE, TRUE>>, <<FALSE, FALSE>>, <<TRUE, FALSE>>}
ReplyCells == {[t |-> t, have |-> n, trunc |-> tc[1], ck |-> tc[2], rev |-> r, addr |-> a] :
                 t \in 0..255, n \in Haves, tc \in TC, r \in BOOLEAN, a \in BOOLEAN}
Desc(c) == [t |-> c.t, complete |-> (~c.trunc /\ c.have >= Fixed(c.t)), ck |-> c.ck,
            parsed |-> c.have >= ParseFixed(c.t), rev |-> c.rev, addr |-> c.addr]

\* offending packets at a router: non-SCMP, or SCMP with `have` payload bytes of type t
RouterCells == {[scmp |-> FALSE, t |-> 0, have |-> 0, ck |-> TRUE]} \cup
               {[scmp |-> TRUE, t |-> t, have |-> n, ck |-> k] : t \in 0..255, n \in {0, 3, 4, 7, 8, 24, 28}, k \in BOOLEAN}
ODesc(c) == [scmp |-> c.scmp, t |-> c.t, has4 |-> c.have >= 4, parsed |-> c.have >= ParseFixed(c.t)]
\* the same packet as a message descriptor for the router's own echo service
RDesc(c) == [t |-> c.t, complete |-> c.have >= Fixed(c.t), ck |-> (c.ck /\ c.have >= 4), parsed |-> c.have >= ParseFixed(c.t), rev |-> TRUE, addr |-> TRUE]

Cells == IF TABLE = "quote" THEN QuoteCells ELSE IF TABLE = "quote_dense" THEN DenseCells
         ELSE IF TABLE = "reply" THEN ReplyCells ELSE RouterCells

Init == cell \in Cells
Next == UNCHANGED cell
Spec == Init /\ [][Next]_cell

(* ------------------------------ invariants --------------------------------- *)
\* (a) P: the I-layer's packet never exceeds 1232 bytes and its quote is a prefix (by length) of the offender
QuoteBounded == IsQuote => PBounded(ImplTotal(cell.kind, cell.hdr, cell.off, BROKENQ))
QuoteIsPrefixLen == IsQuote => ImplQuoteLen(cell.kind, cell.hdr, cell.off, BROKENQ) <= cell.off
\* conformance of the transcription with the closed form of DESIGN.md (maximal quote)
QuoteMaximal == (IsQuote /\ ~BROKENQ) =>
                  /\ ImplQuoteLen(cell.kind, cell.hdr, cell.off, FALSE) = QuoteLen(cell.kind, cell.hdr, cell.off)
                  /\ ImplTotal(cell.kind, cell.hdr, cell.off, FALSE) = Total(cell.kind, cell.hdr, cell.off)
                  /\ Budget(cell.kind, cell.hdr) >= 184      \* the saturating subtractions never saturate

\* (b) P on the end-host handlers
EchoAnswered == TABLE = "reply" => (PMustAnswerEcho(Desc(cell)) => EchoHandler(Desc(cell)) = 1)
NoReplyToErrorOrMalformed == TABLE = "reply" => (PMustNotAnswer(Desc(cell)) => EchoHandler(Desc(cell)) = 0)
ErrorsNotified == TABLE = "reply" => (PMustNotify(Desc(cell)) => ErrorHandler(Desc(cell)) = 1)
AtMostOneReply == TABLE = "reply" => EchoHandler(Desc(cell)) <= 1

\* (b') P on the simulated router
RouterNeverAnswersError == TABLE = "router" => (PRouterMustNotAnswer(ODesc(cell)) => RouterAnswers(ODesc(cell)) = 0)
RouterEchoAnswered == (TABLE = "router" /\ cell.scmp) => (Class(RDesc(cell)) = "echo_req" => RouterEcho(RDesc(cell)) = 1)
RouterEchoNoReplyToErrorOrMalformed == (TABLE = "router" /\ cell.scmp) => (PMustNotAnswer(RDesc(cell)) => RouterEcho(RDesc(cell)) = 0)

(* ------------------------------ generation --------------------------------- *)
Out == IF IsQuote THEN
         [kind |-> cell.kind, t |-> ScmpType(cell.kind), hdr |-> cell.hdr, off |-> cell.off,
          scmphdr |-> ScmpHdr(cell.kind),
          quote |-> ImplQuoteLen(cell.kind, cell.hdr, cell.off, BROKENQ),
          total |-> ImplTotal(cell.kind, cell.hdr, cell.off, BROKENQ)]
       ELSE IF TABLE = "reply" THEN
         [t |-> cell.t, have |-> cell.have, trunc |-> cell.trunc, ck |-> cell.ck, rev |-> cell.rev, addr |-> cell.addr,
          class |-> Class(Desc(cell)),
          replies |-> EchoHandler(Desc(cell)), notified |-> ErrorHandler(Desc(cell)),
          must_answer |-> PMustAnswerEcho(Desc(cell)), must_not_answer |-> PMustNotAnswer(Desc(cell)),
          must_notify |-> PMustNotify(Desc(cell))]
       ELSE
         [scmp |-> cell.scmp, t |-> cell.t, have |-> cell.have, ck |-> cell.ck,
          answers |-> RouterAnswers(ODesc(cell)), must_not_answer |-> PRouterMustNotAnswer(ODesc(cell)),
          echo_answers |-> IF cell.scmp THEN RouterEcho(RDesc(cell)) ELSE 0,
          echo_must_answer |-> (cell.scmp /\ Class(RDesc(cell)) = "echo_req"),
          echo_must_not_answer |-> (cell.scmp /\ PMustNotAnswer(RDesc(cell)))]
Emit == GEN => PrintT(<<"CELL", ToJson(Out)>>)
=============================================================================
