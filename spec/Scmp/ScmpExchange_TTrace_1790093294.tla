---- MODULE ScmpExchange_TTrace_1790093294 ----
EXTENDS Sequences, TLCExt, ScmpExchange, Toolbox, Naturals, TLC

_expression ==
    LET ScmpExchange_TEExpression == INSTANCE ScmpExchange_TEExpression
    IN ScmpExchange_TEExpression!expression
----

_trace ==
    LET ScmpExchange_TETrace == INSTANCE ScmpExchange_TETrace
    IN ScmpExchange_TETrace!trace
----

_inv ==
    ~(
        TLCGet("level") = Len(_TETrace)
        /\
        log = (<<[k |-> "bad", fate |-> "served", src |-> "A", dst |-> "B", cause |-> 0, gen |-> 0, by |-> "host"], [k |-> "rep", fate |-> "inflight", src |-> "R", dst |-> "A", cause |-> 1, gen |-> 1, by |-> "router"]>>)
        /\
        orig = (1)
        /\
        net = ({2})
    )
----

_init ==
    /\ log = _TETrace[1].log
    /\ net = _TETrace[1].net
    /\ orig = _TETrace[1].orig
----

_next ==
    /\ \E i,j \in DOMAIN _TETrace:
        /\ \/ /\ j = i + 1
              /\ i = TLCGet("level")
        /\ log  = _TETrace[i].log
        /\ log' = _TETrace[j].log
        /\ net  = _TETrace[i].net
        /\ net' = _TETrace[j].net
        /\ orig  = _TETrace[i].orig
        /\ orig' = _TETrace[j].orig

\* Uncomment the ASSUME below to write the states of the error trace
\* to the given file in Json format. Note that you can pass any tuple
\* to `JsonSerialize`. For example, a sub-sequence of _TETrace.
    \* ASSUME
    \*     LET J == INSTANCE Json
    \*         IN J!JsonSerialize("ScmpExchange_TTrace_1790093294.json", _TETrace)

=============================================================================

 Note that you can extract this module `ScmpExchange_TEExpression`
  to a dedicated file to reuse `expression` (the module in the 
  dedicated `ScmpExchange_TEExpression.tla` file takes precedence 
  over the module `ScmpExchange_TEExpression` below).

---- MODULE ScmpExchange_TEExpression ----
EXTENDS Sequences, TLCExt, ScmpExchange, Toolbox, Naturals, TLC

expression == 
    [
        \* To hide variables of the `ScmpExchange` spec from the error trace,
        \* remove the variables below.  The trace will be written in the order
        \* of the fields of this record.
        log |-> log
        ,net |-> net
        ,orig |-> orig
        
        \* Put additional constant-, state-, and action-level expressions here:
        \* ,_stateNumber |-> _TEPosition
        \* ,_logUnchanged |-> log = log'
        
        \* Format the `log` variable as Json value.
        \* ,_logJson |->
        \*     LET J == INSTANCE Json
        \*     IN J!ToJson(log)
        
        \* Lastly, you may build expressions over arbitrary sets of states by
        \* leveraging the _TETrace operator.  For example, this is how to
        \* count the number of times a spec variable changed up to the current
        \* state in the trace.
        \* ,_logModCount |->
        \*     LET F[s \in DOMAIN _TETrace] ==
        \*         IF s = 1 THEN 0
        \*         ELSE IF _TETrace[s].log # _TETrace[s-1].log
        \*             THEN 1 + F[s-1] ELSE F[s-1]
        \*     IN F[_TEPosition - 1]
    ]

=============================================================================



Parsing and semantic processing can take forever if the trace below is long.
 In this case, it is advised to uncomment the module below to deserialize the
 trace from a generated binary file.

\*
\*---- MODULE ScmpExchange_TETrace ----
\*EXTENDS IOUtils, ScmpExchange, TLC
\*
\*trace == IODeserialize("ScmpExchange_TTrace_1790093294.bin", TRUE)
\*
\*=============================================================================
\*

---- MODULE ScmpExchange_TETrace ----
EXTENDS ScmpExchange, TLC

trace == 
    <<
    ([log |-> <<>>,orig |-> 0,net |-> {}]),
    ([log |-> <<[k |-> "bad", fate |-> "inflight", src |-> "A", dst |-> "B", cause |-> 0, gen |-> 0, by |-> "host"]>>,orig |-> 1,net |-> {1}]),
    ([log |-> <<[k |-> "bad", fate |-> "served", src |-> "A", dst |-> "B", cause |-> 0, gen |-> 0, by |-> "host"], [k |-> "rep", fate |-> "inflight", src |-> "R", dst |-> "A", cause |-> 1, gen |-> 1, by |-> "router"]>>,orig |-> 1,net |-> {2}])
    >>
----


=============================================================================

---- CONFIG ScmpExchange_TTrace_1790093294 ----
CONSTANTS
    MAXORIG = 2
    ANSWER_ERRORS = FALSE
    GEN = FALSE
    Kinds = { "req" , "rep" , "treq" , "trep" , "err" , "uerr" , "uinfo" , "bad" , "dgram" }
    VERIFY_CKSUM = TRUE
    UNK_ERR_IS_ERR = TRUE
    ROUTER_VERIFY_CKSUM = FALSE

INVARIANT
    _inv

CHECK_DEADLOCK
    \* CHECK_DEADLOCK off because of PROPERTY or INVARIANT above.
    FALSE

INIT
    _init

NEXT
    _next

CONSTANT
    _TETrace <- _trace

ALIAS
    _expression
=============================================================================
\* Generated on Tue Sep 22 16:08:31 UTC 2026