SPECIFICATION TSpec
CONSTANTS
  ECHO <- TraceEcho
  NRECV <- TraceNRecv
  DROP_AFTER_SCMP = FALSE
  VERIFY_CKSUM = TRUE
  UNK_ERR_IS_ERR = TRUE
  ROUTER_VERIFY_CKSUM = TRUE
INVARIANTS PQuoteBounded PQuotePrefix PQuoteChecksum PEchoAnswered PNoReplyToErrorOrMalformed PErrorsNotified PRouterNeverAnswersError DatagramsUnaffected ErrorsReachReceivers RepliesOnlyToRequests ConformsQuote ConformsHandle ConformsRouter ConformsSocket
POSTCONDITION TraceAccepted
CHECK_DEADLOCK FALSE
