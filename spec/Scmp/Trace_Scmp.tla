----------------------------- MODULE Trace_Scmp -----------------------------
(* Trace validation for C14: recorded executions of the real code.  The trace    *)
(* drives OBSERVATION variables only (what the real code did); the P-layer       *)
(* invariants are evaluated by TLC on those observations, and the Conforms*      *)
(* invariants compare them with the I-layer of Scmp.tla / ScmpSocket.tla.        *)
(* Events (ndjson, file named by env TRACE):                                     *)
(*  {"ev":"meta","echo":bool,"nrecv":n}                              first line  *)
(*  {"ev":"quote","ctor","kind","hdr","off","total","quote","prefix","ck"}       *)
(*        an error packet built by constructor ctor for an offender of `off`     *)
(*        bytes under a SCION header of `hdr` bytes; measured on the real bytes  *)
(*  {"ev":"handle","site":"echo"|"error","d":{t,complete,ck,parsed,rev,addr},    *)
(*        "replies":n,"faithful":bool,"notified":n}                              *)
(*  {"ev":"router","o":{scmp,t,has4,parsed},"answers":n}                         *)
(*  {"ev":"reset"}                                    fresh socket               *)
(*  {"ev":"arrive","id","proto","udp_ok","d"}         packet put on the underlay *)
(*  {"ev":"step","id","deliver":bool,"notified":[n per receiver],"sent":bool}    *)
(*        one packet taken off the underlay by recv_from and what was observed   *)
EXTENDS ScmpSocket, Json, IOUtils

Rec == ndJsonDeserialize(IOEnv.TRACE)
TraceEcho == Rec[1].echo
TraceNRecv == Rec[1].nrecv

VARIABLES l, last
tvars == <<svars, l, last>>

NoEv == [ev |-> "none"]
TInit == SInit /\ l = 2 /\ last = NoEv

Cur == Rec[l]
Adv == l' = l + 1 /\ last' = Cur

TStateless == /\ l <= Len(Rec) /\ Cur.ev \in {"quote", "handle", "router"}
              /\ Adv /\ UNCHANGED svars

TReset == /\ l <= Len(Rec) /\ Cur.ev = "reset"
          /\ inq' = <<>> /\ consumed' = <<>> /\ delivered' = <<>> /\ sent' = <<>>
          /\ notified' = [r \in 1..NRECV |-> <<>>] /\ skipnext' = FALSE
          /\ Adv

TArrive == /\ l <= Len(Rec) /\ Cur.ev = "arrive"
           /\ Arrive([id |-> Cur.id, proto |-> Cur.proto, udp_ok |-> Cur.udp_ok, d |-> Cur.d])
           /\ Adv

\* observation-driven: the packet taken is the head of the underlay queue (FIFO underlay), the
\* effects are the OBSERVED ones
TStep == /\ l <= Len(Rec) /\ Cur.ev = "step"
         /\ inq # <<>> /\ Head(inq).id = Cur.id
         /\ inq' = Tail(inq)
         /\ consumed' = Append(consumed, Head(inq))
         /\ delivered' = IF Cur.deliver THEN Append(delivered, Cur.id) ELSE delivered
         /\ notified' = [r \in 1..NRECV |-> IF Cur.notified[r] = 0 THEN notified[r]
                                            ELSE notified[r] \o [i \in 1..Cur.notified[r] |-> Cur.id]]
         /\ sent' = IF Cur.sent THEN Append(sent, Cur.id) ELSE sent
         /\ UNCHANGED skipnext
         /\ Adv

TNext == TStateless \/ TReset \/ TArrive \/ TStep
TSpec == TInit /\ [][TNext]_tvars

(* ------------------- P-layer on the observations --------------------------- *)
\* quoting (a)
PQuoteBounded == last.ev = "quote" => PBounded(last.total)
PQuotePrefix  == last.ev = "quote" => last.prefix
PQuoteChecksum == last.ev = "quote" => last.ck
\* reply decision (b)
IsEchoEv == last.ev = "handle" /\ last.site = "echo"
PEchoAnswered == (IsEchoEv /\ PMustAnswerEcho(last.d)) => (last.replies = 1 /\ last.faithful)
PNoReplyToErrorOrMalformed == (last.ev = "handle" /\ PMustNotAnswer(last.d)) => last.replies = 0
PErrorsNotified == (last.ev = "handle" /\ last.site = "error" /\ PMustNotify(last.d)) => last.notified = 1
PRouterNeverAnswersError == (last.ev = "router" /\ PRouterMustNotAnswer(last.o)) => last.answers = 0
\* socket (d): DatagramsUnaffected, ErrorsReachReceivers, RepliesOnlyToRequests of ScmpSocket
\* are evaluated on the observation variables

(* ------------------- conformance with the I-layer (drift) ------------------ *)
ConformsQuote == (last.ev = "quote" /\ last.kind \in ErrKinds) =>
                   /\ last.quote = ImplQuoteLen(last.kind, last.hdr, last.off, FALSE)
                   /\ last.total = ImplTotal(last.kind, last.hdr, last.off, FALSE)
ConformsHandle == last.ev = "handle" =>
                   IF last.site = "echo" THEN last.replies = EchoHandler(last.d)
                   ELSE last.replies = 0 /\ last.notified = ErrorHandler(last.d)
ConformsRouter == last.ev = "router" => last.answers = RouterAnswers(last.o)
ConformsSocket ==
  /\ \A r \in 1..NRECV : notified[r] = IdsOf(consumed, LAMBDA p : IsScmp(p) /\ ErrorHandler(p.d) = 1)
  /\ sent = IF ECHO THEN IdsOf(consumed, LAMBDA p : IsScmp(p) /\ EchoHandler(p.d) = 1) ELSE <<>>

TraceAccepted ==
  LET d == TLCGet("stats").diameter IN
  IF d = Len(Rec) THEN TRUE
  ELSE /\ PrintT(<<"TRACE-REJECTED", "matched", d - 1, "of", Len(Rec) - 1, "first unmatched line", d + 1>>)
       /\ (d + 1 <= Len(Rec) => PrintT(<<"UNMATCHED", ToJson(Rec[d + 1])>>))
       /\ FALSE
=============================================================================
