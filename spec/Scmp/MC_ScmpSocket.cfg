SPECIFICATION Spec
CONSTANTS
  MAXIN = 3
  ECHO = TRUE
  NRECV = 2
  DROP_AFTER_SCMP = FALSE
  GEN = TRUE
  VERIFY_CKSUM = TRUE
  UNK_ERR_IS_ERR = TRUE
  ROUTER_VERIFY_CKSUM = TRUE
INVARIANTS DatagramsUnaffected ErrorsReachReceivers RepliesOnlyToRequests Emit
CHECK_DEADLOCK FALSE
