SPECIFICATION Spec
CONSTANTS
  TABLES = {"quote", "reply", "router"}
  GEN = FALSE
  VERIFY_CKSUM = TRUE
  UNK_ERR_IS_ERR = TRUE
  ROUTER_VERIFY_CKSUM = TRUE
INVARIANTS QuoteBounded QuoteIsPrefixLen QuoteMaximal EchoAnswered NoReplyToErrorOrMalformed ErrorsNotified AtMostOneReply RouterNeverAnswersError RouterEchoAnswered RouterEchoNoReplyToErrorOrMalformed Emit
CHECK_DEADLOCK FALSE
