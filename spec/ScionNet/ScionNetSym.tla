---------------------------- MODULE ScionNetSym ----------------------------
(***************************************************************************)
(* Symbolic instantiation of ScionNet (DESIGN.md 3.3): a MAC is the        *)
(* injective record of everything it authenticates (=> unforgeable), its   *)
(* 16-bit prefix is the atom {mac}, an accumulator is a finite set of      *)
(* atoms and XOR is symmetric difference.  Plus the per-instance           *)
(* computations shared by MC_ScionNet (theorems) and Gen_ScionNet          *)
(* (reference output for the replay into the real code).                   *)
(***************************************************************************)
EXTENDS Integers, Sequences, FiniteSets, TLC, Json, IOUtils

SymXor(A, B) == (A \ B) \cup (B \ A)
SymPfx(m) == {m}
SymMkMac(as, beta, ts, exp, in, eg) == [as |-> as, beta |-> beta, ts |-> ts, exp |-> exp, in |-> in, eg |-> eg]
SymMacOk(as, beta, ts, exp, in, eg, mac) == mac = SymMkMac(as, beta, ts, exp, in, eg)

INSTANCE ScionNet WITH Xor <- SymXor, Pfx <- SymPfx, MkMac <- SymMkMac, MacOk <- SymMacOk

\* deliberately broken beacon rule (what AsEntry::update_macs does on the pinned tree): peer hops MACed
\* under beta_i instead of beta_{i+1}.  Used as oracle self-check: AllRefPathsDeliver must FAIL with it.
CONSTANT PEER_BETA_NEXT      \* TRUE = SCION rule

-----------------------------------------------------------------------------
(* instances *)
Topos == ndJsonDeserialize(IOEnv.TOPOS)
TS0 == 1700000000

\* a deterministic enumeration of a finite set (TLC's CHOOSE is deterministic)
RECURSIVE SeqOfSet(_)
SeqOfSet(S) == IF S = {} THEN <<>> ELSE LET x == CHOOSE x \in S : TRUE IN <<x>> \o SeqOfSet(S \ {x})
SortedWalks(T, kind) == SeqOfSet(AllWalks(T, kind))
RECURSIVE TakeSome(_, _)
TakeSome(S, n) == IF n = 0 \/ S = {} THEN {} ELSE LET x == CHOOSE x \in S : TRUE IN {x} \cup TakeSome(S \ {x}, n - 1)

BreakPeers(S) ==   \* recompute peer MACs under beta_i (the broken rule)
  [S EXCEPT !.es = [i \in DOMAIN S.es |->
      [S.es[i] EXCEPT !.peers = [k \in DOMAIN S.es[i].peers |->
          [S.es[i].peers[k] EXCEPT !.mac = SymMkMac(S.es[i].as, BetaAt(S, i), S.ts, S.es[i].peers[k].exp,
                                                    S.es[i].peers[k].pif, S.es[i].eg)]]]]]

Beaconed(T) ==
  LET dw == SortedWalks(T, "down")
      cw == SortedWalks(T, "core")
      mk(id, kind, w) == LET S == MkSegment(T, id, kind, TS0 + 37 * (id % 16), {[seg |-> id]}, w)
                         IN IF PEER_BETA_NEXT THEN S ELSE BreakPeers(S)
  IN [n \in 1..(Len(dw) + Len(cw)) |->
        IF n <= Len(dw) THEN mk(n, "down", dw[n]) ELSE mk(n, "core", cw[n - Len(dw)])]

\* everything derived from topology number i
InstOf(i) ==
  LET T  == Topos[i]
      sg == Beaconed(T)
      co == {sg[n] : n \in {n \in DOMAIN sg : sg[n].kind = "core"}}
      nc == {sg[n] : n \in {n \in DOMAIN sg : sg[n].kind = "down"}}
      pairs == {sd \in ASes(T) \X ASes(T) : sd[1] # sd[2]}
  IN [i |-> i, T |-> T, segs |-> sg, cores |-> co, ncs |-> nc, pairs |-> pairs,
      cand |-> [sd \in pairs |-> Candidates(sd[1], sd[2], co, nc)],
      ref |-> [sd \in pairs |-> RefPaths(sd[1], sd[2], co, nc)]]

-----------------------------------------------------------------------------
(* instance-level theorems (C04 definition sanity, C01 OfferedWhenJoinable) *)
LinkKindsOf(T, ifs) == [n \in 1..(Len(ifs) \div 2) |-> LinkTo(T, ifs[2 * n - 1].as, ifs[2 * n - 1].if)]
\* up* core* down*  |  up* peer down*   ("parent" = towards the parent = up)
ValleyFreeKinds(ks) ==
  LET rank(t) == CASE t = "parent" -> 1 [] t = "core" -> 2 [] t = "peer" -> 2 [] t = "child" -> 3 [] OTHER -> 9 IN
  /\ \A n \in DOMAIN ks : rank(ks[n]) # 9
  /\ \A n \in 1..(Len(ks) - 1) : rank(ks[n]) <= rank(ks[n + 1])
  /\ Cardinality({n \in DOMAIN ks : ks[n] = "peer"}) <= 1
  /\ ~(\E n, m \in DOMAIN ks : ks[n] = "peer" /\ ks[m] = "core")

RefSound(I) ==      \* every reference path is a loop-free valley-free walk from src to dst, each once
  \A sd \in I.pairs :
    /\ \A p \in I.ref[sd] :
         LET ifs == Ifaces(p) IN
         /\ IfacesAreWalk(I.T, ifs) /\ Len(ifs) >= 2
         /\ ifs[1].as = sd[1] /\ ifs[Len(ifs)].as = sd[2]
         /\ NoAsTwice(p)
         /\ ValleyFreeKinds(LinkKindsOf(I.T, ifs))
         /\ Len(ifs) \div 2 = Len(AsSeq(p)) - 1
    /\ \A p, q \in I.ref[sd] : Ifaces(p) = Ifaces(q) => p = q

OfferedWhenJoinable(I) == \A sd \in I.pairs : I.cand[sd] # {} => I.ref[sd] # {}

\* every valley-free loop-free walk of the topology is offered (completeness of the combination rules
\* relative to the topology, given that all simple walks are beaconed)
RECURSIVE VfWalks(_, _, _, _, _)
VfWalks(T, x, seen, ifs, phase) ==   \* phase: 1 up, 2 core/peer done or in core, 3 down
  {ifs} \cup UNION {
     LET y == FarAs(T, l, x)  t == LinkTo(T, x, OwnIf(T, l, x))
         ph == CASE t = "parent" -> 1 [] t = "core" -> 2 [] t = "peer" -> 4 [] OTHER -> 3
         ok == /\ y \notin seen
               /\ CASE ph = 1 -> phase = 1
                    [] ph = 2 -> phase \in {1, 2}
                    [] ph = 4 -> phase = 1
                    [] OTHER  -> TRUE
         nph == IF ph = 4 THEN 3 ELSE ph
     IN IF ok THEN VfWalks(T, y, seen \cup {y},
                           ifs \o <<[as |-> x, if |-> OwnIf(T, l, x)], [as |-> y, if |-> FarIf(T, l, x)]>>, nph)
        ELSE {} : l \in {l \in LinkIds(T) : x \in {T.links[l].a, T.links[l].b}}}
\* NOTE: after a peering link only "down" may follow; after core links "down"; core after peer is excluded.
\* A peering link is usable only between an up and a down segment: not when src or dst is a core AS.
TopoRoutes(T, s, d) ==
  {w \in VfWalks(T, s, {s}, <<>>, 1) :
      /\ Len(w) > 0 /\ w[Len(w)].as = d
      /\ (T.as[s].core \/ T.as[d].core) => \A n \in DOMAIN w : LinkTo(T, w[n].as, w[n].if) # "peer"}
RefCompleteWrtTopology(I) ==
  \A sd \in I.pairs : {Ifaces(p) : p \in I.ref[sd]} = TopoRoutes(I.T, sd[1], sd[2])

-----------------------------------------------------------------------------
(* clock / link-state cases for a packet *)
PktMinTs(pkt) == MinOf({pkt.segs[k].ts : k \in DOMAIN pkt.segs})
PktMaxTs(pkt) == MaxOf({pkt.segs[k].ts : k \in DOMAIN pkt.segs})

\* round trip of a reference path: forward walk, then the receiver reverses the DELIVERED packet
RoundTrip(T, up, now, p, s, d) ==
  LET f == Walk(T, up, now, MkPkt(p, s, d), s, 0, <<>>) IN
  IF f.res.k # "deliver" \/ f.res.as # d THEN [fwd |-> f, ok |-> FALSE, rev |-> f]
  ELSE LET r == Walk(T, up, now, Reverse(f.res.pkt), d, 0, <<>>)
       IN [fwd |-> f, rev |-> r, ok |-> r.res.k = "deliver" /\ r.res.as = s]
\* reversing the path as offered (never walked) - not required to work (and does not for multi-hop paths)
FreshReverse(T, up, now, p, s, d) ==
  LET q == MkPkt(p, s, d)
      r == Walk(T, up, now, Reverse([q EXCEPT !.ch = NHops(p), !.ci = Len(p)]), d, 0, <<>>)
  IN r.res.k = "deliver" /\ r.res.as = s

AllRefPathsRoundTrip(I) ==
  \A sd \in I.pairs : \A p \in I.ref[sd] :
     /\ RoundTrip(I.T, AllUp(I.T), PktMaxTs(MkPkt(p, sd[1], sd[2])), p, sd[1], sd[2]).ok
     /\ RoundTrip(I.T, AllUp(I.T), PathExpiry(p), p, sd[1], sd[2]).ok        \* last valid second

-----------------------------------------------------------------------------
(* JSON output of the reference (MAC values are symbolic and not printed; a hop is identified by the   *)
(* segment entry it was copied from, an accumulator by <<segment, index>>)                            *)
HopOut(h) == [seg |-> h.seg, idx |-> h.idx, pk |-> h.pk, in |-> h.in, eg |-> h.eg, exp |-> h.exp]
PieceOut(q) == [cd |-> q.cd, peer |-> q.peer, sb |-> q.sb, ts |-> q.ts, hops |-> [j \in DOMAIN q.hops |-> HopOut(q.hops[j])]]
IfsOut(ifs) == [n \in DOMAIN ifs |-> <<ifs[n].as, ifs[n].if>>]
TraceOut(t) == [n \in DOMAIN t |-> [as |-> t[n].as, ifin |-> t[n].ifin, ci |-> t[n].ci, ch |-> t[n].ch, k |-> t[n].k, class |-> t[n].class]]
SegOut(S) == [id |-> S.id, kind |-> S.kind, ts |-> S.ts,
              es |-> [i \in DOMAIN S.es |-> LET e == S.es[i] IN
                        [as |-> e.as, in |-> e.in, eg |-> e.eg, exp |-> e.exp, mtu |-> e.mtu, inmtu |-> e.inmtu,
                         peers |-> [k \in DOMAIN e.peers |-> [pif |-> e.peers[k].pif, pas |-> e.peers[k].pas,
                                     prif |-> e.peers[k].prif, exp |-> e.peers[k].exp, pmtu |-> e.peers[k].pmtu]]]]]
\* alts: the other loop-free candidates with the same interface sequence (any of them may be the one the
\* implementation keeps; at most 8 are listed)
PathOut(I, p, s, d) ==
  LET rt == RoundTrip(I.T, AllUp(I.T), PktMaxTs(MkPkt(p, s, d)), p, s, d)
      same == {q \in I.cand[<<s, d>>] : q # p /\ NoAsTwice(q) /\ Ifaces(q) = Ifaces(p)}
      alts == SeqOfSet(TakeSome(same, 8))
  IN
  [ifs |-> IfsOut(Ifaces(p)), pieces |-> [k \in DOMAIN p |-> PieceOut(p[k])],
   alts |-> [n \in DOMAIN alts |-> [k \in DOMAIN alts[n] |-> PieceOut(alts[n][k])]],
   mtu |-> PathMtu(I.T, p), exp |-> PathExpiry(p), nlinks |-> Len(Ifaces(p)) \div 2,
   walk |-> TraceOut(rt.fwd.trace), rev |-> TraceOut(rt.rev.trace), ok |-> rt.ok]
PairOut(I, sd) ==
  [src |-> sd[1], dst |-> sd[2], joinable |-> I.cand[sd] # {},
   ncand |-> Cardinality(I.cand[sd]),
   paths |-> LET ps == SeqOfSet(I.ref[sd]) IN [n \in DOMAIN ps |-> PathOut(I, ps[n], sd[1], sd[2])]]
InstOut(I) ==
  [inst |-> I.i, name |-> I.T.name, topo |-> I.T,
   segs |-> [n \in DOMAIN I.segs |-> SegOut(I.segs[n])],
   pairs |-> LET ps == SeqOfSet(I.pairs) IN [n \in DOMAIN ps |-> PairOut(I, ps[n])]]
=============================================================================
