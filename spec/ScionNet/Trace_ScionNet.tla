--------------------------- MODULE Trace_ScionNet ---------------------------
(***************************************************************************)
(* Trace validation (impl -> spec) for ScionNet with the CONCRETE MAC      *)
(* algebra: accumulators are 16-bit integers, XOR is Bitwise's ^^, a MAC   *)
(* is [p |-> its first 16 bits, ok |-> the accumulator values under which  *)
(* the harness found it to verify with the key of the processing AS]       *)
(* (the AES-CMAC primitive is trusted; WHICH accumulator value applies at  *)
(* which hop is decided here, by the same ScionNet rules TLC proved        *)
(* consistent in the symbolic instantiation).                              *)
(*                                                                         *)
(* Every event of the recorded execution (see harness scionnet/record.rs)  *)
(* is evaluated against the specification.  All checks are SOFT: a failed  *)
(* check prints  <<"TV", kind, tag, line, detail>>  and validation goes on *)
(* from the REAL state, so that one deviation does not hide later ones.    *)
(*   kind "P": a property-level fact about real outputs (C01/C04/C13)      *)
(*   kind "I": conformance with the I-spec only (drift)                    *)
(***************************************************************************)
EXTENDS Integers, Sequences, FiniteSets, TLC, Json, IOUtils, Bitwise

Rec == ndJsonDeserialize(IOEnv.TRACE)

CXor(a, b) == a ^^ b
CPfx(m) == m.p
CMkMac(as, beta, ts, exp, in, eg) == [p |-> 0, ok |-> <<>>]
CMacOk(as, beta, ts, exp, in, eg, mac) == \E n \in DOMAIN mac.ok : mac.ok[n] = beta

INSTANCE ScionNet WITH Xor <- CXor, Pfx <- CPfx, MkMac <- CMkMac, MacOk <- CMacOk

VARIABLES l,      \* next line of the trace
          T,      \* topology
          segs,   \* logged segments (position = id)
          pkt,    \* packet in flight (real header state)
          loc,    \* [as, ifin] where it is processed next; as = 0: none
          env,    \* [now, down, cls, fam]
          cnt     \* [p, i, steps, offered]
vars == <<l, T, segs, pkt, loc, env, cnt>>

e == Rec[l]
Bad(kind, tag, detail) == PrintT(<<"TV", kind, tag, l, ToJson(detail)>>)
Soft(ok, kind, tag, detail) == IF ok THEN TRUE ELSE Bad(kind, tag, detail)   \* (IF, not \/: TLC explores both disjuncts of an action)
Bump(ok, kind) == IF ok THEN cnt ELSE [cnt EXCEPT ![kind] = @ + 1]

TInit == /\ l = 1 /\ T = [as |-> <<>>, links |-> <<>>] /\ segs = <<>>
         /\ pkt = [segs |-> <<>>, ci |-> 1, ch |-> 1, src |-> 0, dst |-> 0]
         /\ loc = [as |-> 0, ifin |-> 0] /\ env = [now |-> 0, down |-> {}, cls |-> "", fam |-> ""]
         /\ cnt = [p |-> 0, i |-> 0, steps |-> 0, offered |-> 0]

TMeta == /\ e.ev = "meta" /\ l' = l + 1 /\ UNCHANGED <<T, segs, pkt, loc, env, cnt>>

TTopo == /\ e.ev = "topo"
         /\ T' = e.topo /\ segs' = <<>> /\ loc' = [as |-> 0, ifin |-> 0]
         /\ LET ok == TopoValid(e.topo) IN Soft(ok, "I", "topology-invalid", e.topo.name) /\ cnt' = Bump(ok, "i")
         /\ l' = l + 1 /\ UNCHANGED <<pkt, env>>

RegularChainOk(S) == \A i \in 1..N(S) : LET h == S.es[i] IN CMacOk(h.as, BetaAt(S, i), S.ts, h.exp, h.in, h.eg, h.mac)
PeerChainOk(S) == \A i \in 1..N(S) : \A k \in DOMAIN S.es[i].peers :
                     LET h == S.es[i]  q == h.peers[k] IN CMacOk(h.as, BetaAt(S, i + 1), S.ts, q.exp, q.pif, h.eg, q.mac)
HasPeers(S) == \E i \in 1..N(S) : S.es[i].peers # <<>>

TSeg == /\ e.ev = "seg"
        /\ LET S == e.seg
               a == SegWalkOk(T, S) /\ S.id = Len(segs) + 1
               b == RegularChainOk(S)
               c == PeerChainOk(S)
           IN /\ Soft(a, "I", "segment-not-a-beaconed-walk", [seg |-> S.id, topo |-> T.name])
              /\ Soft(b, "P", "beacon-regular-mac", [seg |-> S.id, topo |-> T.name])
              /\ Soft(c, "P", "beacon-peer-mac", [seg |-> S.id, topo |-> T.name])
              /\ cnt' = [cnt EXCEPT !.i = @ + (IF a THEN 0 ELSE 1), !.p = @ + (IF b THEN 0 ELSE 1) + (IF c THEN 0 ELSE 1)]
              /\ segs' = Append(segs, S)
        /\ l' = l + 1 /\ UNCHANGED <<T, pkt, loc, env>>

IfsOut(ifs) == [n \in DOMAIN ifs |-> <<ifs[n].as, ifs[n].if>>]
TOffered ==
  /\ e.ev = "offered"
  /\ LET co == {segs[e.cores[n]] : n \in DOMAIN e.cores}
         nc == {segs[e.ncs[n]] : n \in DOMAIN e.ncs}
         ref == {IfsOut(Ifaces(p)) : p \in RefPaths(e.src, e.dst, co, nc)}
         got == {e.paths[n] : n \in DOMAIN e.paths}
         ok == ref = got /\ Cardinality(got) = Len(e.paths)
     IN /\ Soft(ok, "P", "offered-not-reference",
                [topo |-> T.name, src |-> e.src, dst |-> e.dst, missing |-> ref \ got, extra |-> got \ ref,
                 dup |-> Len(e.paths) - Cardinality(got)])
        /\ cnt' = [Bump(ok, "p") EXCEPT !.offered = @ + 1]
  /\ l' = l + 1 /\ UNCHANGED <<T, segs, pkt, loc, env>>

TInject == /\ e.ev = "inject"
           /\ pkt' = e.pkt /\ loc' = [as |-> e.at, ifin |-> e.ifin]
           /\ env' = [now |-> e.now, down |-> {e.down[n] : n \in DOMAIN e.down}, cls |-> e.cls, fam |-> e.fam]
           /\ l' = l + 1 /\ UNCHANGED <<T, segs, cnt>>

\* the link state changes while the packet travels
TLinks == /\ e.ev = "links"
          /\ env' = [env EXCEPT !.down = {e.down[n] : n \in DOMAIN e.down}]
          /\ l' = l + 1 /\ UNCHANGED <<T, segs, pkt, loc, cnt>>

\* the packet with the logged verification facts attached to the current hop field and the one after it
WithFacts(p, facts) ==
  LET tot == NHops(p.segs)
      put(q, g, f) == IF g < 1 \/ g > tot THEN q
                      ELSE LET k == SegOf(q.segs, g)  j == g - Off(q.segs, k)
                           IN [q EXCEPT !.segs[k].hops[j].mac.ok = f]
  IN put(put(p, p.ch, facts[1]), p.ch + 1, facts[2])

Accept(k) == k \in {"fwd", "deliver"}
UpOf(down) == [n \in LinkIds(T) |-> n \notin down]

TStep ==
  /\ e.ev = "step"
  /\ LET wellformed == pkt.ch >= 1 /\ pkt.ch <= NHops(pkt.segs) /\ Len(pkt.segs) >= 1
         pk == IF wellformed THEN WithFacts(pkt, e.facts) ELSE pkt
         r == Step(T, UpOf(env.down), env.now, pk, e.as, e.ifin)
         ctx == [topo |-> T.name, fam |-> env.fam, cls |-> env.cls, as |-> e.as, ifin |-> e.ifin, real |-> e.k, realclass |-> e.class,
                 spec |-> r.k, specclass |-> r.class, ci |-> pkt.ci, ch |-> pkt.ch]
         \* --- property-level facts about the real step
         p1 == e.k = "deliver" => e.as = pkt.dst                                  \* local delivery only in the destination AS
         lnk == LinkAt(T, e.as, e.eg)
         p2 == e.k = "fwd" => (lnk # 0 /\ lnk \notin env.down)                    \* only over existing, up links
         p3 == Accept(e.k) = Accept(r.k)                                           \* accept/reject = reference router
         p4 == env.fam \in {"honest", "honest-rev"} => Accept(e.k)                 \* C01: an offered path (and the reverse of the
                                                                                   \* delivered one) carries the packet
         \* --- conformance
         i0 == loc.as = e.as /\ loc.ifin = e.ifin
         i1 == e.k = r.k \/ (e.k \in {"drop", "error"} /\ r.k = "reject")
         i2 == (e.k = "fwd" /\ r.k = "fwd") =>
                  /\ r.as = e.nas /\ r.if = e.nif /\ r.pkt.ci = e.ci1 /\ r.pkt.ch = e.ch1
                  /\ [k \in DOMAIN r.pkt.segs |-> r.pkt.segs[k].segid] = e.segids1
         i3 == (e.k = "reject" /\ r.k = "reject" /\ Cardinality(Faults(T, UpOf(env.down), env.now, pk, e.as, e.ifin)) = 1)
                  => e.class = r.class
     IN /\ Soft(p1, "P", "delivered-elsewhere", ctx)
        /\ Soft(p2, "P", "forward-bad-link", ctx)
        /\ Soft(p3, "P", "accept-mismatch", ctx)
        /\ Soft(p4, "P", "honest-not-delivered", ctx)
        /\ Soft(i0, "I", "position", ctx)
        /\ Soft(~p3 \/ i1, "I", "verdict-kind", ctx)
        /\ Soft(i2, "I", "header-state", ctx)
        /\ Soft(~p3 \/ i3, "I", "error-class", ctx)
        /\ cnt' = [cnt EXCEPT !.steps = @ + 1,
                              !.p = @ + (IF p1 THEN 0 ELSE 1) + (IF p2 THEN 0 ELSE 1) + (IF p3 THEN 0 ELSE 1) + (IF p4 THEN 0 ELSE 1),
                              !.i = @ + (IF i0 THEN 0 ELSE 1) + (IF i2 THEN 0 ELSE 1) + (IF ~p3 \/ (i1 /\ i3) THEN 0 ELSE 1)]
  \* continue from the REAL state
  /\ pkt' = IF e.k = "fwd" /\ Len(e.segids1) = Len(pkt.segs)
            THEN [pkt EXCEPT !.ci = e.ci1, !.ch = e.ch1,
                             !.segs = [k \in DOMAIN pkt.segs |-> [pkt.segs[k] EXCEPT !.segid = e.segids1[k]]]]
            ELSE pkt
  /\ loc' = IF e.k = "fwd" THEN [as |-> e.nas, ifin |-> e.nif] ELSE [as |-> 0, ifin |-> 0]
  /\ l' = l + 1 /\ UNCHANGED <<T, segs, env>>

TNext == l <= Len(Rec) /\ (TMeta \/ TTopo \/ TSeg \/ TOffered \/ TInject \/ TLinks \/ TStep)
TSpec == TInit /\ [][TNext]_vars

TraceAccepted ==
  LET d == TLCGet("stats").diameter IN
  IF d = Len(Rec) + 1 THEN TRUE
  ELSE /\ PrintT(<<"TRACE-REJECTED", "matched", d - 1, "of", Len(Rec), "first unmatched line", d>>)
       /\ (d <= Len(Rec) => PrintT(<<"UNMATCHED", ToJson(Rec[d])>>))
       /\ FALSE
\* the final counters are printed by an invariant on the last state
Summary == l = Len(Rec) + 1 => PrintT(<<"TV-SUMMARY", ToJson(cnt)>>)
=============================================================================
