------------------------------- MODULE SegPlan -------------------------------
(***************************************************************************)
(* The segment REQUEST PLAN (DESIGN.md 6.6): which up / core / down        *)
(* segment lookups an end host makes for a (source, destination) pair.     *)
(*                                                                         *)
(*  I-layer  Plan: a decision table over                                   *)
(*             source kind      core | non-core                            *)
(*             destination kind core | non-core | any (wildcard core)      *)
(*             same ISD         TRUE | FALSE                               *)
(*             core hint        single (the source ISD has one core AS)    *)
(*                              | multiple                                 *)
(*           derived from the SCION lookup rules (scionproto segfetcher    *)
(*           splitter) plus the single-core short cut; bound to sciparse   *)
(*           ListSegmentPlan::new and pocketscion endhost_list_segments.   *)
(*  P-layer  PlanSufficient: on every instance and ordered pair the        *)
(*           segments fetched by the plan yield exactly the routes that    *)
(*           ALL beaconed segments yield (so "whenever the segments known  *)
(*           to the control plane can be joined, a path is offered" holds  *)
(*           end to end); PlanSufficientAny for wildcard destinations.     *)
(* A lookup endpoint is [isd, as] with as = 0 for "any core AS of isd".    *)
(***************************************************************************)
EXTENDS ScionNetSym

NoLookup == <<>>
\* abstract endpoints: "src" "dst" (the given IAs), "srcW" "dstW" (wildcard of their ISD), "single" (the only core)
PlanCells == [srcCore : BOOLEAN, dstKind : {"core", "noncore", "any"}, same : BOOLEAN, single : BOOLEAN]

Plan(c) ==
  LET P(u, k, d) == [up |-> u, core |-> k, down |-> d] IN
  CASE ~c.srcCore /\ c.dstKind = "noncore" ->
         IF c.same /\ c.single THEN P(<<"src", "single">>, NoLookup, <<"single", "dst">>)
         ELSE P(<<"src", "srcW">>, <<"srcW", "dstW">>, <<"dstW", "dst">>)
    [] ~c.srcCore /\ c.dstKind = "core" ->
         IF c.same /\ c.single THEN P(<<"src", "dst">>, NoLookup, NoLookup)
         ELSE P(<<"src", "srcW">>, <<"srcW", "dst">>, NoLookup)
    [] ~c.srcCore /\ c.dstKind = "any" ->
         IF c.same THEN P(<<"src", "dst">>, NoLookup, NoLookup)
         ELSE P(<<"src", "srcW">>, <<"srcW", "dst">>, NoLookup)
    [] c.srcCore /\ c.dstKind = "noncore" ->
         IF c.same /\ c.single THEN P(NoLookup, NoLookup, <<"src", "dst">>)
         ELSE P(NoLookup, <<"src", "dstW">>, <<"dstW", "dst">>)
    [] c.srcCore /\ c.dstKind \in {"core", "any"} ->
         IF c.same /\ c.single THEN P(NoLookup, NoLookup, NoLookup)      \* nothing to look up: an error
         ELSE P(NoLookup, <<"src", "dst">>, NoLookup)
PlanIsError(c) == LET p == Plan(c) IN p.up = NoLookup /\ p.core = NoLookup /\ p.down = NoLookup

\* well-formedness every plan must satisfy (SCION: up/down lookups stay inside one ISD, the up source and the
\* down destination are concrete ASes)
PlanWellFormed(c) ==
  LET p == Plan(c)  isW(t) == t \in {"srcW", "dstW"} \/ (t = "dst" /\ c.dstKind = "any")
      isdOf(t) == IF t \in {"src", "srcW", "single"} THEN 1 ELSE IF c.same THEN 1 ELSE 2
  IN /\ (p.up # NoLookup => ~isW(p.up[1]) /\ isdOf(p.up[1]) = isdOf(p.up[2]) /\ ~c.srcCore)
     /\ (p.down # NoLookup => ~isW(p.down[2]) /\ isdOf(p.down[1]) = isdOf(p.down[2]) /\ c.dstKind = "noncore")
     /\ (p.up # NoLookup /\ p.core # NoLookup => p.up[2] = p.core[1])
     /\ (p.core # NoLookup /\ p.down # NoLookup => p.core[2] = p.down[1])
     /\ (p.up # NoLookup /\ p.core = NoLookup /\ p.down # NoLookup => p.up[2] = p.down[1])
TableWellFormed == \A c \in PlanCells : PlanWellFormed(c)

-----------------------------------------------------------------------------
(* the plan on an instance *)
IsdOf(T, x) == T.as[x].isd
CoresOfIsd(T, i) == {x \in Cores(T) : T.as[x].isd = i}
Ep(T, x) == [isd |-> IsdOf(T, x), as |-> x]
Wild(i) == [isd |-> i, as |-> 0]
Matches(T, ep, x) == T.as[x].isd = ep.isd /\ (ep.as = 0 \/ ep.as = x)

\* dstEp.as = 0: wildcard destination ("any core AS of dstEp.isd")
CellOf(T, s, dstEp) ==
  [srcCore |-> T.as[s].core,
   dstKind |-> IF dstEp.as = 0 THEN "any" ELSE IF T.as[dstEp.as].core THEN "core" ELSE "noncore",
   same |-> T.as[s].isd = dstEp.isd,
   single |-> Cardinality(CoresOfIsd(T, T.as[s].isd)) = 1]

Concrete(T, s, dstEp, t) ==
  CASE t = "src" -> Ep(T, s) [] t = "dst" -> dstEp [] t = "srcW" -> Wild(T.as[s].isd) [] t = "dstW" -> Wild(dstEp.isd)
    [] t = "single" -> Ep(T, CHOOSE x \in CoresOfIsd(T, T.as[s].isd) : TRUE)
ConcretePlan(T, s, dstEp) ==
  LET p == Plan(CellOf(T, s, dstEp))
      cv(l) == IF l = NoLookup THEN NoLookup ELSE <<Concrete(T, s, dstEp, l[1]), Concrete(T, s, dstEp, l[2])>>
  IN [up |-> cv(p.up), core |-> cv(p.core), down |-> cv(p.down)]

\* lookup semantics of the control plane:
\*   up(src, C)    segments of src's ISD ending in src whose origin matches C
\*   core(A, B)    core segments ORIGINATED at an AS matching B and ending at an AS matching A
\*   down(C, dst)  segments ending in dst whose origin matches C
Fetched(I, cp) ==
  [up   |-> IF cp.up = NoLookup THEN {} ELSE
              {S \in I.ncs : LeafOf(S) = cp.up[1].as /\ Matches(I.T, cp.up[2], OriginOf(S))},
   core |-> IF cp.core = NoLookup THEN {} ELSE
              {S \in I.cores : Matches(I.T, cp.core[2], OriginOf(S)) /\ Matches(I.T, cp.core[1], LeafOf(S))},
   down |-> IF cp.down = NoLookup THEN {} ELSE
              {S \in I.ncs : LeafOf(S) = cp.down[2].as /\ Matches(I.T, cp.down[1], OriginOf(S))}]

RouteSet(s, d, cores, ncs) == {Ifaces(p) : p \in LoopFree(s, d, cores, ncs)}

\* P: the planned lookups lose no route
PlanSufficient(I) ==
  \A sd \in I.pairs :
     LET f == Fetched(I, ConcretePlan(I.T, sd[1], Ep(I.T, sd[2]))) IN
     RouteSet(sd[1], sd[2], f.core, f.up \cup f.down) = {Ifaces(p) : p \in I.ref[sd]}

\* wildcard destination: if some core AS of the ISD is reachable at all, the fetched segments reach one
AnyTargets(I) == {si \in ASes(I.T) \X {I.T.as[x].isd : x \in ASes(I.T)} : TRUE}
PlanSufficientAny(I) ==
  \A si \in AnyTargets(I) :
     LET s == si[1]  cp == ConcretePlan(I.T, s, Wild(si[2]))  f == Fetched(I, cp)
         targets == CoresOfIsd(I.T, si[2]) \ {s}
         reachable == \E d \in targets : I.ref[<<s, d>>] # {}
         reached == \E d \in targets : RouteSet(s, d, f.core, f.up \cup f.down) # {}
     IN PlanIsError(CellOf(I.T, s, Wild(si[2]))) \/ (reachable => reached)

-----------------------------------------------------------------------------
(* output *)
EpOut(ep) == <<ep.isd, ep.as>>
LookupOut(l) == IF l = NoLookup THEN <<>> ELSE <<EpOut(l[1]), EpOut(l[2])>>
PlanOut(cp) == [up |-> LookupOut(cp.up), core |-> LookupOut(cp.core), down |-> LookupOut(cp.down)]
IdsOut(S) == SetToSortedSeq({x.id : x \in S})
PlanPairOut(I, s, dstEp) ==
  LET cp == ConcretePlan(I.T, s, dstEp)  f == Fetched(I, cp) IN
  [src |-> s, dst |-> EpOut(dstEp), cell |-> CellOf(I.T, s, dstEp), plan |-> PlanOut(cp),
   err |-> PlanIsError(CellOf(I.T, s, dstEp)),
   fetched |-> [cores |-> IdsOut(f.core), ncs |-> IdsOut(f.up \cup f.down)],
   reach |-> IF dstEp.as # 0 THEN I.ref[<<s, dstEp.as>>] # {}
             ELSE \E d \in CoresOfIsd(I.T, dstEp.isd) \ {s} : I.ref[<<s, d>>] # {}]
PlansOut(I) ==
  LET a == SeqOfSet(I.pairs)  b == SeqOfSet(AnyTargets(I)) IN
  [n \in DOMAIN a |-> PlanPairOut(I, a[n][1], Ep(I.T, a[n][2]))] \o
  [n \in DOMAIN b |-> PlanPairOut(I, b[n][1], Wild(b[n][2]))]
TableOut == LET cs == SeqOfSet(PlanCells) IN [n \in DOMAIN cs |-> [cell |-> cs[n], plan |-> Plan(cs[n]), err |-> PlanIsError(cs[n])]]
=============================================================================
