SPECIFICATION TSpec
INVARIANT Summary
POSTCONDITION TraceAccepted
CHECK_DEADLOCK FALSE
