---------------------------- MODULE Gen_ScionNet ----------------------------
(***************************************************************************)
(* Generation mode: evaluates the reference on every instance of the       *)
(* family named by env TOPOS and prints, per instance, one line            *)
(*   <<"INST", ToJson(InstOut)>>  (topology, beaconed segments, per ordered *)
(* pair the reference path set with metadata and router walks)             *)
(* and checks the instance-level theorems.  K independent chains of        *)
(* instances let TLC's workers run in parallel.                            *)
(***************************************************************************)
EXTENDS ScionNetAtk, SegPlan

CONSTANTS K,          \* number of parallel chains
          ATTACKS,    \* BOOLEAN: also print attack packets with reference verdicts
          PLANS       \* BOOLEAN: also check and print the segment request plans (SegPlan)

VARIABLE i

NInst == Len(Topos)
Init == i = 0
Next == \/ i = 0 /\ i' \in 1..(IF K < NInst THEN K ELSE NInst)
        \/ i > 0 /\ i + K <= NInst /\ i' = i + K
Spec == Init /\ [][Next]_i

\* one evaluation of the instance serves all theorems; a failing theorem is named in the output
Thm(name, ok) == ok \/ (PrintT(<<"THEOREM-FAILED", name, i, Topos[i].name>>) /\ FALSE)
\* the request-plan decision table is instance independent: checked and printed once
TableCheck == i # 0 \/ ~PLANS \/
  (Thm("PlanTableWellFormed", TableWellFormed) /\ PrintT(<<"PLANTABLE", ToJson(TableOut)>>))
Check ==
  i = 0 \/
  LET I == InstOf(i) IN
  /\ Thm("TopologiesValid", TopoValid(I.T))
  \* (with the deliberately broken beacon rule of the oracle self-check the chain rule fails by construction;
  \*  the self-check is about the consequence: reference paths stop being deliverable)
  /\ Thm("SegmentsWellFormed", \A n \in DOMAIN I.segs : SegWalkOk(I.T, I.segs[n]) /\ (PEER_BETA_NEXT => ChainOk(I.segs[n])))
  /\ Thm("RefPathsSound", RefSound(I))
  /\ Thm("OfferedWhenJoinable", OfferedWhenJoinable(I))
  /\ Thm("RefCompleteWrtTopology", RefCompleteWrtTopology(I))
  /\ Thm("AllRefPathsRoundTrip", AllRefPathsRoundTrip(I))
  /\ (PLANS => /\ Thm("PlanSufficient", PlanSufficient(I))
               /\ Thm("PlanSufficientAny", PlanSufficientAny(I))
               /\ PrintT(<<"PLANS", ToJson([inst |-> I.i, plans |-> PlansOut(I)])>>))
  /\ PrintT(<<"INST", ToJson(InstOut(I))>>)
  /\ (ATTACKS => LET A == Attacks(I) IN
        /\ \A a \in A : Thm("AttackTheorems", AttackTheorems(I, a)) /\ PrintT(<<"ATK", ToJson(AtkOut(I, a))>>)
        /\ PrintT(<<"NATK", i, Cardinality(A)>>))
=============================================================================
