---------------------------- MODULE MC_ScionNet ----------------------------
(***************************************************************************)
(* The reference Router as a state machine, explored exhaustively by TLC   *)
(* over every packet of the attack set of every instance of the family     *)
(* (env TOPOS).  One behaviour = the traversal of one packet:              *)
(*   Init        picks instance and packet (honest or attack)              *)
(*   Forward     an AS validates the current hop field and sends the       *)
(*               packet over the egress link                               *)
(*   Crossover   the same with a change of segment inside the AS           *)
(*   PeerForward the same over a peering link (peering hop fields)         *)
(*   Deliver     the last hop field is valid and the AS is the destination *)
(*   Reject      any check fails                                           *)
(*   TurnAround  the receiver of an honest packet reverses the DELIVERED   *)
(*               path and sends the reply                                  *)
(* The theorems of DESIGN.md 6.1 are state invariants over the history.    *)
(***************************************************************************)
EXTENDS ScionNetAtk

CONSTANT FAMS      \* attack families explored ({} = all)

VARIABLES inst, atk, pkt, at, ifin, st, hist, phase
vars == <<inst, atk, pkt, at, ifin, st, hist, phase>>

Insts == TLCEval([i \in DOMAIN Topos |-> InstOf(i)])
Packets(i) == {a \in Attacks(Insts[i]) : ~a.oh /\ (FAMS = {} \/ a.fam \in FAMS)}

Init == \E i \in DOMAIN Topos : \E a \in Packets(i) :
          /\ inst = i /\ atk = a /\ pkt = a.pkt /\ at = a.at /\ ifin = a.ifin
          /\ st = "fly" /\ hist = <<>> /\ phase = "fwd"

T0 == Insts[inst].T
\* link state in force at this AS step (a schedule models links failing / recovering while the packet travels)
DownNow == DownAt(atk, Len(hist) + 1)
R == Step(T0, UpMap(T0, DownNow), atk.now, pkt, at, ifin)

\* what kind of processing the current hop field asks for (only meaningful for well-formed pointers)
Kind ==
  LET ns == Len(pkt.segs)  tot == NHops(pkt.segs) IN
  IF ns = 0 \/ pkt.ch < 1 \/ pkt.ch > tot THEN "plain" ELSE
  LET k == SegOf(pkt.segs, pkt.ch)  seg == pkt.segs[k]  j == pkt.ch - Off(pkt.segs, k)
      lastS == j = Len(seg.hops)
      peering == seg.peer /\ ((k = 1 /\ lastS) \/ (k = 2 /\ j = 1))
  IN IF peering THEN "peer" ELSE IF lastS /\ pkt.ch # tot THEN "xover" ELSE "plain"

Record(r) == Append(hist, [as |-> at, ifin |-> ifin, ci |-> pkt.ci, ch |-> pkt.ch, k |-> r.k, class |-> r.class, down |-> DownNow])

Move(kind) == /\ st = "fly" /\ R.k = "fwd" /\ Kind = kind
              /\ pkt' = R.pkt /\ at' = R.as /\ ifin' = R.if /\ hist' = Record(R)
              /\ UNCHANGED <<inst, atk, st, phase>>
Forward   == Move("plain")
Crossover == Move("xover")
PeerForward == Move("peer")
Deliver == /\ st = "fly" /\ R.k = "deliver"
           /\ pkt' = R.pkt /\ st' = "deliver" /\ hist' = Record(R)
           /\ UNCHANGED <<inst, atk, at, ifin, phase>>
Reject == /\ st = "fly" /\ R.k = "reject"
          /\ pkt' = R.pkt /\ st' = "reject" /\ hist' = Record(R)
          /\ UNCHANGED <<inst, atk, at, ifin, phase>>
TurnAround == /\ st = "deliver" /\ phase = "fwd" /\ atk.fam \in {"honest", "clock-last"}
              /\ pkt' = Reverse(pkt) /\ ifin' = 0 /\ st' = "fly" /\ phase' = "rev" /\ hist' = <<>>
              /\ UNCHANGED <<inst, atk, at>>

Next == Forward \/ Crossover \/ PeerForward \/ Deliver \/ Reject \/ TurnAround
Spec == Init /\ [][Next]_vars

\* the history in the shape the theorem operators of ScionNetAtk expect
W == [trace |-> hist, res |-> [k |-> IF st = "fly" THEN "fwd" ELSE st, as |-> at, class |-> ""]]
A0 == IF phase = "fwd" THEN atk ELSE [atk EXCEPT !.pkt = Reverse((CHOOSE x \in {atk.pkt} : TRUE)), !.ifin = 0]

\* --- theorems (DESIGN.md 6.1)
\* every reference path is delivered at its destination, also in its last valid second, and so is the reply
\* over the reversed delivered path
AllRefPathsDeliver == (atk.fam \in {"honest", "clock-last"}) => st # "reject"
DeliveredWhereAddressed == st = "deliver" => at = pkt.dst
RouterMonotone == /\ Len(hist) <= NHops(pkt.segs) + 1
                  /\ \A n \in 1..(Len(hist) - 1) : hist[n].ch < hist[n + 1].ch
\* hop fields the router acted on are unmodified beaconed entries of the processing AS
TamperDetectedAtOwner ==
  \A n \in DOMAIN hist : hist[n].k \in {"fwd", "deliver"} =>
     LET k == SegOf(pkt.segs, hist[n].ch)  h == pkt.segs[k].hops[hist[n].ch - Off(pkt.segs, k)] IN
     /\ h.seg # 0 /\ h.as = hist[n].as /\ h.mac = OrigMac(Insts[inst], h)
NoSpliceInv == phase = "rev" \/ NoSplice([atk EXCEPT !.pkt = pkt], W)
ValleyFreeInv == (st = "deliver" /\ phase = "fwd") => ValleyFreeWalk(T0, atk, [W EXCEPT !.res.k = "deliver"])
\* forwarding only over existing, up links: the next position is the far end of an up link of the previous AS
LinksExistAndUp ==
  \A n \in 1..(Len(hist) - 1) :
     LET l == LinkAt(T0, hist[n + 1].as, hist[n + 1].ifin) IN
     l # 0 /\ l \notin hist[n].down /\ FarAs(T0, l, hist[n + 1].as) = hist[n].as
=============================================================================
