---------------------------- MODULE ScionNetAtk ----------------------------
(***************************************************************************)
(* Attack packets for C13 (DESIGN.md 7/C13): for an instance, the set of   *)
(* packets an on-/off-path attacker (or a confused sender) can build from  *)
(* the AUTHENTIC hop fields of the beaconed segments, and the reference    *)
(* router's verdict on each.                                               *)
(*   honest    every reference path and the reversed delivered packet      *)
(*   clock     last valid second / expired / timestamp in the future       *)
(*   midpath   the walked packet at EVERY hop of its path (from the link   *)
(*             and from inside the AS) x {future, valid, last, expired}    *)
(*   linkdown  every non-empty set (size <= 2, and all) of on-path links   *)
(*   ingress   the honest packet injected at every AS and interface        *)
(*   corrupt   every single-field corruption (hop in/eg/exp/mac, segid,    *)
(*             timestamp, flags, pointers, destination IA)                 *)
(*   recomb    every recombination of <= 3 authentic segment slices joined *)
(*             at a common AS, every order and direction (valleys, core    *)
(*             loops, up-up, down-up, wrong crossover)                     *)
(*   splice    hop fields of two segments inside one info field            *)
(*   peermix   peering pieces with non-mirror partners / plain pieces      *)
(*   onehop    one-hop paths over every link (good / bad MAC / expired /   *)
(*             link down / wrong neighbour)                                *)
(***************************************************************************)
EXTENDS ScionNetSym

CONSTANT ATK_LEVEL     \* 1 = quick (bounded per pair), 2 = thorough

UpMap(T, down) == [l \in LinkIds(T) |-> l \notin down]
\* class of the path a packet was derived from (names the known-finding keys)
RefClass(p) ==
  IF \E k \in DOMAIN p : p[k].peer THEN "peering"
  ELSE LET topUnused(q) == (IF q.cd THEN q.hops[1] ELSE q.hops[Len(q.hops)]).in # 0
       IN IF Len(p) = 1 /\ topUnused(p[1]) THEN "onpath"
          ELSE IF Len(p) = 2 /\ (topUnused(p[1]) \/ topUnused(p[2])) THEN "shortcut"
          ELSE "plain"
MkAtk(fam, p, pkt, at, ifin, now, down, nf) ==
  [fam |-> fam, p |-> p, pkt |-> pkt, at |-> at, ifin |-> ifin, now |-> now, down |-> down, nf |-> nf, oh |-> FALSE,
   cls |-> RefClass(pkt.segs), sched |-> <<>>]

Junk == [junk |-> 1]
OrigMac(I, h) == IF h.seg = 0 THEN Junk
                 ELSE LET e == I.segs[h.seg].es[h.idx] IN IF h.pk = 0 THEN e.mac ELSE e.peers[h.pk].mac

\* reference paths considered for the derived families (quick: at most 3 per ordered pair)
RECURSIVE TakeN(_, _)
TakeN(S, n) == IF n = 0 \/ S = {} THEN {} ELSE LET x == CHOOSE x \in S : TRUE IN {x} \cup TakeN(S \ {x}, n - 1)
\* prefer structurally different paths: one per (number of pieces, peering) class first
BasePaths(I, sd) ==
  IF ATK_LEVEL >= 2 THEN I.ref[sd]
  ELSE LET cls(p) == <<Len(p), p[1].peer, Len(p[1].hops)>>
           reps == {CHOOSE p \in I.ref[sd] : cls(p) = c : c \in {cls(p) : p \in I.ref[sd]}}
       IN TakeN(reps, 3)

LinksOnPath(T, p) == LET ifs == Ifaces(p) IN {LinkAt(T, ifs[2 * n - 1].as, ifs[2 * n - 1].if) : n \in 1..(Len(ifs) \div 2)}

Honest(I) ==
  UNION {UNION {
     LET s == sd[1]  d == sd[2]  pk == MkPkt(p, s, d)  now == PktMaxTs(pk)
         f == Walk(I.T, AllUp(I.T), now, pk, s, 0, <<>>)
     IN {MkAtk("honest", TRUE, pk, s, 0, now, {}, 0)} \cup
        (IF f.res.k = "deliver" THEN {MkAtk("honest-rev", TRUE, Reverse(f.res.pkt), d, 0, now, {}, 0)} ELSE {})
     : p \in I.ref[sd]} : sd \in I.pairs}

Clock(I) ==
  UNION {UNION {
     LET s == sd[1]  d == sd[2]  pk == MkPkt(p, s, d) IN
     {MkAtk("clock-last", TRUE, pk, s, 0, PathExpiry(p), {}, 0),
      MkAtk("clock-expired", TRUE, pk, s, 0, PathExpiry(p) + 1, {}, 1),
      MkAtk("clock-future", TRUE, pk, s, 0, PktMaxTs(pk) - 1, {}, 1)}
     : p \in BasePaths(I, sd)} : sd \in I.pairs}

LinkDown(I) ==
  UNION {UNION {
     LET s == sd[1]  d == sd[2]  pk == MkPkt(p, s, d)  ls == LinksOnPath(I.T, p)
         sets == {D \in SUBSET ls : D # {} /\ (Cardinality(D) <= 2 \/ D = ls)}
     IN {MkAtk("linkdown", TRUE, pk, s, 0, PktMaxTs(pk), D, Cardinality(D)) : D \in sets}
     : p \in BasePaths(I, sd)} : sd \in I.pairs}

\* Every clock class at EVERY point of a path: the packet as it is when it reaches the n-th AS of its honest
\* traversal (header state as walked), injected there through the interface it would arrive on and from inside
\* the AS, with the clock before the timestamp of the current segment / valid / in the last valid second / expired.
\* Covers every hop index of every segment, in construction direction and against it (up, core, down pieces and
\* the reversed delivered packet).
RECURSIVE PreStates(_, _, _, _, _, _)
PreStates(T, now, pkt, x, ifin, acc) ==
  LET r == Step(T, AllUp(T), now, pkt, x, ifin)
      a2 == Append(acc, [pkt |-> pkt, as |-> x, ifin |-> ifin])
  IN IF r.k = "fwd" /\ Len(a2) <= 64 THEN PreStates(T, now, r.pkt, r.as, r.if, a2) ELSE a2
MidPathOf(I, pk0, start) ==
  LET now0 == PktMaxTs(pk0)
      sts == PreStates(I.T, now0, pk0, start, 0, <<>>)
      exp == PathExpiry(pk0.segs)
  IN UNION {
       LET st == sts[n]
           cur == st.pkt.segs[st.pkt.ci]
           clocks == {<<"future", cur.ts - 1, 1>>, <<"valid", now0, 0>>, <<"last", exp, 0>>, <<"expired", exp + 1, 1>>}
       IN {[MkAtk("midpath-" \o c[1], TRUE, st.pkt, st.as, i, c[2], {}, c[3] + (IF i = st.ifin THEN 0 ELSE 1))
              EXCEPT !.cls = RefClass(pk0.segs)]
             : c \in clocks, i \in {st.ifin, 0}}
       : n \in 1..Len(sts)}
MidPath(I) ==
  UNION {UNION {
     LET s == sd[1]  d == sd[2]  pk == MkPkt(p, s, d)
         f == Walk(I.T, AllUp(I.T), PktMaxTs(pk), pk, s, 0, <<>>)
     IN MidPathOf(I, pk, s) \cup
        (IF f.res.k = "deliver" THEN MidPathOf(I, Reverse(f.res.pkt), d) ELSE {})
     : p \in (IF ATK_LEVEL >= 2 THEN I.ref[sd] ELSE TakeN(BasePaths(I, sd), 1))} : sd \in I.pairs}

\* Link state changing WHILE the packet travels: sched[n] = set of links that are down when the n-th AS step is
\* taken (the last entry stays in force).  One on-path link goes down, or comes up, before step n.
Toggle(I) ==
  UNION {UNION {
     LET s == sd[1]  d == sd[2]  pk == MkPkt(p, s, d)  ls == LinksOnPath(I.T, p)  ns == Len(AsSeq(p)) IN
     UNION {UNION {
        {[MkAtk("toggle-down", TRUE, pk, s, 0, PktMaxTs(pk), {}, 1) EXCEPT !.sched = [k \in 1..ns |-> IF k < n THEN {} ELSE {l}]],
         [MkAtk("toggle-up", TRUE, pk, s, 0, PktMaxTs(pk), {l}, 1) EXCEPT !.sched = [k \in 1..ns |-> IF k < n THEN {l} ELSE {}]]}
        : n \in 2..ns} : l \in ls}
     : p \in BasePaths(I, sd)} : sd \in I.pairs}

\* traversal under a link-state schedule
DownAt(a, n) == IF a.sched = <<>> THEN a.down ELSE a.sched[IF n <= Len(a.sched) THEN n ELSE Len(a.sched)]
RECURSIVE WalkS(_, _, _, _, _, _)
WalkS(T, a, pkt, x, ifin, trace) ==
  LET n == Len(trace) + 1
      up == UpMap(T, DownAt(a, n))
      r == Step(T, up, a.now, pkt, x, ifin)
      t2 == Append(trace, [as |-> x, ifin |-> ifin, ci |-> pkt.ci, ch |-> pkt.ch, k |-> r.k, class |-> r.class])
  IN IF r.k = "fwd" /\ Len(t2) <= 64 THEN WalkS(T, a, r.pkt, r.as, r.if, t2)
     ELSE [trace |-> t2, res |-> r, faults |-> IF r.k = "reject" THEN Faults(T, up, a.now, pkt, x, ifin) ELSE {}]

IfsOf(T, x) == {OwnIf(T, l, x) : l \in {l \in LinkIds(T) : x \in {T.links[l].a, T.links[l].b}}}
Ingress(I) ==
  UNION {UNION {
     LET s == sd[1]  d == sd[2]  pk == MkPkt(p, s, d) IN
     {MkAtk("ingress", TRUE, pk, xi[1], xi[2], PktMaxTs(pk), {}, 1) :
        xi \in {xi \in UNION {{<<x, i>> : i \in {0} \cup IfsOf(I.T, x)} : x \in ASes(I.T)} : xi # <<s, 0>>}}
     : p \in BasePaths(I, sd)} : sd \in I.pairs}

\* single-field corruptions of an honest packet
Corruptions(I, pk) ==
  LET tot == NHops(pk.segs) IN
  UNION {UNION {
     LET h == pk.segs[k].hops[j] IN
     {<<"corrupt:in",  [pk EXCEPT !.segs[k].hops[j].in = h.in + 1]>>,
      <<"corrupt:eg",  [pk EXCEPT !.segs[k].hops[j].eg = h.eg + 1]>>,
      <<"corrupt:exp", [pk EXCEPT !.segs[k].hops[j].exp = (h.exp + 1) % 256]>>,
      <<"corrupt:mac", [pk EXCEPT !.segs[k].hops[j].mac = Junk]>>}
     : j \in DOMAIN pk.segs[k].hops} : k \in DOMAIN pk.segs}
  \cup UNION {
     {<<"corrupt:segid", [pk EXCEPT !.segs[k].segid = SymXor(pk.segs[k].segid, {Junk})]>>,
      <<"corrupt:ts",    [pk EXCEPT !.segs[k].ts = pk.segs[k].ts - 1]>>,
      <<"corrupt:consdir", [pk EXCEPT !.segs[k].cd = ~pk.segs[k].cd]>>,
      <<"corrupt:peerflag", [pk EXCEPT !.segs[k].peer = ~pk.segs[k].peer]>>}
     : k \in DOMAIN pk.segs}
  \cup {<<"corrupt:ch", [pk EXCEPT !.ch = c]>> : c \in (1..(tot + 1)) \ {pk.ch}}
  \cup {<<"corrupt:ci", [pk EXCEPT !.ci = c]>> : c \in (1..3) \ {pk.ci}}
  \cup {<<"corrupt:dst", [pk EXCEPT !.dst = x]>> : x \in ASes(I.T) \ {pk.dst}}

Corrupt(I) ==
  UNION {UNION {
     LET s == sd[1]  d == sd[2]  pk == MkPkt(p, s, d) IN
     {[MkAtk(c[1], TRUE, c[2], s, 0, PktMaxTs(pk), {}, 1) EXCEPT !.cls = RefClass(p)] : c \in Corruptions(I, pk)}
     : p \in BasePaths(I, sd)} : sd \in I.pairs}

\* authentic slices of a segment: entries a..b travelled in construction direction, or b..a against it
Slices(S) ==
  UNION {{[p |-> [cd |-> TRUE, peer |-> FALSE, segid |-> BetaAt(S, ab[1]), ts |-> S.ts, sb |-> <<S.id, ab[1]>>,
                  hops |-> [j \in 1..(ab[2] - ab[1] + 1) |-> RegHop(S, ab[1] + j - 1)]],
           start |-> S.es[ab[1]].as, end |-> S.es[ab[2]].as, kind |-> S.kind, full |-> ab[2] = N(S) \/ ab[1] = 1],
          [p |-> [cd |-> FALSE, peer |-> FALSE, segid |-> BetaAt(S, ab[2]), ts |-> S.ts, sb |-> <<S.id, ab[2]>>,
                  hops |-> [j \in 1..(ab[2] - ab[1] + 1) |-> RegHop(S, ab[2] - j + 1)]],
           start |-> S.es[ab[2]].as, end |-> S.es[ab[1]].as, kind |-> S.kind, full |-> ab[2] = N(S) \/ ab[1] = 1]}
         : ab \in {ab \in (1..N(S)) \X (1..N(S)) : ab[1] < ab[2]}}

AllSlices(I) == UNION {Slices(I.segs[n]) : n \in DOMAIN I.segs}

Recomb(I) ==
  LET sl == AllSlices(I)
      fl == IF ATK_LEVEL >= 2 THEN sl ELSE {x \in sl : x.full}
      big == Cardinality(sl) > 70            \* quick tier: bound the cubic blow-up on segment-rich instances
      one == {<<x.p>> : x \in sl}
      s2 == IF big /\ ATK_LEVEL < 2 THEN fl ELSE sl
      two == {<<q[1].p, q[2].p>> : q \in {q \in s2 \X s2 : q[1].end = q[2].start}}
      s3 == IF Cardinality(fl) > 40 /\ ATK_LEVEL < 3 THEN {} ELSE fl
      thr == {<<q[1].p, q[2].p, q[3].p>> : q \in {q \in s3 \X s3 \X s3 : q[1].end = q[2].start /\ q[2].end = q[3].start}}
      pkOf(ps) == MkPkt(ps, ps[1].hops[1].as, ps[Len(ps)].hops[Len(ps[Len(ps)].hops)].as)
  IN {LET pk == pkOf(ps) IN MkAtk("recomb", TRUE, pk, pk.src, 0, PktMaxTs(pk), {}, 0) : ps \in one \cup two \cup thr}

\* hop fields of two different segments inside one info field: a piece of S whose tail is replaced by the
\* tail of S2 from the position where both are at the same AS
Splice(I) ==
  LET segs == {I.segs[n] : n \in DOMAIN I.segs}
      down == UNION {UNION {
                 {[cd |-> TRUE, peer |-> FALSE, segid |-> BetaAt(S, 1), ts |-> S.ts, sb |-> <<S.id, 1>>,
                   hops |-> [j \in 1..N(S2) |-> IF j <= i THEN RegHop(S, j) ELSE RegHop(S2, j)]]
                  : i \in {i \in 1..(N(S) - 1) : i < N(S2) /\ S.es[i].as = S2.es[i].as /\ S.es[i].eg = S2.es[i].eg}}
                 : S2 \in {S2 \in segs : S2.id # S.id /\ S2.kind = S.kind}} : S \in segs}
      up == {[q EXCEPT !.cd = FALSE, !.hops = Rev(q.hops)] : q \in down}   \* segid fixed below
      pk1(q) == MkPkt(<<q>>, q.hops[1].as, q.hops[Len(q.hops)].as)
  IN {LET pk == pk1(q) IN MkAtk("splice", TRUE, pk, pk.src, 0, q.ts, {}, 1) : q \in down} \cup
     {LET S2 == I.segs[q.hops[1].seg]
          q2 == [q EXCEPT !.segid = BetaAt(S2, N(S2)), !.sb = <<S2.id, N(S2)>>, !.ts = S2.ts]
          pk == pk1(q2)
      IN MkAtk("splice", TRUE, pk, pk.src, 0, q2.ts, {}, 1) : q \in up}

\* peering pieces combined with the wrong partner
PeerMix(I) ==
  LET nc == I.ncs
      upPe == UNION {UNION {{[S |-> S, i |-> i, k |-> k] : k \in DOMAIN S.es[i].peers} : i \in 1..N(S)} : S \in nc}
      ups == {[p |-> UpPeerPiece(u.S, u.i, u.k), src |-> LeafOf(u.S), at |-> u.S.es[u.i].as, far |-> u.S.es[u.i].peers[u.k].pas] : u \in upPe}
      dns == {[p |-> DownPeerPiece(u.S, u.i, u.k), dst |-> LeafOf(u.S), at |-> u.S.es[u.i].as, far |-> u.S.es[u.i].peers[u.k].pas] : u \in upPe}
      plain == {x \in AllSlices(I) : x.kind = "down" /\ x.full}
      a == {<<q[1].p, q[2].p, q[1].src, q[2].dst>> : q \in {q \in ups \X dns : q[1].far = q[2].at}}      \* includes the mirror pairs
      b == {<<q[1].p, q[2].p, q[1].src, q[2].end>> : q \in {q \in ups \X plain : q[1].far = q[2].start /\ q[2].p.cd}}
      \* a plain up piece continued by a down-peer piece of the AS it ends in (no peering link in between)
      c == {<<q[1].p, q[2].p, q[1].start, q[2].dst>> :
               q \in {q \in {x \in plain : ~x.p.cd} \X dns : q[1].end = q[2].at}}
      two == IF ATK_LEVEL >= 2 THEN a \cup b \cup c ELSE a \cup b
  IN {LET pk == MkPkt(<<t[1], t[2]>>, t[3], t[4]) IN MkAtk("peermix", TRUE, pk, pk.src, 0, PktMaxTs(pk), {}, 0) : t \in two}
     \cup {LET pk == MkPkt(<<u.p>>, u.src, u.far) IN MkAtk("peermix", TRUE, pk, pk.src, 0, PktMaxTs(pk), {}, 1) : u \in ups}

-----------------------------------------------------------------------------
(* One-hop paths (SCION header spec 2.2.3 / scionproto router processOHP):   *)
(* leaving the AS: construction direction only, egress interface exists and  *)
(* first hop field authentic (MAC under SegID with the local key) and         *)
(* unexpired, link up; entering: delivered iff the destination AS is local.  *)
OhSegid == {[oh |-> 1]}
OhPkt(x, e, ts, exp, mac, dst) ==
  [segs |-> <<[cd |-> TRUE, peer |-> FALSE, segid |-> OhSegid, ts |-> ts, sb |-> <<0, 0>>,
               hops |-> <<[in |-> 0, eg |-> e, exp |-> exp, mac |-> mac, as |-> x, seg |-> 0, idx |-> 0, pk |-> 0]>>]>>,
   ci |-> 1, ch |-> 1, src |-> x, dst |-> dst]

OhStep(T, up, now, pkt, x, ifin) ==
  LET seg == pkt.segs[1]  hf == seg.hops[1] IN
  IF ifin = 0 THEN
     LET l == LinkAt(T, x, hf.eg) IN
     IF l = 0 THEN Res(pkt, "reject", x, hf.eg, "iface")
     ELSE IF now > HopExpiry(seg.ts, hf.exp) THEN Res(pkt, "reject", x, 0, "expired")
     ELSE IF ~SymMacOk(x, seg.segid, seg.ts, hf.exp, hf.in, hf.eg, hf.mac) THEN Res(pkt, "reject", x, 0, "mac")
     ELSE IF ~up[l] THEN Res(pkt, "reject", x, hf.eg, "ifdown")
     ELSE Res(pkt, "fwd", FarAs(T, l, x), FarIf(T, l, x), "")
  ELSE IF pkt.dst = x THEN Res(pkt, "deliver", x, 0, "") ELSE Res(pkt, "reject", x, 0, "dst")
OhFaults(T, up, now, pkt, x, ifin) ==
  LET seg == pkt.segs[1]  hf == seg.hops[1]  l == LinkAt(T, x, hf.eg) IN
  IF ifin # 0 THEN (IF pkt.dst = x THEN {} ELSE {"dst"}) ELSE
  (IF l = 0 THEN {"iface"} ELSE (IF ~up[l] THEN {"ifdown"} ELSE {})) \cup
  (IF now > HopExpiry(seg.ts, hf.exp) THEN {"expired"} ELSE {}) \cup
  (IF ~SymMacOk(x, seg.segid, seg.ts, hf.exp, hf.in, hf.eg, hf.mac) THEN {"mac"} ELSE {})
OhWalk(T, up, now, pkt, x) ==
  LET r1 == OhStep(T, up, now, pkt, x, 0)
      t1 == <<[as |-> x, ifin |-> 0, ci |-> 1, ch |-> 1, k |-> r1.k, class |-> r1.class]>>
  IN IF r1.k # "fwd" THEN [trace |-> t1, res |-> r1, faults |-> OhFaults(T, up, now, pkt, x, 0)]
     ELSE LET r2 == OhStep(T, up, now, r1.pkt, r1.as, r1.if)
          IN [trace |-> Append(t1, [as |-> r1.as, ifin |-> r1.if, ci |-> 1, ch |-> 1, k |-> r2.k, class |-> r2.class]),
              res |-> r2, faults |-> IF r2.k = "reject" THEN OhFaults(T, up, now, r1.pkt, r1.as, r1.if) ELSE {}]

OneHop(I) ==
  LET T == I.T  ts == TS0  exp == 63
      ends == UNION {{<<T.links[l].a, T.links[l].aif, l>>, <<T.links[l].b, T.links[l].bif, l>>} : l \in LinkIds(T)}
      good(x, e) == SymMkMac(x, OhSegid, ts, exp, 0, e)
      mk(fam, pk, now, down, nf) == [MkAtk(fam, TRUE, pk, pk.src, 0, now, down, nf) EXCEPT !.oh = TRUE, !.cls = "onehop"]
  IN UNION {
       LET x == t[1]  e == t[2]  l == t[3]  y == FarAs(T, l, x) IN
       {mk("onehop", OhPkt(x, e, ts, exp, good(x, e), y), ts + 1, {}, 0),
        mk("onehop-mac", OhPkt(x, e, ts, exp, Junk, y), ts + 1, {}, 1),
        mk("onehop-expired", OhPkt(x, e, ts, exp, good(x, e), y), HopExpiry(ts, exp) + 1, {}, 1),
        mk("onehop-linkdown", OhPkt(x, e, ts, exp, good(x, e), y), ts + 1, {l}, 1),
        mk("onehop-noif", OhPkt(x, e + 7, ts, exp, good(x, e + 7), y), ts + 1, {}, 1)} \cup
       {mk("onehop-dst", OhPkt(x, e, ts, exp, good(x, e), z), ts + 1, {}, 1) : z \in ASes(T) \ {x, y}}
       : t \in ends}

-----------------------------------------------------------------------------
Attacks(I) ==
  Honest(I) \cup Clock(I) \cup MidPath(I) \cup LinkDown(I) \cup Toggle(I) \cup Ingress(I) \cup Corrupt(I) \cup Recomb(I) \cup Splice(I) \cup PeerMix(I) \cup OneHop(I)

Verdict(I, a) ==
  IF a.oh THEN OhWalk(I.T, UpMap(I.T, a.down), a.now, a.pkt, a.at)
  ELSE IF a.sched # <<>> THEN WalkS(I.T, a, a.pkt, a.at, a.ifin, <<>>)
  ELSE Walk(I.T, UpMap(I.T, a.down), a.now, a.pkt, a.at, a.ifin, <<>>)

AtkHopOut(I, h) == [seg |-> h.seg, idx |-> h.idx, pk |-> h.pk, in |-> h.in, eg |-> h.eg, exp |-> h.exp,
                    \* MAC corrupted (one-hop hop fields are not copied from a segment: corrupted = the junk MAC)
                    mb |-> IF h.seg = 0 THEN h.mac = Junk ELSE h.mac # OrigMac(I, h)]
\* the accumulator of a piece is described as <<segment, i>> with segid = BetaAt(segment, i); a walked packet
\* carries a different index than the piece it was cut from; sx = no such index (corrupted)
AtkPieceOut(I, q) ==
  LET S == IF q.sb[1] = 0 THEN [es |-> <<>>] ELSE I.segs[q.sb[1]]
      is == IF q.sb[1] = 0 THEN {} ELSE {i \in 1..(N(S) + 1) : BetaAt(S, i) = q.segid}
  IN [cd |-> q.cd, peer |-> q.peer, ts |-> q.ts,
      sb |-> IF is = {} THEN q.sb ELSE <<q.sb[1], CHOOSE i \in is : TRUE>>,
      sx |-> q.sb[1] # 0 /\ is = {},
      hops |-> [j \in DOMAIN q.hops |-> AtkHopOut(I, q.hops[j])]]
AtkOut(I, a) ==
  LET w == Verdict(I, a) IN
  [inst |-> I.i, fam |-> a.fam, cls |-> a.cls, p |-> a.p, onehop |-> a.oh,
   pieces |-> [k \in DOMAIN a.pkt.segs |-> AtkPieceOut(I, a.pkt.segs[k])],
   ci |-> a.pkt.ci, ch |-> a.pkt.ch, src |-> a.pkt.src, dst |-> a.pkt.dst,
   at |-> a.at, ifin |-> a.ifin, now |-> a.now, down |-> SetToSortedSeq(a.down), nf |-> a.nf,
   sched |-> [n \in DOMAIN a.sched |-> SetToSortedSeq(a.sched[n])],
   verdict |-> [k |-> w.res.k, as |-> w.res.as, class |-> w.res.class, faults |-> SeqOfSet(w.faults), steps |-> Len(w.trace)],
   walk |-> TraceOut(w.trace)]

-----------------------------------------------------------------------------
(* theorems on the reference router over the attack set (DESIGN.md 6.1)      *)
HopOfStep(pkt, st) == LET k == SegOf(pkt.segs, st.ch) IN pkt.segs[k].hops[st.ch - Off(pkt.segs, k)]

\* RouterMonotone: the hop pointer strictly increases along forwarded steps; steps <= hop fields
Monotone(a, w) ==
  /\ Len(w.trace) <= NHops(a.pkt.segs) + 1
  /\ \A n \in 1..(Len(w.trace) - 1) : w.trace[n].ch < w.trace[n + 1].ch

\* DeliverOnlyAtDst
DeliverAtDst(a, w) == w.res.k = "deliver" => w.res.as = a.pkt.dst

\* TamperDetectedAtOwner / ForwardOnlyAuthentic: every hop field the router acted on (forwarded or
\* delivered) is an unmodified entry of a beaconed segment of the AS that processed it
AuthenticUse(I, a, w) ==
  \A n \in DOMAIN w.trace :
     w.trace[n].k \in {"fwd", "deliver"} =>
        LET h == HopOfStep(a.pkt, w.trace[n]) IN
        /\ h.seg # 0 /\ h.as = w.trace[n].as
        /\ h.mac = OrigMac(I, h)
        /\ LET e == I.segs[h.seg].es[h.idx] IN
           h.eg = e.eg /\ h.exp = (IF h.pk = 0 THEN e.exp ELSE e.peers[h.pk].exp) /\ h.in = (IF h.pk = 0 THEN e.in ELSE e.peers[h.pk].pif)

\* NoSplice: hop fields of one info field that were traversed are consecutive entries of ONE beaconed
\* segment, in the direction the construction-direction flag says
NoSplice(a, w) ==
  \A n \in 1..(Len(w.trace) - 1) :
     (w.trace[n].k = "fwd" /\ w.trace[n + 1].k \in {"fwd", "deliver"} /\ w.trace[n].ci = w.trace[n + 1].ci
        /\ w.trace[n + 1].ch = w.trace[n].ch + 1) =>
        LET h1 == HopOfStep(a.pkt, w.trace[n])  h2 == HopOfStep(a.pkt, w.trace[n + 1])
            cd == a.pkt.segs[w.trace[n].ci].cd
        IN h1.seg = h2.seg /\ h2.idx = h1.idx + (IF cd THEN 1 ELSE -1)

\* ValleyFree: link types along a delivered traversal
WalkLinkKinds(T, w) ==
  [n \in 1..(Len(w.trace) - 1) |-> LinkTo(T, w.trace[n + 1].as, w.trace[n + 1].ifin)]
ValleyFreeWalk(T, a, w) ==
  (w.res.k = "deliver" /\ a.ifin = 0) =>
     \* seen from the receiving side: "parent" ingress = came from the parent = travelling down
     LET ks == WalkLinkKinds(T, w)
         flip(t) == CASE t = "parent" -> "child" [] t = "child" -> "parent" [] OTHER -> t
     IN ValleyFreeKinds([n \in DOMAIN ks |-> flip(ks[n])])

\* forwarding only over links that exist and are up AT THE MOMENT the AS step is taken
CrossedLinksUp(T, a, w) ==
  \A n \in 1..(Len(w.trace) - 1) :
     LET l == LinkAt(T, w.trace[n + 1].as, w.trace[n + 1].ifin) IN
     l # 0 /\ l \notin DownAt(a, n) /\ FarAs(T, l, w.trace[n + 1].as) = w.trace[n].as
\* a link that fails only after the packet crossed it (or that is never crossed) does not matter
LateFailureHarmless(I, a, w) ==
  (a.fam = "toggle-down" /\ w.res.k = "reject") => w.res.class = "ifdown"

AttackTheorems(I, a) ==
  a.oh \/ LET w == Verdict(I, a) IN
          /\ Monotone(a, w) /\ DeliverAtDst(a, w) /\ AuthenticUse(I, a, w) /\ NoSplice(a, w) /\ ValleyFreeWalk(I.T, a, w)
          /\ CrossedLinksUp(I.T, a, w) /\ LateFailureHarmless(I, a, w)
=============================================================================
