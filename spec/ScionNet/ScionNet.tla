------------------------------ MODULE ScionNet ------------------------------
(***************************************************************************)
(* Reference model of the SCION control/data-plane core (DESIGN.md 6.1):   *)
(*                                                                         *)
(*   Topology -> Beacon (hop-field MAC chain) -> Combine (RefPaths)        *)
(*            -> Router (per-AS processing of a packet)                    *)
(*                                                                         *)
(* written from the SCION rules (SCION book 5.3.3, data-plane draft,       *)
(* scionproto combinator/router), NOT from the Rust code.  The module is   *)
(* parametric in the MAC algebra (DESIGN.md 3.3):                          *)
(*   symbolic  (ScionNetSym):   MAC = injective record, accumulator = set  *)
(*                              of atoms, XOR = symmetric difference       *)
(*   concrete  (Trace_ScionNet): 16-bit integers, XOR = Bitwise ^^, MacOk  *)
(*                              is a logged verification fact              *)
(*                                                                         *)
(* A topology T is a record [as, links] as produced by gen/topologies.py:  *)
(*   T.as[x]    = [id, isd, core, mtu, exp]            (x = id = 1..k)     *)
(*   T.links[l] = [a, aif, b, bif, t, mtu]   t \in {"core","parent","peer"}*)
(*                                           "parent": a is parent of b    *)
(***************************************************************************)
EXTENDS Integers, Sequences, FiniteSets, TLC

CONSTANTS Xor(_, _),                  \* accumulator algebra
          Pfx(_),                     \* contribution of a MAC to the accumulator (its first 16 bits)
          MkMac(_, _, _, _, _, _),    \* (as, beta, ts, exp, consIn, consEg) -> MAC      [beaconing]
          MacOk(_, _, _, _, _, _, _)  \* (as, beta, ts, exp, consIn, consEg, mac) -> BOOLEAN [router]

-----------------------------------------------------------------------------
(* generic helpers *)
Range(s) == {s[i] : i \in DOMAIN s}
Rev(s) == [i \in 1..Len(s) |-> s[Len(s) - i + 1]]
MinOf(S) == CHOOSE m \in S : \A y \in S : m <= y
MaxOf(S) == CHOOSE m \in S : \A y \in S : m >= y
RECURSIVE SumLens(_, _)
SumLens(ss, k) == IF k = 0 THEN 0 ELSE Len(ss[k].hops) + SumLens(ss, k - 1)
RECURSIVE SetToSortedSeq(_)
SetToSortedSeq(S) == IF S = {} THEN <<>> ELSE LET m == MinOf(S) IN <<m>> \o SetToSortedSeq(S \ {m})
RECURSIVE Flatten(_)
Flatten(ss) == IF ss = <<>> THEN <<>> ELSE Head(ss) \o Flatten(Tail(ss))

-----------------------------------------------------------------------------
(* Topology *)
ASes(T) == DOMAIN T.as
Cores(T) == {x \in ASes(T) : T.as[x].core}
LinkIds(T) == DOMAIN T.links

\* the link attached to interface i of AS x (0 = no such interface)
LinkAt(T, x, i) ==
  LET c == {l \in LinkIds(T) : \/ (T.links[l].a = x /\ T.links[l].aif = i)
                               \/ (T.links[l].b = x /\ T.links[l].bif = i)}
  IN IF c = {} THEN 0 ELSE CHOOSE l \in c : TRUE
OwnIf(T, l, x) == IF T.links[l].a = x THEN T.links[l].aif ELSE T.links[l].bif
FarAs(T, l, x) == IF T.links[l].a = x THEN T.links[l].b ELSE T.links[l].a
FarIf(T, l, x) == IF T.links[l].a = x THEN T.links[l].bif ELSE T.links[l].aif

\* what interface i of AS x leads to: "core" | "child" | "parent" | "peer" | "none"
LinkTo(T, x, i) ==
  LET l == LinkAt(T, x, i) IN
  IF l = 0 THEN "none"
  ELSE IF T.links[l].t = "parent" THEN (IF T.links[l].a = x THEN "child" ELSE "parent")
  ELSE T.links[l].t

\* SCION topology rules (restated from SCION, cf. pocketscion add_link): interface ids non-zero and
\* unique per AS; core links between core ASes only; parent links inside one ISD, never towards a
\* core AS; inter-ISD links are core or peer links; no self links.
TopoValid(T) ==
  /\ \A x \in ASes(T) : T.as[x].id = x
  /\ \A l \in LinkIds(T) :
       LET k == T.links[l] IN
       /\ k.a \in ASes(T) /\ k.b \in ASes(T) /\ k.a # k.b /\ k.aif # 0 /\ k.bif # 0
       /\ k.t \in {"core", "parent", "peer"}
       /\ (k.t = "core" => T.as[k.a].core /\ T.as[k.b].core)
       /\ (k.t = "parent" => T.as[k.a].isd = T.as[k.b].isd /\ ~T.as[k.b].core)
       /\ (T.as[k.a].core /\ T.as[k.b].core => k.t # "parent")
  /\ \A l1, l2 \in LinkIds(T) : l1 # l2 =>
       \A x \in ASes(T) :
          (x \in {T.links[l1].a, T.links[l1].b} /\ x \in {T.links[l2].a, T.links[l2].b})
             => OwnIf(T, l1, x) # OwnIf(T, l2, x)

-----------------------------------------------------------------------------
(* Beaconing: the segments the control plane knows                          *)
(* walk = sequence of steps [l, from, to]; down walks follow parent links   *)
(* from a core AS, core walks follow core links; both simple (no AS twice). *)
RECURSIVE Walks(_, _, _, _, _)
Walks(T, kind, w, x, seen) ==
  LET nx == {l \in LinkIds(T) :
               /\ IF kind = "down" THEN T.links[l].t = "parent" /\ T.links[l].a = x
                                   ELSE T.links[l].t = "core" /\ (T.links[l].a = x \/ T.links[l].b = x)
               /\ FarAs(T, l, x) \notin seen}
  IN UNION {LET y == FarAs(T, l, x)
                w2 == Append(w, [l |-> l, from |-> x, to |-> y])
            IN {w2} \cup Walks(T, kind, w2, y, seen \cup {y}) : l \in nx}

AllWalks(T, kind) == UNION {Walks(T, kind, <<>>, c, {c}) : c \in Cores(T)}

\* peer entries of AS x: one per peering link of x, ordered by link index
PeerRaw(T, x, eg, exp) ==
  LET ls == SetToSortedSeq({l \in LinkIds(T) : T.links[l].t = "peer" /\ x \in {T.links[l].a, T.links[l].b}})
  IN [k \in DOMAIN ls |-> [pif |-> OwnIf(T, ls[k], x), pas |-> FarAs(T, ls[k], x), prif |-> FarIf(T, ls[k], x),
                           exp |-> exp, pmtu |-> T.links[ls[k]].mtu, mac |-> 0]]

\* AS entries of a walk, before MACs are computed
RawEntries(T, w) ==
  [i \in 1..(Len(w) + 1) |->
     LET x   == IF i = 1 THEN w[1].from ELSE w[i - 1].to
         in  == IF i = 1 THEN 0 ELSE OwnIf(T, w[i - 1].l, x)
         eg  == IF i = Len(w) + 1 THEN 0 ELSE OwnIf(T, w[i].l, x)
     IN [as |-> x, in |-> in, eg |-> eg, exp |-> T.as[x].exp, mtu |-> T.as[x].mtu,
         inmtu |-> IF i = 1 THEN 0 ELSE T.links[w[i - 1].l].mtu,
         peers |-> PeerRaw(T, x, eg, T.as[x].exp), mac |-> 0]]

\* Beacon extension (SCION book 5.3.3, scionproto control/beaconing/extender.go):
\*   beta_1 = SegID;  mac_i = MAC_{K_i}(beta_i, ts, exp_i, in_i, eg_i);  beta_{i+1} = beta_i XOR mac_i[0:2]
\*   peer hop k of entry i:  MAC_{K_i}(beta_{i+1}, ts, exp, peerIf_k, eg_i)
RECURSIVE MacChain(_, _, _, _, _)
MacChain(raw, ts, i, beta, done) ==
  IF i > Len(raw) THEN done
  ELSE LET e  == raw[i]
           m  == MkMac(e.as, beta, ts, e.exp, e.in, e.eg)
           b2 == Xor(beta, Pfx(m))
           ps == [k \in DOMAIN e.peers |->
                    [e.peers[k] EXCEPT !.mac = MkMac(e.as, b2, ts, e.peers[k].exp, e.peers[k].pif, e.eg)]]
       IN MacChain(raw, ts, i + 1, b2, Append(done, [e EXCEPT !.mac = m, !.peers = ps]))

\* a control-plane segment: [id, kind, ts, segid, es]
MkSegment(T, id, kind, ts, segid, w) ==
  [id |-> id, kind |-> kind, ts |-> ts, segid |-> segid,
   es |-> MacChain(RawEntries(T, w), ts, 1, segid, <<>>)]

N(S) == Len(S.es)
LeafOf(S) == S.es[N(S)].as
OriginOf(S) == S.es[1].as

\* accumulator value that authenticates entry i (i = N+1: value after the last entry)
RECURSIVE BetaAt(_, _)
BetaAt(S, i) == IF i = 1 THEN S.segid ELSE Xor(BetaAt(S, i - 1), Pfx(S.es[i - 1].mac))

\* Chain rule as a predicate on a given segment (used to validate segments produced by the real code)
ChainOk(S) ==
  \A i \in 1..N(S) :
     LET e == S.es[i] IN
     /\ MacOk(e.as, BetaAt(S, i), S.ts, e.exp, e.in, e.eg, e.mac)
     /\ \A k \in DOMAIN e.peers :
          MacOk(e.as, BetaAt(S, i + 1), S.ts, e.peers[k].exp, e.peers[k].pif, e.eg, e.peers[k].mac)

\* A segment is well-formed w.r.t. the topology: consecutive entries are joined by a link of the right type
SegWalkOk(T, S) ==
  /\ N(S) >= 2 /\ S.es[1].in = 0 /\ S.es[N(S)].eg = 0
  /\ \A i \in 1..(N(S) - 1) :
       LET l == LinkAt(T, S.es[i].as, S.es[i].eg) IN
       /\ l # 0 /\ FarAs(T, l, S.es[i].as) = S.es[i + 1].as /\ FarIf(T, l, S.es[i].as) = S.es[i + 1].in
       /\ IF S.kind = "core" THEN T.links[l].t = "core"
          ELSE T.links[l].t = "parent" /\ T.links[l].a = S.es[i].as
  /\ \A i, j \in 1..N(S) : i # j => S.es[i].as # S.es[j].as
  /\ \A i \in 1..N(S) : \A k \in DOMAIN S.es[i].peers :
       LET p == S.es[i].peers[k]  l == LinkAt(T, S.es[i].as, p.pif) IN
       l # 0 /\ T.links[l].t = "peer" /\ FarAs(T, l, S.es[i].as) = p.pas /\ FarIf(T, l, S.es[i].as) = p.prif

-----------------------------------------------------------------------------
(* Data-plane pieces cut from segments.  A hop carries the wire fields      *)
(* [in, eg, exp, mac] plus GHOST fields [as, seg, idx, pk] (which AS entry  *)
(* of which segment it was copied from; pk = peer entry index or 0) that    *)
(* are used by the metadata functions and the theorems, never by the router.*)
RegHop(S, i) == LET e == S.es[i] IN
  [in |-> e.in, eg |-> e.eg, exp |-> e.exp, mac |-> e.mac, as |-> e.as, seg |-> S.id, idx |-> i, pk |-> 0]
PeerHop(S, i, k) == LET e == S.es[i]  p == e.peers[k] IN
  [in |-> p.pif, eg |-> e.eg, exp |-> p.exp, mac |-> p.mac, as |-> e.as, seg |-> S.id, idx |-> i, pk |-> k]

\* hops are listed in travel order; segid = accumulator before the first hop in travel direction;
\* ghost field sb = <<segment id, i>> records that segid = BetaAt(segment, i)
DownPiece(S, i) ==
  [cd |-> TRUE, peer |-> FALSE, segid |-> BetaAt(S, i), ts |-> S.ts, sb |-> <<S.id, i>>,
   hops |-> [j \in 1..(N(S) - i + 1) |-> RegHop(S, i + j - 1)]]
UpPiece(S, i) ==
  [cd |-> FALSE, peer |-> FALSE, segid |-> BetaAt(S, N(S)), ts |-> S.ts, sb |-> <<S.id, N(S)>>,
   hops |-> [j \in 1..(N(S) - i + 1) |-> RegHop(S, N(S) - j + 1)]]
DownPeerPiece(S, i, k) ==
  [cd |-> TRUE, peer |-> TRUE, segid |-> BetaAt(S, i + 1), ts |-> S.ts, sb |-> <<S.id, i + 1>>,
   hops |-> <<PeerHop(S, i, k)>> \o [j \in 1..(N(S) - i) |-> RegHop(S, i + j)]]
UpPeerPiece(S, i, k) ==
  [cd |-> FALSE, peer |-> TRUE, segid |-> IF i = N(S) THEN BetaAt(S, N(S) + 1) ELSE BetaAt(S, N(S)), ts |-> S.ts,
   sb |-> <<S.id, IF i = N(S) THEN N(S) + 1 ELSE N(S)>>,
   hops |-> [j \in 1..(N(S) - i) |-> RegHop(S, N(S) - j + 1)] \o <<PeerHop(S, i, k)>>]

-----------------------------------------------------------------------------
(* Paths and their metadata *)
TIn(h, cd)  == IF cd THEN h.in ELSE h.eg      \* interface a hop is entered through, in travel direction
TOut(h, cd) == IF cd THEN h.eg ELSE h.in
HopExpiry(ts, e) == ts + ((e + 1) * 675) \div 2     \* floor((e+1) * 337.5 s)

NHops(segs) == SumLens(segs, Len(segs))
Off(segs, k) == SumLens(segs, k - 1)
SegOf(segs, ch) == CHOOSE k \in 1..Len(segs) : Off(segs, k) < ch /\ ch <= Off(segs, k) + Len(segs[k].hops)

\* interface list [as, if] in travel order: every traversed link contributes its egress and ingress end
PieceIfaces(segs, k) ==
  LET s == segs[k]  nh == Len(s.hops) IN
  Flatten([j \in 1..nh |->
     LET h == s.hops[j]
         useIn  == ~(j = 1  /\ (k = 1 \/ ~s.peer))            \* first hop of the path / of a crossover
         useOut == ~(j = nh /\ (k = Len(segs) \/ ~s.peer))    \* last hop of the path / of a crossover
     IN (IF useIn  /\ TIn(h, s.cd)  # 0 THEN <<[as |-> h.as, if |-> TIn(h, s.cd)]>>  ELSE <<>>) \o
        (IF useOut /\ TOut(h, s.cd) # 0 THEN <<[as |-> h.as, if |-> TOut(h, s.cd)]>> ELSE <<>>)])
Ifaces(segs) == Flatten([k \in 1..Len(segs) |-> PieceIfaces(segs, k)])

\* ASes in travel order (the crossover AS, present in two pieces, listed once)
AsSeq(segs) ==
  Flatten([k \in 1..Len(segs) |->
     LET hs == segs[k].hops
         drop == k > 1 /\ ~segs[k].peer     \* first hop of a non-peering later piece repeats the crossover AS
     IN [j \in 1..(Len(hs) - (IF drop THEN 1 ELSE 0)) |-> hs[j + (IF drop THEN 1 ELSE 0)].as]])
NoAsTwice(segs) == LET a == AsSeq(segs) IN \A i, j \in DOMAIN a : i # j => a[i] # a[j]

PathExpiry(segs) == MinOf(UNION {{HopExpiry(segs[k].ts, segs[k].hops[j].exp) : j \in DOMAIN segs[k].hops} : k \in DOMAIN segs})

\* MTU = minimum over traversed ASes and traversed links (from the topology)
PathMtu(T, segs) ==
  LET ifs == Ifaces(segs) IN
  MinOf({T.as[x].mtu : x \in Range(AsSeq(segs))} \cup
        {T.links[LinkAt(T, ifs[i].as, ifs[i].if)].mtu : i \in DOMAIN ifs})

\* the interface list is a walk in the topology: consecutive (egress, ingress) pairs are the two ends of a link
IfacesAreWalk(T, ifs) ==
  /\ Len(ifs) % 2 = 0
  /\ \A n \in 1..(Len(ifs) \div 2) :
       LET e == ifs[2 * n - 1]  i == ifs[2 * n]  l == LinkAt(T, e.as, e.if) IN
       l # 0 /\ FarAs(T, l, e.as) = i.as /\ FarIf(T, l, e.as) = i.if
  /\ \A n \in 1..((Len(ifs) \div 2) - 1) : ifs[2 * n].as = ifs[2 * n + 1].as

-----------------------------------------------------------------------------
(* Combine: the SCION combination rules as a set comprehension              *)
(*   one piece   {up} {down} {core}                                         *)
(*   two pieces  {up,core} {core,down} {up,down} (joined at ANY common AS:  *)
(*               at the core, or a shortcut) {up-peer, down-peer}           *)
(*   three       {up,core,down}                                             *)
(* an up/down segment may be cut at any AS it contains (on-path)            *)
Candidates(src, dst, cores, ncs) ==
  LET ups == {S \in ncs : LeafOf(S) = src}
      dns == {S \in ncs : LeafOf(S) = dst}
      upP == UNION {{[p |-> UpPiece(S, i), end |-> S.es[i].as] : i \in 1..(N(S) - 1)} : S \in ups}
      dnP == UNION {{[p |-> DownPiece(S, i), start |-> S.es[i].as] : i \in 1..(N(S) - 1)} : S \in dns}
      coP == {[p |-> DownPiece(C, 1), start |-> OriginOf(C), end |-> LeafOf(C)] : C \in cores} \cup
             {[p |-> UpPiece(C, 1), start |-> LeafOf(C), end |-> OriginOf(C)] : C \in cores}
      one == {<<u.p>> : u \in {u \in upP : u.end = dst}} \cup
             {<<d.p>> : d \in {d \in dnP : d.start = src}} \cup
             {<<c.p>> : c \in {c \in coP : c.start = src /\ c.end = dst}}
      two == {<<q[1].p, q[2].p>> : q \in {q \in upP \X dnP : q[1].end = q[2].start}} \cup
             {<<q[1].p, q[2].p>> : q \in {q \in upP \X coP : q[1].end = q[2].start /\ q[2].end = dst}} \cup
             {<<q[1].p, q[2].p>> : q \in {q \in coP \X dnP : q[1].start = src /\ q[1].end = q[2].start}}
      thr == {<<q[1].p, q[2].p, q[3].p>> :
                q \in {q \in upP \X coP \X dnP : q[1].end = q[2].start /\ q[2].end = q[3].start}}
      \* peering: entry i of an up segment and entry j of a down segment carry mirror peer entries
      upPe == UNION {UNION {{[S |-> S, i |-> i, k |-> k] : k \in DOMAIN S.es[i].peers} : i \in 1..N(S)} : S \in ups}
      dnPe == UNION {UNION {{[S |-> S, i |-> i, k |-> k] : k \in DOMAIN S.es[i].peers} : i \in 1..N(S)} : S \in dns}
      per == {<<UpPeerPiece(q[1].S, q[1].i, q[1].k), DownPeerPiece(q[2].S, q[2].i, q[2].k)>> :
                q \in {q \in upPe \X dnPe :
                         LET a == q[1].S.es[q[1].i]  pa == a.peers[q[1].k]
                             b == q[2].S.es[q[2].i]  pb == b.peers[q[2].k]
                         IN pa.pas = b.as /\ pb.pas = a.as /\ pa.prif = pb.pif /\ pb.prif = pa.pif}}
  IN one \cup two \cup thr \cup per

\* loop-free candidates
LoopFree(src, dst, cores, ncs) == {p \in Candidates(src, dst, cores, ncs) : NoAsTwice(p)}

\* reference result: one representative per interface sequence (latest expiry; ties arbitrary)
RefPaths(src, dst, cores, ncs) ==
  IF src = dst THEN {} ELSE
  LET lf == LoopFree(src, dst, cores, ncs)
      iseqs == {Ifaces(p) : p \in lf}
  IN {CHOOSE p \in lf : /\ Ifaces(p) = q
                        /\ \A p2 \in lf : Ifaces(p2) = q => PathExpiry(p2) <= PathExpiry(p) : q \in iseqs}

-----------------------------------------------------------------------------
(* Router: processing of a packet at AS x entered on interface ifin         *)
(* (0 = from a host inside the AS).  Packet:                                *)
(*   [segs |-> <<[cd, peer, segid, ts, hops]>>, ci, ch, src, dst]           *)
(* ci / ch are 1-based indices of the current info / hop field.             *)
(* up \in [LinkIds(T) -> BOOLEAN] is the link state, now the clock.         *)
(* Result: [pkt, k, as, if, class]  k \in {"fwd","deliver","reject"}        *)
MkPkt(segs, src, dst) == [segs |-> segs, ci |-> 1, ch |-> 1, src |-> src, dst |-> dst]

XoverAllowed(inT, outT) ==
  <<inT, outT>> \in {<<"core", "child">>, <<"child", "core">>, <<"child", "child">>}

Res(p, k, x, i, c) == [pkt |-> p, k |-> k, as |-> x, if |-> i, class |-> c]

\* forwarding over egress interface e of x
Egress(T, up, p, x, e) ==
  LET l == LinkAt(T, x, e) IN
  IF l = 0 THEN Res(p, "reject", x, e, "iface")
  ELSE IF ~up[l] THEN Res(p, "reject", x, e, "ifdown")
  ELSE Res(p, "fwd", FarAs(T, l, x), FarIf(T, l, x), "")

Step(T, up, now, pkt, x, ifin) ==
  LET ns  == Len(pkt.segs)
      tot == NHops(pkt.segs)
  IN
  IF ns = 0 \/ ns > 3 \/ pkt.ch < 1 \/ pkt.ch > tot \/ \E k \in 1..ns : Len(pkt.segs[k].hops) = 0
  THEN Res(pkt, "reject", x, 0, "malformed") ELSE
  LET k == SegOf(pkt.segs, pkt.ch) IN
  IF k # pkt.ci THEN Res(pkt, "reject", x, 0, "malformed") ELSE
  LET seg   == pkt.segs[k]
      j     == pkt.ch - Off(pkt.segs, k)
      nh    == Len(seg.hops)
      hf    == seg.hops[j]
      lastS == j = nh
      final == pkt.ch = tot
      \* the peering hops of a well-formed peering path: last hop of piece 1, first hop of piece 2
      peering == seg.peer /\ ((k = 1 /\ lastS) \/ (k = 2 /\ j = 1))
      \* against construction direction the accumulator is rolled back at ingress (not for peer hops,
      \* not at the first AS where the packet comes from a host)
      segid1 == IF ~seg.cd /\ ifin # 0 /\ ~peering THEN Xor(seg.segid, Pfx(hf.mac)) ELSE seg.segid
      p1 == [pkt EXCEPT !.segs[k].segid = segid1]
  IN
  IF seg.peer /\ ns # 2 THEN Res(pkt, "reject", x, 0, "malformed")
  ELSE IF ifin # 0 /\ TIn(hf, seg.cd) # ifin THEN Res(p1, "reject", x, ifin, "iface")
  ELSE IF now > HopExpiry(seg.ts, hf.exp) THEN Res(p1, "reject", x, 0, "expired")
  ELSE IF seg.ts > now THEN Res(p1, "reject", x, 0, "future")
  ELSE IF ~MacOk(x, segid1, seg.ts, hf.exp, hf.in, hf.eg, hf.mac) THEN Res(p1, "reject", x, 0, "mac")
  ELSE IF final THEN (IF pkt.dst = x THEN Res(p1, "deliver", x, 0, "") ELSE Res(p1, "reject", x, 0, "dst"))
  ELSE IF lastS /\ ~peering THEN
     \* ---- crossover to the next segment inside AS x
     LET seg2 == p1.segs[k + 1]
         hf2  == seg2.hops[1]
         e    == TOut(hf2, seg2.cd)
         sid2 == IF seg2.cd THEN Xor(seg2.segid, Pfx(hf2.mac)) ELSE seg2.segid
         p2   == [p1 EXCEPT !.segs[k + 1].segid = sid2, !.ci = k + 1, !.ch = pkt.ch + 2]
     IN
     \* (Appendix B: the link-type table is applied to the ingress link NAMED BY THE HOP FIELD; a packet that a
     \*  host of x starts at the crossover is judged like one that arrived over that link.  scionproto additionally
     \*  refuses a segment change for packets from the internal interface - not demanded here.)
     IF now > HopExpiry(seg2.ts, hf2.exp) THEN Res(p1, "reject", x, 0, "expired")
     ELSE IF seg2.ts > now THEN Res(p1, "reject", x, 0, "future")
     ELSE IF ~MacOk(x, seg2.segid, seg2.ts, hf2.exp, hf2.in, hf2.eg, hf2.mac) THEN Res(p1, "reject", x, 0, "mac")
     ELSE IF LinkAt(T, x, e) = 0 THEN Res(p1, "reject", x, e, "iface")
     ELSE IF ~XoverAllowed(LinkTo(T, x, TIn(hf, seg.cd)), LinkTo(T, x, e)) THEN Res(p1, "reject", x, e, "segchange")
     ELSE Egress(T, up, p2, x, e)
  ELSE
     \* ---- forwarding inside one segment (or over the peering link)
     LET e    == TOut(hf, seg.cd)
         sid2 == IF seg.cd /\ ~peering THEN Xor(segid1, Pfx(hf.mac)) ELSE segid1
         p2   == [p1 EXCEPT !.segs[k].segid = sid2, !.ch = pkt.ch + 1, !.ci = IF lastS THEN k + 1 ELSE k]
     IN Egress(T, up, p2, x, e)

\* all checks that fail at this AS, evaluated independently (the error CLASS of a rejected packet is
\* compared with the implementation only when exactly one check fails: DESIGN.md S3)
Faults(T, up, now, pkt, x, ifin) ==
  LET ns == Len(pkt.segs)  tot == NHops(pkt.segs) IN
  IF ns = 0 \/ ns > 3 \/ pkt.ch < 1 \/ pkt.ch > tot \/ \E k \in 1..ns : Len(pkt.segs[k].hops) = 0 THEN {"malformed"} ELSE
  LET k == SegOf(pkt.segs, pkt.ch) IN
  IF k # pkt.ci THEN {"malformed"} ELSE
  LET seg == pkt.segs[k]  j == pkt.ch - Off(pkt.segs, k)  nh == Len(seg.hops)  hf == seg.hops[j]
      lastS == j = nh  final == pkt.ch = tot
      peering == seg.peer /\ ((k = 1 /\ lastS) \/ (k = 2 /\ j = 1))
      segid1 == IF ~seg.cd /\ ifin # 0 /\ ~peering THEN Xor(seg.segid, Pfx(hf.mac)) ELSE seg.segid
      xover == lastS /\ ~peering /\ ~final
      base == (IF seg.peer /\ ns # 2 THEN {"malformed"} ELSE {}) \cup
              (IF ifin # 0 /\ TIn(hf, seg.cd) # ifin THEN {"iface"} ELSE {}) \cup
              (IF now > HopExpiry(seg.ts, hf.exp) THEN {"expired"} ELSE {}) \cup
              (IF seg.ts > now THEN {"future"} ELSE {}) \cup
              (IF ~MacOk(x, segid1, seg.ts, hf.exp, hf.in, hf.eg, hf.mac) THEN {"mac"} ELSE {}) \cup
              (IF final /\ pkt.dst # x THEN {"dst"} ELSE {})
  IN IF final THEN base
     ELSE IF xover THEN
       LET seg2 == pkt.segs[k + 1]  hf2 == seg2.hops[1]  e == TOut(hf2, seg2.cd)  l == LinkAt(T, x, e) IN
       base \cup
                (IF now > HopExpiry(seg2.ts, hf2.exp) THEN {"expired"} ELSE {}) \cup
                (IF seg2.ts > now THEN {"future"} ELSE {}) \cup
                (IF ~MacOk(x, seg2.segid, seg2.ts, hf2.exp, hf2.in, hf2.eg, hf2.mac) THEN {"mac"} ELSE {}) \cup
                (IF l = 0 THEN {"iface"} ELSE IF ~up[l] THEN {"ifdown"} ELSE {}) \cup
                (IF l # 0 /\ ~XoverAllowed(LinkTo(T, x, TIn(hf, seg.cd)), LinkTo(T, x, e)) THEN {"segchange"} ELSE {})
     ELSE LET e == TOut(hf, seg.cd)  l == LinkAt(T, x, e) IN
       base \cup (IF l = 0 THEN {"iface"} ELSE IF ~up[l] THEN {"ifdown"} ELSE {})

\* Reversal of a path by the receiver: pieces and hops reversed, construction-direction flags toggled,
\* accumulators kept as they arrived, pointers mirrored
Reverse(pkt) ==
  LET tot == NHops(pkt.segs)  ns == Len(pkt.segs) IN
  [segs |-> [k \in 1..ns |-> LET q == pkt.segs[ns - k + 1] IN [q EXCEPT !.cd = ~q.cd, !.hops = Rev(q.hops)]],
   ci |-> ns - pkt.ci + 1, ch |-> tot - pkt.ch + 1, src |-> pkt.dst, dst |-> pkt.src]

\* whole traversal as a function: sequence of visited [as, ifin, ci, ch, k, class] and the final result
RECURSIVE Walk(_, _, _, _, _, _, _)
Walk(T, up, now, pkt, x, ifin, trace) ==
  LET r == Step(T, up, now, pkt, x, ifin)
      t2 == Append(trace, [as |-> x, ifin |-> ifin, ci |-> pkt.ci, ch |-> pkt.ch, k |-> r.k, class |-> r.class])
  IN IF r.k = "fwd" /\ Len(t2) <= 64 THEN Walk(T, up, now, r.pkt, r.as, r.if, t2)
     ELSE [trace |-> t2, res |-> r,
           faults |-> IF r.k = "reject" THEN Faults(T, up, now, pkt, x, ifin) ELSE {}]

AllUp(T) == [l \in LinkIds(T) |-> TRUE]
=============================================================================
