SPECIFICATION MCSpec
VIEW MCView
CONSTANTS
  Q = 2
  MINPAY = 2
  MAXPKT = 7
  MAXF = 4
  NEVER = 99
  NCELL = 7
  FIXED = TRUE
  Depth = 6
  GEN = FALSE
INVARIANTS Integrity BoundedState EmitInRange OneSlotPerPacket CompleteIfAllArrive HonestExact HonestNoMalformed
