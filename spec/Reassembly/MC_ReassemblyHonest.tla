------------------------ MODULE MC_ReassemblyHonest ------------------------
(* Every delivery schedule (permutation, duplication, drop, interleaving) of the  *)
(* frames of a few honestly fragmented packets over Q slots.                      *)
EXTENDS ReassemblyHonest, Json

CONSTANTS Depth, GEN

VARIABLES n, h   \* h: history, hidden from the fingerprint by VIEW

\* honest packets: [so, size, w] (w = payload window of the sender's MTU)
Pkts == { [so |-> 10, size |-> 5, w |-> 2],     \* 3 frames: 2,2,1
          [so |-> 20, size |-> 4, w |-> 2],     \* 2 frames: 2,2
          [so |-> 30, size |-> 2, w |-> 3],     \* single frame (fast path)
          [so |-> 40, size |-> 6, w |-> 3] }    \* 2 frames: 3,3

NF(p) == CeilDiv(p.size, p.w)
FrameOf(p, i) == [so |-> p.so, off |-> i * p.w,
                  len |-> IF i = NF(p) - 1 THEN p.size - i * p.w ELSE p.w,
                  last |-> i = NF(p) - 1]

MCInit == HInit /\ n = 0 /\ h = <<>>
MCNext == /\ n < Depth
          /\ n' = n + 1
          /\ \E p \in Pkts : \E i \in 0 .. (NF(p) - 1) :
                /\ HRecv(FrameOf(p, i), i, NF(p), p.size)
                /\ h' = Append(h, [f |-> FrameOf(p, i), o |-> out'])
MCSpec == MCInit /\ [][MCNext]_<<hvars, n, h>>
MCView == <<hvars, n>>
Emit == GEN => (n = 0 \/ PrintT(<<"REPLAY", ToJson(h)>>))
=============================================================================
