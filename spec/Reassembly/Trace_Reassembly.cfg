SPECIFICATION TSpec
CONSTANTS
  Q <- TraceQ
  MINPAY = 256
  MAXPKT = 65535
  MAXF = 256
  NEVER = 2147483647
  NCELL = 0
  FIXED = TRUE
INVARIANTS BoundedState EmitInRange OneSlotPerPacket StrictComplete StrictExact StrictNoMalformed
POSTCONDITION TraceAccepted
CHECK_DEADLOCK FALSE
