SPECIFICATION MCSpec
VIEW MCView
CONSTANTS
  Q = 1
  MINPAY = 2
  MAXPKT = 7
  MAXF = 4
  NEVER = 99
  NCELL = 7
  FIXED = TRUE
  SOs = {10, 20}
  Offs = {0,1,2,3,4,5,6}
  Lens = {0,1,2,3,4}
  Depth = 3
  GEN = FALSE
INVARIANTS Integrity BoundedState EmitInRange OneSlotPerPacket
