-------------------------- MODULE Trace_Reassembly --------------------------
(* Trace validation: every recorded execution of the real Defragmenter must be   *)
(* a behaviour of Reassembly (same outcome class, stream offset and size at      *)
(* every recv), and the P-layer invariants are evaluated at every step.          *)
(* Events (ndjson, file named by env TRACE):                                     *)
(*   {"ev":"meta","q":Q}                                         first line      *)
(*   {"ev":"reset","strict":bool}        fresh Defragmenter; strict = honest run *)
(*   {"ev":"recv","so","off","len","last","fi","nf","size","out":{kind,..}}      *)
EXTENDS ReassemblyHonest, Json, IOUtils

Rec == ndJsonDeserialize(IOEnv.TRACE)
TraceQ == Rec[1].q

VARIABLES l, strict, hon   \* hon: the last frame came from the honest sender

tvars == <<hvars, l, strict, hon>>

TInit == HInit /\ l = 2 /\ strict = FALSE /\ hon = FALSE

Frame(e) == [so |-> e.so, off |-> e.off, len |-> e.len, last |-> e.last]

OutMatches(e) ==
  /\ out'.kind = e.out.kind
  /\ (e.out.kind = "err" => out'.class = e.out.class)
  /\ (e.out.kind = "emit" => (out'.so = e.out.so /\ out'.size = e.out.size))

TRecv == /\ l <= Len(Rec) /\ Rec[l].ev = "recv"
         /\ LET e == Rec[l] IN HRecv(Frame(e), e.fi, e.nf, e.size) /\ OutMatches(e)
         /\ l' = l + 1 /\ hon' = (Rec[l].fi >= 0) /\ UNCHANGED strict

\* end-to-end driver: the frame is inferred from the sender's configuration and only
\* "a packet came out (size)" / "nothing came out" is observable behind the WireGuard layer
TRecvX == /\ l <= Len(Rec) /\ Rec[l].ev = "recvx"
          /\ LET e == Rec[l] IN
               /\ HRecv(Frame(e), e.fi, e.nf, e.size)
               /\ (e.out.kind = "emit" => (out'.kind = "emit" /\ out'.so = e.out.so /\ out'.size = e.out.size))
               /\ (e.out.kind = "quiet" => out'.kind \in {"none", "err"})
          /\ l' = l + 1 /\ hon' = TRUE /\ UNCHANGED strict

TReset == /\ l <= Len(Rec) /\ Rec[l].ev = "reset"
          /\ slots' = [q \in 1..Q |-> Slot0]
          /\ owner' = [q \in 1..Q |-> [c \in Cells |-> NONE]]
          /\ out' = [kind |-> "init"] /\ emitted' = {}
          /\ got' = <<>> /\ dead' = {} /\ meta' = <<>>
          /\ strict' = Rec[l].strict /\ hon' = FALSE
          /\ l' = l + 1

TShort == /\ l <= Len(Rec) /\ Rec[l].ev = "short"
          /\ RecvShort /\ out'.kind = Rec[l].out.kind /\ out'.class = Rec[l].out.class
          /\ l' = l + 1 /\ hon' = FALSE /\ UNCHANGED <<got, dead, meta, strict>>

TNext == TRecv \/ TRecvX \/ TReset \/ TShort
TSpec == TInit /\ [][TNext]_tvars

StrictComplete == strict => CompleteIfAllArrive
StrictExact    == (strict /\ hon /\ out.kind = "emit" /\ out.so \in DOMAIN meta) => out.size = meta[out.so].size
StrictNoMalformed == (strict /\ hon) => HonestNoMalformed

TraceAccepted ==
  LET d == TLCGet("stats").diameter IN
  IF d = Len(Rec) THEN TRUE
  ELSE /\ PrintT(<<"TRACE-REJECTED", "matched", d - 1, "of", Len(Rec) - 1, "first unmatched line", d + 1>>)
       /\ (d + 1 <= Len(Rec) => PrintT(<<"UNMATCHED", ToJson(Rec[d + 1])>>))
       /\ FALSE
=============================================================================
