------------------------------ MODULE Reassembly ------------------------------
(***************************************************************************)
(* Edge-tunnel reassembler (crates/libs/anapaya-edge-tun/src/fragmenting.rs) *)
(*                                                                         *)
(* I-layer: one action per call of Defragmenter::recv, transcribing        *)
(* recv_fallible / select_queue / DefragQueue::init / ingest_frame branch  *)
(* by branch (each early return is a named outcome class).                 *)
(* P-layer: Integrity, AtMostOnce, CompleteIfAllArrive, BoundedState.      *)
(*                                                                         *)
(* Sizes are abstract units (the replay maps 1 unit to 128 bytes, so that  *)
(* MINPAY = 2 units = MIN_PAYLOAD_SIZE = 256 bytes); the trace             *)
(* configuration uses bytes and the real constants.                        *)
(*                                                                         *)
(* FIXED = FALSE is the reassembler as found at the pinned commit;         *)
(* FIXED = TRUE is the repaired completion rule (see DESIGN.md section 8). *)
(***************************************************************************)
EXTENDS Naturals, Integers, Sequences, FiniteSets, TLC

CONSTANTS Q,        \* number of reassembly slots (queues)
          MINPAY,   \* MIN_PAYLOAD_SIZE
          MAXPKT,   \* MAX_PACKET_SIZE
          MAXF,     \* MAX_FRAMES (index MAXF-1 is reserved for the LAST frame)
          NEVER,    \* stream offset of a never-used slot (u64::MAX); greater than every real offset
          NCELL,    \* ghost: number of buffer cells tracked (0 disables the ghost)
          FIXED     \* TRUE = repaired completion rule, FALSE = pinned commit

NONE == -1

VARIABLES slots,    \* [1..Q -> slot record]
          owner,    \* ghost: [1..Q -> [0..NCELL-1 -> stream offset that last wrote the cell, or NONE]]
          out,      \* result of the last recv
          emitted   \* ghost: set of stream offsets emitted so far, with the way they were emitted

vars == <<slots, owner, out, emitted>>

Slot0 == [so |-> NEVER, idle |-> TRUE, mask |-> {}, win |-> NONE, final |-> NONE,
          expected |-> NONE, lastOff |-> NONE]

Cells == 0 .. (NCELL - 1)

Init == /\ slots = [q \in 1..Q |-> Slot0]
        /\ owner = [q \in 1..Q |-> [c \in Cells |-> NONE]]
        /\ out = [kind |-> "init"]
        /\ emitted = {}

LASTIDX == MAXF - 1

\* usize::is_multiple_of: x.is_multiple_of(0) <=> x = 0
MultipleOf(x, d) == IF d = 0 THEN x = 0 ELSE x % d = 0

CeilDiv(a, b) == (a + b - 1) \div b

Err(class) == [kind |-> "err", class |-> class]

(***************************************************************************)
(* select_queue: index of the slot used for frame f, whether it is         *)
(* (re)initialised, or 0 if the frame is too old.                          *)
(***************************************************************************)
Existing(f) == {q \in 1..Q : slots[q].so = f.so}
IdleSlots   == {q \in 1..Q : slots[q].idle}
MaxOf(S) == CHOOSE x \in S : \A y \in S : y <= x
MinOf(S) == CHOOSE x \in S : \A y \in S : x <= y
\* the code keeps the LAST idle slot it iterates over, and the FIRST slot with the lowest offset
LowestSo  == MinOf({slots[q].so : q \in 1..Q})
LowestIdx == MinOf({q \in 1..Q : slots[q].so = LowestSo})

Select(f) ==
  IF Existing(f) # {} THEN [q |-> MinOf(Existing(f)), init |-> FALSE]
  ELSE IF IdleSlots # {} THEN [q |-> MaxOf(IdleSlots), init |-> TRUE]
  ELSE IF f.so < LowestSo THEN [q |-> 0, init |-> FALSE]
  ELSE [q |-> LowestIdx, init |-> TRUE]

\* DefragQueue::init - note: last_frame_offset is NOT reset
InitSlot(s, f) == [s EXCEPT !.mask = {}, !.win = NONE, !.final = NONE, !.expected = NONE,
                            !.idle = FALSE, !.so = f.so]

(***************************************************************************)
(* ingest_frame on slot record s: result [s |-> new slot, o |-> outcome,   *)
(* write |-> BOOLEAN (payload copied into the buffer)]                     *)
(***************************************************************************)
Idle(s) == [s EXCEPT !.idle = TRUE]

\* Part 3: duplicate check, copy, completion
Finish(s, f, idx) ==
  IF idx \in s.mask THEN [s |-> s, o |-> Err("duplicate"), write |-> FALSE]
  ELSE LET s1 == [s EXCEPT !.mask = @ \cup {idx}] IN
       IF s1.expected # NONE /\ Cardinality(s1.mask) = s1.expected
       THEN [s |-> Idle(s1), write |-> TRUE,
             o |-> [kind |-> "emit", so |-> s1.so, size |-> IF s1.final = NONE THEN MAXPKT ELSE s1.final]]
       ELSE [s |-> s1, o |-> [kind |-> "none"], write |-> TRUE]

\* Part 2: one-time computation of the expected frame count
Expect(s, f, idx) ==
  IF s.final # NONE /\ s.win # NONE /\ s.lastOff # NONE /\ s.expected = NONE
  THEN IF ~MultipleOf(s.lastOff, s.win)
       THEN [s |-> Idle(s), o |-> Err("last_frame_offset_alignment_invalid"), write |-> FALSE]
       ELSE IF FIXED
            THEN LET e == (s.lastOff \div s.win) + 1 IN
                 \* middle frames at or beyond the last frame cannot belong to the packet
                 IF \E i \in s.mask : i # LASTIDX /\ i >= e - 1
                 THEN [s |-> Idle(s), o |-> Err("frame_beyond_last_frame"), write |-> FALSE]
                 ELSE IF ~f.last /\ idx >= e - 1
                 THEN [s |-> Idle(s), o |-> Err("frame_beyond_last_frame"), write |-> FALSE]
                 ELSE Finish([s EXCEPT !.expected = e], f, idx)
            ELSE Finish([s EXCEPT !.expected = CeilDiv(s.final, s.win)], f, idx)
  ELSE IF FIXED /\ s.expected # NONE /\ ~f.last /\ idx >= s.expected - 1
       THEN [s |-> Idle(s), o |-> Err("frame_beyond_last_frame"), write |-> FALSE]
       ELSE Finish(s, f, idx)

\* Part 1: per-frame checks
Ingest(s, f) ==
  IF s.idle THEN [s |-> s, o |-> Err("queue_idle"), write |-> FALSE]
  ELSE IF f.off + f.len > MAXPKT THEN [s |-> Idle(s), o |-> Err("segment_out_of_bounds"), write |-> FALSE]
  ELSE IF f.last
  THEN IF FIXED /\ LASTIDX \in s.mask
       THEN [s |-> s, o |-> Err("duplicate"), write |-> FALSE]
       ELSE Expect([s EXCEPT !.final = f.off + f.len, !.lastOff = f.off], f, LASTIDX)
  ELSE IF s.win # NONE /\ s.win # f.len
       THEN [s |-> Idle(s), o |-> Err("inconsistent_frame_size"), write |-> FALSE]
       ELSE LET s1 == [s EXCEPT !.win = f.len] IN
            IF ~MultipleOf(f.off, f.len)
            THEN [s |-> Idle(s1), o |-> Err("offset_alignment_invalid"), write |-> FALSE]
            ELSE IF f.len < MINPAY
            THEN [s |-> Idle(s1), o |-> Err("frame_too_small"), write |-> FALSE]
            ELSE IF f.off \div f.len >= MAXF - 1
            THEN [s |-> Idle(s1), o |-> Err("frame_idx_exceeds_max_frames"), write |-> FALSE]
            ELSE Expect(s1, f, f.off \div f.len)

(***************************************************************************)
(* P-layer ghost evaluation at an emission from slot q                     *)
(***************************************************************************)
WriteCells(ow, f) == [c \in Cells |-> IF f.off <= c /\ c < f.off + f.len THEN f.so ELSE ow[c]]
Intact(ow, so, size) == \A c \in Cells : c < size => ow[c] = so

(***************************************************************************)
(* The recv action                                                         *)
(***************************************************************************)
RecvFast(f) ==
  /\ f.last /\ f.off = 0
  /\ out' = [kind |-> "emit", so |-> f.so, size |-> f.len, via |-> "fast", intact |-> TRUE,
             again |-> (\E e \in emitted : e.so = f.so)]
  /\ emitted' = emitted \cup {[so |-> f.so, via |-> "fast"]}
  /\ UNCHANGED <<slots, owner>>

RecvTooOld(f) ==
  /\ ~(f.last /\ f.off = 0)
  /\ Select(f).q = 0
  /\ out' = Err("segment_too_old")
  /\ UNCHANGED <<slots, owner, emitted>>

RecvIngest(f) ==
  /\ ~(f.last /\ f.off = 0)
  /\ Select(f).q # 0
  /\ LET sel == Select(f)
         q   == sel.q
         s0  == IF sel.init THEN InitSlot(slots[q], f) ELSE slots[q]
         r   == Ingest(s0, f)
         ow  == IF r.write THEN WriteCells(owner[q], f) ELSE owner[q]
     IN /\ slots' = [slots EXCEPT ![q] = r.s]
        /\ owner' = [owner EXCEPT ![q] = ow]
        /\ out' = IF r.o.kind = "emit"
                  THEN [r.o EXCEPT !.kind = "emit"] @@
                       [via |-> "slot", intact |-> Intact(ow, r.o.so, r.o.size),
                        again |-> (\E e \in emitted : e.so = r.o.so),
                        reinit |-> sel.init, q |-> q]
                  ELSE r.o
        /\ emitted' = IF r.o.kind = "emit" THEN emitted \cup {[so |-> r.o.so, via |-> "slot"]} ELSE emitted

Recv(f) == RecvFast(f) \/ RecvTooOld(f) \/ RecvIngest(f)

\* a datagram shorter than the 16-byte frame header
RecvShort == out' = Err("invalid_header") /\ UNCHANGED <<slots, owner, emitted>>

(***************************************************************************)
(* Properties (P-layer)                                                    *)
(***************************************************************************)
\* every emitted byte was written by a frame of the emitted packet
Integrity == out.kind = "emit" => out.intact

\* a slot never grows: the mask holds at most MAXF indices, all below MAXF; sizes stay in range
BoundedState ==
  \A q \in 1..Q : /\ slots[q].mask \subseteq 0..(MAXF - 1)
                  /\ slots[q].final \in {NONE} \cup 0..MAXPKT
                  /\ slots[q].expected \in {NONE} \cup 0..MAXF

\* an emitted size never exceeds the packet bound
EmitInRange == out.kind = "emit" => out.size <= MAXPKT

\* at most one busy slot per stream offset
OneSlotPerPacket == \A p, q \in 1..Q : (p # q /\ ~slots[p].idle /\ ~slots[q].idle) => slots[p].so # slots[q].so
=============================================================================
