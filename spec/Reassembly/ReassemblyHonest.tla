-------------------------- MODULE ReassemblyHonest --------------------------
(* Ghost layer for frames produced by an honest Fragmenter: packet p (stream    *)
(* offset so) is cut into nf frames of window w; frame fi has offset fi*w.      *)
(* Adds the bookkeeping needed to state CompleteIfAllArrive / HonestExact /     *)
(* AtMostOnce.  Used by MC_ReassemblyHonest (exhaustive schedules) and by       *)
(* Trace_Reassembly (validation of recorded executions of the real code).       *)
EXTENDS Reassembly

VARIABLES got,    \* [so -> set of frame indices accepted so far] (partial function)
          dead,   \* stream offsets whose slot was reclaimed, or that had a frame refused as too old
          meta    \* [so -> [nf, size]] of the honest packets seen so far

hvars == <<vars, got, dead, meta>>

HInit == Init /\ got = <<>> /\ dead = {} /\ meta = <<>>

Upd(fn, k, v) == [x \in DOMAIN fn \cup {k} |-> IF x = k THEN v ELSE fn[x]]
Get(fn, k, d) == IF k \in DOMAIN fn THEN fn[k] ELSE d

\* f: frame, fi: its index in its packet, nf: number of frames, size: packet size
\* fi = -1 marks a frame that does not stem from an honest packet (only eviction bookkeeping)
HRecv(f, fi, nf, size) ==
  /\ Recv(f)
  /\ meta' = IF fi >= 0 THEN Upd(meta, f.so, [nf |-> nf, size |-> size]) ELSE meta
  /\ LET fast == f.last /\ f.off = 0
         sel  == Select(f)
         evicted == IF ~fast /\ sel.q # 0 /\ sel.init /\ ~slots[sel.q].idle THEN {slots[sel.q].so} ELSE {}
         refused == IF ~fast /\ sel.q = 0 THEN {f.so} ELSE {}
         \* an error that parks the slot (anything but duplicate / idle / too old) loses the packet
         parked  == IF out'.kind = "err" /\ out'.class \notin {"duplicate", "queue_idle", "segment_too_old"}
                    THEN {f.so} ELSE {}
     IN /\ dead' = dead \cup evicted \cup refused \cup parked
        /\ got' = IF fi >= 0 /\ out'.kind \in {"none", "emit"} THEN Upd(got, f.so, Get(got, f.so, {}) \cup {fi}) ELSE got

Emitted(so) == \E e \in emitted : e.so = so

\* all frames accepted while the slot was never reclaimed  =>  the packet has been emitted
CompleteIfAllArrive ==
  \A so \in DOMAIN got : (got[so] = 0 .. (meta[so].nf - 1) /\ so \notin dead) => Emitted(so)

\* an emitted packet has the size of the packet that was sent (content: ghost Integrity / real bytes)
HonestExact == (out.kind = "emit" /\ out.so \in DOMAIN meta) => (out.size = meta[out.so].size /\ out.intact)

\* honest frames are never rejected as malformed
HonestNoMalformed == out.kind = "err" => out.class \in {"duplicate", "queue_idle", "segment_too_old"}

\* strict "at most once" - fails in the two documented ways (fast path has no memory; a reclaimed slot forgets)
AtMostOnceStrict == ~(out.kind = "emit" /\ out.again)
=============================================================================
