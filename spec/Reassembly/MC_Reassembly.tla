---------------------------- MODULE MC_Reassembly ----------------------------
(* Exhaustive exploration of the reassembler under ARBITRARY (hostile) frames   *)
(* over a small header domain, every schedule of at most Depth frames.          *)
EXTENDS Reassembly, Json

CONSTANTS SOs, Offs, Lens, Depth, GEN

VARIABLES n,   \* number of frames received so far
          h    \* history (hidden from the fingerprint by VIEW): <<[f |-> frame, o |-> outcome]>>

MCFrames == [so : SOs, off : Offs, len : Lens, last : BOOLEAN]

MCInit == Init /\ n = 0 /\ h = <<>>
MCNext == /\ n < Depth
          /\ n' = n + 1
          /\ \E f \in MCFrames : Recv(f) /\ h' = Append(h, [f |-> f, o |-> out'])
MCSpec == MCInit /\ [][MCNext]_<<vars, n, h>>

MCView == <<slots, owner, out, emitted, n>>

\* strict reading of "emitted at most once" (fails in the two documented ways, see DESIGN.md)
AtMostOnceStrict == ~(out.kind = "emit" /\ out.again)
\* what the reassembler's own mechanisms (idle slot keeps its offset, duplicate bit) guarantee
AtMostOnceSameSlot == (out.kind = "emit" /\ out.again) => (out.via = "fast" \/ out.reinit)

\* generation mode: one line per distinct (state, outcome): the history that reached it
Emit == GEN => (n = 0 \/ PrintT(<<"REPLAY", ToJson(h)>>))
=============================================================================
