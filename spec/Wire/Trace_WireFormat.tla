-------------------------- MODULE Trace_WireFormat --------------------------
(* Trace validation for C03 (impl -> spec).  Every byte string that sciparse's   *)
(* decoder ACCEPTED is logged with the decoded model and sciparse's re-encoding  *)
(* of that model.  For each event the P-layer statement of the property is       *)
(* evaluated with the independent reference encoder:                             *)
(*     Canonical(level, bytes)  =>  reenc = bytes  /\  Encode(model) = bytes     *)
(* Events (ndjson, file named by env TRACE):                                     *)
(*   {"ev":"meta",...}                                       first line          *)
(*   {"ev":"dec","level":"raw|udp|scmp","bytes":[..],"rest":n,"model":{..},      *)
(*    "reenc_ok":bool,"reenc":[..]}                                              *)
(*   {"ev":"panic","level":..,"bytes":[..],"msg":..}                             *)
EXTENDS WireFormat, Json, IOUtils, TLC

Rec == ndJsonDeserialize(IOEnv.TRACE)

VARIABLES l, ncanon, nbad

TInit == l = 2 /\ ncanon = 0 /\ nbad = 0

FirstDiff(a, b) ==
  LET n == Min2(Len(a), Len(b))
      D == {i \in 1..n : a[i] # b[i]}
  IN IF D = {} THEN n + 1 ELSE CHOOSE i \in D : \A j \in D : i <= j

Verdict(e) ==
  IF e.ev = "panic" THEN <<"decoder-panic", 0>>
  ELSE IF e.ev # "dec" THEN <<"skip", 0>>
  ELSE IF ~Canonical(e.level, e.bytes) THEN <<"noncanonical", 0>>
  ELSE IF ~e.reenc_ok THEN <<"reenc-rejected", 0>>
  ELSE IF e.reenc # e.bytes THEN <<"reenc-differs", FirstDiff(e.reenc, e.bytes)>>
  ELSE IF Encode(e.model) # e.bytes THEN <<"spec-differs", FirstDiff(Encode(e.model), e.bytes)>>
  ELSE <<"ok", 0>>

TStep ==
  /\ l <= Len(Rec)
  /\ LET v == Verdict(Rec[l])
         good == v[1] \in {"ok", "noncanonical", "skip"}
     IN /\ IF good THEN TRUE ELSE PrintT(<<"BAD", l, v[1], v[2]>>)
        /\ ncanon' = ncanon + (IF v[1] \in {"noncanonical", "skip", "decoder-panic"} THEN 0 ELSE 1)
        /\ nbad' = nbad + (IF good THEN 0 ELSE 1)
        /\ IF l < Len(Rec) THEN TRUE ELSE PrintT(<<"TOTALS", Len(Rec) - 1, ncanon', nbad'>>)
  /\ l' = l + 1

TSpec == TInit /\ [][TStep]_<<l, ncanon, nbad>>

TraceAccepted ==
  LET d == TLCGet("stats").diameter IN
  IF d = Len(Rec) THEN TRUE
  ELSE PrintT(<<"TRACE-REJECTED", "processed", d - 1, "of", Len(Rec) - 1>>) /\ FALSE
=============================================================================
