SPECIFICATION TSpec
CONSTANTS
  FIXED = TRUE
POSTCONDITION TraceAccepted
CHECK_DEADLOCK FALSE
