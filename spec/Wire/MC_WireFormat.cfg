SPECIFICATION Spec
CONSTANTS
  FIXED = TRUE
  THOROUGH = FALSE
  GEN = FALSE
  PaySizes = {0, 1, 2, 3, 7, 8, 9, 1231, 1232, 1233, 65527, 65528, 65535, 65536, 131072}
INVARIANTS Emit InvNoSilentTruncation InvSizeAnnounced InvClosedForm InvSelfCanonical
CHECK_DEADLOCK FALSE
