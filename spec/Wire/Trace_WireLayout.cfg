SPECIFICATION TSpec
CONSTANTS
  VARIANT = "code"
POSTCONDITION TraceAccepted
CHECK_DEADLOCK FALSE
