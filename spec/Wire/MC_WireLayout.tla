--------------------------- MODULE MC_WireLayout ---------------------------
(* Enumeration of the decision structure of WireLayout as a factored product    *)
(* (DESIGN.md 7/C02): factors that cannot interact in the size computation are  *)
(* not crossed; every factor is crossed with every truncation point that        *)
(* changes an outcome (each sub-extent boundary +-1, and length 0).             *)
(* One initial state per group, one successor per vector; GEN prints            *)
(*   <<"VEC", json [v |-> vector, o |-> expected outcome]>>.                    *)
(* A vector is a packet descriptor plus what the byte-string builder needs:     *)
(*   c     offset at which the builder puts the upper-layer header (the nominal *)
(*         header size computed from nibbles / path type / segment lengths)     *)
(*   ci,ch pointer values of the path meta header, nh next-header byte          *)
(*   pairs TRUE: run accessor/mutator SEQUENCES on this vector, not only singles*)
EXTENDS WireLayout, Json, TLC

CONSTANTS THOROUGH, GEN

VARIABLES grp, cur
NONE == [k |-> "none"]

Nominal(dn, sn, pt, s0, s1, s2, unk) ==
  28 + NibLen(dn) + NibLen(sn) +
  (CASE pt = 0 -> 0 [] pt = 1 -> StdPathSize(s0, s1, s2) [] pt = 2 -> 32 [] OTHER -> unk)

(* a packet vector with consistent length fields: header c, payload p bytes *)
V(dn, sn, pt, s0, s1, s2, unk, nh, p) ==
  LET c == Nominal(dn, sn, pt, s0, s1, s2, unk) IN
  [k |-> "pkt", ver |-> 0, dn |-> dn, sn |-> sn, pt |-> pt, hl |-> Min2(c \div 4, 255), pl |-> p,
   s0 |-> s0, s1 |-> s1, s2 |-> s2, ci |-> 0, ch |-> 0, nh |-> nh, ul |-> p, st |-> 128,
   c |-> c, len |-> c + p, pairs |-> FALSE]

Desc(v) == [len |-> v.len, ver |-> v.ver, hl |-> v.hl, pl |-> v.pl, pt |-> v.pt, dn |-> v.dn, sn |-> v.sn,
            s0 |-> v.s0, s1 |-> v.s1, s2 |-> v.s2, ul |-> v.ul, st |-> v.st]

(* truncation points: every boundary of a sub-extent, +-1, and 0; plus slack after the end *)
Bounds(v) ==
  LET a == 28 + NibLen(v.dn) + NibLen(v.sn)
      ic == IF v.pt = 1 THEN a + 4 + 8 * InfoCount(v.s0, v.s1, v.s2) ELSE a
      l4 == CASE v.nh = 17 -> {v.c + 8}
              [] v.nh = 202 -> {v.c + 4, v.c + 8, v.c + 20, v.c + 24, v.c + 28}
              [] OTHER -> {}
  IN {0, 12, a, a + 4, ic, v.c, v.hl * 4, v.c + v.pl, v.c + v.ul} \cup l4
Truncs(v) == {x \in UNION {{b - 1, b, b + 1} : b \in Bounds(v)} : x >= 0 /\ x <= v.c + 70000}
Cut(v, n) == [v EXCEPT !.len = n, !.pairs = FALSE]     \* sequences only on the full-length vector
WithTruncs(v) == {Cut(v, n) : n \in {x \in Truncs(v) : x <= v.c + v.pl + 1}} \cup {v}

PathTypes == {0, 1, 2, 3, 4, 200}
Nibs == 0..15
KeyNibs == {0, 3, 4, 5, 15}       \* IPv4, IPv6, SVC, an unknown 8-byte type, an unknown 16-byte type

(* (i) all 16 x 16 nibble pairs x path types, UDP payload of 8 bytes; x truncation points *)
GNib(dn) == UNION {WithTruncs([V(dn, sn, pt, 2, 0, 0, 8, 17, 8) EXCEPT !.pairs = (dn \in KeyNibs /\ sn \in KeyNibs)]) :
                     sn \in Nibs, pt \in (IF THOROUGH THEN PathTypes ELSE {0, 1, 2, 200})}

(* (ii) standard path: segment-length triples over boundary values x three address pairs *)
SegVals == IF THOROUGH THEN {0, 1, 2, 31, 62, 63} ELSE {0, 1, 2, 63}
GSeg(s0) == UNION {WithTruncs(V(a[1], a[2], 1, s0, s1, s2, 0, 6, 4)) :
                     s1 \in SegVals, s2 \in SegVals, a \in {<<0, 0>>, <<3, 4>>, <<15, 9>>}}

(* (iii) header-length field off by one / 0 / 255 *)
GHl == UNION {UNION {WithTruncs([v EXCEPT !.hl = h]) :
                       h \in {x \in {(v.c \div 4) - 1, v.c \div 4, (v.c \div 4) + 1, 0, 1, 3, 9, 254, 255} : x >= 0 /\ x <= 255}}
              : v \in {V(a[1], a[2], pt, 2, 1, 0, 12, 17, 9) : a \in {<<0, 0>>, <<3, 3>>, <<6, 13>>}, pt \in PathTypes}}

(* (iv) current-hop / current-info pointers (full length, sequences on) *)
Shapes == {<<1, 0, 0>>, <<2, 0, 0>>, <<2, 3, 0>>, <<1, 1, 1>>, <<2, 0, 2>>, <<0, 2, 0>>, <<0, 0, 0>>, <<63, 0, 0>>}
GPtr == UNION {{[V(0, 3, 1, s[1], s[2], s[3], 0, 17, 8) EXCEPT !.ci = ci, !.ch = ch, !.pairs = (s[1] # 63)] :
                  ci \in 0..3, ch \in {0, 1, s[1], (s[1] + s[2] + s[3]) - 1, s[1] + s[2] + s[3], 63} \cap 0..63}
               : s \in Shapes}
        \cup {[V(dn, 0, 2, 0, 0, 0, 0, 17, 8) EXCEPT !.pairs = TRUE] : dn \in {0, 3}}

(* (v) payload-length / UDP-length fields and SCMP types x payload sizes *)
GLen == UNION {UNION {WithTruncs([v EXCEPT !.pl = p, !.ul = u, !.pairs = (p = 12 /\ u \in {7, 8, 12})]) :
                        p \in {0, 7, 8, 11, 12, 13, 65535}, u \in {0, 7, 8, 11, 12, 13, 65535}}
               : v \in {V(0, 0, 0, 0, 0, 0, 0, 17, 12), V(3, 4, 1, 1, 1, 0, 0, 17, 12)}}
ScmpTypes == {1, 2, 4, 5, 6, 128, 129, 130, 131, 0, 99, 255}
GScmp == UNION {WithTruncs([V(0, 3, pt, 2, 0, 0, 4, 202, p) EXCEPT !.st = t, !.pairs = (pt = 0)]) :
                  t \in ScmpTypes,
                  p \in (IF THOROUGH THEN {0, 3, 4, 7, 8, 9, 19, 20, 21, 23, 24, 25, 27, 28, 29, 40} ELSE {0, 3, 4, 7, 8, 19, 20, 23, 24, 27, 28, 40}),
                  pt \in (IF THOROUGH THEN {0, 1} ELSE {0})}

(* version nibble, other next headers, big payloads *)
GMisc == {[V(0, 0, 0, 0, 0, 0, 0, nh, 16) EXCEPT !.ver = ver] : ver \in {0, 1, 15}, nh \in {0, 6, 17, 43, 201, 202, 203, 255}}
         \cup UNION {WithTruncs(V(3, 3, pt, 3, 0, 0, 8, nh, p)) : pt \in {0, 1, 2, 200}, nh \in {17, 202}, p \in {1232, 65535}}

(* (vi) SCMP error messages whose quote is itself a valid SCION/UDP or SCION/SCMP packet: every quote prefix length  *)
(* and every cut of the outer buffer.  The outer packet is IPv4/IPv4, empty path (36 bytes); `quote` describes the     *)
(* inner packet: q = quoted bytes written, c = inner header size, pl/ul = inner length fields, t = inner total size.    *)
Inner(dn, sn, pt, nh) ==
  LET c == Nominal(dn, sn, pt, 2, 0, 0, 0) IN
  [dn |-> dn, sn |-> sn, pt |-> pt, s0 |-> 2, nh |-> nh, c |-> c, pl |-> 12, ul |-> 12, t |-> c + 12, q |-> c + 12]
QuoteVec(st, inner, q, opl, len) ==
  [V(0, 0, 0, 0, 0, 0, 0, 202, opl) EXCEPT !.st = st, !.ul = 0, !.len = len] @@ [quote |-> [inner EXCEPT !.q = q]]
Inners == {Inner(a[1], a[2], pt, nh) :
             a \in (IF THOROUGH THEN {<<0, 0>>, <<3, 4>>, <<15, 9>>} ELSE {<<0, 0>>}),
             pt \in {0, 1, 2}, nh \in (IF THOROUGH THEN {17, 202, 6} ELSE {17, 202})}
GQuote(st) ==
  LET f == ScmpErrFixed(st) IN
  UNION {    \* (A) every quote prefix length, outer length fields consistent with it
           {QuoteVec(st, inn, q, f + q, 36 + f + q) : q \in 0..inn.t}
             \* (B) the full quote announced, the outer buffer cut at every length from the SCMP header on
        \cup {QuoteVec(st, inn, inn.t, f + inn.t, len) : len \in 36..(36 + f + inn.t)}
        : inn \in Inners}

(* stand-alone views: [k, len, fields] *)
GAlone ==
  UNION {{[k |-> "stdpath", len |-> n, s0 |-> s[1], s1 |-> s[2], s2 |-> s[3], ci |-> s[1] % 4, ch |-> s[2], pairs |-> TRUE] :
            n \in UNION {{0, 3, 4, 5, b - 1, b, b + 1, b + 7} : b \in {StdPathSize(s[1], s[2], s[3])}}}
         : s \in {<<0, 0, 0>>, <<1, 0, 0>>, <<2, 2, 0>>, <<1, 1, 1>>, <<0, 3, 1>>}}
  \cup {[k |-> "onehop", len |-> n, pairs |-> TRUE] : n \in {0, 8, 20, 31, 32, 33, 40}}
  \cup {[k |-> "info", len |-> n, pairs |-> TRUE] : n \in {0, 7, 8, 9}}
  \cup {[k |-> "hop", len |-> n, pairs |-> TRUE] : n \in {0, 11, 12, 13}}
  \cup {[k |-> "udpd", len |-> n, ul |-> u, pairs |-> TRUE] : n \in {0, 7, 8, 9, 20}, u \in {0, 7, 8, 9, 19, 20, 21, 65535}}
  \cup {[k |-> "scmpm", len |-> n, st |-> t, pairs |-> TRUE] :
          t \in ScmpTypes, n \in {0, 3, 4, 7, 8, 9, 19, 20, 21, 23, 24, 25, 27, 28, 29, 40}}

GroupIds == {<<"nib", n>> : n \in Nibs} \cup {<<"seg", s>> : s \in SegVals} \cup {<<"quote", st>> : st \in {1, 2, 4, 5, 6}}
            \cup {<<"hl", 0>>, <<"ptr", 0>>, <<"len", 0>>, <<"scmp", 0>>, <<"misc", 0>>, <<"alone", 0>>}
GroupOf(g) ==
  CASE g[1] = "nib" -> GNib(g[2]) [] g[1] = "seg" -> GSeg(g[2]) [] g[1] = "hl" -> GHl
    [] g[1] = "ptr" -> GPtr [] g[1] = "len" -> GLen [] g[1] = "scmp" -> GScmp [] g[1] = "quote" -> GQuote(g[2])
    [] g[1] = "misc" -> GMisc [] OTHER -> GAlone

Init == grp \in GroupIds /\ cur = NONE
Next == /\ cur = NONE
        /\ \E v \in GroupOf(grp) : cur' = v
        /\ grp' = <<"done", 0>>
Spec == Init /\ [][Next]_<<grp, cur>>

IsVec == cur # NONE
(* descriptor of the quote as the SCMP view hands it out: the bytes after the fixed part, as far as present *)
QuoteDesc(v) ==
  LET f == ScmpErrFixed(v.st)
      o == PktOutcome(Desc(v))
      avail == IF o.scmp.ok THEN Min2(v.quote.q, Max2(o.scmpm - f, 0)) ELSE 0
  IN [len |-> avail, ver |-> 0, hl |-> v.quote.c \div 4, pl |-> v.quote.pl, pt |-> v.quote.pt, dn |-> v.quote.dn, sn |-> v.quote.sn,
      s0 |-> v.quote.s0, s1 |-> 0, s2 |-> 0, ul |-> v.quote.ul, st |-> 128]
Outcome(v) ==
  CASE v.k = "pkt" /\ "quote" \in DOMAIN v ->
         PktOutcome(Desc(v)) @@ [dport |-> PktOutcome(Desc(v)).scmp.ok /\ QuoteHasPort(QuoteDesc(v), v.quote.nh)]
    [] v.k = "pkt"     -> PktOutcome(Desc(v))
    [] v.k = "stdpath" -> [view |-> StdPathLayout(v.len, v.s0, v.s1, v.s2)]
    [] v.k = "onehop"  -> [view |-> FixedLayout(v.len, 32)]
    [] v.k = "info"    -> [view |-> FixedLayout(v.len, 8)]
    [] v.k = "hop"     -> [view |-> FixedLayout(v.len, 12)]
    [] v.k = "udpd"    -> [view |-> UdpDgramLayout(v.len, v.ul)]
    [] OTHER           -> [view |-> ScmpMsgLayout(v.len, v.st)]

Emit == (GEN /\ IsVec) => PrintT(<<"VEC", ToJson([v |-> cur, o |-> Outcome(cur)])>>)

(* P-layer on the I-layer: every decision of the transcribed layout keeps the view inside the input *)
InvSafe == IsVec => IF cur.k = "pkt" THEN PktSafe(Desc(cur)) ELSE SizeWithinInput(cur.len, Outcome(cur).view)
=============================================================================
