----------------------------- MODULE WireFormat -----------------------------
(* Reference implementation of the SCION packet wire format, written from the  *)
(* SCION header specification (docs.scion.org "SCION Header Specification",     *)
(* draft-dekater-scion-dataplane, SCMP specification), NOT from sciparse:       *)
(* it shares no layout table with the code under test.                          *)
(*                                                                              *)
(* P-layer (the property C03 is stated with these):                             *)
(*   Encode(m)         byte sequence of a packet model m                        *)
(*   Representable(m)  m has a wire form (every field fits its wire field)      *)
(*   Canonical(bytes)  bytes is the canonical encoding of some packet           *)
(* I-layer (shaped like sciparse, bound to it by replay):                       *)
(*   ImplWireValid(m)  transcription of the wire_valid() chain                  *)
(*   ImplLenFields(m)  the length fields the encoder writes                     *)
(*   FIXED = FALSE reproduces the pinned tree (no size checks, `as u16` wrap)   *)
(*                                                                              *)
(* A packet model is a record                                                   *)
(*   [tc, flow, nh, dia, sia, dst, src, path, pl]                               *)
(*   dia/sia : 8 bytes (ISD 16 bit | AS 48 bit)                                 *)
(*   dst/src : [k:"v4",b:4 bytes] [k:"v6",b:16 bytes] [k:"svc",v:0..65535]      *)
(*             [k:"unk",id:type number,b:bytes]                                 *)
(*   path    : [k:"empty"] [k:"onehop",info,hops:<<h,h>>]                       *)
(*             [k:"std",ci,ch,segs:<<[info,hops]..>>] [k:"uns",t,data]          *)
(*     info = [flags,segid,ts:4 bytes]  hop = [flags,exp,in,eg,mac:6 bytes]     *)
(*   pl      : [k:"raw",n,pat] [k:"udp",sp,dp,n,pat]                            *)
(*             [k:"scmp",t:kind,...,n,pat]  (n,pat) = n bytes repeating pat     *)
(*             so that the checksum has a closed form in 32-bit arithmetic.     *)
EXTENDS Integers, Sequences, FiniteSets

CONSTANT FIXED      \* TRUE: encoder with range checks (after the fix); FALSE: pinned tree

-----------------------------------------------------------------------------
(* generic helpers *)
Min2(a, b) == IF a < b THEN a ELSE b
B16(v) == <<(v \div 256) % 256, v % 256>>
B32(v) == <<(v \div 16777216) % 256, (v \div 65536) % 256, (v \div 256) % 256, v % 256>>
Zeros(n) == [i \in 1..n |-> 0]
PatSeq(n, pat) == [i \in 1..n |-> pat[((i - 1) % Len(pat)) + 1]]

RECURSIVE Flat(_)
Flat(ss) == IF ss = <<>> THEN <<>> ELSE Head(ss) \o Flat(Tail(ss))

(* ones-complement arithmetic on representatives 0..65535 (0 only for the empty sum) *)
OC(x) == IF x = 0 THEN 0 ELSE ((x - 1) % 65535) + 1
OCMul(k, w) ==      \* OC(k * w) without leaving 31 bits; k <= 65535
  LET w1 == OC(w)
      hi == OC((k \div 256) * OC(256 * w1))
      lo == OC((k % 256) * w1)
  IN OC(hi + lo)

(* sum of big-endian 16-bit words of an explicit byte sequence (odd tail padded with 0) *)
WordSum(bs) ==
  LET n == Len(bs)
      W[i \in 0..(n \div 2)] ==
        IF i = 0 THEN 0 ELSE OC(W[i - 1] + bs[2 * i - 1] * 256 + bs[2 * i])
  IN IF n % 2 = 0 THEN W[n \div 2] ELSE OC(W[n \div 2] + bs[n] * 256)

(* the same sum for n bytes of repeating pattern pat, in closed form *)
PatSum(n, pat) ==
  LET g == pat \o pat
      G == Len(g)
  IN OC(OCMul(n \div G, WordSum(g)) + WordSum(PatSeq(n % G, pat)))

Cksum(sum) == 65535 - OC(sum)

-----------------------------------------------------------------------------
(* host addresses: (type, length) nibble and bytes *)
AddrLen(a) == CASE a.k = "v4" -> 4 [] a.k = "v6" -> 16 [] a.k = "svc" -> 4 [] OTHER -> Len(a.b)
AddrT(a)   == CASE a.k = "v4" -> 0 [] a.k = "v6" -> 0 [] a.k = "svc" -> 1 [] OTHER -> a.id
AddrNib(a) == (AddrT(a) % 4) * 4 + (((AddrLen(a) \div 4) + 3) % 4)
AddrBytes(a) == CASE a.k = "svc" -> B16(a.v) \o <<0, 0>> [] OTHER -> a.b

AddrRepresentable(a) ==
  CASE a.k = "v4"  -> Len(a.b) = 4
    [] a.k = "v6"  -> Len(a.b) = 16
    [] a.k = "svc" -> a.v \in 0..65535
    [] OTHER -> /\ a.id \in 0..3
                /\ Len(a.b) \in {4, 8, 12, 16}
                \* an "unknown" address whose (type,len) code IS a known type has no wire form of
                \* its own: its bytes would be read back as that known type
                /\ <<a.id, Len(a.b)>> \notin {<<0, 4>>, <<0, 16>>, <<1, 4>>}

-----------------------------------------------------------------------------
(* paths *)
InfoBytes(I) == <<I.flags, 0>> \o B16(I.segid) \o I.ts
HopBytes(h)  == <<h.flags, h.exp>> \o B16(h.in) \o B16(h.eg) \o h.mac

SegLen(p, i) == IF i <= Len(p.segs) THEN Len(p.segs[i].hops) ELSE 0

PathTypeOf(p) == CASE p.k = "empty" -> 0 [] p.k = "std" -> 1 [] p.k = "onehop" -> 2 [] OTHER -> p.t

PathBytes(p) ==
  CASE p.k = "empty"  -> <<>>
    [] p.k = "onehop" -> InfoBytes(p.info) \o HopBytes(p.hops[1]) \o HopBytes(p.hops[2])
    [] p.k = "std"    ->
         LET lens == (SegLen(p, 1) % 64) * 4096 + (SegLen(p, 2) % 64) * 64 + (SegLen(p, 3) % 64)
         IN  <<(p.ci % 4) * 64 + (p.ch % 64), lens \div 65536, (lens \div 256) % 256, lens % 256>>
             \o Flat([i \in 1..Len(p.segs) |-> InfoBytes(p.segs[i].info)])
             \o Flat([i \in 1..Len(p.segs) |-> Flat([j \in 1..Len(p.segs[i].hops) |-> HopBytes(p.segs[i].hops[j])])])
    [] OTHER -> p.data

(* growth (DESIGN.md 6.6): reversal of a one-hop path.  The model upgrades it to a standard path with   *)
(* one segment (second hop first, construction-direction flag flipped, pointers 0); the view reverses  *)
(* in place and stays a one-hop path.  Defined only once the second hop field has been filled in.      *)
FlipC(flags) == IF flags % 2 = 1 THEN flags - 1 ELSE flags + 1
OneHopReversible(p) == p.hops[2].in # 0
OneHopUpgraded(p) == [k |-> "std", ci |-> 0, ch |-> 0,
                      segs |-> <<[info |-> [p.info EXCEPT !.flags = FlipC(@)], hops |-> <<p.hops[2], p.hops[1]>>]>>]
OneHopReversedInPlace(p) == [p EXCEPT !.info.flags = FlipC(@), !.hops = <<p.hops[2], p.hops[1]>>]

PathSize(p) ==
  CASE p.k = "empty"  -> 0
    [] p.k = "onehop" -> 32
    [] p.k = "std"    -> 4 + 8 * Len(p.segs) + 12 * (SegLen(p, 1) + SegLen(p, 2) + SegLen(p, 3))
    [] OTHER -> Len(p.data)

PathRepresentable(p) ==
  CASE p.k = "empty"  -> TRUE
    [] p.k = "onehop" -> TRUE
    [] p.k = "std"    -> /\ Len(p.segs) \in 1..3
                         /\ \A i \in 1..Len(p.segs) : Len(p.segs[i].hops) \in 1..63
                         /\ p.ci \in 0..3 /\ p.ch \in 0..63
    [] OTHER -> /\ p.t \in 0..255 /\ p.t \notin {0, 1, 2}   \* would be read back as that path type
                /\ Len(p.data) % 4 = 0

-----------------------------------------------------------------------------
(* upper layer *)
ScmpErrKinds == {"du", "ptb", "pp", "eid", "icd"}
ScmpTypeNo(pl) ==
  CASE pl.t = "du" -> 1 [] pl.t = "ptb" -> 2 [] pl.t = "pp" -> 4 [] pl.t = "eid" -> 5 [] pl.t = "icd" -> 6
    [] pl.t = "ereq" -> 128 [] pl.t = "erep" -> 129 [] pl.t = "treq" -> 130 [] pl.t = "trep" -> 131
    [] OTHER -> pl.mtype
ScmpKnownTypeNos == {1, 2, 4, 5, 6, 128, 129, 130, 131}
ScmpFixed(pl) ==    \* bytes of the SCMP message before the variable part
  CASE pl.t = "du" -> 8 [] pl.t = "ptb" -> 8 [] pl.t = "pp" -> 8 [] pl.t = "eid" -> 20 [] pl.t = "icd" -> 28
    [] pl.t = "ereq" -> 8 [] pl.t = "erep" -> 8 [] pl.t = "treq" -> 24 [] pl.t = "trep" -> 24
    [] OTHER -> 4
ScmpMaxPacket == 1232

L4Proto(pl) == CASE pl.k = "udp" -> 17 [] pl.k = "scmp" -> 202 [] OTHER -> 0

(* number of pattern bytes that go on the wire after the upper-layer header *)
BodyLen(pl, hdr) ==
  CASE pl.k = "raw" -> pl.n
    [] pl.k = "udp" -> pl.n
    [] OTHER -> IF pl.t \in ScmpErrKinds
                THEN LET room == ScmpMaxPacket - hdr - ScmpFixed(pl)
                     IN  IF room < 0 THEN 0 ELSE Min2(pl.n, room)
                ELSE IF pl.t \in {"treq", "trep"} THEN 0 ELSE pl.n
L4HeadLen(pl) == CASE pl.k = "raw" -> 0 [] pl.k = "udp" -> 8 [] OTHER -> ScmpFixed(pl)
L4Len(pl, hdr) == L4HeadLen(pl) + BodyLen(pl, hdr)

(* upper-layer header with the given checksum value *)
L4Head(pl, hdr, ck) ==
  CASE pl.k = "raw" -> <<>>
    [] pl.k = "udp" -> B16(pl.sp) \o B16(pl.dp) \o B16(L4Len(pl, hdr) % 65536) \o B16(ck)
    [] OTHER ->
       <<ScmpTypeNo(pl), pl.code>> \o B16(ck) \o
       ( CASE pl.t = "du"  -> <<0, 0, 0, 0>>
           [] pl.t = "ptb" -> <<0, 0>> \o B16(pl.mtu)
           [] pl.t = "pp"  -> <<0, 0>> \o B16(pl.ptr)
           [] pl.t = "eid" -> pl.ia \o pl.ifid
           [] pl.t = "icd" -> pl.ia \o pl.ifid \o pl.ifid2
           [] pl.t \in {"ereq", "erep"} -> B16(pl.id) \o B16(pl.seq)
           [] pl.t \in {"treq", "trep"} -> B16(pl.id) \o B16(pl.seq) \o pl.ia \o pl.ifid
           [] OTHER -> <<>> )

-----------------------------------------------------------------------------
(* the packet *)
HdrSize(m) == 12 + 16 + AddrLen(m.dst) + AddrLen(m.src) + PathSize(m.path)

PseudoSum(m) ==
  LET hdr == HdrSize(m) IN
  OC( WordSum(m.dia) + WordSum(m.sia) + WordSum(AddrBytes(m.dst)) + WordSum(AddrBytes(m.src))
      + WordSum(B32(L4Len(m.pl, hdr))) + L4Proto(m.pl) )

Checksum(m) ==
  LET hdr == HdrSize(m) IN
  Cksum( PseudoSum(m) + WordSum(L4Head(m.pl, hdr, 0)) + PatSum(BodyLen(m.pl, hdr), m.pl.pat) )

HeaderBytes(m) ==
  LET hdr == HdrSize(m)
      pay == L4Len(m.pl, hdr)
  IN  <<(m.tc \div 16) % 16,                                  \* version 0 | TC high nibble
        (m.tc % 16) * 16 + ((m.flow \div 65536) % 16),           \* TC low nibble | flow 19..16
        (m.flow \div 256) % 256, m.flow % 256,
        m.nh, (hdr \div 4) % 256>> \o B16(pay % 65536)
      \o <<PathTypeOf(m.path) % 256, AddrNib(m.dst) * 16 + AddrNib(m.src), 0, 0>>
      \o m.dia \o m.sia \o AddrBytes(m.dst) \o AddrBytes(m.src)
      \o PathBytes(m.path)

(* everything up to the first pattern byte *)
PktHead(m) == HeaderBytes(m) \o L4Head(m.pl, HdrSize(m), IF m.pl.k = "raw" THEN 0 ELSE Checksum(m))
Encode(m) == PktHead(m) \o PatSeq(BodyLen(m.pl, HdrSize(m)), m.pl.pat)
EncodedSize(m) == HdrSize(m) + L4Len(m.pl, HdrSize(m))

PayloadRepresentable(pl, hdr) ==
  /\ L4Len(pl, hdr) <= 65535                    \* PayloadLen is 16 bits; UDP Length is 16 bits
  /\ pl.k = "udp" => (pl.sp \in 0..65535 /\ pl.dp \in 0..65535)
  /\ (pl.k = "scmp" /\ pl.t = "unk") => pl.mtype \notin ScmpKnownTypeNos

Representable(m) ==
  /\ m.tc \in 0..255 /\ m.flow \in 0..1048575 /\ m.nh \in 0..255
  /\ AddrRepresentable(m.dst) /\ AddrRepresentable(m.src)
  /\ PathRepresentable(m.path)
  /\ HdrSize(m) % 4 = 0 /\ HdrSize(m) <= 1020   \* HdrLen is 8 bits in units of 4 bytes
  /\ PayloadRepresentable(m.pl, HdrSize(m))

(* which wire field overflows (names the finding class) *)
Unrep(m) ==
  LET hdr == HdrSize(m) IN
  CASE m.flow > 1048575 -> "flow"
    [] ~AddrRepresentable(m.dst) \/ ~AddrRepresentable(m.src) -> "addr"
    [] ~PathRepresentable(m.path) -> "path"
    [] hdr % 4 # 0 \/ hdr > 1020 -> "hdrlen"
    [] m.pl.k = "udp" /\ L4Len(m.pl, hdr) > 65535 -> "udplen"
    [] L4Len(m.pl, hdr) > 65535 -> "paylen"
    [] OTHER -> "scmptype"

-----------------------------------------------------------------------------
(* I-layer: transcription of sciparse's wire_valid chain                      *)
(* (ScionPacket::wire_valid -> ScionPacketHeader::wire_valid -> CommonHeader:: *)
(*  valid, AddressHeader, DpPath, payload) and of the fields encode writes.    *)
ImplAddrValid(a) == a.k # "unk" \/ (Len(a.b) # 0 /\ Len(a.b) % 4 = 0 /\ Len(a.b) <= 16
                                     /\ (FIXED => AddrRepresentable(a)))
ImplPathValid(p) ==
  /\ PathSize(p) <= 984
  /\ CASE p.k = "std" -> /\ Len(p.segs) \in 1..3
                         /\ p.ch < SegLen(p, 1) + SegLen(p, 2) + SegLen(p, 3)
                         /\ (FIXED => p.ch <= 63)
                         /\ (FIXED => SegLen(p, 1) + SegLen(p, 2) + SegLen(p, 3) <= 64)
                         /\ p.ci < Len(p.segs)
                         /\ \A i \in 1..Len(p.segs) : Len(p.segs[i].hops) \in 1..63
       [] p.k = "uns" -> Len(p.data) % 4 = 0 /\ (FIXED => p.t \notin {0, 1, 2})
       [] OTHER -> TRUE
ImplWireValid(m) ==
  /\ HdrSize(m) % 4 = 0 /\ HdrSize(m) <= 1020
  /\ m.flow <= 1048575
  /\ ImplAddrValid(m.dst) /\ ImplAddrValid(m.src)
  /\ ImplPathValid(m.path)
  /\ FIXED => PayloadRepresentable(m.pl, HdrSize(m))   \* ScionPacket / UdpDatagram / ScmpMessageUnknown::wire_valid

(* <<HdrLen field, PayloadLen field, UDP Length field or -1>> as written by the encoder *)
ImplLenFields(m) ==
  LET hdr == HdrSize(m) IN
  <<(hdr \div 4) % 256, L4Len(m.pl, hdr) % 65536, IF m.pl.k = "udp" THEN (8 + m.pl.n) % 65536 ELSE -1>>
SpecLenFields(m) ==
  LET hdr == HdrSize(m) IN
  <<hdr \div 4, L4Len(m.pl, hdr), IF m.pl.k = "udp" THEN L4Len(m.pl, hdr) ELSE -1>>

(* P-invariants over a model m (checked by TLC on every enumerated model) *)
NoSilentTruncation(m) == ImplWireValid(m) => (Representable(m) /\ ImplLenFields(m) = SpecLenFields(m))
SizeAnnounced(m)      == Representable(m) => Len(PktHead(m)) + BodyLen(m.pl, HdrSize(m)) = EncodedSize(m)

-----------------------------------------------------------------------------
(* Canonical(bytes): consistent length fields, zero reserved bits, no trailing bytes, valid     *)
(* checksum; level "raw" looks at the SCION header only, "udp"/"scmp" also at the upper layer.  *)
Sub(bs, from, n) == [i \in 1..n |-> bs[from + i - 1]]     \* n bytes starting at 1-based index from
U16(bs, i) == bs[i] * 256 + bs[i + 1]

NibLen(nib) == ((nib % 4) + 1) * 4
CanonAddr(nib, b) ==   \* service addresses carry 16 zero padding bits
  (nib = 4) => (b[3] = 0 /\ b[4] = 0)

CanonStdPath(bs, off, plen) ==     \* off = 0-based offset of the path, plen = its length
  /\ plen >= 4
  /\ LET ci == bs[off + 1] \div 64
         ch == bs[off + 1] % 64
         v  == bs[off + 2] * 65536 + bs[off + 3] * 256 + bs[off + 4]
         rsv == v \div 262144
         s0 == (v \div 4096) % 64
         s1 == (v \div 64) % 64
         s2 == v % 64
         nseg == IF s2 > 0 THEN 3 ELSE IF s1 > 0 THEN 2 ELSE IF s0 > 0 THEN 1 ELSE 0
         nhop == s0 + s1 + s2
     IN /\ rsv = 0
        /\ s0 > 0 /\ (s2 > 0 => s1 > 0)
        /\ plen = 4 + 8 * nseg + 12 * nhop
        /\ ci < nseg /\ ch < nhop
        /\ nhop <= 64          \* CurrHF is 6 bits: hop fields past index 63 could never be current
        /\ \A i \in 0..(nseg - 1) : /\ bs[off + 4 + 8 * i + 1] < 4      \* info flags: only C, P
                                    /\ bs[off + 4 + 8 * i + 2] = 0      \* info RSV
        /\ \A j \in 0..(nhop - 1) : bs[off + 4 + 8 * nseg + 12 * j + 1] < 4   \* hop flags: only I, E

CanonOneHop(bs, off, plen) ==
  /\ plen = 32
  /\ bs[off + 1] < 4 /\ bs[off + 2] = 0
  /\ bs[off + 9] < 4 /\ bs[off + 21] < 4

CanonicalHeader(bs) ==
  /\ Len(bs) >= 12
  /\ bs[1] \div 16 = 0                                   \* version
  /\ bs[11] = 0 /\ bs[12] = 0                            \* RSV
  /\ LET hdr == bs[6] * 4
         dn == bs[10] \div 16
         sn == bs[10] % 16
         dl == NibLen(dn)
         sl == NibLen(sn)
         poff == 28 + dl + sl
     IN /\ hdr >= poff /\ Len(bs) >= hdr
        /\ Len(bs) = hdr + U16(bs, 7)                    \* exactly header + PayloadLen bytes
        /\ CanonAddr(dn, Sub(bs, 29, dl)) /\ CanonAddr(sn, Sub(bs, 29 + dl, sl))
        /\ CASE bs[9] = 0 -> hdr = poff
             [] bs[9] = 1 -> CanonStdPath(bs, poff, hdr - poff)
             [] bs[9] = 2 -> CanonOneHop(bs, poff, hdr - poff)
             [] OTHER -> TRUE

PseudoSumBytes(bs, proto) ==
  LET hdr == bs[6] * 4
      dl == NibLen(bs[10] \div 16)
      sl == NibLen(bs[10] % 16)
  IN OC(WordSum(Sub(bs, 13, 16 + dl + sl)) + WordSum(B32(Len(bs) - hdr)) + proto)
L4ChecksumOK(bs, proto) ==
  LET hdr == bs[6] * 4
  IN OC(PseudoSumBytes(bs, proto) + WordSum(Sub(bs, hdr + 1, Len(bs) - hdr))) = 65535

CanonicalUdp(bs) ==
  /\ CanonicalHeader(bs)
  /\ LET hdr == bs[6] * 4
         pay == Len(bs) - hdr
     IN /\ pay >= 8 /\ U16(bs, hdr + 5) = pay
        /\ L4ChecksumOK(bs, 17)

CanonicalScmp(bs) ==
  /\ CanonicalHeader(bs)
  /\ LET hdr == bs[6] * 4
         pay == Len(bs) - hdr
     IN /\ pay >= 4
        /\ LET t == bs[hdr + 1] IN
           \* Code is fixed to 0 by the SCMP specification for every type except 1 and 4;
           \* a traceroute request carries zero placeholders for ISD-AS and interface
           CASE t = 1 -> pay >= 8 /\ Len(bs) <= ScmpMaxPacket /\ Sub(bs, hdr + 5, 4) = <<0, 0, 0, 0>>
             [] t = 2 -> pay >= 8 /\ Len(bs) <= ScmpMaxPacket /\ Sub(bs, hdr + 5, 2) = <<0, 0>> /\ bs[hdr + 2] = 0
             [] t = 4 -> pay >= 8 /\ Len(bs) <= ScmpMaxPacket /\ Sub(bs, hdr + 5, 2) = <<0, 0>>
             [] t = 5 -> pay >= 20 /\ Len(bs) <= ScmpMaxPacket /\ bs[hdr + 2] = 0
             [] t = 6 -> pay >= 28 /\ Len(bs) <= ScmpMaxPacket /\ bs[hdr + 2] = 0
             [] t \in {128, 129} -> pay >= 8 /\ bs[hdr + 2] = 0
             [] t = 130 -> pay = 24 /\ bs[hdr + 2] = 0 /\ Sub(bs, hdr + 9, 16) = Zeros(16)
             [] t = 131 -> pay = 24 /\ bs[hdr + 2] = 0
             [] OTHER -> TRUE
        /\ L4ChecksumOK(bs, 202)

Canonical(level, bs) ==
  CASE level = "udp" -> CanonicalUdp(bs)
    [] level = "scmp" -> CanonicalScmp(bs)
    [] OTHER -> CanonicalHeader(bs)
=============================================================================
