SPECIFICATION Spec
CONSTANTS
  VARIANT = "code"
  THOROUGH = FALSE
  GEN = TRUE
INVARIANTS Emit InvSafe
CHECK_DEADLOCK FALSE
