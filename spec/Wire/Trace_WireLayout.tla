-------------------------- MODULE Trace_WireLayout --------------------------
(* Trace validation for C02 (impl -> spec).  Every byte string that went through *)
(* the guard-page runner is logged with the descriptor an INDEPENDENT field      *)
(* extractor read from the bytes and with what the real view constructors        *)
(* reported.  TLC evaluates                                                      *)
(*   P-layer  (violation):  a reported size exceeds the input; a sub-extent      *)
(*            leaves its parent                                                  *)
(*   I-layer  (drift only): accept/reject and sizes equal WireLayout's decision  *)
(* Events: {"ev":"meta"} first, then                                             *)
(*   {"ev":"obs","i":n,"d":{len,ver,hl,pl,pt,dn,sn,s0,s1,s2,ul,st},              *)
(*    "obs":{"hdr":{ok,size},"raw":..,"udp":..,"scmp":..,"payload":n,...}}       *)
EXTENDS WireLayout, Json, IOUtils, TLC

Rec == ndJsonDeserialize(IOEnv.TRACE)

VARIABLES l, nacc, ndrift, nbad
TInit == l = 2 /\ nacc = 0 /\ ndrift = 0 /\ nbad = 0

Has(r, f) == f \in DOMAIN r
Fld(r, f, dflt) == IF Has(r, f) THEN r[f] ELSE dflt

(* P-layer on the observation *)
ObsSafe(d, o) ==
  /\ \A v \in {"hdr", "raw", "udp", "scmp"} : Has(o, v) => (o[v].ok => o[v].size <= d.len)
  /\ (Has(o, "raw") /\ o.raw.ok /\ Has(o, "payload") /\ Has(o, "hdrsize")) => o.hdrsize + o.payload <= o.raw.size
  /\ (Has(o, "udpd") /\ Has(o, "payload")) => o.udpd <= o.payload
  /\ (Has(o, "scmpm") /\ Has(o, "payload")) => o.scmpm <= o.payload

(* I-layer conformance *)
Same(x, y) == x.ok = y.ok /\ (x.ok => x.size = y.size)
Conforms(d, o) ==
  LET e == PktOutcome(d) IN
  /\ Has(o, "hdr") => Same(o.hdr, e.hdr)
  /\ Has(o, "raw") => Same(o.raw, e.raw)
  /\ Has(o, "udp") => Same(o.udp, e.udp)
  /\ Has(o, "scmp") => Same(o.scmp, e.scmp)
  /\ Has(o, "payload") => o.payload = e.payload
  /\ Has(o, "udpd") => o.udpd = e.udpd
  /\ Has(o, "scmpm") => o.scmpm = e.scmpm

TStep ==
  /\ l <= Len(Rec)
  /\ LET e == Rec[l]
         isobs == e.ev = "obs" /\ Has(e, "obs")
         safe == ~isobs \/ ObsSafe(e.d, e.obs)
         conf == ~isobs \/ Conforms(e.d, e.obs)
     IN /\ IF safe THEN TRUE ELSE PrintT(<<"UNSAFE", l>>)
        /\ IF conf THEN TRUE ELSE PrintT(<<"NONCONF", l, ToJson(PktOutcome(e.d))>>)
        /\ nbad' = nbad + (IF safe THEN 0 ELSE 1)
        /\ ndrift' = ndrift + (IF conf THEN 0 ELSE 1)
        /\ nacc' = nacc + (IF isobs /\ Has(e.obs, "hdr") /\ e.obs.hdr.ok THEN 1 ELSE 0)
        /\ IF l < Len(Rec) THEN TRUE ELSE PrintT(<<"TOTALS", Len(Rec) - 1, nacc', ndrift', nbad'>>)
  /\ l' = l + 1

TSpec == TInit /\ [][TStep]_<<l, nacc, ndrift, nbad>>

TraceAccepted ==
  LET dd == TLCGet("stats").diameter IN
  IF dd = Len(Rec) THEN TRUE
  ELSE PrintT(<<"TRACE-REJECTED", "processed", dd - 1, "of", Len(Rec) - 1>>) /\ FALSE
=============================================================================
