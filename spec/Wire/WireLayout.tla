----------------------------- MODULE WireLayout -----------------------------
(* Size functions of every sciparse view as a decision structure (C02).         *)
(*                                                                              *)
(* I-layer: one operator per View::has_required_size, each early return a named *)
(* outcome, in the order the code takes them:                                   *)
(*   HdrLayout    ScionHeaderLayout::try_from_slice   (ScionHeaderView)         *)
(*   RawLayout    ScionRawPacketView  (payload truncated to available bytes)    *)
(*   UdpLayout    ScionUdpPacketView  + UdpDatagramView sub-extent              *)
(*   ScmpLayout   ScionScmpPacketView + ScmpPayloadView sub-extent              *)
(*   StdPathLayout, OneHopLayout, FieldLayout, UdpDgramLayout, ScmpMsgLayout    *)
(*       the stand-alone views                                                  *)
(* P-layer: what C02 demands of ANY outcome, whatever the decision was:         *)
(*   SizeWithinInput(d, o)   o.ok => o.size <= d.len                            *)
(*   ExtentsNested(o)        sub-extents lie inside the reported size           *)
(* Which inputs are rejected is NOT fixed by the property: the decisions below  *)
(* are conformance only (DRIFT), the P-layer is evaluated on real observations. *)
(*                                                                              *)
(* A descriptor d holds the size-determining fields as an independent reader    *)
(* extracts them from the bytes (fields beyond the end of the buffer read 0):   *)
(*   len  buffer length        ver  version nibble   hl  HdrLen field (x4 bytes)*)
(*   pl   PayloadLen field     pt   path type        dn, sn  address nibbles    *)
(*   s0,s1,s2  segment lengths (pt = 1)              ul  UDP Length field       *)
(*   st   SCMP type byte                                                        *)
EXTENDS Integers, Sequences, FiniteSets

CONSTANT VARIANT   \* "code": the layout as transcribed; "noTotalCheck": a broken variant that drops the
                   \* buffer-size check of the whole header (oracle self-check: InvSafe must fail)

Min2(a, b) == IF a < b THEN a ELSE b
Max2(a, b) == IF a > b THEN a ELSE b

Err(c) == [ok |-> FALSE, err |-> c, size |-> 0]
Ok(n)  == [ok |-> TRUE, err |-> "", size |-> n]

(* host address length from the (type,length) nibble: IPv4 0000, IPv6 0011, SVC 0100 are the  *)
(* known codes, every other code still carries its length in the low two bits                  *)
NibLen(nib) == ((nib % 4) + 1) * 4
AddrEnd(d) == 12 + 16 + NibLen(d.dn) + NibLen(d.sn)

NonZero(x) == IF x > 0 THEN 1 ELSE 0
InfoCount(s0, s1, s2) == NonZero(s0) + NonZero(s1) + NonZero(s2)
StdPathSize(s0, s1, s2) == 4 + 8 * InfoCount(s0, s1, s2) + 12 * (s0 + s1 + s2)

(* ScionHeaderLayout::try_from_slice *)
HdrLayout(d) ==
  IF d.len < 12 THEN Err("CommonHeader")
  ELSE IF d.ver # 0 THEN Err("UnsupportedVersion")
  ELSE IF d.len < AddrEnd(d) THEN Err("AddressHeader")
  ELSE IF d.pt = 1 /\ d.len - AddrEnd(d) < 4 THEN Err("PathMeta")
  ELSE IF d.pt \notin {0, 1, 2} /\ d.hl * 4 < AddrEnd(d) THEN Err("path")
  ELSE LET psize == CASE d.pt = 0 -> 0
                      [] d.pt = 1 -> StdPathSize(d.s0, d.s1, d.s2)
                      [] d.pt = 2 -> 32
                      [] OTHER -> d.hl * 4 - AddrEnd(d)
           calc == AddrEnd(d) + psize
       IN IF VARIANT # "noTotalCheck" /\ calc > d.len THEN Err("TotalHeader")
          ELSE IF calc # d.hl * 4 THEN Err("InvalidHeaderLength")
          ELSE Ok(d.hl * 4)

(* ScionRawPacketView: header as above, packet = header + PayloadLen truncated to the buffer *)
RawLayout(d) ==
  LET h == HdrLayout(d) IN
  IF ~h.ok THEN h ELSE Ok(Min2(h.size + d.pl, d.len))

(* number of payload bytes the packet view hands out *)
PayloadAvail(d) == LET h == HdrLayout(d) IN Min2(d.pl, d.len - h.size)

(* UdpDatagramView::has_required_size on a buffer of n bytes with Length field ul *)
UdpDgramLayout(n, ul) ==
  IF n < 8 THEN Err("UdpHeader")
  ELSE IF ul < 8 THEN Err("UdpLength")
  ELSE Ok(Min2(n, ul))

UdpLayout(d) ==
  LET r == RawLayout(d) IN
  IF ~r.ok THEN r
  ELSE LET u == UdpDgramLayout(PayloadAvail(d), d.ul) IN
       IF ~u.ok THEN u ELSE Ok(r.size)

(* ScmpMessageLayout::try_from_slice on a buffer of n bytes with type byte st *)
ScmpMin(st) ==
  CASE st \in {1, 2, 4} -> 8 [] st = 5 -> 20 [] st = 6 -> 28 [] st \in {128, 129} -> 8
    [] st \in {130, 131} -> 24 [] OTHER -> 4
ScmpMsgLayout(n, st) ==
  IF n < 4 THEN Err("ScmpMessageHeader")
  ELSE IF n < ScmpMin(st) THEN Err("ScmpMessage")
  ELSE IF st \in {130, 131} THEN Ok(24) ELSE Ok(n)

ScmpLayout(d) ==
  LET r == RawLayout(d) IN
  IF ~r.ok THEN r
  ELSE LET sm == ScmpMsgLayout(PayloadAvail(d), d.st) IN
       IF ~sm.ok THEN sm ELSE Ok(r.size)

(* ScmpPayloadView::dst_port on an SCMP ERROR message: the quoted (offending) packet is parsed as a SCION    *)
(* packet and, if its next header is UDP and a UDP header is there, the quoted source port is returned.      *)
(* qd = descriptor of the quote (len = quoted bytes present), nh = the quote's next-header byte.             *)
ScmpErrFixed(st) == CASE st \in {1, 2, 4} -> 8 [] st = 5 -> 20 [] st = 6 -> 28 [] OTHER -> 0
QuoteHasPort(qd, nh) ==
  LET h == HdrLayout(qd) IN
  /\ h.ok /\ nh = 17
  /\ UdpDgramLayout(Min2(qd.pl, qd.len - h.size), qd.ul).ok

(* stand-alone views *)
StdPathLayout(n, s0, s1, s2) ==
  IF n < 4 THEN Err("StdPathMeta")
  ELSE IF n < StdPathSize(s0, s1, s2) THEN Err("StdPathData")
  ELSE Ok(StdPathSize(s0, s1, s2))
FixedLayout(n, size) == IF n < size THEN Err("BufferTooSmall") ELSE Ok(size)

-----------------------------------------------------------------------------
(* all outcomes for a packet descriptor, with the sub-extents *)
PktOutcome(d) ==
  LET h == HdrLayout(d)
      r == RawLayout(d)
      u == UdpLayout(d)
      sc == ScmpLayout(d)
      pa == IF h.ok THEN PayloadAvail(d) ELSE 0
  IN [hdr |-> h, raw |-> r, udp |-> u, scmp |-> sc,
      payload |-> pa,
      udpd |-> IF u.ok THEN UdpDgramLayout(pa, d.ul).size ELSE 0,
      scmpm |-> IF sc.ok THEN ScmpMsgLayout(pa, d.st).size ELSE 0]

(* P-layer *)
SizeWithinInput(n, o) == o.ok => (o.size >= 0 /\ o.size <= n)
PktSafe(d) ==
  LET o == PktOutcome(d) IN
  /\ SizeWithinInput(d.len, o.hdr) /\ SizeWithinInput(d.len, o.raw)
  /\ SizeWithinInput(d.len, o.udp) /\ SizeWithinInput(d.len, o.scmp)
  /\ (o.raw.ok => o.hdr.size + o.payload <= o.raw.size)          \* payload inside the packet
  /\ (o.udp.ok => (o.udpd >= 8 /\ o.udpd <= o.payload))           \* datagram inside the payload
  /\ (o.scmp.ok => (o.scmpm >= 4 /\ o.scmpm <= o.payload))
  /\ (o.hdr.ok => o.hdr.size <= 1020)
=============================================================================
