--------------------------- MODULE MC_WireFormat ---------------------------
(* Enumeration of packet models for C03 and design-level checks of the spec.    *)
(* The state space is a two-level tree: one initial state per group, one        *)
(* successor per packet model of the group (so TLC workers share the groups).   *)
(* For every model TLC checks the P-invariants of WireFormat and, with          *)
(* GEN = TRUE, prints the expected encoding for replay on sciparse.             *)
EXTENDS WireFormat, Json, TLC

CONSTANTS THOROUGH,   \* larger cross products
          GEN,        \* print one CASE line per model
          PaySizes    \* payload lengths

VARIABLES grp, cur,
          enc    \* Encode(cur) when cur is representable with a body of at most 600 bytes (computed once per model)

NONE == [k |-> "none"]

-----------------------------------------------------------------------------
(* field domains *)
IA1 == <<0, 1, 255, 0, 0, 0, 1, 16>>          \* 1-ff00:0:110
IA2 == <<255, 255, 255, 255, 255, 255, 255, 255>>
IA3 == <<0, 64, 0, 0, 0, 0, 0, 0>>

V4a == [k |-> "v4", b |-> <<10, 1, 2, 3>>]
V4b == [k |-> "v4", b |-> <<255, 255, 255, 255>>]
V6a == [k |-> "v6", b |-> <<32, 1, 13, 184, 0, 0, 0, 0, 0, 0, 0, 0, 0, 0, 0, 1>>]
V6b == [k |-> "v6", b |-> [i \in 1..16 |-> 255]]
Svc(v) == [k |-> "svc", v |-> v]
Unk(id, len) == [k |-> "unk", id |-> id, b |-> [i \in 1..len |-> 192 + i]]

KnownAddrs == {V4a, V6a, Svc(2)}
MoreKnown  == {V4b, V6b, Svc(1), Svc(16), Svc(32770), Svc(65535)}
UnkAddrs   == {Unk(id, len) : id \in {2, 3}, len \in {4, 8, 12, 16}}
              \cup {Unk(0, 8), Unk(0, 12), Unk(1, 8), Unk(1, 12), Unk(1, 16)}
BadAddrs   == {Unk(0, 4), Unk(0, 16), Unk(1, 4),       \* alias IPv4, IPv6, SVC
               Unk(4, 4), Unk(7, 8), Unk(64, 4),       \* type number does not fit 2 bits
               Unk(2, 0), Unk(2, 2), Unk(3, 5), Unk(2, 15)}   \* length not 4/8/12/16
GoodAddrs  == KnownAddrs \cup MoreKnown \cup UnkAddrs

TS(i) == <<(i * 37) % 256, (i * 11 + 200) % 256, i % 256, 255 - (i % 256)>>
Info(i, fl) == [flags |-> fl, segid |-> (i * 4099 + 7) % 65536, ts |-> TS(i)]
Hop(i) == [flags |-> i % 4, exp |-> (i * 29 + 63) % 256, in |-> (i * 257 + 1) % 65536,
           eg |-> (i * 513 + 65000) % 65536, mac |-> [j \in 1..6 |-> (i * 7 + j * 31) % 256]]
Seg(s, n) == [info |-> Info(s, s % 4), hops |-> [j \in 1..n |-> Hop(s * 64 + j)]]
Std(lens, ci, ch) == [k |-> "std", ci |-> ci, ch |-> ch, segs |-> [s \in 1..Len(lens) |-> Seg(s, lens[s])]]
OneHop(i) == [k |-> "onehop", info |-> Info(i, 1), hops |-> <<Hop(i), Hop(i + 1)>>]
OneHopFresh == [k |-> "onehop", info |-> Info(5, 1), hops |-> <<Hop(5), [Hop(0) EXCEPT !.in = 0, !.eg = 0]>>]   \* second hop not yet set
Uns(t, n) == [k |-> "uns", t |-> t, data |-> [i \in 1..n |-> (t + i) % 256]]
Empty == [k |-> "empty"]
(* reserved flag bits set: still representable, the bits travel *)
StdRsvFlags == [k |-> "std", ci |-> 0, ch |-> 1,
                segs |-> <<[info |-> Info(9, 255), hops |-> <<[Hop(1) EXCEPT !.flags = 255], Hop(2)>>]>>]

BasicPaths == {Empty, OneHop(3), Std(<<2, 3>>, 1, 2), Uns(200, 4)}
ShapePaths ==
  {Std(<<1>>, 0, 0), Std(<<2>>, 0, 1), Std(<<1, 1>>, 1, 1), Std(<<1, 1, 1>>, 2, 2), Std(<<3, 2, 4>>, 1, 4),
   Std(<<63>>, 0, 62), Std(<<40, 40>>, 1, 63), Std(<<27, 27, 26>>, 2, 63), StdRsvFlags,
   Std(<<2, 2>>, 0, 3), Std(<<2, 2>>, 1, 0),
   \* total hop-field counts around the 6-bit CurrHF boundary, split over 1, 2 and 3 segments, pointer first / last
   Std(<<62>>, 0, 0), Std(<<62>>, 0, 61), Std(<<63>>, 0, 0),
   Std(<<31, 31>>, 0, 0), Std(<<31, 31>>, 1, 61), Std(<<31, 32>>, 0, 0), Std(<<31, 32>>, 1, 62),
   Std(<<32, 32>>, 0, 0), Std(<<32, 32>>, 1, 63), Std(<<40, 24>>, 0, 0), Std(<<40, 24>>, 1, 63), Std(<<1, 63>>, 1, 63),
   Std(<<21, 21, 20>>, 0, 0), Std(<<21, 21, 20>>, 2, 61), Std(<<21, 21, 21>>, 2, 62),
   Std(<<30, 30, 4>>, 0, 0), Std(<<30, 30, 4>>, 2, 63), Std(<<21, 21, 22>>, 1, 30), Std(<<62, 1, 1>>, 2, 63),
   OneHop(250), OneHopFresh, Uns(3, 0), Uns(4, 12), Uns(5, 4), Uns(255, 8), Uns(200, 984)}
  \cup (IF THOROUGH THEN {Std(<<a, b, c>>, 0, 0) : a \in {1, 2, 31}, b \in {1, 2, 21}, c \in {1, 2, 21}}
                          \cup {Std(<<a, b>>, 1, a) : a \in {1, 2, 62, 63}, b \in {1, 2, 18}}
                          \cup {Uns(t, n) : t \in {3, 4, 5, 100, 255}, n \in {0, 4, 8, 400}}
        ELSE {})
BadPaths ==
  {Std(<<64>>, 0, 0), Std(<<2, 64>>, 0, 0), Std(<<63, 63>>, 0, 0), Std(<<41, 41>>, 0, 0),   \* too long
   Std(<<>>, 0, 0), Std(<<2, 0>>, 0, 0), Std(<<0>>, 0, 0),                                    \* empty segment
   Std(<<2, 2>>, 2, 0), Std(<<2, 2>>, 3, 1), Std(<<2, 2>>, 0, 4), Std(<<2, 2>>, 0, 63),       \* pointers off the path
   Std(<<2, 2>>, 4, 0), Std(<<2, 2>>, 0, 64),                                                 \* pointers off the field
   Std(<<40, 39>>, 1, 70), Std(<<40, 40>>, 1, 64), Std(<<27, 27, 26>>, 2, 79),                \* CurrHF on the path but > 6 bits
   Uns(0, 4), Uns(1, 4), Uns(1, 16), Uns(2, 32), Uns(0, 0),                                   \* alias
   Uns(200, 3), Uns(200, 6), Uns(200, 988), Uns(200, 1000)}

Pats == {<<222, 173, 190>>, <<255, 255>>} \cup (IF THOROUGH THEN {<<0>>, <<1, 2, 3, 4, 5, 6, 7>>} ELSE {})
Raw(n, pat) == [k |-> "raw", n |-> n, pat |-> pat]
Udp(sp, dp, n, pat) == [k |-> "udp", sp |-> sp, dp |-> dp, n |-> n, pat |-> pat]
IF8(v) == <<0, 0, 0, 0, 0, 0, v \div 256, v % 256>>
Scmp(t, n, pat) ==
  [k |-> "scmp", t |-> t, n |-> IF t \in {"treq", "trep"} THEN 0 ELSE n, pat |-> pat,
   code |-> IF t \in {"du", "pp"} THEN 4 ELSE IF t = "unk" THEN 9 ELSE 0,
   mtu |-> 1472, ptr |-> 65535, id |-> 4660, seq |-> 65534, ia |-> IA1,
   ifid |-> IF t = "treq" THEN IF8(0) ELSE IF8(515), ifid2 |-> IF8(65535), mtype |-> 99]
ScmpKinds == {"du", "ptb", "pp", "eid", "icd", "ereq", "erep", "treq", "trep", "unk"}
(* treq carries IA 0 and interface 0 in sciparse's model (no fields): keep the model honest *)
ScmpM(t, n, pat) == IF t = "treq" THEN [Scmp(t, n, pat) EXCEPT !.ia = Zeros(8)] ELSE Scmp(t, n, pat)

Mk(tc, flow, nh, dst, src, path, pl) ==
  [tc |-> tc, flow |-> flow, nh |-> nh, dia |-> IA1, sia |-> IA3, dst |-> dst, src |-> src, path |-> path, pl |-> pl]
NhOf(pl) == CASE pl.k = "udp" -> 17 [] pl.k = "scmp" -> 202 [] OTHER -> 6

SmallPls == {Raw(3, <<222, 173, 190>>), Udp(40000, 53, 1, <<255, 255>>), ScmpM("ereq", 2, <<222, 173, 190>>)}

-----------------------------------------------------------------------------
(* groups *)
AddrPairs == IF THOROUGH THEN GoodAddrs \X GoodAddrs
             ELSE (GoodAddrs \X KnownAddrs) \cup (KnownAddrs \X GoodAddrs)

GAddr(d) == {Mk(0, 1, NhOf(pl), d, s, p, pl) : s \in {x \in GoodAddrs : <<d, x>> \in AddrPairs}, p \in BasicPaths, pl \in SmallPls}

HdrVariants == {<<V4a, V4a, Empty>>, <<V6a, Svc(2), Std(<<2, 3>>, 1, 2)>>}
               \cup (IF THOROUGH THEN {<<Unk(3, 12), V6b, OneHop(3)>>, <<Svc(65535), V4b, Uns(200, 4)>>, <<V4a, Unk(0, 8), Std(<<1, 1, 1>>, 2, 2)>>,
                                        <<V6b, V6b, Std(<<32, 32>>, 1, 63)>>, <<Unk(2, 16), Unk(3, 16), Empty>>, <<V4b, Svc(1), OneHop(250)>>}
                     ELSE {})
AllPls(n, pat) == {Raw(n, pat), Udp(65535, 1, n, pat)} \cup {ScmpM(t, n, pat) : t \in ScmpKinds}
GSize(n) == {Mk(0, 0, NhOf(pl), h[1], h[2], h[3], pl) : h \in HdrVariants, pl \in UNION {AllPls(n, pat) : pat \in Pats}}

GShape == {Mk(0, 0, NhOf(pl), a[1], a[2], p, pl) :
             a \in {<<V4a, V4a>>, <<V6a, Unk(2, 16)>>}, p \in ShapePaths \cup BadPaths,
             pl \in {Raw(1, <<7>>), Udp(1, 2, 5, <<222, 173, 190>>)}}

GCommon == {Mk(tc, flow, nh, V4a, V6a, Empty, Raw(1, <<170>>)) :
              tc \in {0, 1, 165, 255}, flow \in {0, 1, 703710, 1048575, 1048576, 16777215}, nh \in {0, 6, 17, 202, 255}}
           \* hop-by-hop (43) / end-to-end (201) extension headers: sciparse has no model for them, the packet is a raw
           \* packet whose payload starts with the extension header <<NextHdr, ExtLen, options>> (placeholder: PadN)
           \cup {Mk(0, 7, nh, V4a, V6a, p, Raw(n, <<17, 1, 1, 2, 0, 0, 1, 0>>)) : nh \in {43, 201}, p \in {Empty, Std(<<2, 3>>, 1, 2)}, n \in {8, 16, 24}}
           \cup {[Mk(0, 5, 17, V4a, V4a, Empty, Udp(sp, dp, 2, <<1, 2>>)) EXCEPT !.dia = ia, !.sia = ia2] :
                   sp \in {0, 65535}, dp \in {0, 443}, ia \in {IA1, IA2}, ia2 \in {IA2, IA3}}

(* an "unknown" SCMP message model that carries a known type number would be read back as that type *)
GBadScmp == {Mk(0, 0, 202, V4a, V4a, Empty, [ScmpM("unk", n, <<1, 2, 3>>) EXCEPT !.mtype = t]) : t \in {1, 5, 128, 130}, n \in {4, 40}}

GBadAddr == {Mk(0, 0, NhOf(pl), d, s, Empty, pl) :
               d \in BadAddrs \cup {V4a}, s \in BadAddrs \cup {V6a}, pl \in {Raw(2, <<1>>), Udp(1, 2, 2, <<1>>)}}
            \ {Mk(0, 0, NhOf(pl), V4a, V6a, Empty, pl) : pl \in {Raw(2, <<1>>), Udp(1, 2, 2, <<1>>)}}

(* SCMP quote budget: error kinds x header sizes x quote lengths around the budget *)
QuoteHdrs == {<<V4a, V4a, Empty>>, <<V6a, V6a, Std(<<3, 2, 4>>, 0, 0)>>, <<V4a, V4a, Uns(200, 984)>>, <<Unk(2, 16), V6a, Std(<<63>>, 0, 0)>>}
GQuote == UNION {
  LET hdr == 28 + AddrLen(h[1]) + AddrLen(h[2]) + PathSize(h[3]) IN
  {Mk(0, 0, 202, h[1], h[2], h[3], ScmpM(t, n, <<222, 173, 190>>)) :
     t \in ScmpErrKinds,
     n \in {x \in {1232 - hdr - 28 - 1, 1232 - hdr - 28, 1232 - hdr - 20, 1232 - hdr - 8 - 1,
                   1232 - hdr - 8, 1232 - hdr - 8 + 1, 1232 - hdr, 2000} : x >= 0}}
  : h \in QuoteHdrs}

GroupIds == {<<"addr", d>> : d \in GoodAddrs} \cup {<<"size", n>> : n \in PaySizes}
            \cup {<<"shape", 0>>, <<"common", 0>>, <<"badaddr", 0>>, <<"quote", 0>>, <<"badscmp", 0>>}
GroupOf(g) ==
  CASE g[1] = "addr" -> GAddr(g[2])
    [] g[1] = "size" -> GSize(g[2])
    [] g[1] = "shape" -> GShape
    [] g[1] = "common" -> GCommon
    [] g[1] = "badaddr" -> GBadAddr
    [] g[1] = "badscmp" -> GBadScmp
    [] OTHER -> GQuote

-----------------------------------------------------------------------------
SmallRep(m) == Representable(m) /\ BodyLen(m.pl, HdrSize(m)) <= 600
Init == grp \in GroupIds /\ cur = NONE /\ enc = <<>>
Next == /\ cur = NONE
        /\ \E m \in GroupOf(grp) : cur' = m /\ enc' = IF SmallRep(m) THEN Encode(m) ELSE <<>>
        /\ grp' = <<"done", 0>>
Spec == Init /\ [][Next]_<<grp, cur, enc>>

IsCase == cur # NONE

(* what the harness needs: the expected encoding *)
Expect(m) ==
  LET hdr == HdrSize(m)
      rep == Representable(m)
      blen == BodyLen(m.pl, hdr)
  IN [rep |-> rep,
      why |-> IF rep THEN "" ELSE Unrep(m),
      iv  |-> ImplWireValid(m),
      hdr |-> hdr, size |-> EncodedSize(m), blen |-> blen,
      head |-> IF rep THEN (IF SmallRep(m) THEN SubSeq(enc, 1, Len(enc) - blen) ELSE PktHead(m)) ELSE <<>>,
      cks |-> IF rep /\ m.pl.k # "raw" THEN Checksum(m) ELSE -1,
      full |-> IF rep /\ blen <= 64 THEN enc ELSE <<>>,
      \* one-hop reversal: <<reversible, bytes of the upgraded standard path, bytes of the path reversed in place>>
      rev |-> IF m.path.k = "onehop"
              THEN [ok |-> OneHopReversible(m.path), std |-> PathBytes(OneHopUpgraded(m.path)), inplace |-> PathBytes(OneHopReversedInPlace(m.path))]
              ELSE [ok |-> FALSE, std |-> <<>>, inplace |-> <<>>]]

Emit == (GEN /\ IsCase) => PrintT(<<"CASE", ToJson([m |-> cur, e |-> Expect(cur)])>>)

(* design-level checks on every enumerated model *)
InvNoSilentTruncation == IsCase => NoSilentTruncation(cur)
InvSizeAnnounced      == IsCase => SizeAnnounced(cur)
(* the closed-form checksum agrees with the explicit sum, and the spec's own encodings are canonical *)
InvClosedForm ==
  (IsCase /\ SmallRep(cur) /\ cur.pl.k # "raw") => L4ChecksumOK(enc, L4Proto(cur.pl))
PlainFlags(p) ==
  CASE p.k = "std" -> \A i \in 1..Len(p.segs) : p.segs[i].info.flags < 4 /\ \A j \in 1..Len(p.segs[i].hops) : p.segs[i].hops[j].flags < 4
    [] p.k = "onehop" -> p.info.flags < 4 /\ p.hops[1].flags < 4 /\ p.hops[2].flags < 4
    [] OTHER -> TRUE
InvSelfCanonical ==
  (IsCase /\ SmallRep(cur) /\ PlainFlags(cur.path)
     /\ (cur.path.k = "std" => (cur.path.ci < Len(cur.path.segs) /\ cur.path.ch < SegLen(cur.path, 1) + SegLen(cur.path, 2) + SegLen(cur.path, 3)
                                 /\ SegLen(cur.path, 1) + SegLen(cur.path, 2) + SegLen(cur.path, 3) <= 64))) =>
     Canonical(cur.pl.k, enc)
=============================================================================
