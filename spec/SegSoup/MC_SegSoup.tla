----------------------------- MODULE MC_SegSoup -----------------------------
(* Valid segment sets of a few small topologies, every sequence of at most     *)
(* DEPTH structural mutations (the first from OPS1, the following from OPS2).  *)
(* Invariants: Total / Monotone on the I-layer model of the combinator.        *)
(* GEN = TRUE prints one line per distinct mutated soup: the soup, and per     *)
(* (src, dst) pair the expected path set, whether a panic is expected, and     *)
(* whether all junk is NonContributing - replayed on the real combine().       *)
EXTENDS SegSoup, Json

CONSTANTS TOPOS,     \* subset of 1..NTopos
          DEPTH, OPS1, OPS2, GEN

VARIABLES t, soup, h, d
vars == <<t, soup, h, d>>

(***************************************************************************)
(* Topologies: interface ids are unique per AS; x#ab is the interface of   *)
(* AS a towards AS b.                                                      *)
(***************************************************************************)
\* T1: cores 1 - 2;  1 -> 3 -> 4;  2 -> 5          (up - core - down)
T1 == [segs |-> << Seg("nc",   <<Entry(1, 0, 13), Entry(3, 31, 34), Entry(4, 43, 0)>>),
                   Seg("nc",   <<Entry(2, 0, 25), Entry(5, 52, 0)>>),
                   Seg("core", <<Entry(2, 0, 21), Entry(1, 12, 0)>>) >>,
       pairs |-> << <<4, 5>>, <<5, 4>>, <<4, 1>>, <<3, 5>>, <<4, 3>> >>]
\* T2: core 1 -> 2 -> {3, 4}                        (shortcut at 2, on-path destinations)
T2 == [segs |-> << Seg("nc", <<Entry(1, 0, 12), Entry(2, 21, 23), Entry(3, 32, 0)>>),
                   Seg("nc", <<Entry(1, 0, 12), Entry(2, 21, 24), Entry(4, 42, 0)>>) >>,
       pairs |-> << <<3, 4>>, <<4, 3>>, <<3, 2>>, <<3, 1>>, <<1, 4>> >>]
\* T3: core 1 -> 2 -> 4, 1 -> 3 -> 5, peering 2#29 - 3#39
T3 == [segs |-> << Seg("nc", <<Entry(1, 0, 12), EntryP(2, 21, 24, <<Peer(3, 39, 29)>>), Entry(4, 42, 0)>>),
                   Seg("nc", <<Entry(1, 0, 13), EntryP(3, 31, 35, <<Peer(2, 29, 39)>>), Entry(5, 53, 0)>>) >>,
       pairs |-> << <<4, 5>>, <<5, 4>>, <<4, 3>>, <<4, 1>> >>]
\* T4: cores 1 - 2 - 6 (core segments of one and two links), 1 -> 3, 6 -> 7
T4 == [segs |-> << Seg("nc",   <<Entry(1, 0, 13), Entry(3, 31, 0)>>),
                   Seg("nc",   <<Entry(6, 0, 67), Entry(7, 76, 0)>>),
                   Seg("core", <<Entry(6, 0, 62), Entry(2, 26, 21), Entry(1, 12, 0)>>),
                   Seg("core", <<Entry(2, 0, 21), Entry(1, 12, 0)>>) >>,
       pairs |-> << <<3, 7>>, <<7, 3>>, <<3, 2>>, <<1, 6>> >>]
\* T5: core 1 -> 2 -> 4, 1 -> 3 -> 5, 1 -> 6 -> 7; AS 2 has TWO peering links: 2#28 - 6#62 (listed first)
\*     and 2#29 - 3#39 (listed second); the pairs cross the first, the second, and none
T5 == [segs |-> << Seg("nc", <<Entry(1, 0, 12), EntryP(2, 21, 24, <<Peer(6, 62, 28), Peer(3, 39, 29)>>), Entry(4, 42, 0)>>),
                   Seg("nc", <<Entry(1, 0, 13), EntryP(3, 31, 35, <<Peer(2, 29, 39)>>), Entry(5, 53, 0)>>),
                   Seg("nc", <<Entry(1, 0, 16), EntryP(6, 61, 67, <<Peer(2, 28, 62)>>), Entry(7, 76, 0)>>) >>,
       pairs |-> << <<4, 5>>, <<5, 4>>, <<4, 7>>, <<7, 4>>, <<5, 7>> >>]
Topo == <<T1, T2, T3, T4, T5>>
NTopos == 5
TopoAses == {1, 2, 3, 4, 5, 6, 7}

(***************************************************************************)
(* Mutations.  m = [op, k, i, j]: segment k, entry i, further argument j.  *)
(***************************************************************************)
Touch(s, es) == [s EXCEPT !.good = FALSE, !.es = es]

FreshEntry(n) == Entry(100 + n, 300 + n, 400 + n)
\* pad a segment with fresh ASes (inserted before the last entry) up to L entries
Pad(es, L) == IF Len(es) >= L \/ Len(es) = 0 THEN es
              ELSE SubSeq(es, 1, Len(es) - 1) \o [n \in 1..(L - Len(es)) |-> FreshEntry(n)] \o <<es[Len(es)]>>

Island(v) ==
  CASE v = 1 -> [kind |-> "nc",   good |-> FALSE, es |-> <<Entry(61, 0, 612), Entry(62, 621, 0)>>]
    [] v = 2 -> [kind |-> "core", good |-> FALSE, es |-> <<Entry(63, 0, 634), Entry(64, 643, 0)>>]
    [] v = 3 -> [kind |-> "nc",   good |-> FALSE, es |-> <<Entry(61, 0, 612), EntryP(62, 621, 0, <<Peer(65, 9, 8)>>)>>]
    [] v = 4 -> [kind |-> "nc",   good |-> FALSE, es |-> <<>>]
    [] v = 5 -> [kind |-> "core", good |-> FALSE, es |-> <<>>]

OpNames == {"DeleteEntry", "DupEntry", "SwapEntries", "ZeroIf", "ZeroAll", "AliasIf", "CrossWirePeer",
            "Oversize", "SingleAs", "Empty", "OutOfRangeMtu", "DupSegment", "FlipKind", "AddIsland", "ZeroPeer",
            "FrontBrokenPeer"}

Mutations(sp, ops) ==
  LET K == 1..Len(sp)
      N(k) == Len(sp[k].es)
      M(o, k, i, j) == [op |-> o, k |-> k, i |-> i, j |-> j]
  IN UNION {
       {M("DeleteEntry", k, i, 0) : i \in 1..N(k)}
       \cup {M("DupEntry", k, i, 0) : i \in 1..N(k)}
       \cup {M("SwapEntries", k, i, i2) : i \in 1..N(k), i2 \in 1..N(k)}
       \cup {M("ZeroIf", k, i, w) : i \in 1..N(k), w \in 1..3}
       \cup {M("ZeroAll", k, 0, 0)}
       \cup {M("AliasIf", k, i, i2) : i \in 1..N(k), i2 \in 1..N(k)}
       \cup {M("CrossWirePeer", k, i, a) : i \in 1..N(k), a \in {2, 5}}
       \cup {M("ZeroPeer", k, i, w) : i \in 1..N(k), w \in 1..3}
       \cup {M("FrontBrokenPeer", k, i, w) : i \in 1..N(k), w \in 1..3}
       \cup {M("Oversize", k, 0, L) : L \in {63, 64, 70}}
       \cup {M("SingleAs", k, i, 0) : i \in 1..N(k)}
       \cup {M("Empty", k, 0, 0)}
       \cup {M("OutOfRangeMtu", k, i, v) : i \in 1..N(k), v \in {0, 65536, 70000}}
       \cup {M("DupSegment", k, 0, 0)}
       \cup {M("FlipKind", k, 0, 0)}
       : k \in K}
     \cup {M("AddIsland", 0, 0, v) : v \in 1..5}

Enabled1(m, sp) ==
  /\ (m.op = "SwapEntries" => m.i < m.j)
  /\ (m.op = "AliasIf" => m.i # m.j)
  /\ (m.op \in {"ZeroAll", "Empty", "Oversize", "FlipKind"} => Len(sp[m.k].es) > 0)
  /\ (m.op = "CrossWirePeer" => sp[m.k].es[m.i].as # m.j)
  /\ (m.op = "ZeroPeer" /\ m.j = 3 => sp[m.k].es[m.i].peers # <<>>)
  /\ (m.op = "FrontBrokenPeer" => sp[m.k].es[m.i].peers # <<>>)
  /\ (m.op = "DupSegment" => Len(sp) < 8)
  /\ (m.op = "AddIsland" => Len(sp) < 8)

ApplyM(m, sp) ==
  LET s  == IF m.k = 0 THEN sp[1] ELSE sp[m.k]
      es == s.es
      Set(x) == [sp EXCEPT ![m.k] = Touch(s, x)]
  IN CASE m.op = "DeleteEntry" -> Set(RemoveAt(es, m.i))
       [] m.op = "DupEntry"    -> Set(InsertAt(es, m.i + 1, es[m.i]))
       [] m.op = "SwapEntries" -> Set([es EXCEPT ![m.i] = es[m.j], ![m.j] = es[m.i]])
       [] m.op = "ZeroIf"      -> Set([es EXCEPT ![m.i] = [@ EXCEPT !.in = IF m.j \in {1, 3} THEN 0 ELSE @,
                                                                    !.eg = IF m.j \in {2, 3} THEN 0 ELSE @]])
       [] m.op = "ZeroAll"     -> Set([x \in 1..Len(es) |-> [es[x] EXCEPT !.in = 0, !.eg = 0]])
       [] m.op = "AliasIf"     -> Set([es EXCEPT ![m.i] = [@ EXCEPT !.in = es[m.j].in, !.eg = es[m.j].eg]])
       [] m.op = "CrossWirePeer" ->
            Set([es EXCEPT ![m.i] = [@ EXCEPT !.peers =
                   IF @ = <<>> THEN <<Peer(m.j, 77, 78)>> ELSE [@ EXCEPT ![1] = [@ EXCEPT !.pas = m.j]]]])
       \* a peer entry without local (j = 1) or remote (j = 2) interface; j = 3: the peering link loses
       \* the interface consistently on both sides (the mirror entries of all segments follow)
       [] m.op = "ZeroPeer" ->
            IF m.j = 3
            THEN LET a == es[m.i].as  lif == es[m.i].peers[1].lif
                     Fix(sg) == [sg EXCEPT !.good = FALSE,
                                           !.es = [x \in 1..Len(sg.es) |->
                                                     [sg.es[x] EXCEPT !.peers = [y \in 1..Len(sg.es[x].peers) |->
                                                        LET q == sg.es[x].peers[y] IN
                                                        IF sg.es[x].as = a /\ q.lif = lif THEN [q EXCEPT !.lif = 0]
                                                        ELSE IF q.pas = a /\ q.pif = lif THEN [q EXCEPT !.pif = 0]
                                                        ELSE q]]]]
                     Touched(sg) == \E x \in 1..Len(sg.es) : \E y \in 1..Len(sg.es[x].peers) :
                                       LET q == sg.es[x].peers[y] IN
                                       (sg.es[x].as = a /\ q.lif = lif) \/ (q.pas = a /\ q.pif = lif)
                 IN [x \in 1..Len(sp) |-> IF Touched(sp[x]) THEN Fix(sp[x]) ELSE sp[x]]
            ELSE
            Set([es EXCEPT ![m.i] = [@ EXCEPT !.peers =
                   IF @ = <<>> THEN <<Peer(5, IF m.j = 2 THEN 0 ELSE 77, IF m.j = 1 THEN 0 ELSE 78)>>
                   ELSE [@ EXCEPT ![1] = [@ EXCEPT !.lif = IF m.j = 1 THEN 0 ELSE @, !.pif = IF m.j = 2 THEN 0 ELSE @]]]])
       \* a broken peer entry is listed IN FRONT of the valid ones (the positions of the valid entries shift):
       \* j = 1 no local interface, j = 2 no remote interface, j = 3 a copy of the LAST valid entry without
       \* remote interface
       [] m.op = "FrontBrokenPeer" ->
            Set([es EXCEPT ![m.i] = [@ EXCEPT !.peers =
                   <<CASE m.j = 1 -> Peer(7, 77, 0)
                       [] m.j = 2 -> Peer(7, 0, 78)
                       [] OTHER   -> [@[Len(@)] EXCEPT !.pif = 0]>> \o @]])
       [] m.op = "Oversize"    -> Set(Pad(es, m.j))
       [] m.op = "SingleAs"    -> Set(<<es[m.i]>>)
       [] m.op = "Empty"       -> Set(<<>>)
       [] m.op = "OutOfRangeMtu" -> Set([es EXCEPT ![m.i] = [@ EXCEPT !.mtu = m.j]])
       [] m.op = "DupSegment"  -> Append(sp, [s EXCEPT !.good = FALSE])
       [] m.op = "FlipKind"    -> [sp EXCEPT ![m.k] = [Touch(s, es) EXCEPT !.kind = IF s.kind = "core" THEN "nc" ELSE "core"]]
       [] m.op = "AddIsland"   -> Append(sp, Island(m.j))

MCInit == /\ t \in TOPOS /\ soup = Topo[t].segs /\ h = <<>> /\ d = 0

MCNext == /\ d < DEPTH
          /\ \E m \in Mutations(soup, IF d = 0 THEN OPS1 ELSE OPS2) :
               /\ m.op \in (IF d = 0 THEN OPS1 ELSE OPS2)
               /\ Enabled1(m, soup)
               /\ soup' = ApplyM(m, soup)
               /\ h' = Append(h, m)
          /\ d' = d + 1
          /\ UNCHANGED t

MCSpec == MCInit /\ [][MCNext]_vars
MCView == <<t, soup, IF GEN THEN 0 ELSE d>>

PairsOf == Topo[t].pairs

\* everything the invariants need, computed once per soup (and the solutions once per pair)
PairExpect(X, sp, src, dst) ==
  LET sols == IF src = dst THEN {} ELSE SolutionsX(X, sp, src, dst)
      wi   == TLCEval({<<s, Ifaces(sp, s)>> : s \in {x \in sols : Encodable(sp, x)}})
      kept == TLCEval({p \in wi : p[2] # <<>> /\ ~HasLoops(p[2])})
  IN [paths |-> {p[2] : p \in kept},
      panic |-> ~FIXED /\ \E p \in wi : p[2] = <<>>,
      sc    |-> \A p \in kept : IfsConsistent(sp, p[1], p[2])]

Expect ==
  LET E  == IndexByFrom(Edges(soup))
      gp == GoodPart(soup)
      EG == IndexByFrom(Edges(gp))
  IN [i \in 1..Len(PairsOf) |->
        LET src == PairsOf[i][1]  dst == PairsOf[i][2]
            a   == PairExpect(E, soup, src, dst)
            g   == PairExpect(EG, gp, src, dst)
        IN [src |-> src, dst |-> dst,
            paths |-> a.paths, good |-> g.paths, panic |-> a.panic \/ g.panic, sc |-> a.sc /\ g.sc,
            allnc |-> AllJunkNonContributing(soup, src, dst)]]

TotalX(x)    == \A i \in 1..Len(x) : ~x[i].panic
SelfConsX(x) == \A i \in 1..Len(x) : x[i].sc
MonotoneX(x) == \A i \in 1..Len(x) : /\ x[i].good \subseteq x[i].paths
                                      /\ x[i].allnc => x[i].good = x[i].paths

\* one invariant so that Expect is evaluated once per state
Named(ok, name) == ok \/ (PrintT(<<"PVIOL", name, ToJson(h)>>) /\ FALSE)
Check == LET x == Expect IN
         /\ Named(TotalX(x), "Total")
         /\ Named(MonotoneX(x), "Monotone")
         /\ Named(SelfConsX(x), "SelfConsistent")
         /\ (GEN => PrintT(<<"REPLAY", ToJson([t |-> t, h |-> h, soup |-> soup, x |-> x])>>))
\* the same three statements as separate invariants (used by the oracle self-check, where TLC must name them)
Total          == TotalX(Expect)
Monotone       == MonotoneX(Expect)
SelfConsistent == SelfConsX(Expect)

=============================================================================
