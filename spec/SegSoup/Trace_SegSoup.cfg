SPECIFICATION TSpec
CONSTANTS
  FIXED = TRUE
INVARIANTS Total Bounded SelfConsistent Monotone SizeHonest
POSTCONDITION TraceAccepted
CHECK_DEADLOCK FALSE
