SPECIFICATION MCSpec
VIEW MCView
CONSTANTS
  FIXED = TRUE
  TOPOS = {1, 2, 3, 4}
  DEPTH = 1
  OPS1 = {"DeleteEntry", "DupEntry", "SwapEntries", "ZeroIf", "ZeroAll", "AliasIf", "CrossWirePeer", "Oversize", "SingleAs", "Empty", "OutOfRangeMtu", "DupSegment", "FlipKind", "AddIsland"}
  OPS2 = {"AddIsland", "ZeroAll", "Empty", "DupSegment"}
  GEN = TRUE
INVARIANTS Check
