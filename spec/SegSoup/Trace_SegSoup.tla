--------------------------- MODULE Trace_SegSoup ---------------------------
(* Trace validation: seeded random "segment soup" (up to 40 segments: a valid  *)
(* random topology plus mutated copies, duplicates and junk islands) given to  *)
(* the real combine() in a watched child process.  Every event carries the     *)
(* full soup descriptor and the observed outcome; TLC classifies the junk with *)
(* the specification's own NonContributing and evaluates the P-layer on the    *)
(* real outcome.  Events (ndjson, file named by env TRACE):                    *)
(*   {"ev":"meta",...}                                          first line     *)
(*   {"ev":"soup","soup":[{kind,good,es:[{as,in,eg,mtu,peers:[{pas,pif,lif}]}]}],   *)
(*    "src","dst","n","died","panic","cpu_us","pa":[path ids],"pg":[path ids],"inc"} *)
(*   pa = paths from the whole soup, pg = paths from its good part, inc =      *)
(*   number of returned paths that are inconsistent with themselves.           *)
EXTENDS SegSoup, Json, IOUtils

Rec == ndJsonDeserialize(IOEnv.TRACE)

VARIABLES l, cur
tvars == <<l, cur>>

NoEvent == [ev |-> "none"]
TInit == l = 2 /\ cur = NoEvent
TSoup == /\ l <= Len(Rec) /\ Rec[l].ev = "soup"
         /\ cur' = Rec[l] /\ l' = l + 1
TSpec == TInit /\ [][TSoup]_tvars

Seen == cur.ev = "soup"
Set(s) == {s[i] : i \in 1..Len(s)}

\* polynomial bound of the property (CPU microseconds of the combining thread), hard cap 10 s
BoundUs(n) == LET b == 200000 + 2 * n * n * n IN IF b > 10000000 THEN 10000000 ELSE b

Total          == Seen => (~cur.died /\ ~cur.panic)
Bounded        == Seen => cur.cpu_us <= BoundUs(cur.n)
SelfConsistent == Seen => cur.inc = 0
Monotone       == (Seen /\ ~cur.died /\ ~cur.panic) =>
                    /\ Set(cur.pg) \subseteq Set(cur.pa)
                    /\ AllJunkNonContributing(cur.soup, cur.src, cur.dst) => Set(cur.pg) = Set(cur.pa)
\* the size the harness reports is the size of the soup it logged
SizeHonest     == Seen => cur.n = LET RECURSIVE S(_)
                                      S(k) == IF k = 0 THEN 0 ELSE Len(cur.soup[k].es) + S(k - 1)
                                  IN S(Len(cur.soup))

TraceAccepted ==
  LET d == TLCGet("stats").diameter IN
  IF d = Len(Rec) THEN TRUE
  ELSE /\ PrintT(<<"TRACE-REJECTED", "matched", d - 1, "of", Len(Rec) - 1, "first unmatched line", d + 1>>)
       /\ FALSE
=============================================================================
