--------------------------- MODULE Trace_SegSoup ---------------------------
(* Trace validation: seeded random "segment soup" (up to 40 segments: a valid  *)
(* random topology plus mutated copies, duplicates and junk islands) given to  *)
(* the real combine() in a watched child process.  Every event carries the     *)
(* full soup descriptor and the observed outcome; TLC classifies the junk with *)
(* the specification's own NonContributing and evaluates the P-layer on the    *)
(* real outcome.  Events (ndjson, file named by env TRACE):                    *)
(*   {"ev":"meta",...}                                          first line     *)
(*   {"ev":"soup","soup":[{kind,good,es:[{as,in,eg,mtu,peers:[{pas,pif,lif}]}]}],   *)
(*    "src","dst","n","died","panic","cpu_us","ref_us","pa":[path ids],"pg":[path ids],"inc"} *)
(*   pa = paths from the whole soup, pg = paths from its good part, inc =      *)
(*   number of returned paths that are inconsistent with themselves.           *)
EXTENDS SegSoup, Json, IOUtils

Rec == ndJsonDeserialize(IOEnv.TRACE)

VARIABLES l, cur
tvars == <<l, cur>>

NoEvent == [ev |-> "none"]
TInit == l = 2 /\ cur = NoEvent
TSoup == /\ l <= Len(Rec) /\ Rec[l].ev = "soup"
         /\ cur' = Rec[l] /\ l' = l + 1
TSpec == TInit /\ [][TSoup]_tvars

Seen == cur.ev = "soup"
Set(s) == {s[i] : i \in 1..Len(s)}

\* Bounded is self-calibrating: a call slower than 0.1 s is measured three times (minimum = cpu_us) and the
\* harness measures a fixed reference workload (252 AS entries) at the same moment (ref_us; 0 = fast call).
\* Allowed: min(200 * (1 + (n/16)^3 / (252/16)^3), 4000) reference units - cubic in the input size n (AS
\* entries + peer entries), hard cap 4000 units (about 10 s of an idle core).  The margin is wide because
\* time ratios vary by almost an order of magnitude on an oversubscribed host.
FastUs == 100000
BoundUnits(n) == LET k == n \div 16
                     b == 200 * (1 + (k * k * k) \div 3375)
                 IN IF b > 4000 THEN 4000 ELSE b

Total          == Seen => (~cur.died /\ ~cur.panic)
Bounded        == Seen => IF cur.ref_us = 0 THEN cur.cpu_us <= FastUs
                                   ELSE cur.cpu_us <= BoundUnits(cur.n) * cur.ref_us
SelfConsistent == Seen => cur.inc = 0
Monotone       == (Seen /\ ~cur.died /\ ~cur.panic) =>
                    /\ Set(cur.pg) \subseteq Set(cur.pa)
                    /\ AllJunkNonContributing(cur.soup, cur.src, cur.dst) => Set(cur.pg) = Set(cur.pa)
\* the size the harness reports is the size of the soup it logged (AS entries + peer entries)
SegSize(sg) == LET RECURSIVE P(_)
                   P(k) == IF k = 0 THEN 0 ELSE Len(sg.es[k].peers) + P(k - 1)
               IN Len(sg.es) + P(Len(sg.es))
SizeHonest     == Seen => cur.n = LET RECURSIVE S(_)
                                      S(k) == IF k = 0 THEN 0 ELSE SegSize(cur.soup[k]) + S(k - 1)
                                  IN S(Len(cur.soup))

TraceAccepted ==
  LET d == TLCGet("stats").diameter IN
  IF d = Len(Rec) THEN TRUE
  ELSE /\ PrintT(<<"TRACE-REJECTED", "matched", d - 1, "of", Len(Rec) - 1, "first unmatched line", d + 1>>)
       /\ FALSE
=============================================================================
