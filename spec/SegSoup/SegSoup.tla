------------------------------- MODULE SegSoup -------------------------------
(***************************************************************************)
(* Path combination over ARBITRARY segment sets ("segment soup")           *)
(* (crates/libs/sciparse/src/scion/path/combinator.rs, combinator/graph.rs)*)
(*                                                                         *)
(* A soup is a sequence of [kind, good, es]: kind "core" | "nc" (up/down), *)
(* good = TRUE for a segment no mutation has touched, es = AS entries      *)
(* [as, in, eg, mtu, peers], peers = <<[pas, pif, lif]>> (peer AS, the     *)
(* peer's interface, the local peering interface).                         *)
(*                                                                         *)
(* I-layer: the combinator as written                                      *)
(*   Edges      MultiGraph::add_core_segment / add_non_core_segment        *)
(*   Solutions  MultiGraph::get_paths (BFS, <= 3 edges, valid_next_seg)    *)
(*   Ifaces     PathSolution::path (interface list), Encodable (63 hops    *)
(*              per segment, header budget), HasLoops, and the             *)
(*              expect("edges are checked to be not empty") on an empty    *)
(*              interface list (FIXED = FALSE: panics, TRUE: dropped)      *)
(* P-layer: Total (no panic), SelfConsistent (interface count = 2 x links, *)
(*   endpoints), Monotone (Paths(Good + Junk) >= Paths(Good), equality     *)
(*   when all junk is NonContributing).                                    *)
(***************************************************************************)
EXTENDS Naturals, Sequences, FiniteSets, TLC

CONSTANTS FIXED      \* TRUE: segments that are not well-formed are skipped when the graph is built (repaired);
                     \* FALSE: pinned commit (every segment with at least one entry is used, and a
                     \*        solution without interfaces panics)

(***************************************************************************)
(* Helpers                                                                 *)
(***************************************************************************)
Range(s)          == {s[i] : i \in DOMAIN s}
Rev(s)            == [i \in 1..Len(s) |-> s[Len(s) + 1 - i]]
RemoveAt(s, p)    == SubSeq(s, 1, p - 1) \o SubSeq(s, p + 1, Len(s))
InsertAt(s, p, x) == SubSeq(s, 1, p - 1) \o <<x>> \o SubSeq(s, p, Len(s))
\* concatenation of f[1] .. f[n] (f may be a lazily evaluated function: every f[j] is evaluated once)
RECURSIVE FlatIdx(_, _)
FlatIdx(f, n) == IF n = 0 THEN <<>> ELSE FlatIdx(f, n - 1) \o f[n]

Entry(a, i, e)        == [as |-> a, in |-> i, eg |-> e, mtu |-> 1400, peers |-> <<>>]
EntryP(a, i, e, ps)   == [as |-> a, in |-> i, eg |-> e, mtu |-> 1400, peers |-> ps]
Peer(pas, pif, lif)   == [pas |-> pas, pif |-> pif, lif |-> lif]
Seg(kind, es)         == [kind |-> kind, good |-> TRUE, es |-> es]

(***************************************************************************)
(* I-layer: graph                                                          *)
(***************************************************************************)
AV(a)             == <<"A", a, 0, 0, 0>>
PV(l, lif, p, pif) == <<"P", l, lif, p, pif>>

\* interface id 0 means "no interface": it marks exactly the ingress of the first and the egress of the
\* last AS entry of a segment
WellFormed(s) == \A i \in 1..Len(s.es) : /\ (s.es[i].in = 0) <=> (i = 1)
                                         /\ (s.es[i].eg = 0) <=> (i = Len(s.es))
PeerUsable(p) == ~FIXED \/ (p.lif # 0 /\ p.pif # 0)

\* candidate edges of segment number k
SegEdges(soup, k) ==
  LET s == soup[k]  L == Len(s.es) IN
  IF L = 0 \/ (FIXED /\ ~WellFormed(s)) THEN {}
  ELSE IF s.kind = "core"
  THEN {[seg |-> k, sc |-> 0, peer |-> 0, from |-> AV(s.es[1].as), to |-> AV(s.es[L].as)],
        [seg |-> k, sc |-> 0, peer |-> 0, from |-> AV(s.es[L].as), to |-> AV(s.es[1].as)]}
  ELSE LET leaf == s.es[L].as IN
       UNION {
         (IF idx < L THEN {[seg |-> k, sc |-> idx - 1, peer |-> 0, from |-> AV(leaf), to |-> AV(s.es[idx].as)],
                           [seg |-> k, sc |-> idx - 1, peer |-> 0, from |-> AV(s.es[idx].as), to |-> AV(leaf)]}
                     ELSE {})
         \cup UNION {
           {[seg |-> k, sc |-> idx - 1, peer |-> p, from |-> AV(leaf),
             to |-> PV(s.es[idx].as, s.es[idx].peers[p].lif, s.es[idx].peers[p].pas, s.es[idx].peers[p].pif)],
            [seg |-> k, sc |-> idx - 1, peer |-> p,
             from |-> PV(s.es[idx].peers[p].pas, s.es[idx].peers[p].pif, s.es[idx].as, s.es[idx].peers[p].lif),
             to |-> AV(leaf)]} : p \in {q \in 1..Len(s.es[idx].peers) : PeerUsable(s.es[idx].peers[q])}}
         : idx \in 1..L}

\* the adjacency map keeps ONE edge per (from, to, segment VALUE): insertion runs over the entries from
\* the last to the first and over the peers in order, a later insertion overwrites an earlier one;
\* equal segments (duplicates) are one key.
SegVal(soup, k) == [kind |-> soup[k].kind, es |-> soup[k].es]
Wins(e2, e) == \/ e2.sc < e.sc
               \/ e2.sc = e.sc /\ e2.peer > e.peer
AllEdges(soup) == UNION {SegEdges(soup, k) : k \in 1..Len(soup)}
Edges(soup) ==
  LET \* of several identical segments the one with the lowest index represents the key
      dup == {k \in 1..Len(soup) : \E k2 \in 1..(k - 1) : SegVal(soup, k2) = SegVal(soup, k)}
  \* (TLCEval: TLC would otherwise keep the filtered sets lazy and re-run the filter at every use)
  IN TLCEval(UNION {LET S == TLCEval(SegEdges(soup, k)) IN
                    {e \in S : ~\E e2 \in S : e2.from = e.from /\ e2.to = e.to /\ Wins(e2, e)}
                    : k \in (1..Len(soup)) \ dup})

IsNc(soup, e) == soup[e.seg].kind = "nc"

ValidNext(soup, sol, e) ==
  CASE Len(sol) = 0 -> TRUE
    [] Len(sol) = 1 -> IsNc(soup, sol[1]) \/ IsNc(soup, e)
    [] Len(sol) = 2 -> IsNc(soup, sol[1]) /\ ~IsNc(soup, sol[2]) /\ IsNc(soup, e)
    [] OTHER -> FALSE

\* get_paths: breadth first from AS(src); a solution that reaches AS(dst) is final and not extended
\* edges indexed by their source vertex (computed once per soup)
IndexByFrom(E) == TLCEval([v \in {e.from : e \in E} |-> TLCEval({e \in E : e.from = v})])

SolutionsX(X, soup, src, dst) ==
  LET Cur(s) == IF s = <<>> THEN AV(src) ELSE s[Len(s)].to
      Out(v) == IF v \in DOMAIN X THEN X[v] ELSE {}
      Step(front) == UNION {{Append(s, e) : e \in Out(Cur(s))} : s \in front}
      Ok(front) == {s \in front : ValidNext(soup, SubSeq(s, 1, Len(s) - 1), s[Len(s)])}
      l1 == TLCEval(Ok(Step({<<>>})))
      l2 == TLCEval(Ok(Step({s \in l1 : s[1].to # AV(dst)})))
      l3 == TLCEval(Ok(Step({s \in l2 : s[2].to # AV(dst)})))
  IN {s \in l1 \cup l2 \cup l3 : s[Len(s)].to = AV(dst)}
SolutionsE(E, soup, src, dst) == SolutionsX(IndexByFrom(E), soup, src, dst)
Solutions(soup, src, dst) == SolutionsE(Edges(soup), soup, src, dst)

(***************************************************************************)
(* I-layer: PathSolution::path                                             *)
(***************************************************************************)
ConsDir(soup, e) == LET es == soup[e.seg].es IN e.to = AV(es[Len(es)].as)

\* interfaces contributed by one edge, in travel order
EdgeIfaces(soup, e) ==
  LET es == soup[e.seg].es
      L  == Len(es)
      first == e.sc + 1                     \* 1-based index of the shortcut entry
      HopIf(idx) ==                         \* interfaces of entry idx in reverse construction order
        LET a    == es[idx]
            inn  == IF e.peer # 0 /\ idx = first THEN a.peers[e.peer].lif ELSE a.in
            isSc == idx = first /\ e.sc # 0
            isP  == idx = first /\ e.peer # 0
        IN (IF a.eg # 0 THEN <<<<a.as, a.eg>>>> ELSE <<>>)
           \o (IF inn # 0 /\ (~isSc \/ isP) THEN <<<<a.as, inn>>>> ELSE <<>>)
      back == TLCEval(FlatIdx([j \in 1..(L - e.sc) |-> HopIf(L + 1 - j)], L - e.sc))
  IN IF ConsDir(soup, e) THEN Rev(back) ELSE back

Ifaces(soup, sol) == FlatIdx([j \in 1..Len(sol) |-> EdgeIfaces(soup, sol[j])], Len(sol))

Hops(soup, e)     == Len(soup[e.seg].es) - e.sc
TotalHops(soup, sol) == LET RECURSIVE Sum(_)
                            Sum(j) == IF j = 0 THEN 0 ELSE Hops(soup, sol[j]) + Sum(j - 1)
                        IN Sum(Len(sol))
\* StandardPath::wire_valid: <= 63 hop fields per segment, <= 64 hop fields in total (CurrHF is a
\* 6 bit index), 4 + 8 S + 12 H <= 984 bytes
Encodable(soup, sol) == /\ \A j \in 1..Len(sol) : Hops(soup, sol[j]) \in 1..63
                        /\ TotalHops(soup, sol) <= 64
                        /\ 4 + 8 * Len(sol) + 12 * TotalHops(soup, sol) <= 984

HasLoops(ifs) == \E a \in {x[1] : x \in Range(ifs)} : Cardinality({i \in 1..Len(ifs) : ifs[i][1] = a}) > 2

\* the encoding happens before the interface list is looked at
Panics(soup, sol) == ~FIXED /\ Encodable(soup, sol) /\ Ifaces(soup, sol) = <<>>

\* what combine() returns, as the set of interface sequences
\* (E = Edges(soup) is passed in so that it is computed once per soup)
PathsE(E, soup, src, dst) ==
  IF src = dst THEN {}
  ELSE {ifs \in {Ifaces(soup, s) : s \in {x \in SolutionsE(E, soup, src, dst) : Encodable(soup, x)}} :
          ifs # <<>> /\ ~HasLoops(ifs)}
Paths(soup, src, dst) == PathsE(Edges(soup), soup, src, dst)

\* P-layer on the model: a returned path has two interfaces per link and they chain through the ASes
ChainOk(ifs) == \A k \in 1..(Len(ifs) - 2) : (k % 2 = 0) => ifs[k][1] = ifs[k + 1][1]
\* every link a path claims to cross is announced by some segment of the input: as two consecutive AS
\* entries, or as a peer entry that names both interfaces
Announced(soup, x, y) ==
  \E k \in 1..Len(soup) : \E i \in 1..Len(soup[k].es) :
    LET es == soup[k].es  a == es[i] IN
    \/ i < Len(es) /\ (\/ (a.as = x[1] /\ a.eg = x[2] /\ es[i + 1].as = y[1] /\ es[i + 1].in = y[2])
                        \/ (a.as = y[1] /\ a.eg = y[2] /\ es[i + 1].as = x[1] /\ es[i + 1].in = x[2]))
    \/ \E p \in 1..Len(a.peers) :
         LET q == a.peers[p] IN
         \/ (a.as = x[1] /\ q.lif = x[2] /\ q.pas = y[1] /\ q.pif = y[2])
         \/ (a.as = y[1] /\ q.lif = y[2] /\ q.pas = x[1] /\ q.pif = x[2])
LinksAnnounced(soup, ifs) == \A j \in 1..(Len(ifs) \div 2) : Announced(soup, ifs[2 * j - 1], ifs[2 * j])

IfsConsistent(soup, sol, ifs) ==
  /\ LinksAnnounced(soup, ifs)
  /\ Len(ifs) = 2 * (TotalHops(soup, sol) - Len(sol) + (IF \E j \in 1..Len(sol) : sol[j].peer # 0 THEN 1 ELSE 0))
  /\ ChainOk(ifs)
  /\ \A k \in 1..Len(ifs) : ifs[k][2] # 0
SolConsistent(soup, sol, src, dst) == IfsConsistent(soup, sol, Ifaces(soup, sol))
AllConsistentE(E, soup, src, dst) ==
  src = dst \/ \A s \in SolutionsE(E, soup, src, dst) :
                 (Encodable(soup, s) /\ Ifaces(soup, s) # <<>> /\ ~HasLoops(Ifaces(soup, s))) => SolConsistent(soup, s, src, dst)

AnyPanicE(E, soup, src, dst) == src # dst /\ \E s \in SolutionsE(E, soup, src, dst) : Panics(soup, s)
AnyPanic(soup, src, dst) == AnyPanicE(Edges(soup), soup, src, dst)

(***************************************************************************)
(* Good / junk                                                             *)
(***************************************************************************)
GoodPart(soup) == SelectSeq(soup, LAMBDA s : s.good)
Ases(s) == {s.es[i].as : i \in 1..Len(s.es)}
          \cup UNION {{s.es[i].peers[p].pas : p \in 1..Len(s.es[i].peers)} : i \in 1..Len(s.es)}
GoodAses(soup) == UNION {Ases(soup[k]) : k \in {j \in 1..Len(soup) : soup[j].good}}
\* a segment that cannot contribute: no entries, or no AS in common with the good segments and the endpoints
NonContributing(soup, k, src, dst) ==
  \/ soup[k].es = <<>>
  \/ Ases(soup[k]) \cap (GoodAses(soup) \cup {src, dst}) = {}
AllJunkNonContributing(soup, src, dst) ==
  \A k \in 1..Len(soup) : soup[k].good \/ NonContributing(soup, k, src, dst)

(***************************************************************************)
(* P-layer (model level)                                                   *)
(***************************************************************************)
\* links of a solution: hops - segments (+1 for the peering link)
Links(soup, sol) == TotalHops(soup, sol) - Len(sol) + (IF \E j \in 1..Len(sol) : sol[j].peer # 0 THEN 1 ELSE 0)

MonotoneAt(soup, src, dst) ==
  LET g == Paths(GoodPart(soup), src, dst)
      a == Paths(soup, src, dst)
  IN /\ g \subseteq a
     /\ AllJunkNonContributing(soup, src, dst) => g = a

TotalAt(soup, src, dst) == ~AnyPanic(soup, src, dst)
=============================================================================
