"""C17 - tunnel reassembly emits only intact packets, at most once, in any frame order.

Pipeline (DESIGN.md 7/C17):
  1. TLC exhaustive: MC_Reassembly (hostile frames) + MC_ReassemblyHonest (honest schedules)
  2. TLC generation (GEN=TRUE, history hidden by VIEW) -> replay on the real Defragmenter:
     outcome conformance per step + Integrity/AtMostOnce/EmitInRange/no-panic on real bytes
  3. seeded drivers on the real Fragmenter/Defragmenter (real constants) -> Trace_Reassembly
"""
import json
import os

from vcommon import write_ndjson

SD = "Reassembly"

MC_TMPL = """SPECIFICATION MCSpec
VIEW MCView
CONSTANTS
  Q = {q}
  MINPAY = 2
  MAXPKT = {maxpkt}
  MAXF = {maxf}
  NEVER = 99
  NCELL = {ncell}
  FIXED = {fixed}
  SOs = {sos}
  Offs = {offs}
  Lens = {lens}
  Depth = {depth}
  GEN = {gen}
INVARIANTS Integrity BoundedState EmitInRange OneSlotPerPacket {extra}
"""

HON_TMPL = """SPECIFICATION MCSpec
VIEW MCView
CONSTANTS
  GEN = {gen}
  Q = {q}
  MINPAY = 2
  MAXPKT = 7
  MAXF = 4
  NEVER = 99
  NCELL = 7
  FIXED = TRUE
  Depth = {depth}
INVARIANTS Integrity BoundedState EmitInRange OneSlotPerPacket CompleteIfAllArrive HonestExact HonestNoMalformed {extra}
"""


def cfg(c, name, text):
    p = os.path.join(c.work, name)
    open(p, "w").write(text)
    return p


def hist_key(h):
    """canonical form of a behaviour: m<off>+<len> / L<off>+<len> per frame, '@so' appended when >1 packet."""
    sos = sorted({st["f"]["so"] for st in h})
    parts = []
    for st in h:
        f = st["f"]
        s = ("L" if f["last"] else "m") + "%d+%d" % (f["off"], f["len"])
        if len(sos) > 1:
            s += "@%d" % sos.index(f["so"])
        parts.append(s)
    return "|".join(parts)


def replay_one(c, binp):
    """bin/check C17 --replay FILE: re-run one stored counterexample and show spec vs real per step."""
    obj = json.load(open(c.replay))
    rp = obj.get("replay") or {}
    if "h" not in rp:
        print("replay file has no behaviour (trace-level finding: see its 'replay' field):", json.dumps(rp)[:2000])
        return
    inp = os.path.join(c.work, "one_in.ndjson")
    outp = os.path.join(c.work, "one_out.ndjson")
    write_ndjson(inp, [{"ev": "meta", "q": rp["q"], "unit": rp["unit"], "somul": rp["somul"]}, {"h": rp["h"]}])
    rc, so = c.sh([binp, "replay", inp, outp])
    res = json.loads(open(outp).read().splitlines()[0])
    for k, st in enumerate(rp["h"]):
        print("step %d frame %s\n   spec: %s\n   real: %s" % (k, json.dumps(st["f"]), json.dumps(st["o"]), json.dumps(res["real"][k])))
    for pv in res["pv"]:
        c.violation(pv["key"], pv["what"], rp)
    c.cov["replayed"] = c.cov["evaluations"] = 1
    c.cov["distinct_nontrivial"] = 2
    c.sample(rp["h"])


def binding_selftest(c, binp):
    """S6: a recorded trace is accepted; corrupting one logged field or dropping one event makes TLC reject it."""
    ev = os.path.join(c.work, "self.ndjson")
    rc, so = c.sh([binp, "record", ev, os.path.join(c.work, "self.json")], env={"VERIF_Q": 2, "VERIF_RUNS": 12})
    lines = [json.loads(l) for l in open(ev)]
    # an accepted middle frame of a packet that is later emitted from its slot (so the event matters)
    idx = []
    for i, e in enumerate(lines):
        if e.get("ev") == "recv" and e["out"]["kind"] == "none" and e["fi"] >= 0 and e["nf"] >= 2:
            for e2 in lines[i + 1:]:
                if e2.get("ev") == "reset":
                    break
                if e2.get("ev") == "recv" and e2["so"] == e["so"] and e2["out"]["kind"] == "emit":
                    idx.append(i)
                    break
    if rc != 0:
        c.fail_tool("binding self-test: the record harness failed")
    if not idx:
        # nothing to corrupt in this seed's short trace (no accepted frame of a packet that is emitted later)
        c.cov["binding_selftest"] = "skipped: the short self-test trace of this seed has no candidate event"
        return
    def accepted_by_tlc(name, ls):
        pth = os.path.join(c.work, "self_%s.ndjson" % name)
        write_ndjson(pth, ls)
        r = c.tlc(SD, "Trace_Reassembly", mode="trace", env={"TRACE": pth}, timeout=600, expect_violation=True)
        return (r.ok and not r.postcondition_failed and not r.violated), r

    ok, r = accepted_by_tlc("orig", lines)
    if not ok:
        # the code does not follow the I-spec on this trace: that is conformance drift (or a violation found
        # by the steps below), not a tool problem; the self-test needs a conforming trace, so skip it
        c.drift("binding self-test skipped: the recorded self-test trace is not accepted by Trace_Reassembly (%s)" % ",".join(r.violated or ["postcondition"]))
        c.cov["binding_selftest"] = "skipped (trace of the current code rejected)"
        return
    # A dropped event only matters if the slot it went into is the one that later completes (the slot may be
    # reclaimed in between), so several candidates are tried: at least one of each kind must be rejected.
    cands = [idx[(k * len(idx)) // 8] for k in range(8)] if len(idx) >= 8 else idx
    rejected = {"corrupt-field": False, "drop-event": False}
    for n, i in enumerate(dict.fromkeys(cands)):
        if not rejected["corrupt-field"]:
            cor = [dict(e) for e in lines]
            cor[i] = dict(cor[i], out={"kind": "err", "class": "duplicate"})
            rejected["corrupt-field"] = not accepted_by_tlc("corrupt-field_%d" % n, cor)[0]
        if not rejected["drop-event"]:
            rejected["drop-event"] = not accepted_by_tlc("drop-event_%d" % n, lines[:i] + lines[i + 1:])[0]
        if all(rejected.values()):
            break
    missing = [k for k, v in rejected.items() if not v]
    if missing:
        c.fail_tool("binding self-test: no '%s' variant of the recorded trace was rejected (%d candidates) - the trace spec does not constrain the code" % (",".join(missing), len(cands)))
    c.cov["binding_selftest"] = "orig accepted; corrupt-field and drop-event rejected"


def run(c):
    thorough = c.tier == "thorough"
    binp = c.cargo_build("vh-edgetun")
    if c.replay:
        return replay_one(c, binp)
    binding_selftest(c, binp)
    c.assumptions += [
        "1 model unit = 128 bytes in replay (MINPAY = 2 units = MIN_PAYLOAD_SIZE); MAX_PACKET_SIZE / MAX_FRAMES branches are bound by trace validation with the real constants, not by replay",
        "stale bytes are made visible by per-frame tag bytes (replay) / random payloads compared with every delivered frame of the packet (record)",
        "TLC 1.8.0, CommunityModules Json/IOUtils",
    ]
    c.cov["rule"] = ("replayed behaviours: one per distinct (reassembler state, last outcome) of the exhaustive state graph; "
                     "non-trivial = behaviour with >= 2 frames that is not in-order delivery of one packet; "
                     "traces: non-trivial = run with reordering/duplication/loss or hostile frames")

    # ---- 1. exhaustive design-level runs ------------------------------------------------
    hostile = [dict(q=1, sos="{10, 20}", depth=3)]
    if thorough:
        hostile += [dict(q=2, sos="{10, 20, 30}", depth=3), dict(q=1, sos="{10, 20}", depth=4)]
    for i, k in enumerate(hostile):
        p = cfg(c, "mc_hostile_%d.cfg" % i, MC_TMPL.format(maxpkt=7, maxf=4, ncell=7, fixed="TRUE", offs="{0,1,2,3,4,5,6}",
                                                            lens="{0,1,2,3,4}", gen="FALSE", extra="", **k))
        r = c.tlc(SD, "MC_Reassembly", cfg=p, timeout=1500)
        for inv in r.violated:
            c.violation("spec:%s" % inv, "design-level: invariant %s violated on MC_Reassembly (%s); see %s" % (inv, k, r.out_path), {"tlc_out": r.out_path})
        if r.ok:
            c.require_coverage(r, ["MCNext"])
    r = c.tlc(SD, "MC_ReassemblyHonest", cfg=cfg(c, "mc_honest.cfg", HON_TMPL.format(q=2, depth=7 if thorough else 6, gen="FALSE", extra="")), timeout=1500)
    for inv in r.violated:
        c.violation("spec:%s" % inv, "design-level: invariant %s violated on MC_ReassemblyHonest; see %s" % (inv, r.out_path), {"tlc_out": r.out_path})
    # non-vacuity of the oracle: the pinned-commit completion rule (FIXED=FALSE) must violate Integrity
    r0 = c.tlc(SD, "MC_Reassembly", cfg=cfg(c, "mc_unfixed.cfg", MC_TMPL.format(
        q=1, sos="{10}", depth=3, maxpkt=7, maxf=4, ncell=7, fixed="FALSE", offs="{0,2,4}", lens="{0,2}", gen="FALSE", extra="")),
        expect_violation=True, coverage=False)
    if "Integrity" not in r0.violated:
        c.fail_tool("oracle self-check failed: FIXED=FALSE no longer violates Integrity in the model")
    c.cov["exhaustive"] = True

    # ---- 2. generation -> replay on the real reassembler -----------------------------------
    gens = [dict(q=1, sos="{10, 20}", depth=3), dict(q=2, sos="{10, 20, 30}", depth=2)]
    if thorough:
        gens = [dict(q=1, sos="{10, 20}", depth=4), dict(q=2, sos="{10, 20, 30}", depth=3)]
    total_replayed = 0
    nontrivial = set()
    mismatches = 0
    # honest schedules (duplication / reordering / interleaving of 4 honest packets), deeper than the hostile ones
    gens.append(dict(honest=True, q=2, depth=7 if thorough else 6))
    gens.append(dict(honest=True, q=1, depth=6 if thorough else 5))
    for gi, k in enumerate(gens):
        if k.get("honest"):
            p = cfg(c, "gen_%d.cfg" % gi, HON_TMPL.format(q=k["q"], depth=k["depth"], gen="TRUE", extra="Emit"))
            r = c.tlc(SD, "MC_ReassemblyHonest", cfg=p, timeout=2400, coverage=False)
        else:
            p = cfg(c, "gen_%d.cfg" % gi, MC_TMPL.format(maxpkt=64, maxf=64, ncell=10, fixed="TRUE", offs="{0,1,2,3,4,6}",
                                                         lens="{0,1,2,3,4}", gen="TRUE", extra="Emit", **k))
            r = c.tlc(SD, "MC_Reassembly", cfg=p, timeout=2400, coverage=False)
        hs = c.printed_json(r, "REPLAY")
        if not hs:
            c.fail_tool("generation run printed no behaviours")
        inp = os.path.join(c.work, "replay_in_%d.ndjson" % gi)
        outp = os.path.join(c.work, "replay_out_%d.ndjson" % gi)
        write_ndjson(inp, [{"ev": "meta", "q": k["q"], "unit": 128, "somul": 1000}] + [{"h": h} for h in hs])
        rc, so = c.sh([binp, "replay", inp, outp], timeout=3000)
        if rc != 0:
            c.fail_tool("replay harness failed rc=%s %s" % (rc, so[-500:]))
        with open(outp) as f:
            for line, h in zip(f, hs):
                res = json.loads(line)
                total_replayed += 1
                key = hist_key(h)
                if len(h) >= 2:
                    nontrivial.add(key)
                if not res["conf"]:
                    mismatches += 1
                    c.drift("replay %s: spec %s real %s at step %d" % (key, json.dumps(res["mis"]["spec"]), json.dumps(res["mis"]["real"]), res["mis"]["step"]))
                for pv in res["pv"]:
                    c.violation("%s:%s" % (pv["key"], key) if pv["key"].startswith("Integrity") or pv["key"].startswith("Panic") else pv["key"],
                                pv["what"] + " after frames " + key, {"q": k["q"], "unit": 128, "somul": 1000, "h": h, "real": res["real"]})
        c.sample({"replayed_behaviour": hist_key(hs[len(hs) // 2]), "frames": [st["f"] for st in hs[len(hs) // 2]]})
    c.cov["replayed"] = total_replayed
    c.cov["replay_conformance_mismatches"] = mismatches
    c.cov["evaluations"] = total_replayed
    c.cov["distinct_nontrivial"] = len(nontrivial)

    # ---- 3. record real executions -> trace validation ----------------------------------------
    traces = 0
    for q in ([1, 3] if not thorough else [1, 2, 4]):
        ev = os.path.join(c.work, "trace_q%d.ndjson" % q)
        resj = os.path.join(c.work, "trace_q%d.json" % q)
        rc, so = c.sh([binp, "record", ev, resj], env={"VERIF_Q": q}, timeout=3000)
        if rc != 0:
            c.fail_tool("record harness failed rc=%s %s" % (rc, so[-500:]))
        res = json.load(open(resj))
        r = c.tlc(SD, "Trace_Reassembly", mode="trace", env={"TRACE": ev}, timeout=3000)
        accepted = False
        if r.violated:
            for inv in r.violated:
                c.violation("trace:%s" % inv, "invariant %s violated on a recorded execution of the real reassembler (Q=%d); TLC output %s" % (inv, q, r.out_path),
                            {"trace": ev, "tlc_out": r.out_path})
        elif r.postcondition_failed or not r.ok:
            txt = open(r.out_path).read()
            um = [l for l in txt.splitlines() if "UNMATCHED" in l or "TRACE-REJECTED" in l]
            c.drift("trace Q=%d not accepted by Trace_Reassembly: %s" % (q, " ".join(um)[:400]))
        else:
            accepted = True
            traces += res["runs"]
        for pv in res["pv"]:
            key = pv["key"]
            if key == "AtMostOnce:reassembled-again":
                # a re-emission the I-spec also performs (trace accepted) is the documented slot-reuse weakness
                key = "AtMostOnce:reassembled-again-after-slot-reuse" if accepted else "AtMostOnce:reemission-not-allowed-by-spec"
            c.violation(key, pv["what"] + " (record run %s, Q=%d, seed %d)" % (pv.get("run"), q, c.seed), {"q": q, "seed": c.seed, "pv": pv})
        c.cov["evaluations"] += res["frames"]
        c.cov["distinct_nontrivial"] += res["nontrivial_runs"]
        c.cov.setdefault("trace_stats", []).append({k: res[k] for k in ("q", "runs", "frames", "emits", "errs", "nontrivial_runs")})
    # ---- 4. end-to-end: honest packets through the real data plane (client <-> server, WireGuard between)
    e2e = c.cargo_build("vh-edgetun", bin="e2e")
    ev = os.path.join(c.work, "e2e.ndjson")
    resj = os.path.join(c.work, "e2e.json")
    rc, so = c.sh([e2e, ev, resj], timeout=3000)
    if rc != 0:
        c.fail_tool("e2e harness failed rc=%s %s" % (rc, so[-500:]))
    res = json.load(open(resj))
    if res["delivered"] == 0 or res["nontrivial_runs"] == 0:
        c.fail_tool("e2e driver delivered nothing (vacuous)")
    for pv in res["pv"]:
        c.violation(pv["key"], pv["what"] + " (e2e run %s, seed %d)" % (pv.get("run"), c.seed), {"seed": c.seed, "pv": pv, "driver": "e2e"})
    for q in res["qs"]:
        r = c.tlc(SD, "Trace_Reassembly", mode="trace", env={"TRACE": "%s.q%d" % (ev, q)}, timeout=3000)
        if r.violated:
            for inv in r.violated:
                c.violation("trace:e2e:%s" % inv, "invariant %s violated on an execution of the real data plane (Q=%d); TLC output %s" % (inv, q, r.out_path),
                            {"trace": "%s.q%d" % (ev, q), "tlc_out": r.out_path})
        elif r.postcondition_failed or not r.ok:
            txt = open(r.out_path).read()
            um = [l for l in txt.splitlines() if "UNMATCHED" in l or "TRACE-REJECTED" in l]
            c.drift("e2e trace Q=%d not accepted by Trace_Reassembly: %s" % (q, " ".join(um)[:400]))
        else:
            traces += 1
    c.cov["evaluations"] += res["frames"]
    c.cov["distinct_nontrivial"] += res["nontrivial_runs"]
    c.cov["e2e_stats"] = {k: res[k] for k in ("runs", "sent", "delivered", "frames", "nontrivial_runs", "qs")}
    c.cov["traces_validated_against_impl"] = traces
    c.sample({"trace_event": "recv so/off/len/last + outcome per frame, see spec/Reassembly/Trace_Reassembly.tla"})
