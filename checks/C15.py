"""C15 - address and identifier text forms round-trip, reject the rest, never panic.

Specification: spec/AddrText/AddrText.tla.  A string is a sequence of tokens (structural characters
[ ] , - : ; white space; atoms = maximal runs of other characters).  Leaf syntax (decimal, hex group,
IPv4, IPv6, service name) is a FACT about an atom / token range decided by Rust std; the STRUCTURE
(splitting, brackets, separators, nothing before / nothing after, which leaf goes where, how the AS
number is composed) is decided by the specification:
  P-layer  G(T, string)  the documented grammars, declaratively
  I-layer  I(T, string)  the algorithms of the Rust parsers (rsplit_once, splitn, first ']' ...)

Pipeline
  1. TLC exhaustive (MC_AddrText): every token string within K edits of the displayed forms of
     representative values of all 17 target types and every string of length <= K: I never panics,
     I accepts => G accepts with the same value (Sound), G accepts => I accepts (Complete), displayed
     forms parse back (RoundTrip).  Oracle self-checks: the pinned-commit bracket test (FIXED=FALSE) and
     the pinned-commit TXT loop (FIXTXT=FALSE) must violate NoPanic / Sound.
  2. generation -> replay: each enumerated string is concretised with several literals per class
     (0, max, max+1, signs, leading zeros, upper/lower hex, 2- and 4-byte UTF-8 junk, overflow) and
     given to FromStr / serde string form / TryFrom<String> / the TXT parser; real outcome and value
     must equal TLC's expectation.  Every disagreement (and 1 in 40 agreements) is judged again by TLC
     from the facts of the concrete string (step 4), so a wrong literal table or IPv6 prediction
     cannot raise a false alarm.
  3. record: displayed forms of boundary + seeded random values of every type (parse(show(v)) == v is
     checked on the real output), single-character insert/delete/replace edits of them (seeded subset
     in quick, far more in thorough), every string of length <= 2 and a sample of length 3-4 over a 30-character
     alphabet.
  4. trace validation (Trace_AddrText): TLC evaluates G and I on every recorded line; the P-verdict
     is taken on the REAL outcome: Panic / Unsound (accepted, not in the grammar) / Value (accepted
     with another value than the grammar's).  I-layer differences that keep P are DRIFT.

Reading adopted (the one that demands less of the code)
  * allowed alternative spellings: whatever u16/u64::from_str, u16::from_str_radix(16),
    Ipv4Addr/Ipv6Addr::from_str accept for a leaf ("+5", leading zeros, upper-case hex, every IPv6
    compression), colon-hex for any AS number, decimal AS numbers in TXT records, service suffix _A,
    and in TXT records any (Unicode) white space around entries, brackets' contents and commas.
  * a string rejected by the code is never a violation (alternative spellings are allowed, not
    required); only displayed forms must be accepted.
  * values: ISD 0..2^16-1, AS 0..2^48-1 (Asn/IsdAsn built from in-range numbers), every IPv4/IPv6
    address, every 16-bit service number, every port.
  * error variants/messages are not compared.
"""
import json
import os

from vcommon import read_ndjson, write_ndjson

SD = "AddrText"

MC_TMPL = """SPECIFICATION MCSpec
CONSTANTS
  FIXED = {fixed}
  FIXTXT = {fixtxt}
  MODE = "mc"
  K_EDITS = {k}
  MAXLEN = 40
  SEEDSEL = {seeds}
  TSEL = {tsel}
  GEN = {gen}
INVARIANTS {invs}
"""

ALL_TYPES = ["Isd", "Asn", "IsdAsn", "Svc", "Host", "AddrV4", "AddrV6", "AddrSvc", "Addr", "IpAddr",
             "SockV4", "SockV6", "SockSvc", "Sock", "SockIp", "TxtPayload", "TxtRecord"]
GROUP = {"SockV4": "Sock", "SockV6": "Sock", "SockSvc": "Sock", "SockIp": "Sock", "Sock": "Sock",
         "AddrV4": "Addr", "AddrV6": "Addr", "AddrSvc": "Addr", "IpAddr": "Addr", "Addr": "Addr",
         "TxtPayload": "Txt", "TxtRecord": "Txt"}


TYPES_ENV = {"VERIF_TYPES": ",".join(ALL_TYPES)}   # the hop-predicate types of the same binary belong to C16


def cfg(c, name, **kw):
    kw.setdefault("invs", "NoPanic Sound Complete Emit")
    kw.setdefault("tsel", seedset(ALL_TYPES))
    p = os.path.join(c.work, name)
    open(p, "w").write(MC_TMPL.format(**kw))
    return p


def seedset(names):
    return "{" + ", ".join('"%s"' % n for n in names) + "}"


def validate_trace(c, trace, label):
    """TLC judges every line of a recorded trace; returns (lines, pv list, drift list)."""
    lines = read_ndjson(trace)
    side = read_ndjson(trace + ".side")
    n = len(lines) - 1
    if n <= 0:
        return 0, [], []
    r = c.tlc(SD, "Trace_AddrText", mode="mc", env={"TRACE": trace}, timeout=9000, coverage=False, xmx="8g")
    chunks = (n + 127) // 128
    if not r.ok or r.postcondition_failed or r.distinct != 1 + chunks + n:
        c.fail_tool("trace validation of %s did not visit every line (%d distinct states, %d lines): %s" % (label, r.distinct, n, r.out_path))
    pvs = c.printed_json(r, "PV")
    drifts = c.printed_json(r, "DRIFT") + [dict(d, kind="displayed form not in the grammar", e="show", o="-") for d in c.printed_json(r, "SHOWDRIFT")]
    for x in pvs + drifts:
        x["text"] = side[x["l"] - 1]["text"]
        x["msgs"] = side[x["l"] - 1].get("msgs", [])
        x["class"] = side[x["l"] - 1].get("class", "")
    # displayed forms of unnamed service numbers are reported as a round-trip finding, not as drift as well
    drifts = [d for d in drifts if d["class"] != "svc-unnamed"]
    return n, pvs, drifts


def report(c, pvs, drifts, label):
    for x in pvs:
        key = "%s:%s:%s" % (x["kind"], GROUP.get(x["T"], x["T"]), x["sig"])
        what = {"Panic": "%s %s panics on %r", "Unsound": "%s %s accepts %r, which is not a displayed form (documented grammar rejects it)",
                "Value": "%s %s accepts %r with a value different from the one the grammar assigns"}[x["kind"]] % (x["T"], x["e"], x["text"])
        c.violation(key, what + " [%s]" % label, {"text": x["text"], "T": x["T"], "entry": x["e"], "kind": x["kind"], "msgs": x["msgs"]},
                    group="%s:%s" % (x["kind"], GROUP.get(x["T"], x["T"])))
    for x in drifts:
        c.drift("%s: %s %s on %r: real %s, I-layer differs (%s)" % (label, x["T"], x.get("e"), x["text"], x.get("o"), x["kind"]))


def replay_one(c, bins):
    obj = json.load(open(c.replay))
    rp = obj.get("replay") or {}
    text = rp.get("text")
    if text is None:
        print("replay file carries no text:", json.dumps(rp)[:1000])
        return
    for b in bins:
        rc, so = c.sh([b, "one", text])
        print(so)
    # judge the single string again through the trace route
    tr = os.path.join(c.work, "one.ndjson")
    for i, b in enumerate(bins):
        rc, so = c.sh([b, "record", tr + str(i), os.path.join(c.work, "one%d.json" % i)], env=dict(TYPES_ENV, VERIF_ONLY=text))
        if rc != 0:
            c.fail_tool("record (single string) failed: %s" % so[-300:])
        n, pvs, drifts = validate_trace(c, tr + str(i), "replay")
        report(c, pvs, drifts, "replay")
        c.cov["traces_validated_against_impl"] += n
    c.cov["replayed"] = c.cov["evaluations"] = 1
    c.cov["distinct_nontrivial"] = 1
    c.sample({"text": text})


def binding_selftest(c, binp):
    """S6: (i) a recorded real execution is judged line by line; (ii) corrupting one recorded outcome
    (reject -> accept) makes TLC report it; (iii) a mutant of the harness-side ADAPTER (trims the input
    before parsing, i.e. silently drops leading/trailing white space) is reported as a violation.
    If the code under test behaves so unexpectedly that no suitable line exists, the self-test is
    skipped with a DRIFT line (never a tool error)."""
    tr = os.path.join(c.work, "self.ndjson")
    rc, so = c.sh([binp, "record", tr, os.path.join(c.work, "self.json")], env=dict(TYPES_ENV, VERIF_EDITS=200, VERIF_SHORTS=0))
    if rc != 0:
        c.fail_tool("binding self-test: record failed %s" % so[-300:])
    lines = read_ndjson(tr)
    side = read_ndjson(tr + ".side")
    fake = {"isd": [1], "as": [0, 0, 1], "hk": "v4", "hg": [1, 1], "port": [1], "list": []}
    idx = next((i for i, l in enumerate(lines) if i > 0 and l["src"] == "edit" and any(x["o"] == "rej" for x in l["chk"])), None)
    if idx is None:
        c.drift("binding self-test skipped: no rejected single-character edit recorded")
        return
    cor = json.loads(json.dumps(lines))
    for x in cor[idx]["chk"]:
        if x["o"] == "rej":
            x["o"], x["v"] = "acc", fake
    # adapter mutant: recorded into a second file, both judged in one TLC run
    p3 = os.path.join(c.work, "self_mutant.ndjson")
    rc, so = c.sh([binp, "record", p3, os.path.join(c.work, "self_mutant.json")], env=dict(TYPES_ENV, VERIF_EDITS=800, VERIF_SHORTS=0, VERIF_MUTANT="trim"))
    if rc != 0:
        c.fail_tool("binding self-test: record (mutant) failed %s" % so[-300:])
    p2 = os.path.join(c.work, "self_both.ndjson")
    write_ndjson(p2, cor + read_ndjson(p3)[1:])
    write_ndjson(p2 + ".side", side + read_ndjson(p3 + ".side")[1:])
    n, pvs, _ = validate_trace(c, p2, "selftest")
    if not any(x["l"] == idx + 1 for x in pvs):
        c.fail_tool("binding self-test: a corrupted outcome (reject -> accept) was not reported by Trace_AddrText")
    if not any(x["l"] > len(cor) and x["kind"] == "Unsound" and "_" in x["sig"] for x in pvs):
        c.drift("binding self-test: the trimming adapter mutant was not reported (does the code under test reject everything?)")
        return
    c.cov["binding_selftest"] = "corrupted outcome reported; trimming adapter mutant reported (%d lines)" % n


def run(c):
    thorough = c.tier == "thorough"
    b_sci = c.cargo_build("vh-sciparse", bin="addrtext")
    b_txt = c.cargo_build("vh-stack", bin="txtrecord")
    bins = [b_sci, b_txt]
    if c.replay:
        return replay_one(c, bins)
    c.assumptions += [
        "leaf syntax (decimal u16/u64, hex u16, IPv4, IPv6) is whatever Rust std accepts; the harness lexer and its leaf-fact table are trusted glue (self-checked against the class table of MC_AddrText and by re-lexing every concretised string)",
        "service names: DS, CS, Wildcard with optional _A/_M (harness's own table, written from the documentation)",
        "TXT records have no printer in the code; their displayed form is the documented TSAR grammar built from Display of IsdAsn and IpAddr",
        "TLC, CommunityModules Json/IOUtils",
    ]
    c.cov["rule"] = ("evaluation = one (string, target type, entry point) parse of the real code judged against the spec; "
                     "non-trivial = distinct concrete string that is not the unmodified displayed form of a value "
                     "(token-edit neighbours of displayed forms, short strings, single-character edits)")
    binding_selftest(c, b_sci)

    # ---- 1. exhaustive runs + generation ----------------------------------------------------
    if thorough:
        gens = [dict(k=4, seeds=["empty"]), dict(k=1, seeds=["ids", "addr", "sock", "txt", "txtp"]),
                dict(k=2, seeds=["ids", "addrsmall", "sockone", "txtsmall"])]
    else:
        gens = [dict(k=3, seeds=["empty"]), dict(k=1, seeds=["idsq", "addrq", "sockq", "txt", "txtp"])]
    cases = {}
    for gi, g in enumerate(gens):
        r = c.tlc(SD, "MC_AddrText", cfg=cfg(c, "mc_%d.cfg" % gi, fixed="TRUE", fixtxt="TRUE", k=g["k"], seeds=seedset(g["seeds"]), gen="TRUE"),
                  timeout=9000, coverage=False, xmx="10g")
        for inv in r.violated:
            c.violation("spec:%s" % inv, "design-level: the I-layer (transcription of the parsers) violates %s on MC_AddrText %s; see %s" % (inv, g, r.out_path), {"tlc_out": r.out_path})
        if not r.ok and not r.violated:
            c.fail_tool("MC_AddrText failed: %s" % r.out_path)
        for cs in c.printed_json(r, "CASE"):
            cases.setdefault(tuple(cs["s"]), cs)
    if not cases:
        c.fail_tool("generation printed no cases")
    c.cov["exhaustive"] = True
    # oracle self-checks: the pinned-commit variants must violate the invariants
    r0 = c.tlc(SD, "MC_AddrText", cfg=cfg(c, "mc_unfixed.cfg", fixed="FALSE", fixtxt="TRUE", k=2, seeds=seedset(["empty"]), gen="FALSE"),
               expect_violation=True, coverage=False)
    if "NoPanic" not in r0.violated:
        c.fail_tool("oracle self-check failed: FIXED=FALSE no longer violates NoPanic in the model")
    r1 = c.tlc(SD, "MC_AddrText", cfg=cfg(c, "mc_unfixed2.cfg", fixed="FALSE", fixtxt="TRUE", k=1, seeds=seedset(["sockone"]), gen="FALSE", invs="Sound"),
               expect_violation=True, coverage=False)
    if "Sound" not in r1.violated:
        c.fail_tool("oracle self-check failed: FIXED=FALSE no longer violates Sound in the model")
    r2 = c.tlc(SD, "MC_AddrText", cfg=cfg(c, "mc_unfixtxt.cfg", fixed="TRUE", fixtxt="FALSE", k=1, seeds=seedset(["txtsmall"]), gen="FALSE"),
               expect_violation=True, coverage=False)
    if "Sound" not in r2.violated:
        c.fail_tool("oracle self-check failed: FIXTXT=FALSE no longer violates Sound in the model")

    # ---- 2. replay on the real parsers ------------------------------------------------------
    inp = os.path.join(c.work, "cases.ndjson")
    rows = [{"ev": "meta", "variants": 6 if thorough else 3, "sample_every": 40}]
    for cs in cases.values():
        g = cs["g"] if isinstance(cs["g"], dict) else {}
        i = cs["i"] if isinstance(cs["i"], dict) else {}
        rows.append({"s": cs["s"], "g": g, "i": i})
    write_ndjson(inp, rows)
    # vacuity guard on the GENERATOR: every target type must have enumerated strings it should accept
    exp_acc = {}
    for r_ in rows[1:]:
        for t_ in r_["g"]:
            exp_acc[t_] = exp_acc.get(t_, 0) + 1
    missing = [t_ for t_ in ALL_TYPES if exp_acc.get(t_, 0) == 0]
    if missing:
        c.fail_tool("vacuous generation: no enumerated string is in the grammar of %s" % missing)
    c.cov["expected_acceptances_by_type"] = exp_acc
    nontrivial = 0
    traces = []
    for bi, b in enumerate(bins):
        outp = os.path.join(c.work, "replay_%d.json" % bi)
        tr = os.path.join(c.work, "replay_trace_%d.ndjson" % bi)
        rc, so = c.sh([b, "replay", inp, outp, tr], timeout=9000, env=TYPES_ENV)
        if rc != 0:
            c.fail_tool("replay harness failed rc=%s %s %s" % (rc, so[-300:], getattr(c, "last_stderr", "")[-300:]))
        res = json.load(open(outp))
        c.cov["replayed"] += res["strings"]
        c.cov["evaluations"] += res["parses"]
        nontrivial += res["strings"]
        c.cov.setdefault("replay_stats", []).append({k: res[k] for k in ("cases", "strings", "parses", "agree", "disagree", "relex_mismatch", "traced", "panics", "accepted_by_type")})
        if res["relex_mismatch"]:
            c.drift("replay: %d concretised strings lex to another abstraction than the enumerated one (literal table / V6Shape prediction); judged by the trace route" % res["relex_mismatch"])
        for ex in res["examples"][:3]:
            c.log("replay disagreement (judged below by TLC): %s" % json.dumps(ex)[:400])
        traces.append((tr, "replay/%s" % os.path.basename(b)))
    c.sample({"replayed_case": rows[len(rows) // 2]})

    # ---- 3. record real executions ------------------------------------------------------------
    for bi, b in enumerate(bins):
        tr = os.path.join(c.work, "record_trace_%d.ndjson" % bi)
        outp = os.path.join(c.work, "record_%d.json" % bi)
        budget = (80000 if bi == 0 else 40000) if thorough else (6000 if bi == 0 else 3000)
        rc, so = c.sh([b, "record", tr, outp], timeout=9000, env=dict(TYPES_ENV, VERIF_EDITS=budget, VERIF_SHORTN=5000 if thorough else 400))
        if rc != 0:
            c.fail_tool("record harness failed rc=%s %s" % (rc, so[-300:]))
        res = json.load(open(outp))
        c.cov.setdefault("record_stats", []).append({k: res[k] for k in ("lines", "shown", "edits", "edits_total", "shorts", "accepted", "panics")})
        nontrivial += res["edits"] + res["shorts"]
        for pv in res["pv"]:
            key = pv["key"]
            # unnamed service numbers are one finding whatever the carrying type
            if key.endswith(":svc-unnamed"):
                key = "RoundTrip:svc-unnamed"
            c.violation(key, pv["what"], {"text": pv["text"], "T": pv["T"], "entry": pv["entry"], "kind": "RoundTrip"})
        traces.append((tr, "record/%s" % os.path.basename(b)))
        c.sample({"recorded": read_ndjson(tr + ".side")[len(read_ndjson(tr + ".side")) // 2]})

    # ---- 4. trace validation: the recorded files are cut into pieces of <= PIECE lines (the JSON of a much
    #         larger file does not fit the trace JVM); small files share one TLC run ------------------------
    PIECE = 30000
    buf_l, buf_s, buf_o = [], [], []
    pieces = [0]

    def flush():
        if not buf_l:
            return
        piece = os.path.join(c.work, "traces_%d.ndjson" % pieces[0])
        pieces[0] += 1
        write_ndjson(piece, [{"ev": "meta", "spec": "AddrText"}] + buf_l)
        write_ndjson(piece + ".side", [{"ev": "meta"}] + buf_s)
        org = [None] + list(buf_o)
        del buf_l[:], buf_s[:], buf_o[:]
        n, pvs, drifts = validate_trace(c, piece, "traces")
        c.cov["traces_validated_against_impl"] += n
        for label in sorted({o for o in org if o}):
            report(c, [x for x in pvs if org[x["l"] - 1] == label], [x for x in drifts if org[x["l"] - 1] == label], label)

    for tr, label in traces:
        with open(tr) as f, open(tr + ".side") as g:
            next(f), next(g)                      # meta lines
            for l, sd in zip(f, g):
                l = json.loads(l)
                if label.startswith("record"):
                    c.cov["evaluations"] += len(l["chk"])
                buf_l.append(l)
                buf_s.append(json.loads(sd))
                buf_o.append(label)
                if len(buf_l) >= PIECE:
                    flush()
    flush()
    c.cov["distinct_nontrivial"] = nontrivial
