"""C06 - handed-out paths are live and the manager's state stays bounded.

Pipeline (DESIGN.md 7/C06; shared machinery in lib/pathset_common.py):
  1. TLC exhaustive: MC_PathSet (universe A): LiveAtHandout, NoStarvation, CacheBound, IssueMapBound, IssueFifoBound,
     RefetchWindow, NoWorkerPanic over every bounded history, for the timing core (three orderings of the constants
     the config validator accepts, Late 0 and 1) and for an issue-cache-focused alphabet (3 distinct issues, cache
     size 2, reports inside and outside the dedup window).  In the quick tier these runs are at the same time the
     generators of step 2.
     Oracle self-checks: the manager as found at the pinned commit (FIX_EXPIRY = FALSE resp. FIX_FIFO = FALSE)
     must violate LiveAtHandout resp. IssueMapBound in the model.
  2. generation -> replay on the REAL path set / REAL PathIssueManager (sizes through the hook's accessors), P-monitors
     on the real slot, the really returned paths, the real timers and sizes; conformance -> DRIFT only.
  3. seeded worker-faithful random histories (adversarial lookup failures, one issue repeated for a long time,
     bursts) -> P-monitors + TLC trace validation.

Readings: see lib/pathset_common.py (tick-pending exemption with Late in {0,1}; Valid class in NoStarvation; a
debug_assert panic on hand-out of an expired path = handing out the expired path; FIFO bound = 2 x issue_cache_size).
"""
import pathset_common as pc


def run(c):
    thorough = c.tier == "thorough"
    binp = c.cargo_build("vh-stack", bin="pathset")
    if c.replay:
        return pc.replay_one(c, "C06", binp)
    c.assumptions += [
        "1 model tick = 30 s; config {threshold 2, min delay 1, interval 4, idle 5, backoff 1 x2 max 3, cache 2, issue cache 2, "
        "dedup 1} ticks so that the grid straddles every comparison; Late in {0,1}",
        "the clock only advances while the worker is alive: up to the instant the REAL object asks to be maintained next (+Late), "
        "with its notification channel drained",
        "backoff jitter is 0 in all runs (rand inside ExponentialBackoff is not seeded by the harness)",
        "TLC 1.8.0 / CommunityModules Json, IOUtils",
    ]
    c.cov["rule"] = ("replayed histories: one per distinct state of the bounded state graph, strict prefixes dropped; non-trivial = "
                     "history with >= 2 lookups or a report that is ingested; traces: same rule per recorded run")
    depth = 6 if thorough else 5
    exps = (1, 3)
    issue_cfg = {"max_cache": 1}
    timing = list(pc.ALL_INVARIANTS)
    issue_inv = ["IssueMapBound", "IssueFifoBound", "CacheBound", "NoWorkerPanic", "ActiveInCache", "IrrelevantReportNoChange"]
    # ---- 1. oracle self-checks: the manager as found at the pinned commit must violate the invariants in the model
    pc.mc_run(c, "C06", "oracle_expiry", u="A", depth=5, exp_choices=(1, 3), report_set=(), horizon=9, fix_expiry=False,
              expect=["LiveAtHandout"], oracle=True)
    pc.mc_run(c, "C06", "oracle_fifo", u="A", cfg=issue_cfg, depth=6, exp_choices=(6,), report_set=(1, 2, 3), horizon=6, max_adv=2,
              fix_fifo=False, expect=["IssueMapBound", "IssueFifoBound"], oracle=True,
              invariants=["IssueMapBound", "IssueFifoBound"])
    if thorough:
        pc.mc_run(c, "C06", "mc_A", u="A", depth=depth, exp_choices=exps, report_set=(1,), horizon=9)
        pc.mc_run(c, "C06", "mc_A_exp3", u="A", depth=5, exp_choices=(1, 3, 6), report_set=(1,), horizon=9)
        pc.mc_run(c, "C06", "mc_issue", u="A", cfg=issue_cfg, depth=depth + 2, exp_choices=(6,), report_set=(1, 2, 3), horizon=6, max_adv=2,
                  invariants=issue_inv)
    # ---- 2. exhaustive runs that are at the same time the generators of the replayed histories (one history per distinct
    #         (state, last step)); other orderings of the constants the config validator accepts (min delay <= interval,
    #         min delay <= threshold; backoff unconstrained) are v2 (backoff far beyond interval and lifetimes) and
    #         v3 (threshold > interval = min delay, flat backoff below the min delay)
    v2 = {"threshold": 1, "min_delay": 1, "interval": 2, "idle": 3, "backoff_min": 2, "backoff_max": 6}
    v3 = {"threshold": 3, "min_delay": 2, "interval": 2, "idle": 4, "backoff_min": 1, "backoff_max": 1, "backoff_factor": 1.0}
    nrep, steps, nontriv, outcomes, spec_outcomes = 0, 0, set(), {}, {}
    gens = [
        dict(name="gen_timing", depth=depth, exp_choices=exps, report_set=(), horizon=9, check=timing),
        dict(name="gen_timing_issue", depth=depth, exp_choices=exps, report_set=(1,), horizon=9, check=timing),
        dict(name="gen_late0", depth=depth - 1, exp_choices=exps, report_set=(), horizon=9, late=0, check=timing),
        dict(name="gen_issue", cfg=issue_cfg, depth=depth + 1, exp_choices=(6,), report_set=(1, 2, 3), horizon=6, max_adv=2, check=issue_inv),
        # dedup window of 2 ticks: a duplicate INSIDE the window carries a different timestamp; then new issues at capacity
        # (two trailing steps distinguish histories here: a duplicate is a no-op in the spec, what follows it is the test)
        dict(name="gen_issue_dedup2", cfg=dict(issue_cfg, dedup=2, issue_cap=1), depth=depth + 1, exp_choices=(6,), report_set=(1, 2), horizon=3, max_adv=1,
             check=issue_inv, view_depth=2),
        dict(name="gen_v2", cfg=v2, depth=depth - 1, exp_choices=(1, 4), report_set=(), horizon=9, check=timing),
        dict(name="gen_v3", cfg=v3, depth=depth - 1, exp_choices=(2, 6), report_set=(), horizon=9, check=timing),
    ]
    c.cov["exhaustive"] = True
    for g in gens:
        st = pc.gen_replay(c, "C06", binp, u="A", **g)
        nrep += st["replayed"]
        steps += st["steps"]
        nontriv |= {g["name"] + ":" + k for k in st["nontrivial"]}
        c.cov.setdefault("replay_stats", []).append({"name": g["name"], "states": st["states"], "replayed": st["replayed"],
                                                     "conform": st["conform"], "tie_breaks": st["ties"], "drift": st["drift"]})
        for k, v in st["outcomes"].items():
            outcomes[k] = outcomes.get(k, 0) + v
        for k, v in st["spec_outcomes"].items():
            spec_outcomes[k] = spec_outcomes.get(k, 0) + v
    # vacuity is judged on the GENERATOR side (outcome classes the spec predicts), never on what the code under test did
    for need in ("send:path", "send:none", "tick:ok", "tick:failed", "tick:expiry", "tick:idle", "report:accepted", "report:dup", "ingest:handled", "adv:"):
        if not spec_outcomes.get(need) and not __import__("os").environ.get("VERIF_PS_ONLY_RECORD"):
            c.fail_tool("vacuous generation: outcome class %s never predicted by the spec in the replayed histories" % need)
    c.cov["replayed"] = nrep
    c.cov["real_outcome_classes"] = outcomes
    c.cov["evaluations"] = steps
    c.cov["distinct_nontrivial"] = len(nontriv)
    # ---- 3. record -> P-monitors + trace validation
    traces = 0
    n = 40 if thorough else 12
    recs = [dict(name="rec_timing", runs=n, steps=400 if thorough else 150, salt=61),
            dict(name="rec_late0", runs=n, steps=200 if thorough else 100, salt=62, late=0),
            # "repeat one issue for hours": a single issue, every few ticks, for a long run
            dict(name="rec_one_issue", runs=3, steps=1500 if thorough else 600, salt=63, issues=(1,), cfg={"idle": 50}),
            dict(name="rec_bursts", runs=n, steps=300 if thorough else 150, salt=64, burst=6, cfg={"chan_cap": 4}),
            # duplicates inside a 3-tick dedup window (different timestamps), fresh issues while the issue cache is full
            dict(name="rec_dedup3", runs=n, steps=300 if thorough else 150, salt=65, burst=4, cfg={"dedup": 3, "idle": 40, "issue_cap": 2})]
    # backoff with jitter > 0 and enough consecutive failures to reach the ceiling: the retry instants are off the tick grid,
    # so these runs are judged by the P-monitors only (RefetchWindow on the REAL next_refetch: <= ceiling exactly, >= min delay)
    jit = {"backoff_min": 1, "backoff_max": 4, "backoff_factor": 2.0, "backoff_jitter": 0.6, "interval": 8, "idle": 400}
    for jn, jc in (("jitter", jit), ("jitter_small_cap", dict(jit, backoff_max=2, backoff_jitter=1.5))):
        c.cov["evaluations"] += pc.directed_replay(c, "C06", binp, "directed_" + jn, pc.harness_meta("A", cfg=jc), pc.backoff_histories())
        recs.append(dict(name="rec_" + jn, runs=n, steps=200 if thorough else 120, salt=66, cfg=jc, validate=False))
    for r in recs:
        st = pc.record_validate(c, "C06", binp, u="A", **r)
        traces += st["accepted_runs"]
        c.cov["evaluations"] += st["events"]
        c.cov["distinct_nontrivial"] += st["nontrivial"]
        c.cov.setdefault("trace_stats", []).append({k: st[k] for k in ("runs", "events", "accepted_runs", "rejected", "nontrivial")})
    c.cov["traces_validated_against_impl"] = traces
    # ---- 4. real MultiPathManager with its real worker task and the real clock, public API only (smoke run, margins >= 5 s)
    c.cov["evaluations"] += pc.realtime_smoke(c, "C06", binp)
    c.sample({"trace_event": "tick/report/ingest/send/adv with the projected state after the step, see spec/PathManager/Trace_PathSet.tla"})
