"""C07 - reported link failures steer traffic away at once and paths recover later.

Pipeline (DESIGN.md 7/C07; shared machinery in lib/pathset_common.py):
  1. TLC exhaustive: MC_PathSet, universe B (paths 1,2 share the first-hop interface, path 3 is disjoint and longer;
     issues: transit egress, shared source egress (SCMP external interface down), the same interface as a local
     first-hop send failure, a transit ingress/egress pair (SCMP internal connectivity down), an interface on no path,
     a first hop of another source AS), stack-default swap threshold 0.5: SteerAway (which also covers "no return
     while the penalty is fresh"), Recovers, IrrelevantReportNoChange over all orders of reports, refetches and
     elapsed times.  Two model configurations are EXPECTED to violate SteerAway and are kept as such:
       - notification channel of capacity 1 and a burst of reports (the receiver lags, handle_issue_rx only warns),
       - a single first-hop send failure (penalty 0.4 < swap threshold 0.5).
  2. generation -> replay on the REAL path set with REAL sciparse SCMP messages (ExternalInterfaceDown,
     InternalConnectivityDown) and REAL ScionSocketSendError::UnderlayNextHopUnreachable, so that target_type,
     dedup_id, penalty and matches_path are inside the loop; P-monitors on the real slot and the logged scores.
  3. seeded worker-faithful random histories -> P-monitors + TLC trace validation against logged scores.

Readings: see lib/pathset_common.py ("very next send" = first send after the worker had the chance to drain its
notification channel; alternative = cached, Valid, not hit by a report for 10 half-lives; fresh = one half-life).
"""
import pathset_common as pc


def run(c):
    thorough = c.tier == "thorough"
    binp = c.cargo_build("vh-stack", bin="pathset")
    if c.replay:
        return pc.replay_one(c, "C07", binp)
    c.assumptions += [
        "1 model tick = 30 s: reliability half-life 90 s = 3 ticks, cached-issue half-life 30 s = 1 tick (both hard-coded in the crate)",
        "scores are compared as logged integers (1e-4); the model's integer decay tables must agree with the logged reliability "
        "within 0.006 (checked by Trace_PathSet), decisions are validated against the logged values",
        "each path matches at most two issues of the alphabet, so the HashMap iteration order of apply_cached_issues cannot matter",
        "TLC 1.8.0 / CommunityModules Json, IOUtils",
    ]
    c.cov["rule"] = ("replayed histories: one per distinct state of the bounded state graph, strict prefixes dropped; non-trivial = "
                     "history with >= 2 lookups or a report that is ingested; traces: same rule per recorded run")
    depth = 6 if thorough else 5
    cfg = {"chan_cap": 4, "max_cache": 3, "interval": 6, "idle": 30, "issue_cap": 4}
    steer = ["SteerAway", "Recovers", "IrrelevantReportNoChange", "ActiveInCache", "PolicyHonoured", "CacheBound", "NoStarvation"]
    # ---- 1. exhaustive
    pc.mc_run(c, "C07", "mc_B", u="B", cfg=cfg, depth=depth, exp_choices=(6, 9), report_set=(1, 2, 4, 5, 6), horizon=12, max_adv=3,
              invariants=steer)
    # long elapsed times relative to the half-lives: {<HL, HL, 3HL, 10HL+}
    pc.mc_run(c, "C07", "mc_B_decay", u="B", cfg=dict(cfg, interval=40, idle=60), depth=depth, exp_choices=(60,), report_set=(1, 2),
              horizon=40, adv_set=(1, 2, 3, 9, 30), invariants=steer)
    pc.mc_run(c, "C07", "known_lag", u="B", cfg=dict(cfg, chan_cap=1), depth=5, exp_choices=(9,), report_set=(1, 5), horizon=6,
              max_adv=2, expect=["SteerAway"], invariants=["SteerAway"])
    pc.mc_run(c, "C07", "known_firsthop", u="B", cfg=cfg, depth=4, exp_choices=(9,), report_set=(3,), horizon=6, max_adv=2,
              expect=["SteerAway"], invariants=["SteerAway"])
    c.cov["exhaustive"] = True
    # ---- 2. generation -> replay
    nrep, steps, nontriv, outcomes, spec_outcomes = 0, 0, set(), {}, {}
    gens = [
        dict(name="gen_B", cfg=cfg, depth=depth - 1, exp_choices=(6, 9), report_set=(1, 2, 4, 5, 6), horizon=12, max_adv=3),
        dict(name="gen_B_decay", cfg=dict(cfg, interval=40, idle=60), depth=depth - 1, exp_choices=(60,), report_set=(1, 2), horizon=40, adv_set=(1, 2, 3, 9, 30)),
        dict(name="gen_lag", cfg=dict(cfg, chan_cap=1), depth=5, exp_choices=(9,), report_set=(1, 5), horizon=6, max_adv=2),
        dict(name="gen_firsthop", cfg=cfg, depth=4, exp_choices=(9,), report_set=(3,), horizon=6, max_adv=2),
    ]
    for g in gens:
        st = pc.gen_replay(c, "C07", binp, u="B", **g)
        nrep += st["replayed"]
        steps += st["steps"]
        nontriv |= {g["name"] + ":" + k for k in st["nontrivial"]}
        c.cov.setdefault("replay_stats", []).append({"name": g["name"], "states": st["states"], "replayed": st["replayed"],
                                                     "conform": st["conform"], "tie_breaks": st["ties"], "drift": st["drift"]})
        for k, v in st["outcomes"].items():
            outcomes[k] = outcomes.get(k, 0) + v
        for k, v in st["spec_outcomes"].items():
            spec_outcomes[k] = spec_outcomes.get(k, 0) + v
    # vacuity is judged on the GENERATOR side (outcome classes the spec predicts), never on what the code under test did
    for need in ("send:path", "tick:ok", "report:accepted", "report:dup", "ingest:handled", "ingest:lagged", "adv:"):
        if not spec_outcomes.get(need) and not __import__("os").environ.get("VERIF_PS_ONLY_RECORD"):
            c.fail_tool("vacuous generation: outcome class %s never predicted by the spec in the replayed histories" % need)
    c.cov["replayed"] = nrep
    c.cov["real_outcome_classes"] = outcomes
    c.cov["evaluations"] = steps
    c.cov["distinct_nontrivial"] = len(nontriv)
    # ---- 3. record -> P-monitors + trace validation
    traces = 0
    n = 40 if thorough else 12
    rcfg = dict(cfg, interval=20, idle=100, max_cache=3)
    recs = [dict(name="rec_B", cfg=rcfg, runs=n, steps=400 if thorough else 150, salt=71, issues=(1, 2, 4, 5, 6), exp_choices=(8, 20, 40)),
            dict(name="rec_B_firsthop", cfg=rcfg, runs=n, steps=300 if thorough else 120, salt=72, issues=(1, 3, 4, 5, 6), exp_choices=(8, 20, 40)),
            dict(name="rec_B_lag", cfg=dict(rcfg, chan_cap=1), runs=n, steps=200 if thorough else 100, salt=73, burst=5,
                 issues=(1, 2, 4, 5), exp_choices=(8, 20, 40))]
    for r in recs:
        st = pc.record_validate(c, "C07", binp, u="B", **r)
        traces += st["accepted_runs"]
        c.cov["evaluations"] += st["events"]
        c.cov["distinct_nontrivial"] += st["nontrivial"]
        c.cov.setdefault("trace_stats", []).append({k: st[k] for k in ("runs", "events", "accepted_runs", "rejected", "nontrivial")})
    c.cov["traces_validated_against_impl"] = traces
    c.sample({"trace_event": "tick/report/ingest/send/adv with the projected state and the logged scores, see spec/PathManager/Trace_PathSet.tla"})
