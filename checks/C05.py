"""C05 - a socket's path policy is honoured by every path handed to a sender.

Pipeline (DESIGN.md 7/C05; shared machinery in lib/pathset_common.py):
  1. TLC exhaustive: MC_PathSet, universe A (3 admissible paths, 1 path violating the policy), every history of
     <= Depth steps from {tick with any lookup answer (any subset, any lifetime per path, empty, error), report,
     ingest, send, advance}: PolicyHonoured, Provenance, ActiveInCache (+ all other invariants of the family).
  2. the same model in generation mode -> every history replayed on the REAL per-pair path set (VerifPathSet hook,
     injected clock, scripted PathFetcher) with 0, 1, 2 and 3 attached policies of mixed kinds - a real sciparse
     AclPolicy, a real sciparse HopPatternPolicy, an arbitrary closure predicate over the path object, a policy
     whose evaluation always fails - with the rejecting policy first / middle / last, attached through the policy
     vector or through PathStrategy::add_policy.  The policy verdict is an attribute of the LOOKUP RESULT: the same
     fingerprint may come back as an object the policies reject (no metadata, metadata naming a denied AS, lower
     MTU).  HandedOk is evaluated on the REAL returned object (and on the object in the slot) by calling every
     attached real policy directly (AclPolicy/HopPatternPolicy::path_allowed, the closure), never through
     PathStrategy::predicate.  After every step the P-monitors are evaluated on the
     real slot and on the paths really returned by MultiPathManager::cached_path and ::path; the projected state
     is compared with the spec (conformance -> DRIFT only).
  3. seeded worker-faithful random histories on the real object -> P-monitors + TLC trace validation (Trace_PathSet).

Readings (less demanding one adopted): see the docstring of lib/pathset_common.py.  For C05: "stems from the
most recent successful lookup or an earlier one still valid" = the (path, expiry) pair handed out was returned by
a lookup that yielded at least one admissible path, and it is part of the most recent such lookup or unexpired;
the freshness half is required only while no maintenance tick is pending.
"""
import pathset_common as pc


def run(c):
    thorough = c.tier == "thorough"
    binp = c.cargo_build("vh-stack", bin="pathset")
    if c.replay:
        return pc.replay_one(c, "C05", binp)
    c.assumptions += [
        "1 model tick = 30 s; expiries, thresholds, delays on that grid; backoff {1,x2,max 3 ticks}, jitter 0",
        "policy verdict = direct evaluation of every attached real policy object on the returned/slot object (Err = rejected); "
        "cross-checked with the verdict by construction (path 4 crosses AS 1-666, path 3 has 4 AS hops, path 2 leaves through "
        "interface 5; variants nometa/bad666/lowmtu); the semantics of the policy languages themselves is C16",
        "hand-out observed through MultiPathManager::cached_path and ::path (= PathManager::path_wait) of a manager whose only "
        "path set is driven step by step through the guarded VerifPathSet hook; real-time scheduling is C20",
        "TLC 1.8.0 / CommunityModules Json, IOUtils",
    ]
    c.cov["rule"] = ("replayed histories: one per distinct state of the bounded state graph, strict prefixes dropped; non-trivial = "
                     "history with >= 2 lookups or a report that is ingested; traces: same rule per recorded run")
    depth = 6 if thorough else 5
    exps = (1, 3)
    # ---- 1. exhaustive: the policy verdict is an attribute of the LOOKUP RESULT (path 1 may come back as an object the
    #         policies reject: metadata missing / changed), path 4 is rejected by identity
    pc.mc_run(c, "C05", "mc_A", u="A", policy="acl", bad_set=(1,), depth=depth, exp_choices=exps, report_set=(1,), horizon=9)
    if thorough:
        pc.mc_run(c, "C05", "mc_A_exp3", u="A", policy="acl", bad_set=(1, 2), depth=5, exp_choices=(1, 3, 6), report_set=(1,), horizon=9)
    # three policies attached: only path 1 is admissible
    pc.mc_run(c, "C05", "mc_A_3pol", u="A", policy="acl+hop+closure", bad_set=(1,), depth=depth, exp_choices=exps, report_set=(), horizon=9)
    # oracle self-check: a manager that skips the filter for fingerprints it already caches must violate PolicyHonoured
    pc.mc_run(c, "C05", "oracle_filter", u="A", policy="acl", bad_set=(1,), depth=4, exp_choices=(1, 3), report_set=(), horizon=9,
              filter_all=False, expect=["PolicyHonoured"], oracle=True, invariants=["PolicyHonoured"])
    c.cov["exhaustive"] = True
    # ---- 2. generation -> replay with 0..3 attached REAL policies of mixed kinds, the rejecting one first / middle / last,
    #         attached through the policy vector or through PathStrategy::add_policy
    nrep = 0
    nontriv = set()
    steps = 0
    outcomes = {}
    spec_outcomes = {}
    d1 = depth - 1
    gens = [
        dict(name="gen_acl", policy="acl", bad_set=(1,), depth=d1, exp_choices=(1, 3, 6) if thorough else exps, report_set=(1,)),
        dict(name="gen_none", policy="none", depth=4, exp_choices=(3,), report_set=()),
        dict(name="gen_closure", policy="closure", bad_set=(1,), depth=4, exp_choices=exps, report_set=(), attach="add"),
        dict(name="gen_acl_closure", policy="acl+closure", bad_set=(1,), depth=4, exp_choices=exps, report_set=()),
        dict(name="gen_closure_acl", policy="closure+acl", bad_set=(1,), depth=4, exp_choices=exps, report_set=(), attach="add"),
        dict(name="gen_acl_hop_closure", policy="acl+hop+closure", bad_set=(1,), depth=d1, exp_choices=exps, report_set=()),
        dict(name="gen_hop_closure_acl", policy="hop+closure+acl", bad_set=(1,), depth=4, exp_choices=exps, report_set=(), attach="add"),
        dict(name="gen_closure_acl_hop", policy="closure+acl+hop", bad_set=(1,), depth=4, exp_choices=exps, report_set=()),
        dict(name="gen_failing", policy="failing", depth=4, exp_choices=(3,), report_set=()),
        dict(name="gen_acl_failing", policy="acl+failing", depth=3, exp_choices=(3,), report_set=()),
        dict(name="gen_failing_acl", policy="failing+acl", depth=3, exp_choices=(3,), report_set=(), attach="add"),
    ]
    for g in gens:
        st = pc.gen_replay(c, "C05", binp, u="A", horizon=9, **g)
        nrep += st["replayed"]
        steps += st["steps"]
        nontriv |= {g["name"] + ":" + k for k in st["nontrivial"]}
        c.cov.setdefault("replay_stats", []).append({"name": g["name"], "states": st["states"], "replayed": st["replayed"],
                                                     "conform": st["conform"], "tie_breaks": st["ties"], "drift": st["drift"]})
        for k, v in st["outcomes"].items():
            outcomes[k] = outcomes.get(k, 0) + v
        for k, v in st["spec_outcomes"].items():
            spec_outcomes[k] = spec_outcomes.get(k, 0) + v
    # vacuity is judged on the GENERATOR side (outcome classes the spec predicts), never on what the code under test did
    for need in ("send:path", "send:none", "tick:ok", "tick:failed", "report:accepted", "ingest:handled", "adv:"):
        if not spec_outcomes.get(need) and not __import__("os").environ.get("VERIF_PS_ONLY_RECORD"):
            c.fail_tool("vacuous generation: outcome class %s never predicted by the spec in the replayed histories" % need)
    c.cov["replayed"] = nrep
    c.cov["real_outcome_classes"] = outcomes
    c.cov["evaluations"] = steps
    c.cov["distinct_nontrivial"] = len(nontriv)
    # ---- 3. record -> P-monitors + trace validation
    traces = 0
    n = 40 if thorough else 10
    recs = [dict(name="rec_acl", policy="acl", p_variant=25, runs=n, steps=400 if thorough else 150, salt=51),
            dict(name="rec_3pol", policy="closure+acl+hop", p_variant=25, runs=n, steps=300 if thorough else 120, salt=52, attach="add"),
            dict(name="rec_2pol", policy="acl+closure", p_variant=40, runs=n, steps=300 if thorough else 120, salt=53)]
    # lookups with MANY paths per result (8-16, most of them rejected by the real ACL; universe W)
    recs.append(dict(name="rec_wide", u="W", policy="acl", p_variant=10, runs=n, steps=200 if thorough else 120, salt=54,
                     cfg={"max_cache": 4}, exp_choices=(2, 4, 7)))
    recs.append(dict(name="rec_wide_2pol", u="W", policy="closure+acl", p_variant=10, runs=n, steps=200 if thorough else 120, salt=55,
                     cfg={"max_cache": 3}, exp_choices=(2, 4, 7), attach="add"))
    c.cov["evaluations"] += pc.directed_replay(c, "C05", binp, "directed_wide", pc.harness_meta("W", cfg={"max_cache": 4}, policy="acl"),
                                               pc.wide_histories())
    c.cov["evaluations"] += pc.directed_replay(c, "C05", binp, "directed_wide_2pol",
                                               pc.harness_meta("W", cfg={"max_cache": 4}, policy="acl+closure", attach="add"), pc.wide_histories())
    for r in recs:
        r.setdefault("u", "A")
        st = pc.record_validate(c, "C05", binp, **r)
        traces += st["accepted_runs"]
        c.cov["evaluations"] += st["events"]
        c.cov["distinct_nontrivial"] += st["nontrivial"]
        c.cov.setdefault("trace_stats", []).append({k: st[k] for k in ("runs", "events", "accepted_runs", "rejected", "nontrivial")})
    c.cov["traces_validated_against_impl"] = traces
    # ---- 4. real MultiPathManager with its real worker task and the real clock, public API only (smoke run, margins >= 5 s)
    c.cov["evaluations"] += pc.realtime_smoke(c, "C05", binp)
    pc.binding_selftest(c, binp)
    c.sample({"trace_event": "tick/report/ingest/send/adv with the projected state after the step, see spec/PathManager/Trace_PathSet.tla"})
