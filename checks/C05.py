"""C05 - a socket's path policy is honoured by every path handed to a sender.

Pipeline (DESIGN.md 7/C05; shared machinery in lib/pathset_common.py):
  1. TLC exhaustive: MC_PathSet, universe A (3 admissible paths, 1 path violating the policy), every history of
     <= Depth steps from {tick with any lookup answer (any subset, any lifetime per path, empty, error), report,
     ingest, send, advance}: PolicyHonoured, Provenance, ActiveInCache (+ all other invariants of the family).
  2. the same model in generation mode -> every history replayed on the REAL per-pair path set (VerifPathSet hook,
     injected clock, scripted PathFetcher) with (i) a closure predicate keyed by fingerprint, (ii) a real sciparse
     AclPolicy over paths with metadata + one path WITHOUT metadata (must be rejected), (iii) a policy whose
     evaluation always fails (nothing may be handed out).  After every step the P-monitors are evaluated on the
     real slot and on the paths really returned by MultiPathManager::cached_path and ::path; the projected state
     is compared with the spec (conformance -> DRIFT only).
  3. seeded worker-faithful random histories on the real object -> P-monitors + TLC trace validation (Trace_PathSet).

Readings (less demanding one adopted): see the docstring of lib/pathset_common.py.  For C05: "stems from the
most recent successful lookup or an earlier one still valid" = the (path, expiry) pair handed out was returned by
a lookup that yielded at least one admissible path, and it is part of the most recent such lookup or unexpired;
the freshness half is required only while no maintenance tick is pending.
"""
import pathset_common as pc


def run(c):
    thorough = c.tier == "thorough"
    binp = c.cargo_build("vh-stack", bin="pathset")
    if c.replay:
        return pc.replay_one(c, "C05", binp)
    c.assumptions += [
        "1 model tick = 30 s; expiries, thresholds, delays on that grid; backoff {1,x2,max 3 ticks}, jitter 0",
        "policy ground truth: closure mode = membership in the allowed fingerprint set; ACL mode = the path crosses AS 1-666 "
        "(denied by '- 1-666 +') or carries no metadata; the semantics of the policy languages themselves is C16",
        "hand-out observed through MultiPathManager::cached_path and ::path (= PathManager::path_wait) of a manager whose only "
        "path set is driven step by step through the guarded VerifPathSet hook; real-time scheduling is C20",
        "TLC 1.8.0 / CommunityModules Json, IOUtils",
    ]
    c.cov["rule"] = ("replayed histories: one per distinct state of the bounded state graph, strict prefixes dropped; non-trivial = "
                     "history with >= 2 lookups or a report that is ingested; traces: same rule per recorded run")
    depth = 6 if thorough else 5
    exps = (1, 3, 6) if thorough else (1, 3)
    # ---- 1. exhaustive
    pc.mc_run(c, "C05", "mc_A", u="A", depth=depth, exp_choices=exps, report_set=(1,), horizon=9)
    c.cov["exhaustive"] = True
    # ---- 2. generation -> replay
    nrep = 0
    nontriv = set()
    steps = 0
    outcomes = {}
    spec_outcomes = {}
    gens = [
        dict(name="gen_closure", policy="closure", depth=depth - 1 if not thorough else depth - 1, exp_choices=exps),
        dict(name="gen_acl_nometa", policy="acl", nometa=(2,), allowed=(1, 3), depth=depth - 1, exp_choices=(1, 3)),
        dict(name="gen_failing", policy="failing", allowed=(), depth=4, exp_choices=(3,)),
    ]
    for g in gens:
        st = pc.gen_replay(c, "C05", binp, u="A", report_set=(1,), horizon=9, **g)
        nrep += st["replayed"]
        steps += st["steps"]
        nontriv |= {g["name"] + ":" + k for k in st["nontrivial"]}
        c.cov.setdefault("replay_stats", []).append({"name": g["name"], "states": st["states"], "replayed": st["replayed"],
                                                     "conform": st["conform"], "tie_breaks": st["ties"], "drift": st["drift"]})
        for k, v in st["outcomes"].items():
            outcomes[k] = outcomes.get(k, 0) + v
        for k, v in st["spec_outcomes"].items():
            spec_outcomes[k] = spec_outcomes.get(k, 0) + v
    # vacuity is judged on the GENERATOR side (outcome classes the spec predicts), never on what the code under test did
    for need in ("send:path", "send:none", "tick:ok", "tick:failed", "report:accepted", "ingest:handled", "adv:"):
        if not spec_outcomes.get(need):
            c.fail_tool("vacuous generation: outcome class %s never predicted by the spec in the replayed histories" % need)
    c.cov["replayed"] = nrep
    c.cov["real_outcome_classes"] = outcomes
    c.cov["evaluations"] = steps
    c.cov["distinct_nontrivial"] = len(nontriv)
    # ---- 3. record -> P-monitors + trace validation
    traces = 0
    recs = [dict(name="rec_closure", policy="closure", runs=40 if thorough else 12, steps=400 if thorough else 150, salt=51),
            dict(name="rec_acl", policy="acl", nometa=(2,), runs=40 if thorough else 12, steps=400 if thorough else 150, salt=52)]
    for r in recs:
        st = pc.record_validate(c, "C05", binp, u="A", **r)
        traces += st["accepted_runs"]
        c.cov["evaluations"] += st["events"]
        c.cov["distinct_nontrivial"] += st["nontrivial"]
        c.cov.setdefault("trace_stats", []).append({k: st[k] for k in ("runs", "events", "accepted_runs", "rejected", "nontrivial")})
    c.cov["traces_validated_against_impl"] = traces
    pc.binding_selftest(c, binp)
    c.sample({"trace_event": "tick/report/ingest/send/adv with the projected state after the step, see spec/PathManager/Trace_PathSet.tla"})
