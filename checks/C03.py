"""C03 - wire codec is lossless, matches the SCION format, never truncates silently.

Pipeline (DESIGN.md 7/C03):
  1. TLC on spec/Wire/MC_WireFormat: enumerates packet models over the factored field domains,
     checks the design-level invariants of the reference format (closed-form checksum = explicit
     sum, the spec's own encodings are Canonical, I-layer wire_valid => Representable) and prints
     (model, expected encoding | Unrepresentable) for every model.
     Oracle self-check: with FIXED = FALSE (the pinned tree's encoder, no range checks)
     InvNoSilentTruncation MUST be violated.
  2. replay: `wireformat replay` builds every model with sciparse's model types and evaluates the
     P-monitors on the real bytes (announced size, bytes == independent encoder's bytes at 8 buffer
     alignments in dirty buffers, decode == model, truthful HdrLen/PayloadLen/UDP Length, checksum
     verifies over pseudo-header + message, not representable => Err, no panic).
  3. record: seeded random / mutated / shaped byte strings decoded by sciparse; for every accepted
     one Trace_WireFormat checks  Canonical(bytes) => reencoded = bytes /\\ Encode(model) = bytes.

Readings adopted (the ones that demand less of the code):
  * Canonical additionally requires a VALID checksum, in-range CurrINF/CurrHF pointers, zero
    reserved flag bits, Code = 0 where the SCMP specification fixes it, an SCMP error message within
    the 1232-byte budget: the narrower Canonical is, the less the round-trip clause demands.
  * SCMP error messages quote "as much of the offending packet as fits": decode == model is compared
    up to that truncation (the spec computes the quoted length).
  * A checksum field of 0x0000 vs 0xffff is not compared (both verify).
  * Models rejected although representable (e.g. CurrHF beyond the path) are conformance only.
"""
import collections
import json
import os
import re

from vcommon import read_ndjson, write_ndjson

SD = "Wire"

MC_TMPL = """SPECIFICATION Spec
CONSTANTS
  FIXED = {fixed}
  THOROUGH = {thorough}
  GEN = {gen}
  PaySizes = {sizes}
INVARIANTS Emit InvNoSilentTruncation InvSizeAnnounced InvClosedForm InvSelfCanonical
CHECK_DEADLOCK FALSE
"""
SIZES = "{0, 1, 2, 3, 7, 8, 9, 1231, 1232, 1233, 65527, 65528, 65535, 65536, 131072}"
SIZES_T = "{0, 1, 2, 3, 4, 5, 6, 7, 8, 9, 63, 64, 65, 1199, 1200, 1231, 1232, 1233, 32767, 32768, 65499, 65500, 65507, 65508, 65527, 65528, 65531, 65532, 65535, 65536, 131072}"


def cfg(c, name, text):
    p = os.path.join(c.work, name)
    open(p, "w").write(text)
    return p


def nontrivial_model(m):
    """a model is trivial if it is IPv4/IPv4, empty path, raw payload of at most 3 bytes"""
    return not (m["dst"]["k"] == "v4" and m["src"]["k"] == "v4" and m["path"]["k"] == "empty"
                and m["pl"]["k"] == "raw" and m["pl"]["n"] <= 3)


def model_class(m):
    pl = m["pl"]
    return "%s/%s/%s/%s" % (m["dst"]["k"], m["src"]["k"], m["path"]["k"], pl["k"] + (":" + pl["t"] if pl["k"] == "scmp" else ""))


def nib(n):
    return ((n & 3) + 1) * 4


def region(b, off):
    if off < 12:
        return "common"
    if len(b) < 12:
        return "short"
    hdr = b[5] * 4
    al = 28 + nib(b[9] >> 4) + nib(b[9] & 15)
    if off < al:
        return "addr"
    if off < hdr:
        return "path"
    return "l4+%d" % (off - hdr)


def single_replay(c, binp):
    d = json.load(open(c.replay))
    case = (d.get("replay") or {}).get("case")
    if case is None:
        print("replay file carries no case (trace findings: see the stored event)")
        print(json.dumps(d.get("replay"), indent=1)[:3000])
        return
    inp = os.path.join(c.work, "one.ndjson")
    outp = os.path.join(c.work, "one_out.ndjson")
    write_ndjson(inp, [case])
    rc, so = c.sh([binp, "replay", inp, outp])
    res = read_ndjson(outp)[0]
    print("model:", json.dumps(case["m"])[:1500])
    print("spec :", json.dumps({k: v for k, v in case["e"].items() if k not in ("head", "full")}))
    print("real :", json.dumps({k: v for k, v in res.items() if k != "pv"})[:1500])
    for p in res["pv"]:
        c.violation(p["key"], p["what"], {"case": case})


def run(c):
    thorough = c.tier == "thorough"
    binp = c.cargo_build("vh-sciparse", bin="wireformat")
    if c.replay:
        return single_replay(c, binp)
    c.assumptions += [
        "the reference encoder in spec/Wire/WireFormat.tla is written from the SCION header / SCMP specification and shares no layout table with sciparse",
        "payloads are length + repeating pattern (closed-form ones-complement sum in 31-bit arithmetic); TLC checks closed form == explicit sum for bodies <= 600 bytes",
        "exhaustive over the factored field domains of MC_WireFormat (address kinds x path kinds; payload kinds x boundary sizes; path shapes; common-header fields; SCMP quote budget), not over their full cross product",
        "TLC 1.8.0, CommunityModules Json/IOUtils",
    ]
    c.cov["rule"] = ("replayed models: non-trivial = not (IPv4/IPv4, empty path, raw payload <= 3 bytes); "
                     "traces: non-trivial = accepted byte string that is a mutated/shaped/random string (not a verbatim spec encoding)")

    # ---- 1. TLC: design-level invariants + generation -----------------------------------------
    r = c.tlc(SD, "MC_WireFormat", cfg=cfg(c, "mc_gen.cfg", MC_TMPL.format(
        fixed="TRUE", thorough="TRUE" if thorough else "FALSE", gen="TRUE", sizes=SIZES_T if thorough else SIZES)), timeout=3000,
        extra=["-continue"])     # keep generating when a design-level invariant fails on some model
    for inv in sorted(set(r.violated)):
        c.violation("spec:%s" % inv, "design-level: invariant %s violated on MC_WireFormat (the I-layer transcription of wire_valid accepts a model the P-layer calls not representable, or the reference format is inconsistent); see %s" % (inv, r.out_path), {"tlc_out": r.out_path})
    if r.ok:
        c.require_coverage(r, ["Next"])
    cases = c.printed_json(r, "CASE")
    if not cases:
        c.fail_tool("generation run printed no cases")
    # oracle self-check: the pinned tree's encoder (no range checks) must break NoSilentTruncation
    r0 = c.tlc(SD, "MC_WireFormat", cfg=cfg(c, "mc_unfixed.cfg", MC_TMPL.format(
        fixed="FALSE", thorough="FALSE", gen="FALSE", sizes="{65528, 65536}")), expect_violation=True, coverage=False, timeout=1200)
    if "InvNoSilentTruncation" not in r0.violated:
        c.fail_tool("oracle self-check failed: FIXED=FALSE no longer violates InvNoSilentTruncation in the model")
    c.cov["exhaustive"] = True

    # ---- 2. replay on sciparse ------------------------------------------------------------------
    inp = os.path.join(c.work, "cases.ndjson")
    outp = os.path.join(c.work, "replay_out.ndjson")
    write_ndjson(inp, cases)
    rc, so = c.sh([binp, "replay", inp, outp], timeout=3000)
    if rc != 0:
        c.fail_tool("replay harness failed rc=%s %s" % (rc, (so or "")[-500:]))
    results = read_ndjson(outp)
    if len(results) != len(cases):
        c.fail_tool("replay harness returned %d results for %d cases" % (len(results), len(cases)))
    classes = collections.Counter()
    nontriv = set()
    stats = collections.Counter()
    drift_seen = collections.Counter()
    for case, res in zip(cases, results):
        m = case["m"]
        cls = model_class(m)
        classes[cls] += 1
        if nontrivial_model(m):
            nontriv.add(json.dumps(m, sort_keys=True))
        if not res.get("built"):
            stats["not_constructible"] += 1
            continue
        stats["rep" if res["rep"] else "unrep"] += 1
        stats["accepted" if res["accepted"] else "rejected"] += 1
        if res["rep"] and res["accepted"]:
            stats["encoded_" + m["pl"]["k"]] += 1
        if res["rep"] and not res["accepted"]:
            stats["representable_but_rejected"] += 1
        for d in res["drift"]:
            k = re.sub(r"\d+", "N", d)[:80]
            drift_seen[k] += 1
            if drift_seen[k] == 1:
                c.drift("replay %s: %s" % (cls, d[:300]))
            else:
                c.cov["drift"] += 1
        for p in res["pv"]:
            c.violation(p["key"], p["what"] + " [model %s]" % cls, {"case": case, "real": {k: v for k, v in res.items() if k != "pv"}})
    for need in ("rep", "unrep"):     # generator-side vacuity (the spec decides these)
        if stats[need] == 0:
            c.fail_tool("vacuous generation: no model in class %s" % need)
    for need in ("accepted", "rejected", "encoded_raw", "encoded_udp", "encoded_scmp"):   # code-side: report, never a tool failure
        if stats[need] == 0:
            c.drift("no replayed model in class %s (the encoder under test %s everything of that kind)" % (need, "accepted" if need == "rejected" else "rejected"))
    c.cov["replayed"] = len(cases)
    c.cov["evaluations"] = len(cases)
    c.cov["distinct_nontrivial"] = len(nontriv)
    c.cov["replay_stats"] = dict(stats)
    c.cov["model_classes"] = len(classes)
    mid = cases[len(cases) // 2]
    c.sample({"replayed_model": mid["m"], "expected": {k: v for k, v in mid["e"].items() if k not in ("head", "full")}})

    # ---- 3. record -> trace validation -----------------------------------------------------------
    ev = os.path.join(c.work, "events.ndjson")
    resj = os.path.join(c.work, "record.json")
    rc, so = c.sh([binp, "record", inp, ev, resj], timeout=3000)
    if rc != 0:
        c.fail_tool("record harness failed rc=%s %s" % (rc, (so or "")[-500:]))
    rs = json.load(open(resj))
    # binding self-check (DESIGN.md S6): three synthetic events built from a SPEC encoding, independent of the
    # code under test: faithful -> must be accepted; re-encoding corrupted -> reenc-differs; model corrupted -> spec-differs
    synth = {}
    base = next((k for k in cases if k["e"]["rep"] and k["e"]["full"] and k["m"]["pl"]["k"] == "raw" and k["m"]["path"]["k"] == "empty"
                 and k["m"]["dst"]["k"] == "v4" and k["m"]["src"]["k"] == "v4" and k["m"]["flow"] < 1048576), None)
    if base:
        n0 = len(read_ndjson(ev))
        good = {"ev": "dec", "src": "synthetic", "level": "raw", "bytes": base["e"]["full"], "rest": 0, "model": base["m"],
                "reenc_ok": True, "reenc": list(base["e"]["full"]), "reenc_err": ""}
        bad1 = dict(good, reenc=[b ^ (1 if i == 20 else 0) for i, b in enumerate(base["e"]["full"])])
        bad2 = dict(good, model=dict(base["m"], tc=(base["m"]["tc"] + 1) % 256))
        with open(ev, "a") as f:
            for e2 in (good, bad1, bad2):
                f.write(json.dumps(e2, separators=(",", ":")) + "\n")
        synth = {n0 + 1: None, n0 + 2: "reenc-differs", n0 + 3: "spec-differs"}
    rt = c.tlc(SD, "Trace_WireFormat", mode="trace", env={"TRACE": ev}, timeout=3000)
    txt = open(rt.out_path, errors="replace").read()
    tot = re.findall(r'<<"TOTALS", (\d+), (\d+), (\d+)>>', txt)
    if rt.postcondition_failed or not rt.ok or not tot:
        c.fail_tool("Trace_WireFormat did not process the whole event file (see %s)" % rt.out_path)
    nev, ncanon, nbad = map(int, tot[-1])
    events = read_ndjson(ev)
    got_synth = {}
    for mm in re.finditer(r'<<"BAD", (\d+), "([^"]+)", (\d+)>>', txt):
        i, verdict, off = int(mm.group(1)), mm.group(2), int(mm.group(3)) - 1
        if i in synth:
            got_synth[i] = verdict
            continue
        e = events[i - 1]
        b = e["bytes"]
        if verdict == "decoder-panic":
            c.violation("Trace:%s:decoder-panic" % e["level"], "decoder panicked on %d bytes: %s" % (len(b), e.get("msg")), {"event": e})
            continue
        reg = region(b, off) if verdict != "reenc-rejected" else "-"
        if verdict == "reenc-differs" and len(b) >= 12:
            # name the first differing FIELD: the checksum differs whenever anything after it does
            hdr = b[5] * 4
            cks = {hdr + 2, hdr + 3} if e["level"] == "scmp" else {hdr + 6, hdr + 7} if e["level"] == "udp" else set()
            r2 = e["reenc"]
            diffs = [k for k in range(min(len(b), len(r2))) if b[k] != r2[k] and k not in cks]
            if diffs:
                off = diffs[0]
                reg = region(b, off)
                t = b[hdr] if e["level"] == "scmp" and len(b) > hdr else None
                rel = off - hdr
                if (t in (5, 6) and 12 <= rel < 18) or (t == 6 and 20 <= rel < 26) or (t == 131 and 16 <= rel < 22):
                    reg = "scmp-interface-id-above-16-bits"
            elif len(b) == len(r2):
                reg = "checksum-only"
        what = {"reenc-rejected": "a canonical encoding the decoder accepted cannot be re-encoded (%s)" % e.get("reenc_err"),
                "reenc-differs": "a canonical encoding the decoder accepted re-encodes to different bytes, first at offset %d (%s): %s -> %s" % (
                    off, reg, b[off:off + 8], e["reenc"][off:off + 8]),
                "spec-differs": "the decoded model of a canonical encoding is not the model the independent decoder reads: its reference encoding differs at offset %d (%s)" % (off, reg),
                }[verdict]
        c.violation("Trace:%s:%s:%s" % (e["level"], verdict, reg), what + " [%s string, %d bytes]" % (e.get("src"), len(b)), {"event": e})
    if synth and any(got_synth.get(i) != want for i, want in synth.items()):
        c.fail_tool("binding self-check failed: Trace_WireFormat judged the synthetic events %s, expected %s" % (got_synth, synth))
    nev -= len(synth)
    ncanon -= len(synth)
    nbad -= len([1 for v in synth.values() if v])
    if rs.get("strings", 0) == 0:
        c.fail_tool("record driver produced no byte strings")
    if ncanon == 0 or rs.get("accepted_udp", 0) == 0 or rs.get("accepted_scmp", 0) == 0 or rs.get("accepted_src_mutated", 0) == 0:
        c.drift("trace validation is (partly) vacuous on this tree: canonical=%d accepted=%s" % (ncanon, rs))
    c.cov["traces_validated_against_impl"] = nev
    c.cov["evaluations"] += nev
    c.cov["distinct_nontrivial"] += sum(rs.get("accepted_src_" + k, 0) for k in ("mutated", "shaped", "random"))
    c.cov["trace_stats"] = dict(rs, events=nev, canonical=ncanon, bad=nbad)
    c.sample({"trace_event": "dec level/bytes/model/reenc per accepted string, see spec/Wire/Trace_WireFormat.tla",
              "canonical_events": ncanon, "strings": rs.get("strings")})
