"""C09 - the SNAP tunnel carries traffic only for identities authorised at that moment.

Pipeline (DESIGN.md 7/C09):
  1. TLC exhaustive (MC_SnapTunnel): every interleaving of register / advance / purge / handshake /
     data-in / forged data / data-out / timer (/ WireGuard tunnel expiry) for 2 token keys x 3
     identities x 2 addresses, clock 0..4, lifetimes 1..3 - the whole reachable state space (no
     depth bound).  P-invariants: FwdOnlyAuthorised, FwdNeverForged, EncOnlyAuthorised,
     HsOnlyAuthorised, Attribution, OneToOne, AuthRefines (the implementation-shaped
     authorisation is never wider than the property's own bookkeeping pkey/pauth, which depends
     on the register/advance history only).  Oracle self-checks: "nolapse" (expiry not
     re-checked) and "keepprev" (superseded identity kept) must be refuted.
  2. generation: one history per distinct (state, last observable) up to a depth bound is replayed
     on the real IdentityRegistry + SnapTunServer<ClockedAuthz> with real client-side WireGuard
     tunnels (harness `snaptunnel replay`).  P-monitors on the real observations:
        Forwarded / encrypted-towards-client / accepted handshake for an identity that the
        property's bookkeeping (pauth of the step) does not authorise     -> "flow-unauthorised:<kind>"
        forged data forwarded                                             -> "forged-forwarded"
        forwarded payload attributed to another identity than its sender, or altered
                                                                          -> "attribution:<what>"
        registry reports an identity authorised that pauth does not       -> "registry-wider:<...>"
        real registry maps not one-to-one (hook accessor)                 -> "one-to-one:<what>"
        panic                                                             -> "panic:<kind>"
     Any other disagreement with the spec's expected observation is DRIFT.
  3. `snaptunnel record`: seeded random long histories with 4 keys x 8 identities x 3 addresses;
     Trace_SnapTunnel.tla (TLC) replays the inputs through the I-layer, compares outcomes
     (conformance) and evaluates the P-invariants on the observed events.

Readings adopted: "holds an unexpired registration at that time" = registered with now < registration
time + lifetime and not superseded since (expiry instant itself is not authorised, as the registry
documents); time is the authorisation adapter's clock (the server's own Instant::now is replaced at
the SnapTunAuthorization boundary); WireGuard-level tunnel expiry cannot be provoked within a replay
(no mock clock in the lock file) - it is covered by the model only.
"""
import json
import os

from vcommon import read_ndjson, write_ndjson

SD = "Snap"

MC_TMPL = """SPECIFICATION MCSpec
VIEW {view}
CONSTANTS
  Keys = {keys}
  Ids = {ids}
  Addrs = {addrs}
  MaxT = {maxt}
  Lifes = {lifes}
  TIMERDROP = {timerdrop}
  VARIANT = "{variant}"
  Depth = {depth}
  GEN = {gen}
INVARIANTS FwdOnlyAuthorised FwdNeverForged EncOnlyAuthorised HsOnlyAuthorised Attribution OneToOne AuthRefines AuthExact Emit
PROPERTIES RegisterKeepsTunnels RenewalIsSeamless
"""


def cfg(c, name, text):
    p = os.path.join(c.work, name)
    open(p, "w").write(text)
    return p


def mc(c, name, **kw):
    d = dict(view="MCViewU", keys='{"k1", "k2"}', ids='{"i1", "i2", "i3"}', addrs='{"a1", "a2"}', maxt=4, lifes="{1, 2, 3}", timerdrop="TRUE",
             variant="code", depth=1000000, gen="FALSE")
    d.update(kw)
    return cfg(c, name, MC_TMPL.format(**d))


def hist_key(h):
    out = []
    for st in h:
        e = st["ev"]
        k = e["kind"]
        if k == "register":
            out.append("reg(%s,%s,%s)" % (e["k"], e["id"], e["life"]))
        elif k == "adv":
            out.append("adv%s" % e["d"])
        elif k == "hs":
            out.append("hs(%s,%s)" % (e["a"], e["id"]))
        elif k == "in":
            out.append("in(%s,%s)" % (e["a"], e["sender"]))
        elif k in ("out", "forged", "timerdrop"):
            out.append("%s(%s)" % (k, e["a"]))
        else:
            out.append(k)
    return " ".join(out)


def one_to_one(snap):
    """P-monitor on the real registry maps: None if fine, else a description"""
    assoc = snap["assoc"]
    sess = [s[0] for s in snap["sess"]]
    ids = [a[1] for a in assoc]
    if len(set(ids)) != len(ids):
        return "identity-under-two-keys"
    if len({a[0] for a in assoc}) != len(assoc):
        return "key-with-two-identities"
    if set(ids) != set(sess):
        return "sessions-and-associations-disagree"
    return None


def res_class(r):
    return {"rejected-tunnel-unauthorized": "rejected-unauthorized", "rejected-other-identity": "rejected-other"}.get(r, r)


def judge_step(c, key, spec, real, stats, rep):
    """spec: the model's expected Obs of the step; real: {"ev":observed,"snap":...}"""
    o = real["ev"]
    sev = spec["ev"]
    pauth = {i for i, v in spec["pauth"].items() if v}
    stats["steps"] += 1
    if o["kind"] == "panic":
        c.violation("panic:%s" % sev["kind"], "panic (%s) during %s after %s" % (o.get("what"), sev["kind"], key), rep)
        return False
    snap = real["snap"]
    # ---- P-monitors
    if o["kind"] in ("in", "forged") and o.get("fwd"):
        stats["fwd"] += 1
        if o["kind"] == "forged":
            c.violation("forged-forwarded", "a data packet under no session key was forwarded after %s" % key, rep)
        elif o["id"] not in pauth:
            c.violation("flow-unauthorised:in", "payload forwarded for %s which holds no unexpired registration; history %s" % (o["id"], key), rep)
        if o["kind"] == "in" and (o["id"] != o["sender"] or not o.get("intact", True)):
            c.violation("attribution:%s" % ("altered" if o["id"] == o["sender"] else "other-identity"),
                        "payload of %s forwarded as session %s (intact=%s); history %s" % (o["sender"], o["id"], o.get("intact"), key), rep)
    if o["kind"] == "out" and o.get("enc"):
        stats["enc"] += 1
        if o["id"] not in pauth:
            c.violation("flow-unauthorised:out", "payload encrypted towards %s which holds no unexpired registration; history %s" % (o["id"], key), rep)
        d = o.get("delivered")
        if d and (d.get("failed") or not d.get("intact") or d.get("to") != o["id"]):
            c.violation("attribution:out-delivery", "outbound payload for session %s: delivery %s; history %s" % (o["id"], json.dumps(d), key), rep)
    if o["kind"] == "hs" and o["res"].startswith("accepted"):
        stats["hs"] += 1
        if o["id"] not in pauth:
            c.violation("flow-unauthorised:handshake", "handshake of %s accepted without an unexpired registration; history %s" % (o["id"], key), rep)
    wider = sorted(i for i, v in snap["auth"].items() if v and i not in pauth)
    if wider:
        c.violation("registry-wider:%s" % sev["kind"], "registry authorises %s beyond the property's bookkeeping after %s" % (wider, key), rep)
    oto = one_to_one(snap)
    if oto:
        c.violation("one-to-one:%s" % oto, "real registry maps %s after %s: %s" % (oto, key, json.dumps(snap)), rep)
    # ---- conformance (drift only)
    mism = []
    if {i for i, v in snap["auth"].items() if v} != {i for i, v in spec["auth"].items() if v}:
        mism.append("auth %s vs spec %s" % (snap["auth"], spec["auth"]))
    if sev["kind"] == "register" and o.get("wasnew") != sev.get("wasnew"):
        mism.append("wasnew %s vs %s" % (o.get("wasnew"), sev.get("wasnew")))
    if sev["kind"] == "hs" and o.get("res") != res_class(sev["res"]):
        mism.append("handshake %s (%s) vs %s" % (o.get("res"), o.get("detail"), sev["res"]))
    if sev["kind"] in ("in", "forged") and bool(o.get("fwd")) != bool(sev.get("fwd")):
        mism.append("fwd %s (%s) vs %s" % (o.get("fwd"), o.get("detail"), sev.get("fwd")))
    if sev["kind"] == "out" and bool(o.get("enc")) != bool(sev.get("enc")):
        mism.append("enc %s (%s) vs %s" % (o.get("enc"), o.get("detail"), sev.get("enc")))
    if snap.get("odd_time"):
        mism.append("the server passed a timestamp to the authorisation layer that is not the current time (%d calls)" % snap["odd_time"])
    real_assoc = {a[0]: a[1] for a in snap["assoc"]}
    spec_assoc = {k: v for k, v in spec["assoc"].items() if v != "none"}
    if real_assoc != spec_assoc:
        mism.append("assoc %s vs %s" % (real_assoc, spec_assoc))
    if mism:
        stats["mismatch"] += 1
        c.drift("after %s: %s" % (key, "; ".join(mism)))
        return False
    return True


def judge_client(c, rc, so, path):
    """Growth (DESIGN.md 6.6): the real client side (SnapTunEndpoint + identity registration loop + SnapTunnel driver)
    against the real gateway and control plane, in real time.  Safety part = C09 itself (nothing flows once every
    registration has lapsed); growth part = a renewal published in time keeps the identity registered and the traffic
    flowing, under ONE token key.  Only observations whose timing was valid on this machine are judged."""
    if rc != 0 or not os.path.exists(path):
        c.drift("client scenario failed rc=%s %s" % (rc, (so or "")[-300:]))
        return
    g = json.load(open(path))
    c.cov["client_scenario"] = g
    if not g.get("connected"):
        c.drift("client scenario: the real client could not connect (%s)" % g.get("why"))
        return
    steps = {x["step"]: x["count"] for x in g["log"]}
    probes = {p["at"]: p for p in g["probes"]}
    calls = g["control_plane_calls"]
    if any(x["status"] != 200 for x in calls):
        c.drift("client scenario: control plane answered %s" % [x["status"] for x in calls])
    life = {"tok-1": g["life1"], "tok-2": g["life2"]}
    last_end = max([x["t"] + life.get(x["jti"], g["life2"]) for x in calls if x["status"] == 200] or [0])
    # ---- safety (C09): after every registration has lapsed (>= 5 s ago) nothing flows
    if g["phase_c_start_s"] >= last_end + 5:
        if steps.get("C:in") or steps.get("C:out") or probes["C"]["authorised"]:
            c.violation("client:flow-after-lapse", "real client/gateway: traffic or authorisation %s after the last registration lapsed" % json.dumps(
                {"C:in": steps.get("C:in"), "C:out": steps.get("C:out"), "authorised": probes["C"]["authorised"]}), g)
    else:
        c.drift("client scenario: phase C started too early relative to the last registration; not judged")
    # ---- growth: renewal before expiry is seamless
    renewed = g.get("renewed_after_s")
    on_time = renewed is not None and renewed + g["phase_a_done_s"] + 1 <= g["life1"] - 6 and g["phase_b_done_s"] <= g["life2"] - 6 \
        and all(x["status"] == 200 for x in calls)
    if renewed is None:
        c.violation("client:no-reregistration", "the endpoint's registration loop did not register again within 5 s after the token source published a renewed token", g)
    elif not on_time:
        c.drift("client scenario: renewal/phase B too slow on this machine (renewed after %.1fs, phase B done %.1fs); growth part not judged" % (renewed, g["phase_b_done_s"]))
    else:
        if not probes["B"]["authorised"] or steps.get("B:in") != 1 or steps.get("B:out") != 1:
            c.violation("client:renewal-gap", "the registration was renewed in time, yet %s after the first token lapsed" % json.dumps(
                {"authorised": probes["B"]["authorised"], "B:in": steps.get("B:in"), "B:out": steps.get("B:out")}), g)
        if g["assoc_after_renew"] != [["tok-2", True]] or g["sessions_after_renew"] != 1:
            c.violation("client:old-token-key-kept", "after the renewal the registry holds %s / %d sessions (expected exactly the new token key)" % (
                g["assoc_after_renew"], g["sessions_after_renew"]), g)
        if steps.get("A:in") != 1 or steps.get("A:out") != 1:
            c.drift("client scenario: phase A traffic %s" % json.dumps(steps))
    c.cov["evaluations"] += len(g["log"])


def judge_refresher(c, rc, path):
    """Growth (DESIGN.md 6.6): the real RefreshTokenSource with a scripted refresher, validated by Trace_TokenRefresh"""
    if rc != 0 or not os.path.exists(path):
        c.drift("refresher scenario failed rc=%s" % rc)
        return
    evs = read_ndjson(path)
    starts = sum(1 for e in evs if e["ev"] == "start")
    pubs = [e for e in evs if e["ev"] == "pub"]
    c.cov["refresher_scenario"] = {"events": len(evs), "calls": starts, "published": len(pubs)}
    r = c.tlc(SD, "Trace_TokenRefresh", mode="trace", env={"TRACE": path}, timeout=900, expect_violation=True)
    if r.violated:
        txt = open(r.out_path, errors="replace").read()
        import re
        m = re.findall(r'viol = "([A-Za-z]+)"', txt)
        what = m[-1] if m else "?"
        c.violation("refresher:%s" % what, "token refresher: %s violated on the recorded run of the real RefreshTokenSource (TLC output %s)" % (what, r.out_path),
                    {"trace": path, "tlc_out": r.out_path, "events": evs})
    elif r.postcondition_failed or not r.ok:
        c.fail_tool("Trace_TokenRefresh did not consume the whole trace (see %s)" % r.out_path)
    for d in list({d["line"]: d for d in c.printed_json(r, "DRIFT")}.values())[:10]:
        c.drift("refresher line %s: %s (%s)" % (d["line"], d["what"], json.dumps(d["e"])))
    if starts < 6 or len(pubs) < 4:
        c.drift("refresher scenario incomplete: %d calls, %d publications" % (starts, len(pubs)))
    else:
        # binding self-check (S6): a renewal that starts only after the expiry must be flagged
        bad = path + ".corrupted"
        ev2 = [dict(e) for e in evs]
        first_exp = next(e["exp"] for e in ev2 if e["ev"] == "end" and e.get("ok"))
        for e in ev2[1:]:
            if e.get("n", 0) == 2 or (e["ev"] == "pub" and e["t"] > 1000 and e["t"] < first_exp):
                e["t"] += first_exp          # the second call (and its publication) happen after token 1 expired
        ev2 = [ev2[0]] + sorted(ev2[1:], key=lambda e: e["t"])
        write_ndjson(bad, ev2)
        rb = c.tlc(SD, "Trace_TokenRefresh", mode="trace", env={"TRACE": bad}, timeout=900, expect_violation=True)
        if not rb.violated:
            c.fail_tool("oracle self-check failed: Trace_TokenRefresh accepts a renewal that starts after the expiry")
    c.cov["evaluations"] += len(evs)


def run(c):
    thorough = c.tier == "thorough"
    binp = c.cargo_build("vh-snap", bin="snaptunnel")
    c.assumptions += [
        "model time is injected at the SnapTunAuthorization boundary (ClockedAuthz calls the real IdentityRegistry::is_authorized at base + model_now); the server's own Instant::now() is not used for authorisation",
        "client side: real ana_gotatun Tunn objects produce genuine handshake initiations and data packets; a handshake action delivers the response to the client and the client's keepalive back to the server",
        "WireGuard tunnel expiry (update_timers dropping a tunnel) is explored in the model only (TimerDrop); it cannot be provoked within the real-time span of a replay",
        "registry maps are read through the guarded accessor IdentityRegistry::verif_snapshot",
        "TLC 1.8.0, CommunityModules Json/IOUtils",
    ]
    c.cov["rule"] = ("replayed histories: one per distinct (model state, last observable) within the generation depth; non-trivial = history "
                     "containing a lapse or supersession (advance past an expiry, re-registration of a key with another identity, identity moved "
                     "to another key, second client on an occupied address) before its last call; traces: every recorded run is non-trivial")

    if c.replay:
        rp = json.load(open(c.replay))["replay"]
        if "h" not in rp:
            c.fail_tool("this replay file does not carry a history (trace / gateway-loop findings are re-run by the normal check)")
        inp, outp = os.path.join(c.work, "one.ndjson"), os.path.join(c.work, "one_out.ndjson")
        write_ndjson(inp, [{"ev": "meta", "ids": rp.get("ids", ["i1", "i2", "i3"]), "addrs": rp.get("addrs", ["a1", "a2"])}, {"h": rp["h"]}])
        rc, so = c.sh([binp, "replay", inp, outp], timeout=600)
        if rc != 0:
            c.fail_tool("replay harness failed rc=%s" % rc)
        st = {"steps": 0, "fwd": 0, "enc": 0, "hs": 0, "mismatch": 0}
        real = read_ndjson(outp)[0]["steps"]
        for si, (spec, rl) in enumerate(zip(rp["h"], real)):
            c.log("step %d %s: spec %s | real %s | auth %s" % (si, hist_key(rp["h"][si:si + 1]), json.dumps(spec["ev"]), json.dumps(rl["ev"]), json.dumps((rl.get("snap") or {}).get("auth"))))
            judge_step(c, hist_key(rp["h"][:si + 1]), spec, rl, st, {"h": rp["h"], "step": si, "real": real})
        c.cov["replayed"] = 1
        c.cov["evaluations"] = st["steps"]
        return

    # ---- 1. exhaustive -----------------------------------------------------------------------------
    r = c.tlc(SD, "MC_SnapTunnel", cfg=mc(c, "mc_full.cfg") if thorough else mc(c, "mc_full.cfg", maxt=3, lifes="{1, 2}"), timeout=3000,
              coverage=False)
    for inv in r.violated:
        c.violation("spec:%s" % inv, "design-level: %s violated on MC_SnapTunnel (see %s)" % (inv, r.out_path), {"tlc_out": r.out_path})
    rc_ = c.tlc(SD, "MC_SnapTunnel", cfg=mc(c, "mc_cov.cfg", view="MCView", depth=4, maxt=2, lifes="{1}"), timeout=3000)
    if rc_.ok:
        c.require_coverage(rc_, ["MCRegister", "MCAdvance", "MCPurge", "MCHandshake", "MCDataIn", "MCForged", "MCDataOut", "MCTimer", "MCTimerDrop"])
    for variant, want in (("nolapse", "FwdOnlyAuthorised"), ("keepprev", "AuthRefines")):
        r0 = c.tlc(SD, "MC_SnapTunnel", cfg=mc(c, "mc_%s.cfg" % variant, variant=variant, maxt=2, lifes="{1}", view="MCView", depth=5),
                   expect_violation=True, coverage=False, keep_printed=False)
        if not r0.violated:
            c.fail_tool("oracle self-check failed: variant '%s' is not refuted by the model" % variant)
    c.cov["exhaustive"] = True

    # ---- 2. generation -> replay ---------------------------------------------------------------------
    def tset(xs):
        return "{" + ", ".join('"%s"' % x for x in xs) + "}"
    big = dict(K=["k1", "k2"], I=["i1", "i2", "i3"], A=["a1", "a2"])
    small = dict(K=["k1"], I=["i1", "i2"], A=["a1"])       # fewer names, longer histories (lapse -> re-register -> resume, rekey)
    # quick keeps the tier within ~4 min on an idle machine: depth 4 on the big instance (depth 5/6 in thorough)
    gens = [dict(big, depth=4, maxt=3, lifes="{1, 2}"), dict(small, depth=8, maxt=4, lifes="{1, 2}")]
    if thorough:
        gens = [dict(big, depth=6, maxt=3, lifes="{1, 2}"), dict(small, depth=11, maxt=4, lifes="{1, 2, 3}")]
    total = 0
    nontrivial = set()
    stats = {"steps": 0, "fwd": 0, "enc": 0, "hs": 0, "mismatch": 0}
    for gi, g in enumerate(gens):
        K, I, A = g.pop("K"), g.pop("I"), g.pop("A")
        r = c.tlc(SD, "MC_SnapTunnel", cfg=mc(c, "gen_%d.cfg" % gi, view="MCView", gen="TRUE", timerdrop="FALSE", keys=tset(K), ids=tset(I),
                                              addrs=tset(A), **g), timeout=3000, coverage=False)
        hs = c.printed_json(r, "REPLAY")
        if not hs:
            c.fail_tool("generation run printed no behaviours")
        inp = os.path.join(c.work, "replay_in_%d.ndjson" % gi)
        outp = os.path.join(c.work, "replay_out_%d.ndjson" % gi)
        write_ndjson(inp, [{"ev": "meta", "ids": I, "addrs": A}] + [{"h": h} for h in hs])
        rc, so = c.sh([binp, "replay", inp, outp], timeout=3400)
        if rc != 0:
            c.fail_tool("replay harness failed rc=%s %s %s" % (rc, so[-300:], getattr(c, "last_stderr", "")[-500:]))
        outs = read_ndjson(outp)
        if len(outs) != len(hs):
            c.fail_tool("replay output has %d lines for %d histories" % (len(outs), len(hs)))
        for h, o in zip(hs, outs):
            total += 1
            key = hist_key(h)
            # only the last step of a history is new (its prefixes are histories of their own), but judge all: cheap
            conf = True
            for si, (spec, real) in enumerate(zip(h, o["steps"])):
                rep = {"ids": I, "addrs": A, "h": h, "step": si, "real": o["steps"]}
                if si < len(h) - 1 and conf:
                    # prefix steps were judged as the last step of a shorter history; re-judge only P-monitors silently via same path
                    pass
                if si == len(h) - 1 or real["ev"]["kind"] == "panic":
                    conf = judge_step(c, hist_key(h[:si + 1]), spec, real, stats, rep)
            kinds = [st["ev"] for st in h[:-1]]
            lapse = any(e["kind"] == "adv" for e in kinds) and any(e["kind"] == "register" for e in kinds)
            regs = [e for e in kinds if e["kind"] == "register"]
            supers = any(a["k"] == b["k"] and a["id"] != b["id"] for a in regs for b in regs) or \
                any(a["id"] == b["id"] and a["k"] != b["k"] for a in regs for b in regs)
            hss = [e for e in kinds if e["kind"] == "hs"]
            second = any(a["a"] == b["a"] and a["id"] != b["id"] for a in hss for b in hss)
            if lapse or supers or second:
                nontrivial.add(key)
        mid = hs[len(hs) // 2]
        c.sample({"replayed_history": hist_key(mid), "expected_last": mid[-1]["ev"]})
    if not (stats["fwd"] and stats["enc"] and stats["hs"]):
        c.drift("replay observed no forwarded / encrypted / accepted-handshake event: %s" % stats)
    c.cov["replayed"] = total
    c.cov["evaluations"] = stats["steps"]
    c.cov["distinct_nontrivial"] = len(nontrivial)
    c.cov["replay_stats"] = stats

    # ---- 2b. the real TunnelGateway loop over loopback UDP (real time) -------------------------------------
    # Robust against slow machines: the harness attributes every observation by content (unique tag per datagram)
    # and timestamp; only observations that are unambiguous under any scheduling are violations (a datagram sent
    # >= 5 s after the expiry and dispatched before the re-registration started; anything sent after the
    # supersession).  Missing or late positive observations and any failure of the run itself are drift.
    gout = os.path.join(c.work, "gateway.json")
    cout = os.path.join(c.work, "client.json")
    from concurrent.futures import ThreadPoolExecutor
    rout = os.path.join(c.work, "refresher.ndjson")
    with ThreadPoolExecutor(3) as ex:       # the scenarios mostly sleep: run them side by side
        fg = ex.submit(c.sh, [binp, "gateway", gout], 1800)
        fc = ex.submit(c.sh, [binp, "client", cout], 1800)
        fr = ex.submit(c.sh, [binp, "refresher", rout], 1800) if thorough else None     # ~75 s of real time: thorough only
        (rc, so), (rcc, soc) = fg.result(), fc.result()
        rcr = fr.result()[0] if fr else None
    judge_client(c, rcc, soc, cout)
    if fr:
        tr_tmpl = ("SPECIFICATION Spec\nCONSTANTS\n  THR = 3\n  MINLIFE = 1\n  RETRY = 2\n  LAT = 1\n  Lifes = {{1, 2, 5, 6, 8}}\n  MaxT = 24\n"
                   "  HEALTHY = {healthy}\n  VARIANT = \"{variant}\"\nINVARIANTS PublishedFresh KeepWhileValid NoGapWhenHealthy AlwaysATokenWhenHealthy\n")
        for healthy in ("FALSE", "TRUE"):
            rr = c.tlc(SD, "MC_TokenRefresh", cfg=cfg(c, "tr_%s.cfg" % healthy, tr_tmpl.format(healthy=healthy, variant="code")), timeout=1200, coverage=False)
            for inv in rr.violated:
                c.violation("spec:refresher:%s" % inv, "design-level: %s violated on MC_TokenRefresh (see %s)" % (inv, rr.out_path), {"tlc_out": rr.out_path})
        for variant, healthy in (("late", "TRUE"), ("dropvalid", "FALSE")):
            r0 = c.tlc(SD, "MC_TokenRefresh", cfg=cfg(c, "tr_%s.cfg" % variant, tr_tmpl.format(healthy=healthy, variant=variant)), expect_violation=True,
                       coverage=False, keep_printed=False)
            if not r0.violated:
                c.fail_tool("oracle self-check failed: TokenRefresh variant '%s' is not refuted" % variant)
        judge_refresher(c, rcr, rout)
    if rc != 0 or not os.path.exists(gout):
        c.drift("gateway loop run failed rc=%s %s" % (rc, (so or "")[-300:]))
    else:
        g = json.load(open(gout))
        steps = {x["step"]: x for x in g["log"]}
        c.cov["gateway_loop"] = g
        for name, st in g["statuses"].items():
            if st != 200:
                c.drift("gateway loop: control-plane registration '%s' answered %s" % (name, st))
        if not g["handshake"]:
            c.drift("gateway loop: the WireGuard handshake did not complete (busy machine?); positive expectations not judged")
        if g["stray"]:
            c.drift("gateway loop: payloads reached the client that belong to no step: %s" % g["stray"][:3])
        for phase, what in (("lapsed", "lapse"), ("superseded", "supersession")):
            for name in ("%s:good" % phase, "%s:spoofed-source" % phase):
                x = steps.get(name)
                if not x:
                    continue
                if x["dispatched_counted"]:
                    c.violation("gateway:flow-after-%s:in" % what, "real gateway loop dispatched a tunnelled datagram (%s) after the %s of the registration" % (name, what), g)
                if [rp for rp in x["replies"] if rp["counted"]]:
                    c.violation("gateway:flow-after-%s:reply" % what, "real gateway loop answered %s towards the client after the %s: %s" % (name, what, json.dumps(x["replies"])), g)
            y = steps.get("%s:outbound" % phase)
            if y and y["delivered_counted"]:
                c.violation("gateway:flow-after-%s:out" % what, "real gateway loop encrypted an outbound packet towards the client after the %s" % what, g)
        ok_phase = {"authorised": g["handshake"] and g["authorised_phase_done_at_s"] <= g["life"] - 6,
                    "reregistered": g["handshake"] and g["reregistered_phase_took_s"] <= g["life"] - 6}
        for ph, ok in ok_phase.items():
            if not ok:
                c.drift("gateway loop: %s phase too slow on this machine, positive expectations not judged" % ph)
                continue
            x, y = steps.get("%s:good" % ph), steps.get("%s:outbound" % ph)
            if not x or x["dispatched"] != 1:
                c.drift("gateway loop: %s:good was not dispatched exactly once: %s" % (ph, json.dumps(x)))
            if not y or y["delivered"] != 1:
                c.drift("gateway loop: %s:outbound did not reach the client exactly once: %s" % (ph, json.dumps(y)))
        c.cov["evaluations"] += len(g["log"])

    # ---- 3. record -> Trace_SnapTunnel -----------------------------------------------------------------
    runs, ln = (200, 400) if thorough else (30, 300)
    ev = os.path.join(c.work, "trace.ndjson")
    summ = os.path.join(c.work, "trace.json")
    rc, so = c.sh([binp, "record", ev, summ], env={"VERIF_RUNS": runs, "VERIF_LEN": ln}, timeout=3400)
    if rc != 0:
        c.fail_tool("record harness failed rc=%s %s" % (rc, so[-300:]))
    res = json.load(open(summ))
    r = c.tlc(SD, "Trace_SnapTunnel", mode="trace", env={"TRACE": ev}, timeout=3400)
    drifts = list({d["line"]: d for d in c.printed_json(r, "DRIFT")}.values())   # (TLC may evaluate the print more than once)
    if r.violated:
        for inv in r.violated:
            c.violation("trace:%s" % inv, "P-invariant %s violated on a recorded history of the real registry/server (TLC output %s)" % (inv, r.out_path),
                        {"trace": ev, "tlc_out": r.out_path, "seed": c.seed})
    elif r.postcondition_failed or not r.ok:
        c.fail_tool("Trace_SnapTunnel did not consume the whole trace (see %s)" % r.out_path)
    for d in drifts[:20]:
        c.drift("recorded history line %s: observed %s auth %s; spec auth %s now %s tunnels %s" % (
            d["line"], json.dumps(d["o"]), d["auth"], d["spec_auth"], d["spec_now"], json.dumps(d["spec_tun"])))
    # monitors that need the full records: registry maps one-to-one, payload integrity/delivery
    nrec = 0
    for row in read_ndjson(ev + ".full"):
        if row.get("ev") == "reset":
            continue
        nrec += 1
        o, snap = row["o"], row["snap"]
        if snap:
            oto = one_to_one(snap)
            if oto:
                c.violation("one-to-one:%s" % oto, "real registry maps %s in recorded run %s step %s" % (oto, row["run"], row["step"]), row)
        if o["kind"] == "in" and o.get("fwd") and not o.get("intact", True):
            c.violation("attribution:altered", "forwarded payload altered in recorded run %s step %s" % (row["run"], row["step"]), row)
        d = o.get("delivered") if o["kind"] == "out" else None
        if d and (d.get("failed") or not d.get("intact") or d.get("to") != o["id"]):
            c.violation("attribution:out-delivery", "outbound delivery %s in recorded run %s step %s" % (json.dumps(d), row["run"], row["step"]), row)
    if res["forwarded"] < runs or res["encrypted"] < runs or res["blocked"] < runs:
        c.drift("recorded runs show little traffic: %s" % res)
    # binding self-check (S6): a corrupted observation must be flagged by the trace specification
    metal = {"ev": "meta", "keys": ["k1", "k2"], "ids": ["i1", "i2"], "addrs": ["a1"]}
    reg1 = {"ev": "act", "o": {"kind": "register", "k": "k1", "id": "i1", "life": 2, "wasnew": True}, "auth": ["i1"]}
    bad1 = os.path.join(c.work, "trace_corrupted_p.ndjson")
    write_ndjson(bad1, [metal, {"ev": "reset"}, reg1, {"ev": "act", "o": {"kind": "adv", "d": 2}, "auth": []},
                        {"ev": "act", "o": {"kind": "hs", "a": "a1", "id": "i1", "res": "accepted-new"}, "auth": []}])
    rb = c.tlc(SD, "Trace_SnapTunnel", mode="trace", env={"TRACE": bad1}, timeout=900, expect_violation=True)
    if "THsOnlyAuthorised" not in rb.violated:
        c.fail_tool("oracle self-check failed: Trace_SnapTunnel accepts a handshake admitted after the lapse (%s)" % rb.violated)
    bad2 = os.path.join(c.work, "trace_corrupted_i.ndjson")
    write_ndjson(bad2, [metal, {"ev": "reset"}, dict(reg1, auth=[]), {"ev": "act", "o": {"kind": "purge"}, "auth": []}])
    rb = c.tlc(SD, "Trace_SnapTunnel", mode="trace", env={"TRACE": bad2}, timeout=900)
    if not c.printed_json(rb, "DRIFT"):
        c.fail_tool("oracle self-check failed: Trace_SnapTunnel does not report a registration that left the identity unauthorised")
    c.cov["traces_validated_against_impl"] = res["runs"] - len(drifts)
    c.cov["evaluations"] += nrec
    c.cov["distinct_nontrivial"] += res["runs"]
    c.cov["trace_stats"] = dict(res, drift_runs=len(drifts))
    c.sample({"trace_event": "action + observed outcome + authorised set; see spec/Snap/Trace_SnapTunnel.tla"})
