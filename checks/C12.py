"""C12 - views and models agree; a failed operation leaves its operand untouched.

Pipeline (DESIGN.md 7/C12, spec/PathHeader):
  1. TLC exhaustive on MC_PathOps: every header state the view constructor accepts with segment
     lengths 0..3 each (64 tables incl. zero-length first/middle segments and single-hop
     segments) x CurrINF 0..3 x CurrHF (quick: 0..total+1 and 63; thorough: 0..63) x every cons-dir
     vector, the reversal action (twice) from each; theorems ErrIsAtomic, AgreeReverse
     (view == model == encode(model)), Involution, Position, AgreeExpiry, AgreeSegments, EndsSwap.
     Oracle self-checks: the pinned-commit variants (FIXREV = FALSE, FIXHOPS = FALSE with a small
     CurrHF field) must violate ErrIsAtomic / Position.
  2. The same run prints every cell with the results the specification expects; the harness
     materialises the raw bytes and applies every operation to StandardPathView, StandardPath,
     ScionDpPathView, DpPath and ScionPath (and to the one-hop types); P-monitors on the REAL results:
       all states : Err => operand byte-for-byte (view) / structurally (model) unchanged; no panic
       WF states  : Ok/Err agree, bytes(view after) == encode(model after), from_view(view after)
                    == model after, expiry and segments agree, reversal is an involution and keeps
                    the logical position (same hop field / info field current), ScionPath reversal ==
                    ScionPath built from the reversed parts.
     A disagreement with the specification's expected cell where these hold is DRIFT.
  3. Seeded call sequences on large shapes (segment lengths up to 63, > 64 hop fields, hostile
     segment tables) are recorded from the real code and validated by Trace_PathHeader (TLC).

Readings adopted (S3, the less demanding ones):
  * "well-formed" = the header is the encoding of a model the encoder accepts (non-zero prefix of
    segment lengths, both pointers inside, <= 984 bytes).  For more than 64 hop fields (CurrHF cannot
    address them) the encoder's own verdict decides: it may refuse such models, or accept and handle them.
  * "preserves the logical position" = the hop field and the info field that were current are
    current afterwards (index mirror), nothing about SegID values.
  * DpPath::try_reverse turning a one-hop path into a standard path is documented; only Ok/Err and
    the info/hop contents are compared with the view.
  * agreement is demanded on well-formed headers only; on every other header only atomicity of
    failures and absence of panics.
"""
import json
import os

from vcommon import write_ndjson

SD = "PathHeader"

MC_TMPL = """SPECIFICATION Spec
CONSTANTS
  CHMOD = {chmod}
  U32CAP = 100000
  FIXREV = {fixrev}
  FIXWRAP = TRUE
  FIXHOPS = {fixhops}
  FIXOHEXP = TRUE
  FIXOHFLG = TRUE
  FIXOHSEC = TRUE
  PEERIMPL = FALSE
  XorAcc <- SymXor
  MAXLEN = {maxlen}
  ALLCH = {allch}
  Depth = {depth}
  GEN = {gen}
  FAMILY = "{family}"
INVARIANTS WFEquiv ErrIsAtomic AgreeReverse Involution Position WFReverses AgreeExpiry AgreeSegments EndsSwap Emit
"""


OH_TMPL = """SPECIFICATION Spec
CONSTANTS
  CHMOD = 64
  U32CAP = 100000
  FIXREV = TRUE
  FIXWRAP = TRUE
  FIXHOPS = TRUE
  FIXOHEXP = {fixohexp}
  FIXOHFLG = {fixohflg}
  FIXOHSEC = {fixohsec}
  PEERIMPL = FALSE
  XorAcc <- SymXor
  GEN = {gen}
INVARIANTS ErrIsAtomic StdAgree EndsSwap ExpiryTotal SetSecondAgree Emit
"""


MDL_TMPL = """SPECIFICATION Spec
CONSTANTS
  CHMOD = 64
  U32CAP = 100000
  FIXREV = TRUE
  FIXWRAP = TRUE
  FIXHOPS = TRUE
  FIXOHEXP = TRUE
  FIXOHFLG = TRUE
  FIXOHSEC = TRUE
  PEERIMPL = FALSE
  XorAcc <- SymXor
  MAXLEN = {maxlen}
  GEN = TRUE
INVARIANTS ModelErrIsAtomic AcceptedAgrees AcceptedFits Emit
"""


SP_TMPL = """SPECIFICATION Spec
CONSTANTS
  CHMOD = 64
  U32CAP = 100000
  FIXREV = TRUE
  FIXWRAP = TRUE
  FIXHOPS = TRUE
  FIXOHEXP = TRUE
  FIXOHFLG = TRUE
  FIXOHSEC = TRUE
  PEERIMPL = FALSE
  XorAcc <- SymXor
  GEN = TRUE
INVARIANTS SPErrIsAtomic StoredIsFresh SPInvolution MetaListsReversed FingerprintsStable EndpointsSwap Emit
"""


def cfg(c, name, text):
    p = os.path.join(c.work, name)
    open(p, "w").write(text)
    return p


def cell_key(cell):
    return "sl%s ci%d ch%d cd%s" % ("".join(map(str, cell["sl"])), cell["ci"], cell["ch"],
                                   "".join("1" if x else "0" for x in cell["cd"]))


def input_class(cell):
    sl = cell.get("sl") or [0, 0, 0]
    n = 0 if sl[0] == 0 else 1 if sl[1] == 0 else 2 if sl[2] == 0 else 3
    if n == 0:
        return "no-first-segment"
    if cell["ch"] >= sum(sl):
        return "curr_hf-out-of-range"
    if cell["ci"] >= n:
        return "curr_inf-out-of-range"
    if sl[1] == 0 and sl[2] != 0:
        return "zero-length-middle-segment"
    return "pointers-in-range"


def want_key(key):
    """C12 owns reversal, queries, conversions and atomicity/panic-freedom of every operation;
    the Monotone / authentication monitors of the shared recorder belong to C11."""
    return not key.startswith(("Monotone:", "Authentic", "Tamper"))


def report_pvs(c, pvs, where, replay):
    for pv in pvs:
        c.violation(pv["key"], pv["what"] + " [%s]" % where, replay)


def replay_cells(c, binp, cells, tag):
    inp = os.path.join(c.work, "cells_%s.ndjson" % tag)
    outp = os.path.join(c.work, "cells_%s_out.ndjson" % tag)
    write_ndjson(inp, cells)
    rc, so = c.sh([binp, "c12-replay", inp, outp], timeout=9000)
    if rc is not None and rc < 0:
        # the harness process was killed by a signal while it executed the code under test (only unsafe
        # code in /repo can do that): an observation, not a tool problem (DESIGN.md S1)
        c.violation("Crash:replay:signal%d" % -rc, "the replay harness died with signal %d while calling the path API (memory-unsafe behaviour of the code under test); cases processed so far are still judged" % -rc,
                    {"kind": "crash", "step": "c12-replay"})
    elif rc != 0:
        c.fail_tool("replay harness failed rc=%s %s" % (rc, (so or "")[-500:]))
    stats = {"cells": 0, "wf": 0, "rev_ok": 0, "rev_err": 0, "mismatch": 0, "nontrivial": 0}
    classes = {}
    with open(outp) as f:
        for line, cell in zip(f, cells):
            res = json.loads(line)
            stats["cells"] += 1
            obs = res.get("obs") or {}
            # vacuity counters are taken from the GENERATED cell (specification side), never from
            # what the code under test answered
            if cell.get("fam") in ("onehop", "model", "scionpath"):
                fam = cell["fam"]
                stats[fam] = stats.get(fam, 0) + 1
                if fam == "model" and cell.get("mvalid"):
                    stats["model_accepted"] = stats.get("model_accepted", 0) + 1
                desc = (json.dumps({k: cell.get(k) for k in ("cd", "ts", "in1", "in2", "e1", "e2", "fl2")}) if fam == "onehop"
                        else json.dumps(cell["model"]) if fam == "model" else json.dumps(cell["before"]))
                if not res["conf"]:
                    stats["mismatch"] += 1
                    m = res["mis"][0]
                    c.drift("%s cell %s: %s spec %s real %s" % (fam, desc[:200], m["field"], json.dumps(m["spec"])[:160], json.dumps(m["real"])[:160]))
                report_pvs(c, res["pv"], fam + " " + desc[:120], {"kind": "cell", "cell": cell})
                continue
            if cell.get("wf"):
                stats["wf"] += 1
            r = (cell.get("rev") or {}).get("ok")
            if r is True:
                stats["rev_ok"] += 1
            elif r is False:
                stats["rev_err"] += 1
            k = input_class(cell)
            classes[k] = classes.get(k, 0) + 1
            # non-trivial: not (a fully valid header at the start of a path)
            if not (cell.get("wf") and cell.get("ci") == 0 and cell.get("ch") == 0):
                stats["nontrivial"] += 1
            if not res["conf"]:
                stats["mismatch"] += 1
                m = res["mis"][0]
                c.drift("cell %s: %s spec %s real %s" % (cell_key(cell) if "sl" in cell else cell.get("fam"), m["field"],
                                                         json.dumps(m["spec"])[:160], json.dumps(m["real"])[:160]))
            report_pvs(c, res["pv"], cell_key(cell) if "sl" in cell else cell.get("fam"), {"kind": "cell", "cell": cell})
    stats["classes"] = classes
    return stats


def replay_one(c, binp):
    obj = json.load(open(c.replay))
    rp = obj.get("replay") or {}
    if rp.get("kind") == "cell":
        st = replay_cells(c, binp, [rp["cell"]], "one")
        out = json.loads(open(os.path.join(c.work, "cells_one_out.ndjson")).read().splitlines()[0])
        print("cell   :", json.dumps({k: rp["cell"][k] for k in ("sl", "ci", "ch", "cd") if k in rp["cell"]}))
        print("spec   : rev", json.dumps(rp["cell"].get("rev")), "\n         mrev", json.dumps(rp["cell"].get("mrev")))
        print("real   : rev", json.dumps((out.get("obs") or {}).get("rev")), "\n         mrev", json.dumps((out.get("obs") or {}).get("mrev")))
        c.cov["replayed"] = c.cov["evaluations"] = st["cells"]
        c.cov["distinct_nontrivial"] = st["nontrivial"]
        c.sample(rp["cell"])
    elif rp.get("kind") == "record":
        ev = os.path.join(c.work, "one.ndjson")
        resj = os.path.join(c.work, "one.json")
        c.seed = rp.get("seed", c.seed)
        rc, so = c.sh([binp, "record", ev, resj, rp.get("mode", "c12")], env={"VERIF_RUNS": rp.get("runs", 300), "VERIF_TIER": rp.get("tier", "quick")})
        res = json.load(open(resj))
        for pv in res["pv"]:
            print("real   :", pv["key"], "-", pv["what"])
            if want_key(pv["key"]) and not pv["key"].startswith("Drift:"):
                c.violation(pv["key"], pv["what"], rp)
        c.cov["evaluations"] = res["events"]
        c.cov["distinct_nontrivial"] = res["nontrivial_runs"]
        c.sample(rp)
    else:
        print("replay file carries no re-runnable input:", json.dumps(rp)[:1000])


def run(c):
    thorough = c.tier == "thorough"
    binp = c.cargo_build("vh-sciparse", bin="pathheader")
    if c.replay:
        return replay_one(c, binp)
    c.assumptions += [
        "raw bytes are written and re-read by the harness independently of sciparse's encoder (states the encoder refuses are reachable only this way)",
        "u32 timestamps are mapped to model time with a shifted origin (saturation bound 100000 == u32::MAX)",
        "field contents are a fixed injective labelling (hop id k: interfaces 100+k/200+k; info id j in the top SegID bits); agreement is checked on whole byte strings, so the labelling cannot hide a difference",
        "TLC 1.8.0, CommunityModules Json/IOUtils/Bitwise",
    ]
    c.cov["rule"] = ("cell = (segment-length table, CurrINF, CurrHF, cons-dir vector[, expiry table]); non-trivial = not a "
                     "fully valid header positioned at its first hop; trace runs: non-trivial = any deviation from a plain forward walk "
                     "(reversal, hostile shape, rejected validation, out-of-order call)")

    # ---- 1+2a. exhaustive run over the pointer family, cells printed by the same run ------------
    all_cells = []
    for fam, allch, depth in (("ptr", "TRUE" if thorough else "FALSE", 2 if thorough else 1), ("exp", "FALSE", 1)):
        p = cfg(c, "mc_%s.cfg" % fam, MC_TMPL.format(chmod=64, fixrev="TRUE", fixhops="TRUE", maxlen=3, allch=allch,
                                                     depth=depth, gen="TRUE", family=fam))
        r = c.tlc(SD, "MC_PathOps", cfg=p, timeout=12000)
        for inv in r.violated:
            c.violation("spec:%s" % inv, "design-level: invariant %s violated on MC_PathOps (%s family); see %s" % (inv, fam, r.out_path), {"tlc_out": r.out_path})
        if r.ok:
            c.require_coverage(r, ["Reverse"])
        cells = c.printed_json(r, "CELL")
        if not cells:
            c.fail_tool("generation run printed no cells (%s)" % fam)
        for d in cells:
            d["fam"] = "std"
        all_cells += cells
    # the model side: owned StandardPath values no byte string decodes to (empty segments, current_hop_field >= 64)
    r = c.tlc(SD, "MC_PathModel", cfg=cfg(c, "mc_model.cfg", MDL_TMPL.format(maxlen=3 if thorough else 2)), timeout=9000)
    for inv in r.violated:
        c.violation("spec:model:%s" % inv, "design-level: invariant %s violated on MC_PathModel; see %s" % (inv, r.out_path), {"tlc_out": r.out_path})
    mc = c.printed_json(r, "MCELL")
    if not mc:
        c.fail_tool("generation run printed no model cells")
    for d in mc:
        d["fam"] = "model"
    all_cells += mc
    # the ScionPath level: end points, metadata lists, next hop, cached fingerprints / expiry under reversal
    r = c.tlc(SD, "MC_ScionPath", cfg=cfg(c, "mc_scionpath.cfg", SP_TMPL), timeout=9000)
    for inv in r.violated:
        c.violation("spec:scionpath:%s" % inv, "design-level: invariant %s violated on MC_ScionPath; see %s" % (inv, r.out_path), {"tlc_out": r.out_path})
    spc = c.printed_json(r, "SPCELL")
    if not spc:
        c.fail_tool("generation run printed no ScionPath cells")
    for d in spc:
        d["fam"] = "scionpath"
    all_cells += spc
    # one-hop paths: small decision table
    r = c.tlc(SD, "MC_OneHop", cfg=cfg(c, "mc_onehop.cfg", OH_TMPL.format(fixohexp="TRUE", fixohsec="TRUE", fixohflg="TRUE", gen="TRUE")), timeout=9000)
    for inv in r.violated:
        c.violation("spec:onehop:%s" % inv, "design-level: invariant %s violated on MC_OneHop; see %s" % (inv, r.out_path), {"tlc_out": r.out_path})
    oh = c.printed_json(r, "OHCELL")
    if not oh:
        c.fail_tool("generation run printed no one-hop cells")
    for d in oh:
        d["fam"] = "onehop"
    all_cells += oh
    ohself = [("TRUE", "FALSE", "TRUE", "SetSecondAgree")]
    if thorough:
        ohself += [("FALSE", "TRUE", "TRUE", "ExpiryTotal"), ("TRUE", "TRUE", "FALSE", "SetSecondAgree")]
    for fe, fs, ff, inv in ohself:
        rb = c.tlc(SD, "MC_OneHop", cfg=cfg(c, "mc_onehop_unfixed_%s_%s%s.cfg" % (inv, fs[0], ff[0]), OH_TMPL.format(fixohexp=fe, fixohsec=fs, fixohflg=ff, gen="FALSE")), expect_violation=True, coverage=False)
        if inv not in rb.violated:
            c.fail_tool("oracle self-check failed: the pinned one-hop variant no longer violates %s in the model" % inv)
    # ---- 1b. oracle self-checks: the pinned-commit variants must be refuted -------------------------
    r0 = c.tlc(SD, "MC_PathOps", cfg=cfg(c, "mc_unfixed_rev.cfg", MC_TMPL.format(
        chmod=64, fixrev="FALSE", fixhops="TRUE", maxlen=2, allch="FALSE", depth=1, gen="FALSE", family="ptr")),
        expect_violation=True, coverage=False)
    if "ErrIsAtomic" not in r0.violated:
        c.fail_tool("oracle self-check failed: FIXREV=FALSE no longer violates ErrIsAtomic in the model")
    r1 = c.tlc(SD, "MC_PathOps", cfg=cfg(c, "mc_unfixed_hops.cfg", MC_TMPL.format(
        chmod=4, fixrev="TRUE", fixhops="FALSE", maxlen=3, allch="TRUE", depth=1, gen="FALSE", family="ptr")),
        expect_violation=True, coverage=False)
    if not ({"Position", "AgreeReverse", "Involution"} & set(r1.violated)):
        c.fail_tool("oracle self-check failed: FIXHOPS=FALSE with a 2-bit CurrHF no longer violates Position/AgreeReverse")
    if thorough:
        r2 = c.tlc(SD, "MC_PathOps", cfg=cfg(c, "mc_smallptr.cfg", MC_TMPL.format(
            chmod=4, fixrev="TRUE", fixhops="TRUE", maxlen=3, allch="TRUE", depth=1, gen="FALSE", family="ptr")), coverage=False)
        for inv in r2.violated:
            c.violation("spec:%s:small-currhf" % inv, "design-level: invariant %s violated with a 2-bit CurrHF field; see %s" % (inv, r2.out_path), {"tlc_out": r2.out_path})
    c.cov["exhaustive"] = True

    # ---- 2b. replay on the real code -------------------------------------------------------------------
    st = replay_cells(c, binp, all_cells, "all")
    for need in ("wf", "rev_ok", "rev_err", "model", "model_accepted", "onehop", "scionpath"):
        if st.get(need, 0) == 0:
            c.fail_tool("vacuous replay: no cell with %s" % need)
    for cls in ("curr_hf-out-of-range", "curr_inf-out-of-range", "zero-length-middle-segment", "no-first-segment", "pointers-in-range"):
        if st["classes"].get(cls, 0) == 0:
            c.fail_tool("vacuous replay: input class %s never produced" % cls)
    c.cov["replayed"] = st["cells"]
    c.cov["replay_conformance_mismatches"] = st["mismatch"]
    c.cov["evaluations"] = st["cells"]
    c.cov["distinct_nontrivial"] = st["nontrivial"]
    c.cov["replay_stats"] = st
    mid = all_cells[len(all_cells) // 3]
    c.sample({"cell": {k: mid[k] for k in ("sl", "ci", "ch", "cd", "wf")}, "spec_rev": mid["rev"], "spec_model_rev": mid["mrev"]})

    # ---- 3. record real call sequences on large shapes -> trace validation --------------------------------
    ev = os.path.join(c.work, "trace_c12.ndjson")
    resj = os.path.join(c.work, "trace_c12.json")
    runs = 1500 if thorough else 350
    rc, so = c.sh([binp, "record", ev, resj, "c12"], env={"VERIF_RUNS": runs}, timeout=9000)
    if rc is not None and rc < 0:
        c.violation("Crash:record:signal%d" % -rc, "the recording harness died with signal %d while calling the path API (memory-unsafe behaviour of the code under test)" % -rc,
                    {"kind": "crash", "step": "record"})
        return
    if rc != 0:
        c.fail_tool("record harness failed rc=%s %s" % (rc, (so or "")[-500:]))
    res = json.load(open(resj))
    r = c.tlc(SD, "Trace_PathHeader", mode="trace", env={"TRACE": ev}, timeout=9000)
    if r.violated:
        for inv in r.violated:
            c.violation("trace:%s" % inv, "invariant %s violated on a recorded execution of the real path API; TLC output %s" % (inv, r.out_path),
                        {"kind": "record", "mode": "c12", "seed": c.seed, "runs": runs, "tier": c.tier})
    elif r.postcondition_failed or not r.ok:
        txt = open(r.out_path).read()
        um = [l for l in txt.splitlines() if "UNMATCHED" in l or "TRACE-REJECTED" in l]
        c.drift("recorded trace not accepted by Trace_PathHeader: %s" % " ".join(um)[:600])
    else:
        c.cov["traces_validated_against_impl"] = res["runs"]
    for pv in res["pv"]:
        key = pv["key"]
        if key.startswith("Drift:"):
            c.drift(pv["what"])
            continue
        if not want_key(key):
            continue
        c.violation(key, pv["what"] + " (record run %s, seed %d, x%d)" % (pv.get("run"), c.seed, pv.get("count", 1)),
                    {"kind": "record", "mode": "c12", "seed": c.seed, "runs": runs, "tier": c.tier})
    for cls in ("wf-start", "wf-anywhere", "wf-single-hop-segs", "wf-gt64-hops", "boundary", "hostile"):
        if res["classes"].get(cls, 0) == 0:
            c.fail_tool("vacuous record: shape class %s never produced" % cls)
    for op in ("rev:ok", "rev:err"):
        if res["ops"].get(op, 0) == 0:
            c.drift("record: outcome %s never observed on the real code" % op)
    c.cov["evaluations"] += res["events"]
    c.cov["distinct_nontrivial"] += res["nontrivial_runs"]
    c.cov["trace_stats"] = {k: res[k] for k in ("runs", "events", "ops", "classes", "nontrivial_runs")}
    c.sample({"trace_event": "reset{sl,ci,ch,inf,hop} / op{op,v,res,unchanged,calls,after} / q{...}, see spec/PathHeader/Trace_PathHeader.tla"})
