"""C11 - hop-field authentication and per-AS advance are a correct monotone state machine.

Pipeline (DESIGN.md 7/C11, spec/PathHeader):
  1. TLC exhaustive on MC_PathAdvance: every header state the view constructor accepts with segment
     lengths 0..3 each x CurrINF 0..3 x CurrHF (quick: 0..total+1 and 63; thorough 0..63) x every
     cons-dir vector x router alerts, and every sequence of <= Depth calls of advance_ingress
     (from inside / from outside) / advance_egress under accepting and rejecting validators.
     P-layer (action properties): ErrIsAtomic, Monotone (no pointer moves backwards, CurrHF moves
     by at most one, CurrINF follows exactly at a segment change), EgressForward, XoverForward,
     Bounded (#forward steps <= #hop fields - 1).  Oracle self-check: with a 2-bit CurrHF and the
     pinned wrap-around (FIXWRAP = FALSE) Monotone must be refuted.
  2. TLC exhaustive on PathWalk (symbolic injective MACs + chain rule): every authentic path of
     1..3 segments x 2..3 hop fields x every direction vector verifies at every AS with that AS's
     key, forward and after try_reverse backward (AuthenticVerifies); every replacement of an
     authenticated field (cons ingress/egress, exp, MAC of any hop field; timestamp, SegID of any
     segment) is detected no later than at the owning AS (TamperDetectedAtOwner).  Oracle
     self-checks: timestamp left out of the MAC / wrong initial SegID of reversed segments.
  3. replay: every cell of (1) on the real StandardPathView with a scripted validator (4 scripts)
     - result class, action, interfaces, resulting pointers, SegIDs, alert flags and what the
     validator was shown are compared with the specification (DRIFT on mismatch); P-monitors on
     the real bytes: Err => bytes unchanged, no panic, Monotone.  Every journey of (2) is built
     with real AES-CMAC and per-AS keys (CMAC computed independently of sciparse), walked with
     sciparse's HopMacValidator forward, reversed, backward; for tampered journeys EVERY single-bit
     flip of the tampered field is walked: first failing AS <= owner.
  4. seeded call sequences on large shapes (<= 63 hops per segment, > 64 hop fields, hostile
     tables) and large authentic journeys with random single/double bit flips are recorded and
     validated by Trace_PathHeader (TLC), P-monitors evaluated on every real call.

Readings adopted (S3):
  * "fails" = the call returns Err(AdvanceError) => bytes unchanged.  A validation failure reported
    through the validator (ValidationFailed) is a rejection after processing (documented API): for
    it only "pointers did not move backwards" is required.
  * "moves the pointer strictly forward" is required of a forwarded AS step (ingress + egress) and
    of every successful advance_egress; a successful advance_ingress inside a segment / at the
    last hop legitimately leaves CurrHF where it is.
  * double-bit corruptions must be detected no later than at the LATER of the two owners.
  * peering: PathHeader.tla carries SCION's peering rule as a switch (PEERIMPL): peer hop field MACed under
    the accumulator after the AS's regular hop field, no SegID update at a peer hop field, segment change at
    egress.  TLC shows that rule verifies authentic peering paths (PeeringVerifies, both directions, with
    tamper detection at the owner) and is monotone; the CODE ignores the PEERING flag (PEERIMPL = FALSE is
    what the replayed cells and journeys are generated from), so authentic peering journeys are rejected by
    the real API: reported under the narrowly keyed OPEN finding
    AuthenticRejected:peering:advance-ignores-PEERING-flag (same root cause as C01/C13's peering findings).
"""
import json
import os

from vcommon import write_ndjson

SD = "PathHeader"

ADV_TMPL = """SPECIFICATION Spec
CONSTANTS
  CHMOD = {chmod}
  U32CAP = 100000
  FIXREV = TRUE
  FIXWRAP = {fixwrap}
  FIXHOPS = TRUE
  FIXOHEXP = TRUE
  FIXOHFLG = TRUE
  FIXOHSEC = TRUE
  PEERIMPL = {peerimpl}
  XorAcc <- SymXor
  MAXLEN = {maxlen}
  ALLCH = {allch}
  Depth = {depth}
  GEN = {gen}
  ALS = {als}
  PEERS = {peers}
INVARIANTS Bounded Emit
PROPERTIES ErrIsAtomicStep MonotoneStep EgressForwardStep XoverForwardStep
"""

WALK_TMPL = """SPECIFICATION Spec
CONSTANTS
  CHMOD = 64
  U32CAP = 100000
  FIXREV = TRUE
  FIXWRAP = TRUE
  FIXHOPS = TRUE
  FIXOHEXP = TRUE
  FIXOHFLG = TRUE
  FIXOHSEC = TRUE
  PEERIMPL = {peerimpl}
  XorAcc <- SymXor
  MINLEN = 2
  MAXLEN = {maxlen}
  MAXSEG = {maxseg}
  GEN = {gen}
  BROKEN = "{broken}"
  PEERPATHS = TRUE
INVARIANTS {peerinv} OneHopVerifies AuthenticVerifies TamperDetectedAtOwner StepsBounded Emit
"""


def cfg(c, name, text):
    p = os.path.join(c.work, name)
    open(p, "w").write(text)
    return p


def cell_key(cell):
    if cell.get("kind") == "onehop":
        return "one-hop journey segid %s exp %s" % (cell.get("segid"), cell.get("exp"))
    if cell.get("kind") == "double":
        return "double-flips %s" % "".join(("c" if p["cd"] else "r") + str(p["n"]) for p in cell["pieces"])
    if cell.get("kind") == "walk":
        return "walk %s%s tamper %s@%s" % ("peering " if cell.get("peering") else "", "".join(("c" if p["cd"] else "r") + str(p["n"]) for p in cell["pieces"]),
                                        cell["tamper"]["f"], cell["tamper"]["at"])
    return "sl%s ci%d ch%d cd%s al%d" % ("".join(map(str, cell["sl"])), cell["ci"], cell["ch"],
                                         "".join("1" if x else "0" for x in cell["cd"]), 1 if cell.get("al") else 0)


def replay_cases(c, binp, cases, tag):
    inp = os.path.join(c.work, "cases_%s.ndjson" % tag)
    outp = os.path.join(c.work, "cases_%s_out.ndjson" % tag)
    write_ndjson(inp, cases)
    rc, so = c.sh([binp, "c11-replay", inp, outp], timeout=9000)
    if rc is not None and rc < 0:
        # the harness process was killed by a signal while it executed the code under test (only unsafe
        # code in /repo can do that): an observation, not a tool problem (DESIGN.md S1)
        c.violation("Crash:replay:signal%d" % -rc, "the replay harness died with signal %d while calling the path API (memory-unsafe behaviour of the code under test); cases processed so far are still judged" % -rc,
                    {"kind": "crash", "step": "c11-replay"})
    elif rc != 0:
        c.fail_tool("replay harness failed rc=%s %s" % (rc, (so or "")[-500:]))
    st = {"cases": 0, "mismatch": 0, "outcomes": {}, "flips": 0, "walks": 0, "nontrivial": 0}
    with open(outp) as f:
        for line, case in zip(f, cases):
            res = json.loads(line)
            st["cases"] += 1
            if case.get("kind") == "onehop":
                st["onehop_journeys"] = st.get("onehop_journeys", 0) + 1
            elif case.get("kind") == "double":
                st["double_flip_pairs"] = st.get("double_flip_pairs", 0) + res.get("flips", 0)
                st["nontrivial"] += 1
            elif case.get("kind") == "walk":
                st["walks"] += 1
                st["flips"] += res.get("flips", 0)
                st["nontrivial"] += 1 if (len(case["pieces"]) > 1 or case["tamper"]["f"] != "none") else 0
                k = "walk:" + ("peering:" if case.get("peering") else "") + ("authentic" if case["tamper"]["f"] == "none" else "tamper-" + case["tamper"]["f"])
                st["outcomes"][k] = st["outcomes"].get(k, 0) + 1
            else:
                # outcome classes are counted on the GENERATED cell (specification side)
                for op in ("ing_int", "ing_ext", "egr"):
                    sp = case.get(op) or {}
                    k = op + ":" + (("err:" + sp.get("cls", "?")) if sp.get("k") == "err" else ("%s:%s" % (sp.get("k"), sp.get("act"))))
                    st["outcomes"][k] = st["outcomes"].get(k, 0) + 1
                if not (case["ci"] == 0 and case["ch"] == 0):
                    st["nontrivial"] += 1
            if not res["conf"]:
                st["mismatch"] += 1
                m = res["mis"][0]
                c.drift("%s: %s spec %s real %s" % (cell_key(case), m["field"], json.dumps(m["spec"])[:160], json.dumps(m["real"])[:160]))
            for pv in res["pv"]:
                c.violation(pv["key"], pv["what"] + " [%s]" % cell_key(case), {"kind": "case", "case": case})
    return st


def replay_one(c, binp):
    obj = json.load(open(c.replay))
    rp = obj.get("replay") or {}
    if rp.get("kind") == "case":
        st = replay_cases(c, binp, [rp["case"]], "one")
        out = json.loads(open(os.path.join(c.work, "cases_one_out.ndjson")).read().splitlines()[0])
        print("case   :", cell_key(rp["case"]))
        for op in ("ing_int", "ing_ext", "egr"):
            if op in rp["case"]:
                print("spec   : %s -> %s" % (op, json.dumps(rp["case"][op])[:300]))
        print("real   :", json.dumps({k: out[k] for k in out if k != "pv"})[:1500])
        c.cov["replayed"] = c.cov["evaluations"] = 1
        c.cov["distinct_nontrivial"] = st["nontrivial"]
        c.sample({"case": cell_key(rp["case"])})
    elif rp.get("kind") == "record":
        ev = os.path.join(c.work, "one.ndjson")
        resj = os.path.join(c.work, "one.json")
        c.seed = rp.get("seed", c.seed)
        c.sh([binp, "record", ev, resj, rp.get("mode", "c11")], env={"VERIF_RUNS": rp.get("runs", 300), "VERIF_TIER": rp.get("tier", "quick")})
        res = json.load(open(resj))
        for pv in res["pv"]:
            print("real   :", pv["key"], "-", pv["what"])
            if want_key(pv["key"]):
                c.violation(pv["key"], pv["what"], rp)
        c.cov["evaluations"] = res["events"]
        c.cov["distinct_nontrivial"] = res["nontrivial_runs"]
        c.sample(rp)
    else:
        print("replay file carries no re-runnable input:", json.dumps(rp)[:1000])


def binding_selftest(c, ev):
    """S6: the recorded trace `ev` was accepted by Trace_PathHeader; corrupting one logged field or
    dropping one event of (a prefix of) it must make TLC reject it."""
    lines = []
    for l in open(ev):
        lines.append(json.loads(l))
        if len(lines) >= 400 and lines[-1].get("ev") == "reset":
            lines.pop()
            break
    idx = [i for i, e in enumerate(lines) if e.get("ev") == "op" and e["op"] == "egr" and e["res"]["k"] == "ok"
           and i + 1 < len(lines) and lines[i + 1].get("ev") == "op"]
    if not idx:
        c.drift("binding self-test skipped: no successful advance_egress followed by another call in the recorded prefix")
        return
    i = idx[len(idx) // 2]
    cor = [json.loads(json.dumps(e)) for e in lines]
    cor[i]["after"]["ch"] = (cor[i]["after"]["ch"] + 1) % 64
    variants = {"corrupt-field": cor, "drop-event": lines[:i] + lines[i + 1:]}
    for name, ls in variants.items():
        pth = os.path.join(c.work, "self_%s.ndjson" % name)
        write_ndjson(pth, ls)
        r = c.tlc(SD, "Trace_PathHeader", mode="trace", env={"TRACE": pth}, timeout=6000, expect_violation=True)
        accepted = r.ok and not r.postcondition_failed and not r.violated
        if accepted:
            c.fail_tool("binding self-test: trace variant '%s' was accepted - the trace spec does not constrain the code" % name)
    c.cov["binding_selftest"] = "recorded trace accepted; corrupt-field and drop-event variants rejected"


def want_key(key):
    """C11 owns the advance API and the journeys; reversal/view-model monitors belong to C12."""
    if key.startswith(("Monotone:", "Authentic", "Tamper")):
        return True
    if key.startswith(("ErrNotAtomic:advance", "Panic:advance")):
        return True
    return False


def run(c):
    thorough = c.tier == "thorough"
    binp = c.cargo_build("vh-sciparse", bin="pathheader")
    if c.replay:
        return replay_one(c, binp)
    c.assumptions += [
        "AES-CMAC is trusted as a primitive; the harness computes hop MACs with the aes/cmac crates directly over the 16 input bytes the SCION specification authenticates, sciparse's HopMacValidator must agree with them",
        "symbolic MACs in PathWalk are injective and their 16-bit prefixes linearly independent (accidental 48-bit MAC collisions are not modelled)",
        "per-AS keys are pairwise distinct; the crossover AS owns the last hop field of one segment and the first of the next",
        "raw bytes are written and re-read by the harness independently of sciparse's encoder",
        "TLC 1.8.0, CommunityModules Json/IOUtils/Bitwise",
    ]
    c.cov["rule"] = ("cell = (segment-length table, CurrINF, CurrHF, cons-dir vector, alerts) x 3 calls x 4 validator scripts; "
                     "non-trivial cell = pointers not both at 0; journey: non-trivial = more than one segment or tampered; "
                     "trace runs: non-trivial = any deviation from a plain forward walk")

    # ---- 1. API level --------------------------------------------------------------------------------
    # every cell x every call (depth 1) with generation; call sequences on a second run.
    # thorough: every CurrHF value 0..63 with alerts unset + the quick pointer range with alerts set
    BOTH = "{TRUE, FALSE}"
    # (PEERS: the PEERING flag set on every info field - the code ignores it, so does the I-spec with PEERIMPL = FALSE)
    NOP = "{FALSE}"
    gens = [("adv.cfg", "FALSE", BOTH, NOP)] if not thorough else [("adv_allch.cfg", "TRUE", "{FALSE}", NOP), ("adv_al.cfg", "FALSE", "{TRUE}", NOP),
                                                                   ("adv_peerflag.cfg", "FALSE", "{FALSE}", "{TRUE}")]
    cells = []
    for name, allch, als, peers in gens:
        p = cfg(c, name, ADV_TMPL.format(chmod=64, fixwrap="TRUE", maxlen=3, allch=allch, depth=1, gen="TRUE", als=als, peers=peers, peerimpl="FALSE"))
        r = c.tlc(SD, "MC_PathAdvance", cfg=p, timeout=12000)
        for inv in r.violated:
            c.violation("spec:%s" % inv, "design-level: %s violated on MC_PathAdvance; see %s" % (inv, r.out_path), {"tlc_out": r.out_path})
        if r.ok:
            c.require_coverage(r, ["Call"])
        got = c.printed_json(r, "CELL")
        if not got:
            c.fail_tool("generation run printed no cells")
        cells += got
    for d in cells:
        d["kind"] = "cell"
    rs = c.tlc(SD, "MC_PathAdvance", cfg=cfg(c, "adv_seq.cfg", ADV_TMPL.format(
        chmod=64, fixwrap="TRUE", maxlen=3 if thorough else 2, allch="FALSE", depth=3 if thorough else 2, gen="FALSE", als=BOTH, peers=NOP, peerimpl="FALSE")), timeout=12000, coverage=False)
    for inv in rs.violated:
        c.violation("spec:%s:sequences" % inv, "design-level: %s violated on call sequences; see %s" % (inv, rs.out_path), {"tlc_out": rs.out_path})
    r0 = c.tlc(SD, "MC_PathAdvance", cfg=cfg(c, "adv_wrap.cfg", ADV_TMPL.format(
        chmod=4, fixwrap="FALSE", maxlen=3, allch="TRUE", depth=1, gen="FALSE", als=BOTH, peers=NOP, peerimpl="FALSE")), expect_violation=True, coverage=False)
    if not ({"MonotoneStep", "EgressForwardStep", "Bounded"} & set(r0.violated)):
        c.fail_tool("oracle self-check failed: a wrapping 2-bit CurrHF no longer violates Monotone in the model")
    if thorough:
        r1 = c.tlc(SD, "MC_PathAdvance", cfg=cfg(c, "adv_smallptr.cfg", ADV_TMPL.format(
            chmod=4, fixwrap="TRUE", maxlen=3, allch="TRUE", depth=2, gen="FALSE", als=BOTH, peers=NOP, peerimpl="FALSE")), coverage=False, timeout=12000)
        for inv in r1.violated:
            c.violation("spec:%s:small-currhf" % inv, "design-level: %s violated with a 2-bit CurrHF field; see %s" % (inv, r1.out_path), {"tlc_out": r1.out_path})
        # SCION's peering rule (reference, PEERIMPL = TRUE) is a monotone state machine too
        r2 = c.tlc(SD, "MC_PathAdvance", cfg=cfg(c, "adv_refpeer.cfg", ADV_TMPL.format(
            chmod=64, fixwrap="TRUE", maxlen=3, allch="FALSE", depth=2, gen="FALSE", als="{FALSE}", peers="{TRUE}", peerimpl="TRUE")), coverage=False, timeout=12000)
        for inv in r2.violated:
            c.violation("spec:%s:reference-peering" % inv, "design-level: %s violated by the reference peering rule; see %s" % (inv, r2.out_path), {"tlc_out": r2.out_path})

    # ---- 2. authentication level -----------------------------------------------------------------------
    # the journeys (incl. peering paths) under the CODE's rule (PEERING flag ignored): generation for replay
    r = c.tlc(SD, "PathWalk", cfg=cfg(c, "walk.cfg", WALK_TMPL.format(maxlen=4 if thorough else 3, maxseg=3, gen="TRUE", broken="none", peerimpl="FALSE", peerinv="")), timeout=12000)
    for inv in r.violated:
        c.violation("spec:%s" % inv, "design-level: %s violated on PathWalk; see %s" % (inv, r.out_path), {"tlc_out": r.out_path})
    if r.ok:
        c.require_coverage(r, ["DoIngress", "DoEgress", "TurnAround"])
    walks = c.printed_json(r, "WALK")
    if not walks:
        c.fail_tool("PathWalk printed no journeys")
    for d in walks:
        d["kind"] = "walk"
    # SCION's peering rule (reference): authentic peering paths verify in both directions and every
    # replaced authenticated field is detected at its owner; the code's rule refutes PeeringVerifies
    # (this is the specification-level statement of the open finding AuthenticRejected:peering:...)
    rr = c.tlc(SD, "PathWalk", cfg=cfg(c, "walk_refpeer.cfg", WALK_TMPL.format(maxlen=3, maxseg=2 if not thorough else 3, gen="FALSE", broken="none", peerimpl="TRUE", peerinv="PeeringVerifies")),
               timeout=12000, coverage=False)
    for inv in rr.violated:
        c.violation("spec:%s:reference-peering" % inv, "design-level: %s violated by the reference peering rule on PathWalk; see %s" % (inv, rr.out_path), {"tlc_out": rr.out_path})
    selfchecks = [("none", "FALSE", "PeeringVerifies", "PeeringVerifies"), ("no_ts", "FALSE", "", "TamperDetectedAtOwner")]
    if thorough:
        selfchecks.append(("segid_init", "FALSE", "", "AuthenticVerifies"))
    for broken, pi, pinv, inv in selfchecks:
        rb = c.tlc(SD, "PathWalk", cfg=cfg(c, "walk_self_%s_%s.cfg" % (broken, inv), WALK_TMPL.format(maxlen=2, maxseg=2, gen="FALSE", broken=broken, peerimpl=pi, peerinv=pinv)),
                   expect_violation=True, coverage=False)
        if inv not in rb.violated:
            c.fail_tool("oracle self-check failed: BROKEN=%s PEERIMPL=%s no longer violates %s" % (broken, pi, inv))
    c.cov["exhaustive"] = True

    # ---- 3. replay -----------------------------------------------------------------------------------------
    # every PAIR of authenticated bits of a few small authentic paths (harness-side enumeration)
    P = lambda n, cd: {"n": n, "cd": cd}
    doubles = [{"kind": "double", "pieces": [P(2, True), P(2, False)]}, {"kind": "double", "pieces": [P(3, False)]}]
    if thorough:
        doubles += [{"kind": "double", "pieces": [P(2, False), P(2, True), P(2, True)]}, {"kind": "double", "pieces": [P(3, True), P(2, False)]}]
    # one-hop journeys (PathWalk!OneHopVerifies) with a few SegID / ExpTime values
    ohj = [{"kind": "onehop", "segid": sg, "exp": e} for sg in (0, 1, 0x8000, 0xffff, 0x1234) for e in (0, 63, 255)]
    st = replay_cases(c, binp, cells + walks + doubles + ohj, "all")
    need = ["ing_int:ok:egress", "ing_int:ok:local", "ing_ext:ok:egress", "ing_ext:ok:local", "egr:ok:egress",
            "egr:err:final_hop", "egr:err:segment_end", "ing_ext:err:single_hop_segment", "ing_ext:err:segment_mismatch",
            "ing_ext:err:hop_oob", "ing_ext:err:info_oob", "walk:authentic", "walk:tamper-mac", "walk:tamper-sid", "walk:tamper-ts", "walk:peering:authentic"]
    for k in need:
        if st["outcomes"].get(k, 0) == 0:
            c.fail_tool("vacuous replay: outcome class %s never produced (have %s)" % (k, sorted(st["outcomes"])))
    if st["flips"] == 0:
        c.fail_tool("vacuous replay: no bit flips walked")
    c.cov["replayed"] = st["cases"]
    c.cov["replay_conformance_mismatches"] = st["mismatch"]
    c.cov["evaluations"] = len(cells) * 12 + st["flips"] + st["walks"] + st.get("double_flip_pairs", 0)
    c.cov["distinct_nontrivial"] = st["nontrivial"]
    c.cov["replay_stats"] = st
    mid = cells[len(cells) // 2]
    c.sample({"cell": cell_key(mid), "spec_ing_ext": mid["ing_ext"], "spec_egr": mid["egr"]})
    mw = walks[len(walks) // 2]
    c.sample({"journey": cell_key(mw), "owner_as": mw["owner"], "spec_failed_at": mw["failed_at"]})

    # ---- 4. record -> trace validation ---------------------------------------------------------------------
    ev = os.path.join(c.work, "trace_c11.ndjson")
    resj = os.path.join(c.work, "trace_c11.json")
    runs = 1500 if thorough else 350
    rc, so = c.sh([binp, "record", ev, resj, "c11"], env={"VERIF_RUNS": runs}, timeout=9000)
    if rc is not None and rc < 0:
        c.violation("Crash:record:signal%d" % -rc, "the recording harness died with signal %d while calling the path API (memory-unsafe behaviour of the code under test)" % -rc,
                    {"kind": "crash", "step": "record"})
        return
    if rc != 0:
        c.fail_tool("record harness failed rc=%s %s" % (rc, (so or "")[-500:]))
    res = json.load(open(resj))
    r = c.tlc(SD, "Trace_PathHeader", mode="trace", env={"TRACE": ev}, timeout=9000)
    rp = {"kind": "record", "mode": "c11", "seed": c.seed, "runs": runs, "tier": c.tier}
    if r.violated:
        for inv in r.violated:
            c.violation("trace:%s" % inv, "invariant %s violated on a recorded execution of the real path API; TLC output %s" % (inv, r.out_path), rp)
    elif r.postcondition_failed or not r.ok:
        txt = open(r.out_path).read()
        um = [l for l in txt.splitlines() if "UNMATCHED" in l or "TRACE-REJECTED" in l]
        c.drift("recorded trace not accepted by Trace_PathHeader: %s" % " ".join(um)[:600])
    else:
        c.cov["traces_validated_against_impl"] = res["runs"]
        binding_selftest(c, ev)
    for pv in res["pv"]:
        key = pv["key"]
        if key.startswith("Drift:"):
            c.drift(pv["what"])
        elif want_key(key):
            c.violation(key, pv["what"] + " (record run %s, seed %d, x%d)" % (pv.get("run"), c.seed, pv.get("count", 1)), rp)
    for cls in ("wf-start", "wf-anywhere", "wf-gt64-hops", "boundary", "hostile", "authentic"):
        if res["classes"].get(cls, 0) == 0:
            c.fail_tool("vacuous record: shape class %s never produced" % cls)
    for op in ("egr:ok", "egr:err", "ing_ext:ok", "ing_ext:err", "ing_int:ok", "ing_ext:vfail"):
        if res["ops"].get(op, 0) == 0:
            c.drift("record: outcome %s never observed on the real code" % op)
    c.cov["evaluations"] += res["events"]
    c.cov["distinct_nontrivial"] += res["nontrivial_runs"]
    c.cov["trace_stats"] = {k: res[k] for k in res if k != "pv"}
    c.sample({"trace_event": "reset{sl,ci,ch,inf,hop} / op{op,v,res,unchanged,calls,after} / q{...}, see spec/PathHeader/Trace_PathHeader.tla"})
