"""C19 - path combination tolerates arbitrary segment sets from the control plane.

Pipeline (DESIGN.md 7/C19):
  1. TLC on MC_SegSoup: the valid segment sets of five small topologies (up-core-down, shortcut-Y,
     peering-H, multi-hop core, an AS with two peering links) under every structural mutation (DeleteEntry, DupEntry, SwapEntries,
     ZeroIf, ZeroAll, AliasIf, CrossWirePeer, ZeroPeer, FrontBrokenPeer (a broken peer entry listed in
     front of the valid ones), Oversize 63/64/70, SingleAs, Empty, OutOfRangeMtu,
     DupSegment, FlipKind, AddIsland) and every pair "mutation, then junk/degenerate mutation"
     (thorough: the larger junk alphabet, all pairs of the non-oversize mutations on the two-peering-link topology, triples with the small junk alphabet on two topologies).  The I-layer is the
     combinator as written (graph edges, breadth-first search with valid_next_seg, PathSolution::path
     interface list, encodability, loop filter); invariants Total, Monotone, SelfConsistent on the
     model.  Oracle self-check: FIXED = FALSE (pinned commit: malformed segments used, empty interface
     list panics) must violate Total and SelfConsistent.
  2. replay: every printed soup is built as real UnsignedPathSegments and given to
     sciparse::path::combinator::combine in a watched child process (whole set and its good part,
     for every (src, dst) pair of the topology).  P-monitors on the REAL output:
       Total          no panic, the child does not die
       Bounded        self-calibrating: a call slower than 0.1 s (CPU time of the thread) is measured
                      three times (minimum) and compared with a fixed reference workload (252 AS entries)
                      measured at the same moment: allowed min(200 * (1 + (n/16)^3/(252/16)^3), 4000) reference
                      units, n = AS entries + peer entries (cubic, cap ~10 s of an idle core; wide margin: the
                      monitor is for super-polynomial searches, not constant factors)
       SelfConsistent every returned path re-parses with StandardPathView::try_from_slice, its
                      metadata interface list equals the interfaces its hop fields traverse (count = 2 x
                      links, ids, AS chaining, no id 0), src/dst = first/last interface, expiry = min hop expiry;
                      every link it crosses is announced by an input segment (consecutive entries or a peer
                      entry naming both interfaces) and its MTU does not exceed that peering link's MTU
       Monotone       paths(good + junk) >= paths(good); equal when the specification says all junk is
                      NonContributing
     I-layer conformance (DRIFT only): real path sets / panics = the model's.
  2b. the same soups, signed, through scion_stack PathFetcherImpl::fetch_paths with scripted segment
     sources (the soup split over two sources, plus a failing and a never-answering source under a
     paused clock): Total / SelfConsistent / Monotone on its output, conformance with combine().
  3. record: seeded random soups (random topology + up to 24 mutated copies / duplicates / junk islands,
     at most 40 segments, 90-entry oversize segments) -> Trace_SegSoup: TLC classifies the junk with the
     specification's NonContributing and evaluates Total / Bounded / SelfConsistent / Monotone on the
     recorded outcome.  Two stress soups (13 x 14 x 13 twenty-AS segments = 2 366 three-segment paths;
     six segments with 150 peer entries per AS entry) exercise the Bounded monitor.

Readings adopted (demanding less):
  * a path is identified by its sequence of (AS, interface) pairs; MACs and expiry are not compared for Monotone.
  * Bounded never compares a time with a constant: CPU time of the thread running combine is
    compared with a reference workload measured at the same moment (the machine may be shared or
    virtualised; stolen time inflates both alike); ratios still vary widely under load, hence a wide margin.
  * the endpoints of a returned path are only compared with the path's own interface list (a path whose
    first AS is not the requested source would be self-consistent; this is counted, not judged).
  * of the MTU metadata only "not above the MTU announced for a crossed peering link" is judged.
"""
import json
import os

from vcommon import read_ndjson, write_ndjson

SD = "SegSoup"

ALL_OPS = ["DeleteEntry", "DupEntry", "SwapEntries", "ZeroIf", "ZeroAll", "AliasIf", "CrossWirePeer", "Oversize",
           "SingleAs", "Empty", "OutOfRangeMtu", "DupSegment", "FlipKind", "AddIsland", "ZeroPeer", "FrontBrokenPeer"]
JUNK_OPS = ["AddIsland", "ZeroAll", "Empty", "DupSegment", "SingleAs", "FlipKind"]
QUICK_JUNK = ["AddIsland", "ZeroAll", "Empty", "DupSegment"]

MC_TMPL = """SPECIFICATION MCSpec
VIEW MCView
CONSTANTS
  FIXED = {fixed}
  TOPOS = {topos}
  DEPTH = {depth}
  OPS1 = {ops1}
  OPS2 = {ops2}
  GEN = {gen}
INVARIANTS {invs}
"""


def tla_set(xs):
    return "{" + ", ".join('"%s"' % x if isinstance(x, str) else str(x) for x in xs) + "}"


def cfg(c, name, text):
    p = os.path.join(c.work, name)
    open(p, "w").write(text)
    return p


def hist_str(h):
    return ",".join("%s(%d,%d,%d)" % (m["op"], m["k"], m["i"], m["j"]) for m in h) or "unmutated"


def report(c, pv, replay_obj, extra=""):
    c.violation(pv["key"], pv["what"] + extra, replay_obj)


def run_replay_file(c, binp, path):
    obj = json.load(open(path)).get("replay") or {}
    if obj.get("kind") == "trace":
        c.seed = int(json.load(open(path)).get("seed", c.seed))
        print("re-recording the random soups of seed %d and validating them against Trace_SegSoup" % c.seed)
        return trace_step(c, binp)
    case = obj.get("case")
    if not case:
        c.fail_tool("replay file without a case")
    inp = os.path.join(c.work, "one_in.ndjson")
    outp = os.path.join(c.work, "one_out.ndjson")
    write_ndjson(inp, [case])
    rc, so = c.sh([binp, "replay", inp, outp])
    if rc != 0:
        c.fail_tool("replay harness failed rc=%s" % rc)
    res = read_ndjson(outp)[0]
    print("mutations:", hist_str(case.get("h", [])))
    for x, r in zip(case["x"], res.get("real", [])):
        print("pair %s->%s" % (x["src"], x["dst"]))
        print("  spec : paths=%s panic=%s allnc=%s" % (x["paths"], x["panic"], x["allnc"]))
        print("  real : paths=%s panic=%s cpu_us=%s inconsistent=%s" % (r["paths"], r["panic"], r["cpu_us"], r["inc"]))
    if "died" in res:
        print("  real : child died:", res["died"])
    for pv in res["pv"]:
        report(c, pv, obj)


def trace_step(c, binp):
    """random segment soup -> trace validation (also used by --replay for trace counterexamples)"""
    ev = os.path.join(c.work, "trace_soup.ndjson")
    resj = os.path.join(c.work, "record.json")
    rc, so = c.sh([binp, "record", ev, resj], timeout=6000)
    if rc != 0:
        c.fail_tool("record harness failed rc=%s %s" % (rc, (getattr(c, "last_stderr", "") or "")[-400:]))
    rec = json.load(open(resj))
    for pv in rec["pv"]:
        report(c, pv, {"kind": "soup", "case": {"soup": pv["case"]["soup"], "h": [], "t": 0,
                                                "x": [{"src": p[0], "dst": p[1], "paths": [], "good": [], "panic": False, "allnc": False} for p in pv["case"]["pairs"]]}},
               " (record run %s, seed %d)" % (pv.get("run"), c.seed))
    if rec["max_segments"] < 30 and not any(pv["key"].startswith("Total:died") for pv in rec["pv"]):
        c.fail_tool("vacuous traces: largest soup has only %d segments" % rec["max_segments"])
    r = c.tlc(SD, "Trace_SegSoup", cfg="Trace_SegSoup.cfg", mode="trace", env={"TRACE": ev}, timeout=6000)
    traces = 0
    if r.violated:
        for inv in r.violated:
            c.violation("trace:%s" % inv, "invariant %s violated on a recorded execution of the real combinator (seed %d); TLC output %s" % (inv, c.seed, r.out_path),
                        {"kind": "trace", "trace": ev, "tlc_out": r.out_path})
    elif r.postcondition_failed or not r.ok:
        c.drift("soup trace not accepted by Trace_SegSoup (see %s)" % r.out_path)
    else:
        traces = rec["events"]
    c.cov["traces_validated_against_impl"] = traces
    c.cov["evaluations"] += 2 * rec["events"]
    c.cov["distinct_nontrivial"] += rec["nontrivial_runs"]
    c.cov["trace_stats"] = {k: rec[k] for k in ("runs", "events", "nontrivial_runs", "ops", "max_cpu_us", "max_segments")}
    c.sample({"trace_event": "one soup event per (random soup, src, dst): descriptor + outcome, see spec/SegSoup/Trace_SegSoup.tla"})


def run(c):
    thorough = c.tier == "thorough"
    binp = c.cargo_build("vh-sciparse", bin="segsoup")
    if c.replay:
        return run_replay_file(c, binp, c.replay)
    c.assumptions += [
        "the combinator is driven through combine() with unsigned segments (MACs computed by add_unsigned_entry); signatures are C18's subject",
        "Bounded: CPU time of the combining thread (CLOCK_THREAD_CPUTIME_ID), minimum of three runs, relative to a reference workload measured at the same moment; allowed min(200*(1+(n/16)^3/3375), 4000) units",
        "path identity for Monotone = sequence of (AS, interface) pairs",
        "TLC 1.8.0, CommunityModules Json/IOUtils",
    ]
    c.cov["rule"] = ("evaluations = combine() calls on real segment sets (whole set and good part, per (src,dst) pair); "
                     "non-trivial = distinct mutated soups replayed (>= 1 mutation) + recorded random soups with >= 1 junk segment")

    # ---- oracle self-check: the pinned-commit combinator violates Total and SelfConsistent in the model
    r0 = c.tlc(SD, "MC_SegSoup", cfg=cfg(c, "mc_unfixed.cfg", MC_TMPL.format(
        fixed="FALSE", topos="{2}", depth=1, ops1=tla_set(["ZeroAll", "ZeroIf"]), ops2="{}", gen="FALSE",
        invs="Total SelfConsistent")), expect_violation=True, coverage=False, extra=["-continue"], timeout=3600)
    if "Total" not in r0.violated or "SelfConsistent" not in r0.violated:
        c.fail_tool("oracle self-check failed: FIXED = FALSE no longer violates Total and SelfConsistent in the model (%s)" % r0.violated)

    # ---- 1. exhaustive runs + generation ------------------------------------------------------
    runs = [dict(topos="{1, 2, 3, 4, 5}", depth=2, ops1=tla_set(ALL_OPS), ops2=tla_set(JUNK_OPS if thorough else QUICK_JUNK))]
    if thorough:
        light = [o for o in ALL_OPS if o not in ("Oversize", "OutOfRangeMtu")]
        runs += [dict(topos="{5}", depth=2, ops1=tla_set(light), ops2=tla_set(light)),
                 dict(topos="{1, 4}", depth=3, ops1=tla_set(QUICK_JUNK + ["ZeroIf"]), ops2=tla_set(QUICK_JUNK))]
    cases = []
    seen = set()
    for i, k in enumerate(runs):
        r = c.tlc(SD, "MC_SegSoup", cfg=cfg(c, "mc_%d.cfg" % i, MC_TMPL.format(fixed="TRUE", gen="TRUE", invs="Check", **k)),
                  timeout=6000, coverage=False)
        if r.violated:
            txt = open(r.out_path, errors="replace").read()
            names = sorted({l.split('"')[3] for l in txt.splitlines() if l.startswith('<<"PVIOL"')}) or r.violated
            for what in names:
                c.violation("spec:%s" % what, "design-level: %s violated on MC_SegSoup (%s); see %s" % (what, k, r.out_path), {"tlc_out": r.out_path})
        elif not r.ok:
            c.fail_tool("TLC did not complete on MC_SegSoup (see %s)" % r.out_path)
        for h in c.printed_json(r, "REPLAY"):
            key = json.dumps([h["t"], h["soup"]], sort_keys=True)
            if key not in seen:
                seen.add(key)
                cases.append(h)
    if not cases:
        c.fail_tool("generation run printed no cases")
    ops_seen = {m["op"] for h in cases for m in h["h"]}
    if set(ALL_OPS) - ops_seen:
        c.fail_tool("vacuous model: mutations never taken: %s" % sorted(set(ALL_OPS) - ops_seen))
    c.cov["exhaustive"] = True

    # ---- 2. replay on the real combinator -------------------------------------------------------
    inp = os.path.join(c.work, "replay_in.ndjson")
    outp = os.path.join(c.work, "replay_out.ndjson")
    write_ndjson(inp, cases)
    rc, so = c.sh([binp, "replay", inp, outp], timeout=6000)
    if rc != 0:
        c.fail_tool("replay harness failed rc=%s %s" % (rc, (getattr(c, "last_stderr", "") or "")[-400:]))
    res = read_ndjson(outp)
    if len(res) != len(cases):
        c.fail_tool("replay produced %d results for %d cases" % (len(res), len(cases)))
    calls = 0
    mism = 0
    with_paths = 0
    allnc_pairs = 0
    extra_pairs = 0
    max_cpu = 0
    wrong_ep = 0
    for h, o in zip(cases, res):
        for pv in o["pv"]:
            report(c, pv, {"kind": "soup", "case": h, "real": o.get("real"), "died": o.get("died")}, " after " + hist_str(h["h"]) + " on topology %d" % h["t"])
        if "real" in o:
            for x, r in zip(h["x"], o["real"]):
                calls += 2
                max_cpu = max(max_cpu, r["cpu_us"])
                wrong_ep += r["wrong_endpoints"]
                if r["paths"]:
                    with_paths += 1
                if x["allnc"]:
                    allnc_pairs += 1
                if len(r["paths"]) > len(r["good"]):
                    extra_pairs += 1
        if not o["conf"]:
            mism += 1
            c.drift("replay %s on topology %d: I-layer model and real combinator differ: %s" % (hist_str(h["h"]), h["t"], json.dumps(o.get("mis"))[:300]))
    # vacuity is judged on what the GENERATOR (the specification) expects, never on the code's answers
    want_paths = sum(1 for h in cases for x in h["x"] if x["paths"])
    want_extra = sum(1 for h in cases for x in h["x"] if len(x["paths"]) > len(x["good"]))
    if want_paths == 0 or allnc_pairs == 0 or want_extra == 0:
        c.fail_tool("vacuous generation: pairs with expected paths=%d, all-junk-non-contributing pairs=%d, pairs where junk contributes paths=%d" % (want_paths, allnc_pairs, want_extra))
    c.cov["pairs_with_paths_from_code"] = with_paths
    c.cov["pairs_where_junk_added_paths_in_code"] = extra_pairs
    c.cov["replayed"] = len(cases)
    c.cov["replay_conformance_mismatches"] = mism
    c.cov["evaluations"] = calls
    c.cov["distinct_nontrivial"] = sum(1 for h in cases if h["h"])
    c.cov["max_cpu_us_replay"] = max_cpu
    c.cov["paths_with_foreign_endpoints"] = wrong_ep
    mid = cases[len(cases) // 2]
    c.sample({"mutations": hist_str(mid["h"]), "topology": mid["t"], "expected": [{"src": x["src"], "dst": x["dst"], "paths": len(x["paths"]), "allnc": x["allnc"]} for x in mid["x"]]})
    c.sample({"mutations": hist_str(cases[-1]["h"]), "topology": cases[-1]["t"]})

    # ---- 2b. the same soups through PathFetcherImpl::fetch_paths with scripted segment sources ----
    fbin = c.cargo_build("vh-stack", bin="segfetch")
    foutp = os.path.join(c.work, "fetch_out.ndjson")
    if any("died" in o for o in res):
        # combine() already killed its (watched) process; fetch_paths runs it in-process: do not try
        c.drift("fetch_paths step skipped: combine() killed the watched child process in the previous step")
        fres = []
    else:
        rc, so = c.sh([fbin, "replay", inp, foutp], timeout=6000)
        if rc < 0:
            c.violation("Total:died:fetch_paths", "the process running PathFetcherImpl::fetch_paths was killed by signal %d" % -rc, {"kind": "fetch", "rc": rc})
            fres = []
        elif rc != 0:
            c.fail_tool("segfetch harness failed rc=%s %s" % (rc, (getattr(c, "last_stderr", "") or "")[-400:]))
        else:
            fres = read_ndjson(foutp)
            if len(fres) != len(cases):
                c.fail_tool("segfetch produced %d results for %d cases" % (len(fres), len(cases)))
    fmism = 0
    for h, o in zip(cases, fres):
        for pv in o["pv"]:
            report(c, pv, {"kind": "soup", "via": "fetch_paths", "case": h, "real": o.get("real")}, " after " + hist_str(h["h"]) + " on topology %d" % h["t"])
        if not o["conf"]:
            fmism += 1
            c.drift("fetch_paths %s on topology %d differs from combine()/the model: %s" % (hist_str(h["h"]), h["t"], json.dumps(o.get("mis"))[:300]))
        calls += 2 * len(o.get("real", []))
    c.cov["fetch_paths_cases"] = len(fres)
    c.cov["fetch_paths_conformance_mismatches"] = fmism
    c.cov["evaluations"] = calls

    # ---- 3. random segment soup -> trace validation ----------------------------------------------
    trace_step(c, binp)
