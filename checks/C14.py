"""C14 - SCMP handling: bounded quoting, valid checksums, faithful echo, no error loops.

Pipeline (DESIGN.md 7/C14, spec/Scmp/*.tla):
  1. TLC exhaustive on the decision tables of Scmp.tla (MC_ScmpTables: quote / reply / router), on the
     two-endpoint+router exchange model (ScmpExchange: NoErrorLoop, termination) and on the socket receive
     path as a queue transformer (MC_ScmpSocket); each with a deliberately broken variant as oracle self-check.
  2. The same TLC runs print every cell / behaviour (GEN) -> replay on the real code through EVERY
     constructor / handler (vh-scmp/c14_scmp quote|reply|router|socket).  P-monitors on the real bytes
     (computed with the harness's own reader vh_scmp::wire, never with the code under test) raise
     violations; a disagreement with the I-layer's expectation alone is DRIFT.
  3. Seeded random / mutated executions recorded as one trace, validated by TLC (Trace_Scmp: P-invariants
     on the observations + Conforms* with the I-layer).

Readings adopted (always the one demanding less of the code):
  * "error packet the SDK or simulator builds" = the five error kinds that quote an offending packet
    (DestinationUnreachable, PacketTooBig, ParameterProblem, ExternalInterfaceDown, InternalConnectivityDown)
    built through sciparse's encoder, pocketscion's maybe_create_scmp_reply / to_scmp_error and the SNAP
    gateway's create_scmp_error.  ScmpMessageUnknown (raw type/code/bytes, no offending-packet notion) is not.
  * "quotes a prefix of the offending packet": a prefix of the packet as received OR as the quoting router
    holds it after its own in-place header processing (pocketscion quotes the latter).
  * "malformed" = fewer bytes than the fixed part of the message's type, a datagram shorter than its
    payload-length field, or a checksum that does not verify (SCMP specification: receivers verify it).
  * "no SCMP error ... triggers a reply": every SCMP type below 128 is an error, also unknown types.
    Errors emitted by a TRANSIT router about a packet it cannot forward do not depend on the packet's
    end-to-end checksum (routers do not verify it): only the error/non-error distinction is judged there.
  * "reach the application-side receivers": the five known error types (the receiver interface,
    ScmpErrorReceiver, cannot carry anything else); every registered receiver is notified exactly once.
  * an echo request whose path cannot be reversed (unsupported path type) or whose addresses cannot be
    decoded cannot be answered; P4 (exactly one faithful reply) applies to the others.  Reserved header
    bits need not survive the reversal.  A reply to an echo REPLY / unknown informational type is not
    covered by the property text: I-layer only (drift).
"""
import json
import os

from vcommon import read_ndjson, write_ndjson

SD = "Scmp"
KIND_OF_TYPE = {1: "DestUnreach", 2: "PacketTooBig", 4: "ParamProblem", 5: "ExtIfDown", 6: "IntConnDown"}

# switches of Scmp.tla as the pinned tree behaves (see known_findings.d/C14.json)
PINNED = {"VERIFY_CKSUM": "TRUE", "UNK_ERR_IS_ERR": "TRUE", "ROUTER_VERIFY_CKSUM": "TRUE"}
IDEAL = {"VERIFY_CKSUM": "TRUE", "UNK_ERR_IS_ERR": "TRUE", "ROUTER_VERIFY_CKSUM": "TRUE"}

ALL_KINDS = '{"req", "rep", "treq", "trep", "err", "uerr", "uinfo", "bad", "dgram"}'
TABLE_INV = ("QuoteBounded QuoteIsPrefixLen QuoteMaximal EchoAnswered NoReplyToErrorOrMalformed ErrorsNotified AtMostOneReply "
             "RouterNeverAnswersError RouterEchoAnswered")


def sw(d):
    return "".join("  %s = %s\n" % kv for kv in d.items())


def cfg(c, name, text):
    p = os.path.join(c.work, name)
    open(p, "w").write(text)
    return p


def tables_cfg(tables, gen, sws):
    # RouterEchoNoReplyToErrorOrMalformed holds only when the router verifies the checksum (open finding otherwise)
    inv = TABLE_INV + (" RouterEchoNoReplyToErrorOrMalformed" if sws["ROUTER_VERIFY_CKSUM"] == "TRUE" else "")
    return ("SPECIFICATION Spec\nCONSTANTS\n  TABLES = {%s}\n  GEN = %s\n%sINVARIANTS %s %s\nCHECK_DEADLOCK FALSE\n"
            % (", ".join('"%s"' % t for t in tables), gen, sw(sws), inv, "Emit" if gen == "TRUE" else ""))


def exchange_cfg(maxorig, answer_errors, sws, extra_inv="", gen="FALSE", kinds=ALL_KINDS):
    return ("SPECIFICATION Spec\nCONSTANTS\n  MAXORIG = %d\n  ANSWER_ERRORS = %s\n  GEN = %s\n  Kinds = %s\n%s"
            "INVARIANTS NoErrorLoop NoReplyToMalformed EchoFaithful RouterServeFaithful AtMostOneAnswer ChainBounded TotalBounded %s %s\n"
            "PROPERTY Termination\nCHECK_DEADLOCK FALSE\n" % (maxorig, answer_errors, gen, kinds, sw(sws), extra_inv, "Emit" if gen == "TRUE" else ""))


def socket_cfg(maxin, gen, sws, drop="FALSE", echo="TRUE"):
    return ("SPECIFICATION Spec\nCONSTANTS\n  MAXIN = %d\n  ECHO = %s\n  NRECV = 2\n  DROP_AFTER_SCMP = %s\n  GEN = %s\n%s"
            "INVARIANTS DatagramsUnaffected ErrorsReachReceivers RepliesOnlyToRequests %s\nCHECK_DEADLOCK FALSE\n"
            % (maxin, echo, drop, gen, sw(sws), "Emit" if gen == "TRUE" else ""))


TRACE_P_INV = ["PQuoteBounded", "PQuotePrefix", "PQuoteChecksum", "PEchoAnswered", "PNoReplyToErrorOrMalformed", "PErrorsNotified",
               "PRouterNeverAnswersError", "DatagramsUnaffected", "ErrorsReachReceivers", "RepliesOnlyToRequests"]
TRACE_I_INV = ["ConformsQuote", "ConformsHandle", "ConformsRouter", "ConformsSocket"]


def trace_cfg(sws):
    return ("SPECIFICATION TSpec\nCONSTANTS\n  ECHO <- TraceEcho\n  NRECV <- TraceNRecv\n  DROP_AFTER_SCMP = FALSE\n%sINVARIANTS %s\n"
            "POSTCONDITION TraceAccepted\nCHECK_DEADLOCK FALSE\n" % (sw(sws), " ".join(TRACE_P_INV + TRACE_I_INV)))


def design_violations(c, r, what):
    for inv in r.violated:
        c.violation("spec:%s" % inv, "design-level: invariant %s violated on %s; see %s" % (inv, what, r.out_path), {"tlc_out": r.out_path})


def self_check(c, r, expect_inv, what):
    """oracle self-check: the broken variant must violate the invariant (a tooling property of the spec, not of /repo)"""
    if expect_inv not in r.violated:
        c.fail_tool("oracle self-check failed: %s no longer violates %s (violated: %s)" % (what, expect_inv, r.violated))


def fam(ctor):
    return ctor.split("/")[0]


def tclass(t):
    return ("known-error" if t in (1, 2, 4, 5, 6) else "unknown-error" if t < 128 else
            {128: "echo-request", 129: "echo-reply", 130: "traceroute-request", 131: "traceroute-reply"}.get(t, "unknown-informational"))


def why_malformed(cell_or_d):
    if cell_or_d.get("trunc"):
        return "truncated-datagram"
    if not cell_or_d.get("ck", True):
        return "wrong-checksum"
    return "incomplete"


def run(c):
    thorough = c.tier == "thorough"
    binp = c.cargo_build("vh-scmp", bin="c14_scmp")
    c.assumptions += [
        "P-monitors use the harness's own byte-level reader/checksum/path reversal (harness/vh-scmp/src/wire.rs); it reproduces the repository's checksum test vector 0x2615",
        "header sizes: every multiple of 4 in 36..1020 is concretised with an opaque (unknown-type) path for the sciparse encoder; standard-path / IPv4 / IPv6 shapes where one of that size exists; pocketscion replies over reversed standard paths; SNAP only has 36/48/60-byte headers",
        "offender lengths per (kind, header): {0, 1, budget-1, budget, budget+1, 9216}; random lengths 0..9216 in the recorded trace",
        "pocketscion's local AS simulation is driven through its public API (LocalNetworkSimulation::handle_local_routing_action, NetworkSimulator::dispatch) on topologies built by the repository's TestPathBuilder",
        "socket receive path over an in-memory underlay (hook scion_stack::stack::socket::verif) with the stack's own ScmpErrorHandler plus DefaultEchoHandler; one poll per recv call (no wall clock)",
        "TLC 1.8.0, CommunityModules Json/IOUtils",
    ]
    c.cov["rule"] = ("cells of the decision tables printed by TLC (quote: kind x header size x offender length; reply: type x bytes present x "
                     "truncated/checksum x path reversible x address decodable; router: offender class x site; socket: arrival sequences); "
                     "non-trivial = quote cell whose offender exceeds the budget (truncation happens) / reply cell of a known SCMP type or of an "
                     "unknown error type with a type field / router case with an SCMP offender or an offender around the quote budget / socket "
                     "sequence mixing datagrams and SCMP / recorded socket run; distinct = by cell")
    c.cov["exhaustive"] = True
    nontrivial = 0
    evaluations = 0
    replayed = 0

    # ------------------------------------------------------------------ 1 decision tables: ONE TLC run (MC + generation)
    tables = ["quote", "reply", "router"] + (["quote_dense"] if thorough else [])
    r = c.tlc(SD, "MC_ScmpTables", cfg=cfg(c, "tables.cfg", tables_cfg(tables, "TRUE", PINNED)), timeout=6000)
    design_violations(c, r, "MC_ScmpTables (switches of the pinned tree)")
    if any("Assumption" in l for l in r.error_lines):
        c.fail_tool("oracle self-check failed: an ASSUME SelfCheck* of MC_ScmpTables is false (see %s)" % r.out_path)
    allcells = c.printed_json(r, "CELL")
    qcells = [x for x in allcells if x["tab"] in ("quote", "quote_dense")]
    rcells = [x for x in allcells if x["tab"] == "reply"]
    ocells = [x for x in allcells if x["tab"] == "router"]
    if not qcells or not rcells or not ocells:
        c.fail_tool("MC_ScmpTables printed %d/%d/%d quote/reply/router cells" % (len(qcells), len(rcells), len(ocells)))
    if PINNED != IDEAL:
        # the P-layer must hold on the I-layer with every switch at its ideal value
        ri = c.tlc(SD, "MC_ScmpTables", cfg=cfg(c, "tables_ideal.cfg", tables_cfg(["reply", "router"], "FALSE", IDEAL)), timeout=6000, coverage=False)
        design_violations(c, ri, "MC_ScmpTables (ideal switches)")

    # ------------------------------------------------------------------ 2a quote cells -> every constructor
    inp = os.path.join(c.work, "quote_in.ndjson")
    outp = os.path.join(c.work, "quote_out.ndjson")
    write_ndjson(inp, qcells)
    rc, so = c.sh([binp, "quote", inp, outp], timeout=9000)
    if rc != 0:
        c.fail_tool("quote harness failed rc=%s %s" % (rc, (so or "")[-400:]))
    ctor_count = {}
    built_by_family = {}
    for cell, res in zip(qcells, read_ndjson(outp)):
        if cell["off"] > cell["quote"]:
            nontrivial += 1
        for x in res["results"]:
            f = fam(x["ctor"])
            evaluations += 1
            ctor_count[f] = ctor_count.get(f, 0) + 1
            tag = "%s hdr=%d off=%d via %s" % (cell["kind"], cell["hdr"], cell["off"], x["ctor"])
            rep = {"cell": cell, "result": x}
            if "err" in x:
                if x["err"].startswith("PANIC"):
                    c.violation("Panic:%s" % f, "error constructor panicked: %s (%s)" % (x["err"], tag), rep)
                else:
                    c.drift("quote %s: constructor produced no packet: %s" % (tag, x["err"][:120]))
                continue
            if x.get("unparsable"):
                c.violation("ErrorPacketUnparsable:%s:%s" % (f, cell["kind"]), "built packet is not a parsable SCION/SCMP packet (%s)" % tag, rep)
                continue
            built_by_family[f] = built_by_family.get(f, 0) + 1
            # ---- P-monitors on the real bytes
            if x["total"] > 1232:
                c.violation("QuoteTooBig:%s:%s" % (f, cell["kind"]), "error packet of %d bytes > 1232 (%s)" % (x["total"], tag), rep)
            if not x["prefix"]:
                c.violation("QuoteNotPrefix:%s:%s" % (f, cell["kind"]), "quoted bytes are not a prefix of the offending packet (%s)" % tag, rep)
            if not x["ck"]:
                c.violation("Checksum:%s:%s" % (f, cell["kind"]), "SCMP checksum of the built error packet does not verify (%s)" % tag, rep)
            # ---- conformance with the I-layer
            if x["hdr"] != cell["hdr"] or x["t"] != cell["t"] or not x.get("len_consistent", True):
                c.drift("quote %s: header %s/type %s differ from the cell" % (tag, x["hdr"], x["t"]))
            elif x["quote"] != cell["quote"] or x["total"] != cell["total"]:
                c.drift("quote %s: quote/total %d/%d, I-layer %d/%d" % (tag, x["quote"], x["total"], cell["quote"], cell["total"]))
    replayed += len(qcells)
    c.cov["quote_constructor_evaluations"] = ctor_count
    for f in ("sciparse", "sciparse_raw", "pocket_reply", "snap"):
        if ctor_count.get(f, 0) == 0:
            c.fail_tool("vacuous: constructor family %s was never exercised" % f)
    c.sample({"quote_cell": qcells[len(qcells) // 2], "constructors": sorted(ctor_count)})

    # ------------------------------------------------------------------ 2b reply cells -> handlers
    # echo requests: every reversible path kind (quantifier "all paths on the request")
    cases = []
    for cell in rcells:
        if cell["t"] == 128 and cell["rev"]:
            for pk in ("empty", "std1", "std2", "std3", "onehop"):
                cases.append(dict(cell, path=pk))
        else:
            cases.append(cell)
    inp = os.path.join(c.work, "reply_in.ndjson")
    outp = os.path.join(c.work, "reply_out.ndjson")
    write_ndjson(inp, cases)
    rc, so = c.sh([binp, "reply", inp, outp], timeout=9000)
    if rc != 0:
        c.fail_tool("reply harness failed rc=%s %s" % (rc, (so or "")[-400:]))
    st = {"fed": 0, "infeasible": 0, "raw_rejected": 0, "must_answer": 0, "must_not_answer_fed": 0, "must_notify": 0}
    for cell, x in zip(cases, read_ndjson(outp)):
        if x.get("infeasible"):
            st["infeasible"] += 1
            continue
        evaluations += 2
        tag = "type %d (%s), %d bytes, trunc=%s ck=%s path=%s" % (cell["t"], cell["class"], cell["have"], cell["trunc"], cell["ck"], x.get("path"))
        rep = {"cell": cell, "packet_hex": x.get("pkt"), "observed": {k: x.get(k) for k in ("echo_replies", "echo_faithful", "echo_why", "err_replies", "notified")},
               "rerun": "c14_scmp one <packet_hex>"}
        if not x["raw_ok"]:
            st["raw_rejected"] += 1
            c.drift("reply %s: the raw packet view rejected the packet" % tag)
            continue
        st["fed"] += 1
        if cell["t"] in (1, 2, 4, 5, 6, 128, 129, 130, 131) or (cell["t"] < 128 and cell["have"] >= 4):
            nontrivial += 1
        d = x["d"] or {}
        if any(d.get(k) != cell[k] for k in ("ck", "rev", "addr")) or (cell["have"] >= 1 and d.get("t") != cell["t"]):
            c.fail_tool("harness packet builder disagrees with its own reader on cell %s: %s" % (cell, d))
        for site, p in (("DefaultEchoHandler", x["echo_panic"]), ("ScmpErrorHandler", x["err_panic"])):
            if p:
                c.violation("Panic:%s" % site, "%s::handle panicked: %s (%s)" % (site, p, tag), rep)
        # ---- P-monitors
        if cell["must_not_answer"]:
            st["must_not_answer_fed"] += 1
            why = tclass(cell["t"]) if cell["class"] != "malformed" else why_malformed(cell)
            if x["echo_replies"]:
                c.violation("ErrorOrMalformedAnswered:DefaultEchoHandler:%s" % why, "DefaultEchoHandler answered a %s SCMP message (%s)" % (cell["class"], tag), rep)
            if x["err_replies"]:
                c.violation("ErrorOrMalformedAnswered:ScmpErrorHandler:%s" % why, "ScmpErrorHandler produced a reply to a %s SCMP message (%s)" % (cell["class"], tag), rep)
        if cell["must_answer"]:
            st["must_answer"] += 1
            if x["echo_replies"] != 1:
                c.violation("EchoNotAnswered:DefaultEchoHandler:%s" % x.get("path"), "well-formed echo request got %d replies (%s)" % (x["echo_replies"], tag), rep)
            elif not x["echo_faithful"]:
                c.violation("EchoUnfaithful:DefaultEchoHandler:%s" % (x["echo_why"][0] if x["echo_why"] else "?"),
                            "echo reply is not faithful: %s (%s)" % (x["echo_why"], tag), rep)
            elif not x["echo_reply_ck"]:
                c.violation("EchoReplyChecksum:DefaultEchoHandler", "echo reply carries a checksum that does not verify (%s)" % tag, rep)
        if cell["must_notify"]:
            st["must_notify"] += 1
            if x["notified"] != [1, 1]:
                c.violation("ErrorNotNotified:ScmpErrorHandler:type%d" % cell["t"], "well-formed SCMP error reported %s times to the two receivers (%s)" % (x["notified"], tag), rep)
            elif not x["notif_content_ok"]:
                c.violation("ErrorNotifiedContent:ScmpErrorHandler:type%d" % cell["t"], "receivers got a different error/quote/path than was received (%s)" % tag, rep)
        # ---- conformance with the I-layer
        if x["echo_replies"] != cell["replies"]:
            c.drift("reply %s: DefaultEchoHandler produced %d replies, I-layer %d" % (tag, x["echo_replies"], cell["replies"]))
        if x["notified"] != [cell["notified"]] * 2 or x["err_replies"] != 0:
            c.drift("reply %s: ScmpErrorHandler notified %s / replies %d, I-layer %d / 0" % (tag, x["notified"], x["err_replies"], cell["notified"]))
    replayed += len(cases)
    c.cov["reply_cells"] = st
    if st["must_answer"] == 0 or st["must_not_answer_fed"] == 0 or st["must_notify"] == 0:
        c.fail_tool("vacuous reply table: %s" % st)
    c.sample({"reply_cell": next(x for x in cases if x["must_answer"])})

    # ------------------------------------------------------------------ 2c router cells -> simulated network
    keep_types = set(range(256)) if thorough else {0, 1, 2, 3, 4, 5, 6, 7, 64, 100, 127, 128, 129, 130, 131, 132, 200, 255}
    rcases = []
    for cell in ocells:
        if cell["scmp"] and cell["t"] not in keep_types:
            continue
        for site in ("expired", "egress_down", "unreachable", "deliver", "alert_in"):
            if site in ("expired", "egress_down", "unreachable", "deliver") and not cell["ck"]:
                continue   # transit routers do not look at the checksum: one representative
            rcases.append(dict(cell, site=site))
        if not cell["scmp"]:
            # natural flows whose offender is around / beyond the quote budget (reply header 84 B, offender header 84 B + 8 B UDP)
            for site in ("expired", "egress_down", "unreachable"):
                for pay in (0, 1034, 1035, 1036, 1037, 1046, 1047, 1048, 1049, 1050, 1500, 4000, 9000):
                    rcases.append(dict(cell, site=site, pay=pay))
    inp = os.path.join(c.work, "router_in.ndjson")
    outp = os.path.join(c.work, "router_out.ndjson")
    write_ndjson(inp, rcases)
    rc, so = c.sh([binp, "router", inp, outp], timeout=9000)
    if rc != 0:
        c.fail_tool("router harness failed rc=%s %s" % (rc, (so or "")[-400:]))
    rst = {"cases": 0, "errors_returned": 0, "echo_replies": 0, "must_not_answer": 0}
    router_quotes = []
    for cell, x in zip(rcases, read_ndjson(outp)):
        if "build_err" in x:
            c.drift("router case %s could not be built: %s" % (cell, x["build_err"]))
            continue
        rst["cases"] += 1
        evaluations += 1
        if cell["scmp"]:
            nontrivial += 1
        site = cell["site"]
        tag = "%s offender at site %s (%d payload bytes, ck=%s)" % (tclass(cell["t"]) + " type %d" % cell["t"] if cell["scmp"] else "UDP", site, cell["have"], cell["ck"])
        rep = {"case": cell, "packet_hex": x.get("pkt"), "observed": {k: x.get(k) for k in ("answers", "delivered", "returned", "panic", "sim_err")}}
        if x.get("panic"):
            c.violation("Panic:pocketscion-dispatch", "NetworkSimulator::dispatch panicked: %s (%s)" % (x["panic"], tag), rep)
            continue
        if site in ("expired", "egress_down", "unreachable"):
            if cell["must_not_answer"]:
                rst["must_not_answer"] += 1
                if x["answers"]:
                    c.violation("ErrorAnswered:pocketscion:%s" % tclass(cell["t"]), "the simulated router answered an SCMP error with %d packet(s) (%s)" % (x["answers"], tag), rep)
            if x["answers"] != cell["answers"]:
                c.drift("router %s: %d packets returned, I-layer %d" % (tag, x["answers"], cell["answers"]))
            for m in x["returned"]:
                rst["errors_returned"] += 1
                if not m.get("unparsable") and m.get("t") in KIND_OF_TYPE and m.get("complete"):
                    router_quotes.append({"ev": "quote", "ctor": "pocket_sim/%s" % site, "kind": KIND_OF_TYPE[m["t"]], "hdr": m["hdr"], "off": x["offender_len"],
                                          "total": m["total"], "quote": m["quote"], "prefix": m["prefix"], "ck": m["ck"]})
                    if x["offender_len"] > m["quote"]:
                        nontrivial += 1
                if m.get("unparsable"):
                    c.violation("ErrorPacketUnparsable:pocket_sim", "returned packet is not a parsable SCMP packet (%s)" % tag, rep)
                    continue
                if m["total"] > 1232:
                    c.violation("QuoteTooBig:pocket_sim:type%d" % m["t"], "error packet of %d bytes > 1232 (%s)" % (m["total"], tag), rep)
                if m["t"] < 128 and not m["prefix"]:
                    c.violation("QuoteNotPrefix:pocket_sim:type%d" % m["t"], "quote is not a prefix of the offending packet (%s)" % tag, rep)
                if not m["ck"]:
                    c.violation("Checksum:pocket_sim:type%d" % m["t"], "checksum of the returned SCMP packet does not verify (%s)" % tag, rep)
                if m["t"] >= 128:
                    c.drift("router %s: a non-error SCMP message (type %d) came back" % (tag, m["t"]))
                if not m.get("to_requester", True):
                    c.drift("router %s: error not addressed to the source of the offending packet" % tag)
        elif site == "deliver":
            if x["answers"] != 0 or x["delivered"] != 1:
                c.drift("router %s: %d returned / %d delivered on a healthy path" % (tag, x["answers"], x["delivered"]))
        elif site == "alert_in" and cell["scmp"]:
            echo = [m for m in x["returned"] if m.get("t") == 129]
            if cell["echo_must_not_answer"] and x["answers"]:
                why = tclass(cell["t"]) if cell["have"] >= 4 and cell["ck"] and cell["t"] < 128 else ("wrong-checksum" if not cell["ck"] else "incomplete")
                c.violation("ErrorOrMalformedAnswered:pocketscion-router-echo:%s" % why, "the simulated router answered a malformed/erroneous SCMP message addressed to it (%s)" % tag, rep)
            if cell["echo_must_answer"]:
                if len(echo) != 1 or x["answers"] != 1:
                    c.violation("EchoNotAnswered:pocketscion-router", "echo request to a router got %d packets back (%s)" % (x["answers"], tag), rep)
                else:
                    rst["echo_replies"] += 1
                    m = echo[0]
                    bad = [k for k in ("echo_same", "to_requester", "weakly_reversed", "ck", "complete") if not m.get(k, False)]
                    if bad:
                        c.violation("EchoUnfaithful:pocketscion-router:%s" % bad[0], "router echo reply fails %s (%s)" % (bad, tag), rep)
            tr = [m for m in x["returned"] if m.get("t") == 131]
            if cell.get("reply_type") == 131 and (len(tr) != 1 or not all(tr[0].get(k, False) for k in ("echo_same", "tr_fields_ok", "to_requester", "weakly_reversed", "ck"))):
                c.drift("router %s: traceroute reply %s does not match the I-layer (same id/seq, router ISD-AS 1-2, interface 2, to requester, reversed path)" % (tag, tr))
            elif cell.get("reply_type") == 131:
                rst["traceroute_replies"] = rst.get("traceroute_replies", 0) + 1
            if x["answers"] != cell["echo_answers"]:
                c.drift("router %s: %d packets returned by the router's echo service, I-layer %d" % (tag, x["answers"], cell["echo_answers"]))
    replayed += len(rcases)
    c.cov["router_cases"] = rst
    if rst["must_not_answer"] == 0:
        c.fail_tool("vacuous router table: %s" % rst)
    if rst["errors_returned"] == 0:
        c.drift("router replay: the simulated routers returned no SCMP error at all (%s)" % rst)
    c.sample({"router_case": rcases[len(rcases) // 3]})

    # ------------------------------------------------------------------ 1d exchange model (no error loops, termination)
    quick_kinds = '{"req", "rep", "treq", "err", "uerr", "bad", "dgram"}'
    r = c.tlc(SD, "ScmpExchange", cfg=cfg(c, "exchange.cfg", exchange_cfg(2, "FALSE", PINNED, gen="TRUE", kinds=ALL_KINDS if thorough else quick_kinds)), timeout=6000)
    design_violations(c, r, "ScmpExchange")
    if r.ok:
        c.require_coverage(r, ["Originate", "LoseAny", "DeliverAny", "RouterFailAny", "RouterServeAny"])
    xbeh = [{"log": l} for l in c.printed_json(r, "REPLAY")]
    if not xbeh:
        c.fail_tool("exchange model: TLC printed no finished exchanges")
    if thorough:
        r3 = c.tlc(SD, "ScmpExchange", cfg=cfg(c, "exchange3.cfg", exchange_cfg(3, "FALSE", IDEAL, kinds='{"req", "uerr", "bad"}')), timeout=12000, coverage=False)
        design_violations(c, r3, "ScmpExchange (3 originated messages)")
    # the simulated network delivers its own error messages at once: replay the exchanges in which every router-made message is delivered
    # (and the router-alert scenario of the harness lies on the path from host A)
    xbeh = [b for b in xbeh if all(m["fate"] == "delivered" for m in b["log"] if m["by"] == "router")
            and all(m["src"] == "A" for m in b["log"] if m["fate"] == "served")]
    if not thorough:
        xbeh = [b for i, b in enumerate(xbeh) if i % 4 == c.seed % 4 or len(b["log"]) >= 5]
    inp = os.path.join(c.work, "exchange_in.ndjson")
    outp = os.path.join(c.work, "exchange_out.ndjson")
    write_ndjson(inp, xbeh)
    rc, so = c.sh([binp, "exchange", inp, outp], timeout=9000)
    if rc != 0:
        c.fail_tool("exchange harness failed rc=%s %s" % (rc, (so or "")[-400:]))

    def canon(msgs):
        def anc(i):
            m = msgs[i - 1]
            if m["cause"] == 0 or m["cause"] > len(msgs):
                return (m["k"], m["src"])
            return (m["k"], m["by"], anc(m["cause"]))
        return sorted(str(anc(i + 1)) for i in range(len(msgs)))

    xst = {"exchanges": 0, "messages": 0, "replies": 0, "router_errors": 0, "caused_by_error_checked": 0}
    for b, x in zip(xbeh, read_ndjson(outp)):
        if x.get("world_failed"):
            c.drift("exchange replay: a probe datagram through the healthy simulated network did not arrive; exchanges not replayed")
            break
        xst["exchanges"] += 1
        evaluations += 1
        real = x["real"]
        if len(b["log"]) > 2:
            nontrivial += 1
        tag = "exchange %s" % [(m["k"], m["src"], m["fate"], m["cause"]) for m in b["log"]]
        rep = {"model": b["log"], "real": real, "notes": x["notes"]}
        if x["panic"]:
            c.violation("Panic:exchange", "a handler or the simulator panicked: %s (%s)" % (x["panic"], tag), rep)
            continue
        if any("does not die out" in n for n in x["notes"]):
            c.violation("ExchangeDoesNotTerminate", "more than 40 messages were settled (%s)" % tag, rep)
        xst["messages"] += len(real)
        for m in real:
            if m["cause"] == 0:
                continue
            pk = real[m["cause"] - 1]["k"]
            xst["caused_by_error_checked"] += 1
            if m["by"] == "router":
                xst["router_errors"] += 1
            if pk in ("err", "uerr"):
                c.violation("ErrorLoop:%s:%s" % (m["by"], pk), "an SCMP error (%s) caused a %s message from the %s (%s)" % (pk, m["k"], m["by"], tag), rep)
            elif pk == "bad" and m["by"] == "host":
                c.violation("ErrorOrMalformedAnswered:exchange:wrong-checksum", "a host answered a malformed SCMP message with %s (%s)" % (m["k"], tag), rep)
            elif m["by"] == "router" and m.get("served_ok") is not None:
                xst["served"] = xst.get("served", 0) + 1
                if not m["served_ok"]:
                    if pk == "req":
                        c.violation("EchoUnfaithful:exchange-router", "the router's reply to an echo request addressed to it is not faithful (%s)" % tag, rep)
                    else:
                        c.drift("%s: the router's traceroute reply does not match its request" % tag)
            elif m["by"] == "host" and pk == "req":
                xst["replies"] += 1
                if m["k"] != "rep" or not m["faithful"]:
                    c.violation("EchoUnfaithful:exchange", "reply to an echo request: kind %s, %s (%s)" % (m["k"], m.get("why"), tag), rep)
        want = [k for k in canon(b["log"]) if k.startswith("('rep', 'host', ('req'")]
        got = [k for k in canon(real) if k.startswith("('rep', 'host', ('req'")]
        if len(got) < len(want):
            c.violation("EchoNotAnswered:exchange", "%d delivered echo requests, %d replies (%s)" % (len(want), len(got), tag), rep)
        elif len(got) > len(want):
            c.violation("EchoAnsweredTwice:exchange", "%d delivered echo requests, %d replies (%s)" % (len(want), len(got), tag), rep)
        if canon(b["log"]) != canon(real) or x["notes"]:
            c.drift("%s: real messages %s %s" % (tag, [(m["k"], m["by"], m["cause"]) for m in real], x["notes"]))
    replayed += len(xbeh)
    c.cov["exchange_replay"] = xst
    if xst["exchanges"] and (xst["replies"] == 0 or xst["router_errors"] == 0):
        c.drift("exchange replay saw %s" % xst)
    if xbeh:
        c.sample({"exchange": xbeh[len(xbeh) // 2]["log"]})
    rb = c.tlc(SD, "ScmpExchange", cfg=cfg(c, "exchange_broken.cfg", exchange_cfg(2, "TRUE", IDEAL, "ChainLimit")), expect_violation=True, coverage=False, timeout=3600)
    if not ({"NoErrorLoop", "ChainLimit", "ChainBounded", "TotalBounded"} & set(rb.violated)):
        c.fail_tool("oracle self-check failed: ANSWER_ERRORS=TRUE violates nothing (%s)" % rb.violated)

    # ------------------------------------------------------------------ 1+2e socket receive path
    maxin = 4 if thorough else 3
    r = c.tlc(SD, "MC_ScmpSocket", cfg=cfg(c, "socket.cfg", socket_cfg(maxin, "TRUE", PINNED)), timeout=7200)
    design_violations(c, r, "MC_ScmpSocket")
    beh = c.printed_json(r, "REPLAY")
    if not beh:
        c.fail_tool("socket model: TLC printed no behaviours")
    rb = c.tlc(SD, "MC_ScmpSocket", cfg=cfg(c, "socket_broken.cfg", socket_cfg(3, "FALSE", IDEAL, drop="TRUE")), expect_violation=True, coverage=False, timeout=3600)
    self_check(c, rb, "DatagramsUnaffected", "DROP_AFTER_SCMP=TRUE")
    inp = os.path.join(c.work, "socket_in.ndjson")
    outp = os.path.join(c.work, "socket_out.ndjson")
    write_ndjson(inp, beh)
    rc, so = c.sh([binp, "socket", inp, outp], timeout=9000)
    if rc != 0:
        c.fail_tool("socket harness failed rc=%s %s" % (rc, (so or "")[-400:]))
    sst = {"sequences": 0, "datagrams": 0, "errors": 0, "requests": 0}
    for b, x in zip(beh, read_ndjson(outp)):
        kinds = b["input"]
        sst["sequences"] += 1
        evaluations += 1
        if "dgram" in kinds and any(k not in ("dgram", "bad_udp", "other") for k in kinds):
            nontrivial += 1
        ids = lambda pred: [i + 1 for i, k in enumerate(kinds) if pred(k)]
        tag = "arrival sequence %s (splits %s, send_fails=%s)" % (kinds, x["splits"], x["send_fails"])
        rep = {"behaviour": b, "observed": x}
        if x["panic"]:
            c.violation("Panic:socket-recv", "recv_from failed or panicked: %s (%s)" % (x["panic"], tag), rep)
            continue
        # ---- P-monitors
        want_d = ids(lambda k: k == "dgram")
        sst["datagrams"] += len(want_d)
        if x["delivered"] != want_d:
            c.violation("DatagramsAffected:socket", "datagrams delivered %s, arrived %s (%s)" % (x["delivered"], want_d, tag), rep)
        want_e = ids(lambda k: k == "err")
        sst["errors"] += len(want_e)
        for n in x["notified"]:
            if [i for i in n if i in want_e] != want_e:
                c.violation("ErrorNotNotified:socket", "well-formed errors %s, a receiver was notified of %s (%s)" % (want_e, n, tag), rep)
        bad = [i for i in x["sent"] if kinds[i - 1] in ("err", "bad_err", "uerr", "bad_req", "dgram", "bad_udp", "other")] if all(1 <= i <= len(kinds) for i in x["sent"]) else x["sent"]
        if bad:
            c.violation("ErrorOrMalformedAnswered:socket:%s" % (kinds[bad[0] - 1] if 1 <= bad[0] <= len(kinds) else "?"), "the socket sent replies for packets %s (%s)" % (bad, tag), rep)
        want_r = ids(lambda k: k == "req")
        sst["requests"] += len(want_r)
        if not x["send_fails"] and [i for i in x["sent"] if i in want_r] != want_r:
            c.violation("EchoNotAnswered:socket", "echo requests %s, replies sent for %s (%s)" % (want_r, x["sent"], tag), rep)
        if x["unfaithful"]:
            c.violation("EchoUnfaithful:socket", "%s (%s)" % (x["unfaithful"][:2], tag), rep)
        # ---- conformance with the I-layer
        if x["notified"] != [b["notified"]] * 2 or (not x["send_fails"] and x["sent"] != b["sent"]) or x["leftover"]:
            c.drift("socket %s: notified %s sent %s leftover %d, I-layer %s / %s / 0" % (tag, x["notified"], x["sent"], x["leftover"], b["notified"], b["sent"]))
    replayed += len(beh)
    c.cov["socket_replay"] = sst
    if sst["datagrams"] == 0 or sst["errors"] == 0 or sst["requests"] == 0:
        c.fail_tool("vacuous socket replay: %s" % sst)
    c.sample({"socket_behaviour": beh[len(beh) // 2]})

    # ------------------------------------------------------------------ 3 recorded executions -> Trace_Scmp
    ev = os.path.join(c.work, "trace.ndjson")
    resj = os.path.join(c.work, "trace.json")
    rc, so = c.sh([binp, "record", ev, resj], timeout=9000)
    if rc != 0:
        c.fail_tool("record harness failed rc=%s %s" % (rc, (so or "")[-400:]))
    res = json.load(open(resj))
    for pv in res["pv"]:
        c.violation(pv["key"], pv["what"] + " (record, seed %d)" % c.seed, {"seed": c.seed, "pv": pv})
    with open(ev, "a") as f:     # error packets that came back in the router replay: quoting judged by TLC as well
        for q in router_quotes:
            f.write(json.dumps(q, separators=(",", ":")) + "\n")
    c.cov["router_cases"]["quotes_validated_by_tlc"] = len(router_quotes)
    nev = sum(1 for _ in open(ev)) - 1
    tcfg = cfg(c, "trace.cfg", trace_cfg(PINNED))
    r = c.tlc(SD, "Trace_Scmp", cfg=tcfg, mode="trace", env={"TRACE": ev}, timeout=9000)
    evaluations += nev
    c.cov["trace_stats"] = dict(res["stats"], events=nev)
    pviol = [i for i in r.violated if i in TRACE_P_INV]
    iviol = [i for i in r.violated if i in TRACE_I_INV]
    for inv in pviol:
        c.violation("trace:%s" % inv, "invariant %s violated on a recorded execution of the real code (seed %d); TLC output %s" % (inv, c.seed, r.out_path),
                    {"trace": ev, "tlc_out": r.out_path, "seed": c.seed})
    if iviol:
        c.drift("recorded trace does not conform to the I-layer: %s (TLC output %s)" % (",".join(iviol), r.out_path))
    elif r.postcondition_failed or (not r.ok and not pviol):
        txt = open(r.out_path).read()
        um = [l for l in txt.splitlines() if "UNMATCHED" in l or "TRACE-REJECTED" in l]
        c.drift("recorded trace not accepted by Trace_Scmp: %s" % " ".join(um)[:400])
    elif not pviol:
        c.cov["traces_validated_against_impl"] += res["stats"].get("socket_runs", 0) + 1
        nontrivial += res["stats"].get("socket_runs", 0)
        # S6: the binding is demonstrated - a corrupted observation must be rejected by the same spec
        lines = open(ev).read().splitlines()
        idx = next((i for i, l in enumerate(lines) if '"ev":"step"' in l and '"deliver":true' in l), None)
        if idx is not None:
            # keep the run containing that step only (from its reset to the next reset), flip the observation
            start = max(i for i in range(idx + 1) if '"ev":"reset"' in lines[i])
            end = next((i for i in range(idx + 1, len(lines)) if '"ev":"reset"' in lines[i]), len(lines))
            mut = [lines[0]] + lines[start:end]
            k = idx - start + 1
            mut[k] = mut[k].replace('"deliver":true', '"deliver":false')
            mev = os.path.join(c.work, "trace_mutated.ndjson")
            open(mev, "w").write("\n".join(mut) + "\n")
            rm = c.tlc(SD, "Trace_Scmp", cfg=tcfg, mode="trace", env={"TRACE": mev}, timeout=3600, expect_violation=True)
            if "DatagramsUnaffected" not in rm.violated:
                c.fail_tool("binding self-check failed: a recorded run with a dropped datagram was not flagged (%s)" % rm.violated)
    c.sample({"trace_events": "quote / handle / router / reset+arrive+step, see spec/Scmp/Trace_Scmp.tla", "events": nev})

    c.cov["evaluations"] = evaluations
    c.cov["distinct_nontrivial"] = nontrivial
    c.cov["replayed"] = replayed
