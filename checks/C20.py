"""C20 - waiting senders always wake; dropping the manager stops its workers.

Specification: spec/PathManager/PathSync.tla (I-layer: one action per critical section / lock-free
access of MultiPathManager::path/cached_path/ensure_managed_paths/stop_managing_paths and of
PathSet::manage/fetch_and_update/PathSetHandle::await_ongoing_update; P-layer: SingleWorker,
DeadIsError, HandleAfterDropIsError, NoLostWakeup, CallersFinish, DropStopsAll).

Pipeline (DESIGN.md 7/C20):
  1. TLC exhaustive on small configurations: safety invariants + liveness under weak fairness of
     worker steps, lookup completion and caller steps (SPECIFICATION only, no state constraint).
     Oracle self-check: three mutants of the spec must fail (registration after the lock is
     released -> lost wake-up; contains-then-insert -> second worker; exit path without notify).
  2. Gen_PathSync (cooperative scheduling, run-to-quiescence) prints every schedule of external
     events up to a bound; a sample is replayed on a current_thread tokio runtime against the real
     MultiPathManager with a gated PathFetcher: observation conformance at every quiescent point
     (DRIFT if different) + P-monitors on the real outputs (VIOLATION).  The hook events of the
     replays are validated by Trace_PathSync as well (binding self-check).
  2b. GenFine_PathSync (TLC -simulate) prints random behaviours at the grain of the I-spec's steps;
     the harness parks every task of a multi-thread runtime at the hook's yield points (= the step
     boundaries) and releases one task per step, so the real code runs exactly the interleaving
     TLC chose (including "waiter parked between registration and await while the lookup finishes").
  3. Randomised scenarios on a 4-thread runtime with seeded yield/delay points: direct liveness
     monitor + Trace_PathSync validation of every run.
  4. Storm: tens of thousands of fresh pairs; five tasks on a 6-thread runtime keep issuing path()
     callers while the pair's lookup completes at a random moment (maximal contention on the sync
     lock at the completion); every caller must resolve within 10 s of process progress (heartbeat)
     after the completion; a sample of the pairs is traced and validated by Trace_PathSync.

Readings adopted (the less demanding ones, DESIGN.md S3):
  * "released": the caller's future resolves (path, error, or `None` for cached_path) within 5 s
    of the later of the last lookup completion and the drop; error kinds/messages are not compared.
  * "a cancellation": stop_managing_paths and dropped caller futures are interleaving events; the
    property does not require that stop_managing_paths ends the removed worker promptly (it does
    not: scc::HashIndex defers dropping the removed entry, so the cancel token fires only at a
    later reclamation; the I-spec models this as the Reclaim step).
  * "every handle reports an error instead of a path" is required once the worker of that handle
    has terminated after the drop (a handle may still return the last active path in the window
    between the worker's exit notification and its final `active_path.store(None)`).
  * "exactly one worker": a further worker for a pair is created only after the map entry of an
    earlier one was removed (stop, idle exit, exit of a cancelled predecessor by key).
"""
import collections
import concurrent.futures
import json
import os
import random
import re

from vcommon import read_ndjson, write_ndjson

SD = "PathManager"

CFG_TMPL = """SPECIFICATION {spec}
{view}
CONSTANTS
  WaitC = {wait}
  CachedC = {cached}
  HandleC = {handle}
  Key2C = {key2}
  Callers <- MCCallers
  Kind <- MCKind
  KeyOf <- MCKeyOf
  NW = {nw}
  Keys = {keys}
  MaxFetch = {maxfetch}
  CanCancel = {cancel}
  ATOMIC = {atomic}
  ENSURE_ATOMIC = {ensure}
  EXIT_NOTIFY = {exitn}
  COOP = {coop}
  LINGER = FALSE
  RECLAIM = {reclaim}
  USED = {used}
{extra}
INVARIANTS {invs}
{props}
CHECK_DEADLOCK FALSE
"""

SAFETY = "TypeOK SingleWorker DeadIsError HandleAfterDropIsError"
LIVENESS = "PROPERTIES NoLostWakeup CallersFinish DropStopsAll DeadStaysDead"


def S(xs):
    return "{" + ", ".join('"%s"' % x for x in xs) + "}"


def mc_cfg(c, name, wait=(), cached=(), handle=(), key2=(), nw=2, keys="{1}", maxfetch=1, cancel=(),
           atomic=True, ensure=True, exitn=True, reclaim=True, used=False, live=True):
    t = CFG_TMPL.format(spec="MCSpec", view="", wait=S(wait), cached=S(cached), handle=S(handle), key2=S(key2),
                        nw=nw, keys=keys, maxfetch=maxfetch, cancel=S(cancel),
                        atomic=str(atomic).upper(), ensure=str(ensure).upper(), exitn=str(exitn).upper(),
                        coop="FALSE", reclaim=str(reclaim).upper(), used=str(used).upper(), extra="",
                        invs=SAFETY, props=LIVENESS if live else "")
    p = os.path.join(c.work, name)
    open(p, "w").write(t)
    return p


def gen_cfg(c, name, maxev, wait=(), cached=(), handle=(), key2=(), nw=2, keys="{1}", maxfetch=1, cancel=()):
    t = CFG_TMPL.format(spec="GenSpec", view="VIEW GenView", wait=S(wait), cached=S(cached), handle=S(handle),
                        key2=S(key2), nw=nw, keys=keys, maxfetch=maxfetch, cancel=S(cancel),
                        atomic="TRUE", ensure="TRUE", exitn="TRUE", coop="TRUE", reclaim="FALSE", used="FALSE",
                        extra="  MaxEv = %d" % maxev, invs=SAFETY + " Emit", props="")
    p = os.path.join(c.work, name)
    open(p, "w").write(t)
    return p


def fine_cfg(c, name, maxev, mindrop, wait=(), cached=(), handle=(), key2=(), nw=2, keys="{1}", cancel=()):
    t = CFG_TMPL.format(spec="FineSpec", view="", wait=S(wait), cached=S(cached), handle=S(handle),
                        key2=S(key2), nw=nw, keys=keys, maxfetch=1, cancel=S(cancel),
                        atomic="TRUE", ensure="TRUE", exitn="TRUE", coop="FALSE", reclaim="FALSE", used="FALSE",
                        extra="  MaxEv = %d\n  MinDrop = %d" % (maxev, mindrop), invs=SAFETY + " FEmit", props="")
    p = os.path.join(c.work, name)
    open(p, "w").write(t)
    return p


def temporal_violations(r):
    """names of violated temporal properties (TLC prints them in one sentence)"""
    txt = open(r.out_path, errors="replace").read()
    out = []
    m = re.search(r"Error: Temporal propert(?:y|ies) (.*?) (?:was|were) violated", txt)
    if m:
        out = [x.strip() for x in re.split(r",| and ", m.group(1)) if x.strip()]
    elif "Temporal properties were violated" in txt:
        out = ["<temporal>"]
    return out


def sched_key(row):
    return "|".join("%s:%s:%s:%s" % (s["ev"]["a"], s["ev"]["c"], s["ev"]["w"], s["ev"]["o"]) for s in row["h"])


def short_key(row):
    return " ".join((s["ev"]["a"] + (":" + s["ev"]["c"] if s["ev"]["c"] else "") + (":w%d" % s["ev"]["w"] if s["ev"]["w"] else "")
                     + (":" + s["ev"]["o"] if s["ev"]["o"] else "")) for s in row["h"])


def nontrivial(row):
    """a caller is pending while another external event happens"""
    return any("pending" in st["pre"]["c"].values() for st in row["h"])


def normalise_trace(src, dst, drop_runs=()):
    """Rewrite the meta line (all caller names with kind/pair, max #workers); optionally drop runs."""
    rows = read_ndjson(src)
    callers, nw, out, run, keep = {}, 1, [], -1, True
    for r in rows[1:]:
        if r.get("ev") == "reset":
            run += 1
            keep = run not in drop_runs
            if keep:
                for n, m in r["callers"].items():
                    callers[n] = m
                nw = max(nw, r["nw"])
        if keep:
            out.append(r)
    write_ndjson(dst, [{"ev": "meta", "nw": nw, "callers": callers}] + out)
    return run + 1 - len(drop_runs), len(out)


def run_of_line(path, line):
    """0-based run index containing 1-based line `line` of a normalised trace file"""
    n = -1
    with open(path) as f:
        for i, l in enumerate(f, 1):
            if '"ev":"reset"' in l:
                n += 1
            if i >= line:
                break
    return max(n, 0)


def validate_trace(c, raw, label, max_skip=4, skip=()):
    """TLC validation of a (multi-run) trace; runs that are not explained are reported as drift and
    skipped so that the rest is still validated.  `skip`: runs not to validate (inconclusive replays).
    Returns (#runs accepted, #runs rejected)."""
    dropped = list(skip)
    max_skip += len(dropped)
    while True:
        norm = os.path.join(c.work, "trace_%s_%d.ndjson" % (label, len(dropped)))
        nruns, nlines = normalise_trace(raw, norm, set(dropped))
        if nruns <= 0:
            return 0, len(dropped)
        r = c.tlc(SD, "Trace_PathSync", mode="trace", env={"TRACE": norm}, timeout=3000, expect_violation=True)
        if r.violated:
            for inv in r.violated:
                c.violation("trace:%s" % inv, "P-invariant %s violated on a recorded execution of the real path manager (%s); TLC output %s"
                            % (inv, label, r.out_path), {"trace": norm, "tlc_out": r.out_path})
            return 0, len(dropped)
        txt = open(r.out_path, errors="replace").read()
        m = re.search(r'<<"FURTHEST", (\d+), "of", (\d+)>>', txt)
        if not m:
            c.fail_tool("Trace_PathSync produced no verdict (see %s)" % r.out_path)
        f, n = int(m.group(1)), int(m.group(2))
        if f == n + 1:
            return nruns, len(dropped) - len(skip)
        um = [l for l in txt.splitlines() if l.startswith('<<"UNMATCHED"')]
        bad = run_of_line(norm, f)
        # map back to the index in the raw file
        alive = [i for i in range(nruns + len(dropped)) if i not in dropped]
        bad_raw = alive[bad] if bad < len(alive) else alive[-1]
        c.drift("trace %s: run %d not explained by Trace_PathSync at line %d: %s" % (label, bad_raw, f, (um[0] if um else "")[:300]))
        dropped.append(bad_raw)
        if len(dropped) > max_skip:
            c.drift("trace %s: more than %d runs rejected, validation of the remaining runs abandoned" % (label, max_skip))
            return 0, len(dropped)


def replay_stored(c, binp):
    """bin/check C20 --replay FILE: re-run one stored counterexample and show spec next to real."""
    obj = json.load(open(c.replay))
    rep = obj.get("replay") or {}
    print("replaying %s: %s" % (obj.get("key"), obj.get("what")))
    if "schedule" in rep:
        inp = os.path.join(c.work, "one_in.ndjson")
        outp = os.path.join(c.work, "one_out.ndjson")
        write_ndjson(inp, [{"ev": "meta"}, dict(rep["schedule"], id=0, callers=rep["callers"], alts=rep.get("alts", []))])
        rc, so = c.sh([binp, "fine" if rep.get("fine") else "replay", inp, outp], timeout=600)
        res = read_ndjson(outp)[0]
        spec = [s["pre"] for s in rep["schedule"]["h"]] + [rep["schedule"]["final"]]
        for i, (a, b) in enumerate(zip(spec, res.get("obs", []))):
            ev = rep["schedule"]["h"][i]["ev"] if i < len(rep["schedule"]["h"]) else {"a": "end"}
            print("%s step %d before %-8s spec %s" % ("  " if a == b else "!!", i, ev["a"], json.dumps(a)))
            if a != b:
                print("   %s real %s" % (" " * 22, json.dumps(b)))
        for pv in res["pv"]:
            c.violation(pv["key"], pv["what"] + " [stored replay]", rep)
    elif rep.get("storm"):
        ev = os.path.join(c.work, "one_storm.ndjson")
        resj = os.path.join(c.work, "one_storm.json")
        rc, so = c.sh([binp, "storm", ev, resj], timeout=3000, env={"VERIF_STORM_PAIRS": 200000, "VERIF_STORM_BUDGET_S": 300})
        res = json.load(open(resj))
        print("storm re-run (real schedules are not reproducible; same seed, up to 200000 pairs): %d pairs, %d callers, %d violation(s)"
              % (res["pairs"], res["callers"], len(res["pv"])))
        for pv in res["pv"]:
            c.violation(pv["key"], pv["what"] + " [stored replay]", rep)
    elif "pv" in rep and rep["pv"].get("seed") is not None:
        ev = os.path.join(c.work, "one_rec.ndjson")
        resj = os.path.join(c.work, "one_rec.json")
        for attempt in range(20):   # real schedules: the interleaving may need several attempts
            rc, so = c.sh([binp, "record", ev, resj], env={"VERIF_RUNS": 1, "VERIF_ONE_SEED": rep["pv"]["seed"]}, timeout=600)
            res = json.load(open(resj))
            if res["pv"]:
                break
        print("scenario seed %s: %d violation(s) after %d attempt(s); events in %s" % (rep["pv"]["seed"], len(res["pv"]), attempt + 1, ev))
        for pv in res["pv"]:
            c.violation(pv["key"], pv["what"] + " [stored replay]", rep)
    else:
        print("nothing replayable in %s (TLC output: %s)" % (c.replay, rep.get("tlc_out")))


def trace_verdict(c, path):
    """(accepted, furthest, n) of one Trace_PathSync run (no drift/violation bookkeeping)"""
    r = c.tlc(SD, "Trace_PathSync", mode="trace", env={"TRACE": path}, timeout=1500, expect_violation=True, coverage=False)
    txt = open(r.out_path, errors="replace").read()
    m = re.search(r'<<"FURTHEST", (\d+), "of", (\d+)>>', txt)
    if not m:
        c.fail_tool("Trace_PathSync produced no verdict (see %s)" % r.out_path)
    f, n = int(m.group(1)), int(m.group(2))
    return (f == n + 1 and not r.violated), f, n


def binding_selfcheck(c, raw):
    """DESIGN.md S6 (ii)/(iii): a recorded trace with one corrupted field, and one with one event
    dropped, must be rejected by Trace_PathSync (the trace spec constrains more than the length)."""
    rows = read_ndjson(raw)
    # the first few runs only
    out, runs = [], 0
    for r in rows[1:]:
        if r.get("ev") == "reset":
            runs += 1
            if runs > 6:
                break
        out.append(r)
    base = os.path.join(c.work, "selfcheck_base.ndjson")
    write_ndjson(base, [{"ev": "meta"}] + out)
    norm = os.path.join(c.work, "selfcheck_base_norm.ndjson")
    normalise_trace(base, norm)
    ok, f, n = trace_verdict(c, norm)
    if not ok:
        return None   # the code under test deviates from the I-spec: reported as drift elsewhere
    rows = read_ndjson(norm)
    i = next((i for i, r in enumerate(rows) if r.get("ev") == "caller_check" and r.get("snap")), None)
    j = next((i for i, r in enumerate(rows) if r.get("ev") == "fetch_done"), None)
    if i is None or j is None:
        return None
    corrupt = [dict(r) for r in rows]
    corrupt[i]["ongoing"] = not corrupt[i]["ongoing"]
    corrupt[i]["init"] = not corrupt[i]["init"]
    pa = os.path.join(c.work, "selfcheck_corrupt.ndjson")
    write_ndjson(pa, corrupt)
    pb = os.path.join(c.work, "selfcheck_dropped.ndjson")
    write_ndjson(pb, rows[:j] + rows[j + 1:])
    res = {}
    for name, p in (("corrupted_field", pa), ("dropped_event", pb)):
        ok, f, n = trace_verdict(c, p)
        res[name] = "rejected at line %d of %d" % (f, n) if not ok else "ACCEPTED"
        if ok:
            c.fail_tool("binding self-check failed: a trace with a %s is accepted by Trace_PathSync" % name.replace("_", " "))
    return res


def run(c):
    thorough = c.tier == "thorough"
    rnd = random.Random(c.seed)
    binp = c.cargo_build("vh-stack", bin="pathsync")
    if c.replay:
        return replay_stored(c, binp)
    c.assumptions += [
        "lookups complete: weak fairness on FetchReturn (a fetcher that never answers is outside the property)",
        "scc::HashIndex, tokio::sync::Notify (a Notified future sees every notify_waiters issued after its creation) and CancellationToken are trusted; their contracts are modelled, not their implementations",
        "the hook stamps map_insert/map_load under the bucket lock of scc::HashIndex; remove_sync does not expose its lock, so removals are bracketed by two events and take effect in between (hidden step placed by TLC)",
        "replay: granularity = await points of a current_thread runtime (run-to-quiescence after every external event); idle expiry uses a real 120 ms idle period (retried with 4x longer periods when the order was disturbed)",
        "record: real thread schedules are not reproducible; the seed fixes the scenario plan, the delays at yield points and the fetcher's answers",
        "TLC 1.8.0 / 2026.09, CommunityModules Json/IOUtils",
    ]
    c.cov["rule"] = ("replayed schedule non-trivial = a caller is pending while another external event (arrival, answer, stop, drop, "
                     "cancel, idle expiry) happens; fine schedule = every one (>= 5 director steps); recorded run non-trivial = at least one "
                     "caller was woken by a notification or a pair was stopped/dropped while callers were in flight; storm: one per fresh pair "
                     "(callers of several threads in flight while the lookup completes)")

    # development aid: VERIF_C20_STAGES=mc,mut,gen,fine,rec,storm restricts the stages (default: all)
    stages = set((os.environ.get("VERIF_C20_STAGES") or "mc,mut,gen,fine,rec,storm").split(","))

    # ---- 1. exhaustive runs -------------------------------------------------------------------
    # distinct states (measured): wake 182 458; drop 171 500; dropfull 1 319 018; refetch 1 069 399;
    # (not in any tier, measured once: 3 callers with a kept handle 799 172; 2 pairs + handle 1 239 308)
    cfgs = [("wake", dict(wait=["c1", "c2"], nw=2, maxfetch=1, reclaim=True)),
            ("drop", dict(wait=["c1"], cached=["c2"], handle=["c3"], nw=2, maxfetch=1, cancel=["c1"], reclaim=False))]
    if thorough:
        cfgs += [("dropfull", dict(wait=["c1"], cached=["c2"], handle=["c3"], nw=2, maxfetch=1, cancel=["c1"], reclaim=True, used=True)),
                 ("refetch", dict(wait=["c1", "c2"], nw=2, maxfetch=2, reclaim=False, used=True)),
                 ("twokeys", dict(wait=["c1", "c2"], key2=["c2"], nw=2, keys="{1, 2}", maxfetch=1, reclaim=True))]
    need = ["FirstPoll", "BeginFetch", "FetchReturn", "Finish", "StopExit", "ExitUpgrade", "ExitRemove", "ExitNotify", "ExitClear", "Start", "Ensure",
            "ActiveLoad", "CheckReg", "Wake", "Final", "Stop", "Drop", "IdleCheck"]
    for name, k in cfgs:
        if "mc" not in stages:
            break
        r = c.tlc(SD, "MC_PathSync", cfg=mc_cfg(c, "mc_%s.cfg" % name, **k), timeout=3300, expect_violation=True,
                  extra=["-lncheck", "final"])
        bad = list(r.violated) + [t for t in temporal_violations(r) if t not in r.violated]
        bad = [b for b in bad if b != "<temporal>" or len(bad) == 1]
        for inv in bad:
            c.violation("spec:%s" % inv, "design-level: %s violated on MC_PathSync (%s); see %s" % (inv, name, r.out_path), {"tlc_out": r.out_path})
        if not bad:
            if "Model checking completed. No error has been found" not in open(r.out_path, errors="replace").read():
                c.fail_tool("MC_PathSync (%s) did not complete (see %s)" % (name, r.out_path))
            extra_need = (["Reclaim"] if k.get("reclaim") else []) + (["GetHandle"] if k.get("handle") else []) \
                + (["Contains"] if k.get("cached") else []) + (["CancelWait"] if k.get("cancel") else []) \
                + (["Refetch"] if k.get("maxfetch", 1) > 1 else [])
            c.require_coverage(r, need + extra_need)
    c.cov["exhaustive"] = True

    # oracle self-check: the mutants must be caught by the P-layer
    mutants = [("ATOMIC", dict(wait=["c1"], atomic=False, reclaim=False), "NoLostWakeup"),
               ("ENSURE_ATOMIC", dict(wait=["c1", "c2"], ensure=False, reclaim=False), "SingleWorker"),
               ("EXIT_NOTIFY", dict(cached=["c1"], handle=["c3"], exitn=False, reclaim=False), "NoLostWakeup")]
    for mname, k, expect in mutants:
        if "mut" not in stages:
            break
        r = c.tlc(SD, "PathSync_Broken", cfg=mc_cfg(c, "mutant_%s.cfg" % mname, **k), timeout=1500, expect_violation=True,
                  coverage=False, extra=["-lncheck", "final"])
        got = set(r.violated) | set(temporal_violations(r))
        if expect not in got:
            c.fail_tool("oracle self-check failed: mutant %s = FALSE no longer violates %s (got %s)" % (mname, expect, sorted(got)))
    c.cov["mutants_caught"] = [m[0] for m in mutants]

    # ---- 2. generation -> deterministic replay -------------------------------------------------
    gens = [("g1", 7 if not thorough else 8, 260 if not thorough else 2000,
             dict(wait=["c1", "c2"], handle=["c3"], cancel=["c2"], nw=2, maxfetch=1)),
            ("g2", 7, 120 if not thorough else 1200,
             dict(wait=["c1"], cached=["c2"], handle=["c3"], nw=2, maxfetch=2)),
            ("g3", 6 if not thorough else 7, 80 if not thorough else 800,
             dict(wait=["c1", "c2"], key2=["c2"], cached=["c3"], nw=2, keys="{1, 2}", maxfetch=1))]
    if not thorough:
        gens = gens[:2]   # two pairs are covered by the fine stage (f2) in the quick tier
    total_replayed = conform = inconclusive = 0
    nontriv = set()
    replay_traces = []
    jobs = []
    for gname, maxev, nsample, k in gens:
        if "gen" not in stages:
            break
        r = c.tlc(SD, "Gen_PathSync", cfg=gen_cfg(c, "gen_%s.cfg" % gname, maxev, **k), timeout=3000, coverage=False)
        rows = c.printed_json(r, "REPLAY")
        if not rows:
            c.fail_tool("generation run %s printed no schedules" % gname)
        if r.violated:
            for inv in r.violated:
                c.violation("spec:%s" % inv, "design-level: %s violated on Gen_PathSync (%s)" % (inv, gname), {"tlc_out": r.out_path})
        groups = collections.OrderedDict()
        for row in rows:
            groups.setdefault(sched_key(row), []).append(row)
        keys = sorted(groups)
        rnd.shuffle(keys)
        # bound the wall-clock cost of timer-driven events in the quick tier
        max_timed = 25 if not thorough else 250
        sel, timed = [], 0
        for kk in keys:
            row = groups[kk][0]
            t = sum(1 for s in row["h"] if s["ev"]["a"] in ("idle", "refetch"))
            if t and timed >= max_timed:
                continue
            timed += 1 if t else 0
            sel.append(kk)
            if len(sel) >= nsample:
                break
        meta = {c_: {"kind": ("wait" if c_ in k.get("wait", ()) else "cached" if c_ in k.get("cached", ()) else "handle"),
                     "k": 2 if c_ in k.get("key2", ()) else 1}
                for c_ in list(k.get("wait", ())) + list(k.get("cached", ())) + list(k.get("handle", ()))}
        inp = os.path.join(c.work, "replay_in_%s.ndjson" % gname)
        outp = os.path.join(c.work, "replay_out_%s.ndjson" % gname)
        write_ndjson(inp, [{"ev": "meta", "gen": gname}] + [dict(groups[kk][0], id=i, callers=meta) for i, kk in enumerate(sel)])
        jobs.append((gname, k, groups, sel, meta, inp, outp))
    # the replays of the generation configs run side by side (timer-driven events cost real time)
    with concurrent.futures.ThreadPoolExecutor(max_workers=max(1, len(jobs))) as ex:
        futs = [ex.submit(c.sh, [binp, "replay", j[5], j[6]], 3000) for j in jobs]
        rcs = [f.result() for f in futs]
    for (gname, k, groups, sel, meta, inp, outp), (rc, so) in zip(jobs, rcs):
        if rc != 0:
            c.fail_tool("replay harness failed rc=%s %s" % (rc, (so or "")[-500:]))
        outs = read_ndjson(outp)
        if len(outs) != len(sel):
            c.fail_tool("replay harness answered %d of %d schedules" % (len(outs), len(sel)))
        for kk, res in zip(sel, outs):
            alts = groups[kk]
            if res.get("skipped"):
                continue
            total_replayed += 1
            if nontrivial(alts[0]):
                nontriv.add(gname + ":" + kk)
            ok = any(res["obs"] == [s["pre"] for s in a["h"]] + [a["final"]] for a in alts)
            if res.get("unsched"):
                # a timer of the code fired that the schedule does not contain (e.g. the idle period is
                # one global setting: an older worker goes idle before the scheduled one): the
                # schedule is not realisable with real clocks, nothing is concluded from this run
                inconclusive += 1
                continue
            if ok:
                conform += 1
            elif res.get("timing"):
                inconclusive += 1
            else:
                c.drift("replay %s [%s]: observations differ from the spec's: %s" % (gname, short_key(alts[0]), json.dumps(res.get("mis"))[:400]))
            for pv in res["pv"]:
                c.violation(pv["key"], pv["what"] + " [replay %s: %s]" % (gname, short_key(alts[0])),
                            {"gen": gname, "schedule": alts[0], "callers": meta, "real": res})
        c.sample({"replayed_schedule": short_key(groups[sel[len(sel) // 2]][0]), "gen": gname, "distinct_schedules_generated": len(groups)})
        c.cov.setdefault("gen_stats", []).append({"gen": gname, "maxev": maxev, "schedules": len(groups), "replayed": len(sel)})
        ran = [res for res in outs if not res.get("skipped")]   # skipped schedules have no run in the trace file
        inconcl = [i for i, res in enumerate(ran) if res.get("unsched") or res.get("timing")]
        replay_traces.append((gname, outp + ".trace.ndjson", inconcl))
    c.cov["replayed"] = total_replayed
    c.cov["replay_conform"] = conform
    c.cov["replay_inconclusive_timing"] = inconclusive
    if total_replayed and conform * 10 < total_replayed * 5:
        c.drift("fewer than half of the replayed schedules conform (%d of %d): the I-spec and the code disagree systematically" % (conform, total_replayed))

    # ---- 2b. fine-grained schedules (TLC -simulate) -> gated replay on a multi-thread runtime -----
    fines = [("f1", 300 if not thorough else 2500, 150 if not thorough else 1500,
              dict(wait=["c1", "c2"], handle=["c3"], cancel=["c2"], nw=2)),
             ("f2", 160 if not thorough else 1500, 80 if not thorough else 800,
              dict(wait=["c1", "c2"], key2=["c2"], cached=["c3"], nw=2, keys="{1, 2}"))]
    fine_replayed = fine_conform = 0
    fjobs = []
    for fname, nwalks, nsample, k in fines:
        if "fine" not in stages:
            break
        r = c.tlc(SD, "GenFine_PathSync", cfg=fine_cfg(c, "fine_%s.cfg" % fname, 40, 5, **k), mode="simulate",
                  simulate="num=%d" % (nwalks // 2), depth=90, workers=2, timeout=3000, coverage=False)
        rows = c.printed_json(r, "REPLAY")
        if not rows:
            c.fail_tool("fine generation run %s printed no schedules" % fname)
        for inv in r.violated:
            c.violation("spec:%s" % inv, "design-level: %s violated on GenFine_PathSync (%s)" % (inv, fname), {"tlc_out": r.out_path})
        groups = collections.OrderedDict()
        for row in rows:
            groups.setdefault(sched_key(row), []).append(row)
        keys = sorted(groups)
        rnd.shuffle(keys)
        sel = keys[:nsample]
        meta = {c_: {"kind": ("wait" if c_ in k.get("wait", ()) else "cached" if c_ in k.get("cached", ()) else "handle"),
                     "k": 2 if c_ in k.get("key2", ()) else 1}
                for c_ in list(k.get("wait", ())) + list(k.get("cached", ())) + list(k.get("handle", ()))}
        inp = os.path.join(c.work, "fine_in_%s.ndjson" % fname)
        outp = os.path.join(c.work, "fine_out_%s.ndjson" % fname)
        write_ndjson(inp, [{"ev": "meta", "gen": fname}] + [dict(groups[kk][0], id=i, callers=meta, alts=groups[kk][1:]) for i, kk in enumerate(sel)])
        fjobs.append((fname, groups, sel, meta, inp, outp))
    for fname, groups, sel, meta, inp, outp in fjobs:
        rc, so = c.sh([binp, "fine", inp, outp], timeout=3000)
        if rc != 0:
            c.fail_tool("fine replay harness failed rc=%s %s" % (rc, (so or "")[-500:]))
        outs = read_ndjson(outp)
        bad = []
        for i, (kk, res) in enumerate(zip(sel, outs)):
            if res.get("skipped"):
                continue
            fine_replayed += 1
            nontriv.add(fname + ":" + kk)
            if res["conf"]:
                fine_conform += 1
            else:
                bad.append(i)
                c.drift("fine replay %s [%s]: observations differ from the spec's: %s" % (fname, short_key(groups[kk][0]), json.dumps(res.get("mis"))[:400]))
            for pv in res["pv"]:
                c.violation(pv["key"], pv["what"] + " [fine replay %s: %s]" % (fname, short_key(groups[kk][0])),
                            {"gen": fname, "fine": True, "schedule": groups[kk][0], "alts": groups[kk][1:], "callers": meta, "real": res})
        c.sample({"fine_schedule": short_key(groups[sel[len(sel) // 2]][0]), "gen": fname, "distinct_schedules_generated": len(groups)})
        ran = [res for res in outs if not res.get("skipped")]
        replay_traces.append(("fine_" + fname, outp + ".trace.ndjson", [i for i, res in enumerate(ran) if not res["conf"]]))
    c.cov["replayed"] = total_replayed + fine_replayed
    c.cov["fine_replayed"] = fine_replayed
    c.cov["fine_conform"] = fine_conform
    total_replayed += fine_replayed

    traces = 0
    for gname, tp, inconcl in replay_traces:
        # runs in which a timer of the code disturbed the schedule are not behaviours of the
        # generation spec's bounds (e.g. a third worker): nothing is concluded from them
        acc, rej = validate_trace(c, tp, "replay_" + gname, skip=inconcl)
        traces += acc
    c.cov["replay_traces_validated"] = traces
    if replay_traces:
        c.cov["binding_selfcheck"] = binding_selfcheck(c, replay_traces[0][1])

    # ---- 3. record under real schedules -> trace validation ------------------------------------
    shards = 2 if not thorough else 8
    runs = int(os.environ.get("VERIF_C20_RUNS", 250 if not thorough else 1000))
    rec_runs = 0
    agg = collections.Counter()
    for sh in range(shards if "rec" in stages else 0):
        ev = os.path.join(c.work, "rec_%d.ndjson" % sh)
        resj = os.path.join(c.work, "rec_%d.json" % sh)
        rc, so = c.sh([binp, "record", ev, resj], env={"VERIF_RUNS": runs, "VERIF_SHARD": sh}, timeout=3000)
        if rc != 0:
            c.fail_tool("record harness failed rc=%s %s" % (rc, (so or "")[-500:]))
        res = json.load(open(resj))
        for pv in res["pv"]:
            c.violation(pv["key"], pv["what"] + " (record shard %d run %s seed %s)" % (sh, pv.get("run"), pv.get("seed")),
                        {"seed": c.seed, "shard": sh, "pv": pv})
        agg.update(res["stats"])
        rec_runs += res["runs"]
        c.cov["evaluations"] += res["events"]
        c.cov["distinct_nontrivial"] += res["nontrivial_runs"]
        acc, rej = validate_trace(c, ev, "rec%d" % sh, max_skip=6)
        traces += acc
    # ---- 4. storm: thousands of fresh pairs, callers issued from several threads while the pair's
    #         lookup completes; direct liveness monitor; a sample of the pairs is traced -----------
    if "storm" in stages:
        pairs = int(os.environ.get("VERIF_C20_STORM_PAIRS", 45000 if not thorough else 500000))
        ev = os.path.join(c.work, "storm.ndjson")
        resj = os.path.join(c.work, "storm.json")
        rc, so = c.sh([binp, "storm", ev, resj], timeout=3000,
                      env={"VERIF_STORM_PAIRS": pairs, "VERIF_STORM_SAMPLE_EVERY": 200 if not thorough else 600,
                           "VERIF_STORM_BUDGET_S": 60 if not thorough else 500})
        if rc != 0:
            c.fail_tool("storm harness failed rc=%s %s" % (rc, (so or "")[-500:]))
        res = json.load(open(resj))
        for pv in res["pv"]:
            c.violation(pv["key"], pv["what"], {"storm": True, "seed": c.seed, "pair": pv.get("pair"), "pv": pv})
        if not res["pv"] and (res["pairs"] < 100 or res["callers"] < res["pairs"]):
            c.fail_tool("vacuous storm: %d pairs, %d callers" % (res["pairs"], res["callers"]))
        c.cov["storm"] = {k: res[k] for k in ("pairs", "planned_pairs", "callers", "never_released", "sampled", "traces", "res_path", "res_error", "wall_s")}
        c.cov["evaluations"] += res["callers"]
        c.cov["distinct_nontrivial"] += res["pairs"]
        if res["traces"]:
            acc, rej = validate_trace(c, ev, "storm", max_skip=6)
            traces += acc
        c.sample({"storm": "%d fresh pairs, %d callers issued from 5 tasks on a 6-thread runtime while the pair's lookup completes" % (res["pairs"], res["callers"])})

    c.cov["record_stats"] = dict(agg)
    # vacuity control: classes decided by the scenario generator must have occurred (tool error
    # otherwise); classes decided by the code under test are only reported
    for cls in ("stops", "drops", "callers_handle", "callers_cached", "callers_wait"):
        if agg.get(cls, 0) == 0 and "rec" in stages:
            c.fail_tool("vacuous record runs: the generator never produced class %s" % cls)
    for cls in ("woken", "res_path", "res_error", "res_none", "exit_cancelled", "exit_idle"):
        if agg.get(cls, 0) == 0 and "rec" in stages:
            c.drift("record runs: outcome class %s never occurred in %d runs (it does on the reference tree)" % (cls, rec_runs))
    c.cov["traces_validated_against_impl"] = traces
    c.cov["evaluations"] += total_replayed
    c.cov["distinct_nontrivial"] += len(nontriv)
    c.sample({"trace_events": "map_insert/map_load (bucket lock), map_remove_begin/map_remove/map_remove_end (bracket), fetch_start/fetch_done, exiting/exit_notify/worker_exit, caller_check/caller_woken (hook, under the lock), caller_start/caller_done/handle_get/drop (harness)", "record_runs": rec_runs})
