"""C08 - SNAP ingress filter: no spoofed source and no unsupported path type enters SCION.

Pipeline (DESIGN.md 7/C08):
  1. TLC enumerates the decision table of spec/Snap/SnapIngress.tla (MC_SnapIngress): all 16 source
     x 16 (quick: 6) destination type/length nibbles x path types {0,1,2,3,4,200} x peer families
     {v4, v6, v4-mapped} x source/peer relations {same, mapped form, low-4-bytes-only, other} on
     complete packets, and every parse/length class (version, advertised header length, truncation
     points, segment lengths, trailing bytes) on a reduced nibble set.  Invariant: the I-layer
     Decide refines the P-layer (Dispatch only if MayDispatch).  Oracle self-checks: four broken
     filters (no source comparison / canonicalised comparison / address-type aliasing / no path-type test)
     must be refuted.
  2. every cell is concretised by harness `snapingress replay` into 3 real datagrams (own header
     encoder) and the gateway's real ingress step is run through the guarded hook
     (inbound_datagram_check; on failure create_scmp_error into a PACKET_BUF_SIZE pool buffer).
     P-monitors (only these raise VIOLATION):
        dispatched although the cell may not be dispatched  -> "dispatched:<why>"
        panic                                               -> "panic:<where>"
        more than one reply / reply that is not a parsable SCION+SCMP parameter problem addressed
        to the peer / reply larger than the buffer          -> "reply:<what>"
     Decide = Dispatch but not dispatched, another SCMP code, no reply at all: DRIFT.
  3. `snapingress record`: seeded random and mutated datagrams <= 9216 B; descriptor by the
     harness's independent header reader; Trace_SnapIngress.tla (TLC) evaluates the P-layer on
     every line.

Readings adopted (less demanding): "parses" = version 0, advertised header length equals the length
implied by the address nibbles and the path, whole header inside the datagram (payload-length
mismatches are not a parse failure); "at most one reply": no reply at all is fine.
NOT a latitude (DESIGN.md 7/C08: equality with the peer's address OF THE SAME FAMILY): the v4 / v4-mapped-v6
twin of the peer in the other family (peer a.b.c.d with source ::ffff:a.b.c.d of type IPv6, or peer
::ffff:a.b.c.d with IPv4 source a.b.c.d) must never be dispatched - a filter that compares canonicalised
addresses is a violation ("dispatched:src-mappedform-peer-*").
"""
import json
import os

from vcommon import read_ndjson, write_ndjson

SD = "Snap"

MC_TMPL = """SPECIFICATION MCSpec
CONSTANTS
  VARIANT = "{variant}"
  GEN = {gen}
  FULL = {full}
INVARIANTS InvRefines Emit
"""


def cfg(c, name, text):
    p = os.path.join(c.work, name)
    open(p, "w").write(text)
    return p


def why_not(case):
    """canonical reason why a cell may not be dispatched (key of a 'dispatched' violation)"""
    w = []
    if case["cut"] not in ("full", "extra", "nopayload") or case["ver"] != 0 or case["hl"] != "exact":
        w.append("unparsable(ver=%s,hl=%s,cut=%s)" % (case["ver"], case["hl"], case["cut"]))
    if case["st"] not in (0, 3):
        w.append("src-type-nibble-%d" % case["st"])
    if case["rel"] != "same":
        w.append("src-%s-peer-%s" % (case["rel"], case["peer"]))
    if case["pt"] not in (0, 1):
        w.append("path-type-%d" % case["pt"])
    return "+".join(w) or "?"


def cell_name(case):
    return "pt%d st%d dt%d seg%s hl=%s cut=%s ver=%d peer=%s rel=%s" % (
        case["pt"], case["st"], case["dt"], "".join(map(str, case["seg"])), case["hl"], case["cut"], case["ver"], case["peer"], case["rel"])


def judge(c, case, may, decide, ob, stats, where):
    rep = {"case": case, "may_dispatch": may, "decide": decide, "observed": ob, "where": where}
    stats["calls"] += 1
    if ob.get("panic") is not None or ob.get("check") == "panic":
        c.violation("panic:%s" % ("check" if ob.get("check") == "panic" else "reply"),
                    "the ingress step panicked (%s) on %s" % (ob.get("panic"), cell_name(case)), rep)
        return
    if ob["dispatched"]:
        stats["dispatched"] += 1
        if not may:
            c.violation("dispatched:%s" % why_not(case), "datagram dispatched although %s; cell %s" % (why_not(case), cell_name(case)), rep)
        if ob["replies"]:
            c.violation("reply:dispatch-and-reply", "datagram both dispatched and answered; cell %s" % cell_name(case), rep)
    else:
        if ob["replies"] > 1:
            c.violation("reply:more-than-one", "%d replies for %s" % (ob["replies"], cell_name(case)), rep)
        if ob["replies"] == 1:
            stats["replies"] += 1
            r = ob["reply"]
            if not ob.get("fits", False):
                c.violation("reply:exceeds-buffer", "reply of %d bytes exceeds the send buffer; cell %s" % (ob["reply_len"], cell_name(case)), rep)
            if not r.get("parses") or r.get("next_hdr") != 202 or r.get("scmp_type") != 4:
                c.violation("reply:not-scmp-parameter-problem", "reply is not a SCION/SCMP parameter problem (%s); cell %s" % (json.dumps(r), cell_name(case)), rep)
            elif not r.get("dst_is_peer"):
                c.violation("reply:not-addressed-to-peer", "reply is not addressed to the tunnel peer; cell %s" % cell_name(case), rep)
            else:
                stats["max_reply"] = max(stats["max_reply"], ob["reply_len"])
                want = {"Reply:InvalidCommonHeader": 16, "Reply:InvalidSourceAddress": 33, "Reply:UnknownPathType": 20}.get(decide)
                if want is not None and r.get("scmp_code") != want:
                    stats["drift"] += 1
                    c.drift("cell %s: spec %s (code %s), reply code %s" % (cell_name(case), decide, want, r.get("scmp_code")))
                if not r.get("quote_is_prefix") or not r.get("total_le_1232"):
                    stats["drift"] += 1
                    c.drift("cell %s: SCMP quote not a prefix of the offender or reply > 1232 B (%s)" % (cell_name(case), json.dumps(r)))
        else:
            stats["noreply"] += 1
            if decide != "Dispatch":
                stats["drift"] += 1
                c.drift("cell %s: no reply at all (%s)" % (cell_name(case), ob.get("encode_err")))
    if decide is not None and (decide == "Dispatch") != bool(ob["dispatched"]):
        stats["drift"] += 1
        c.drift("cell %s: spec decides %s, gateway %s" % (cell_name(case), decide, "dispatched" if ob["dispatched"] else ob.get("check")))


def run(c):
    thorough = c.tier == "thorough"
    binp = c.cargo_build("vh-snap", bin="snapingress")
    c.assumptions += [
        "the ingress step is driven through the guarded hook tunnel_gateway::gateway::verif (inbound_datagram_check + the loop's create_scmp_error into a PACKET_BUF_SIZE pool buffer); the UDP/WireGuard loop around it is exercised by C09",
        "datagram descriptors are read by the harness's own SCION header reader (not sciparse)",
        "TLC 1.8.0, CommunityModules Json/IOUtils",
    ]
    c.cov["rule"] = ("cell = datagram descriptor x peer relation; non-trivial = every cell that is not a plain well-formed packet from the "
                     "peer's own address with a standard/empty path (i.e. a cell whose expected decision is not Dispatch, or whose "
                     "nibbles/lengths are unusual); evaluations = concrete datagrams given to the real ingress step")

    if c.replay:
        rp = json.load(open(c.replay))["replay"]
        if "case" not in rp:
            c.fail_tool("this replay file does not carry a cell (gateway-loop findings are re-run by the normal check)")
        cell = {"case": rp["case"], "may": rp.get("may_dispatch", False), "decide": rp.get("decide")}
        inp, outp = os.path.join(c.work, "one.ndjson"), os.path.join(c.work, "one_out.ndjson")
        write_ndjson(inp, [cell])
        rc, so = c.sh([binp, "replay", inp, outp], timeout=600)
        if rc != 0:
            c.fail_tool("replay harness failed rc=%s" % rc)
        st = {"calls": 0, "dispatched": 0, "replies": 0, "noreply": 0, "drift": 0, "max_reply": 0}
        for ob in read_ndjson(outp)[0]["obs"]:
            c.log("stored cell %s: check=%s dispatched=%s replies=%s" % (cell_name(rp["case"]), ob.get("check"), ob.get("dispatched"), ob.get("replies")))
            judge(c, cell["case"], cell["may"], cell["decide"], ob, st, "stored replay")
        c.cov["replayed"] = 1
        c.cov["evaluations"] = st["calls"]
        return

    # ---- 1. decision table + oracle self-checks ---------------------------------------------------
    r = c.tlc(SD, "MC_SnapIngress", cfg=cfg(c, "mc_gen.cfg", MC_TMPL.format(variant="code", gen="TRUE", full="TRUE" if thorough else "FALSE")),
              timeout=2400, coverage=False)
    for inv in r.violated:
        c.violation("spec:%s" % inv, "design-level: %s violated on MC_SnapIngress (see %s)" % (inv, r.out_path), {"tlc_out": r.out_path})
    cells = c.printed_json(r, "CELL")
    if not cells:
        c.fail_tool("MC_SnapIngress printed no cells")
    for variant in ("nosrc", "canon", "alias", "nopath"):
        r0 = c.tlc(SD, "MC_SnapIngress", cfg=cfg(c, "mc_%s.cfg" % variant, MC_TMPL.format(variant=variant, gen="FALSE", full="FALSE")),
                   expect_violation=True, coverage=False, keep_printed=False)
        if "InvRefines" not in r0.violated:
            c.fail_tool("oracle self-check failed: broken filter '%s' is not refuted by the model" % variant)
    c.cov["exhaustive"] = True
    decs = {}
    for x in cells:
        decs[x["decide"]] = decs.get(x["decide"], 0) + 1
    c.log("cells: %d %s" % (len(cells), decs))
    for k in ("Dispatch", "Reply:InvalidCommonHeader", "Reply:InvalidSourceAddress", "Reply:UnknownPathType"):
        if not decs.get(k):
            c.fail_tool("vacuous table: no cell decides %s" % k)

    # ---- 2. replay ----------------------------------------------------------------------------------
    inp = os.path.join(c.work, "cells.ndjson")
    outp = os.path.join(c.work, "cells_out.ndjson")
    write_ndjson(inp, cells)
    rc, so = c.sh([binp, "replay", inp, outp], timeout=3000)
    if rc != 0:
        c.fail_tool("replay harness failed rc=%s %s %s" % (rc, so[-300:], getattr(c, "last_stderr", "")[-500:]))
    outs = read_ndjson(outp)
    if len(outs) != len(cells):
        c.fail_tool("replay output has %d lines for %d cells" % (len(outs), len(cells)))
    stats = {"calls": 0, "dispatched": 0, "replies": 0, "noreply": 0, "drift": 0, "max_reply": 0, "descriptor_mismatch": 0}
    keys = ("ver", "pt", "st", "dt", "hl", "cut", "peer", "rel")
    for x, o in zip(cells, outs):
        for ob in o["obs"]:
            seen = ob["seen"]
            # binding self-check: the independent reader must recover the cell's descriptor from the bytes
            same = all(seen[k] == x["case"][k] for k in keys)
            if x["case"]["pt"] == 1:
                same = same and seen["seg"] == x["case"]["seg"]
            if not same and x["case"]["cut"] in ("full", "extra", "nopayload"):
                stats["descriptor_mismatch"] += 1
                if stats["descriptor_mismatch"] <= 3:
                    c.log("descriptor mismatch: cell %s seen %s" % (json.dumps(x["case"]), json.dumps(seen)))
            judge(c, x["case"], x["may"], x["decide"], ob, stats, "replay")
    if stats["descriptor_mismatch"] > 0:
        c.fail_tool("harness self-check: %d concretised datagrams are not read back as their cell" % stats["descriptor_mismatch"])
    if not stats["dispatched"] or not stats["replies"]:
        # the table contains Dispatch and Reply cells (checked above); what the gateway does with them is the monitors' business
        c.drift("replay observed dispatched=%d replies=%d" % (stats["dispatched"], stats["replies"]))
    c.cov["replayed"] = len(cells)
    c.cov["evaluations"] = stats["calls"]
    c.cov["distinct_nontrivial"] = len(cells) - decs.get("Dispatch", 0)
    c.cov["replay_stats"] = dict(stats, cells=len(cells), decisions=decs)
    mid = cells[len(cells) // 2]
    c.sample({"cell": cell_name(mid["case"]), "decide": mid["decide"], "may_dispatch": mid["may"]})

    # ---- 2b. the real TunnelGateway loop over loopback UDP with a real WireGuard client (shared with C09) ----
    # observations are attributed by content (unique tag per datagram, SCMP replies quote it), so a slow machine
    # cannot move a dispatch or a reply to another datagram; a run that fails or is too slow is drift
    tbin = c.cargo_build("vh-snap", bin="snaptunnel")
    gout = os.path.join(c.work, "gateway.json")
    rc, so = c.sh([tbin, "gateway", gout], timeout=1800)
    if rc != 0 or not os.path.exists(gout):
        c.drift("gateway loop run failed rc=%s %s" % (rc, (so or "")[-300:]))
    else:
        g = json.load(open(gout))
        steps = {x["step"]: x for x in g["log"]}
        c.cov["gateway_loop"] = [x for x in g["log"] if x["step"].startswith("authorised")]
        ontime = g["handshake"] and g["authorised_phase_done_at_s"] <= g["life"] - 6
        if not ontime:
            c.drift("gateway loop: handshake=%s, authorised phase took %.1fs; positive expectations not judged" % (g["handshake"], g["authorised_phase_done_at_s"]))
        bad = (("authorised:spoofed-source", 33), ("authorised:onehop-path", 20), ("authorised:garbage", 16), ("authorised:mapped-twin", 33),
               ("lapsed:spoofed-source", None))
        for name, code in bad:
            x = steps.get(name)
            if not x:
                continue
            what = name.split(":")[1]
            if x["dispatched"]:     # never allowed, whenever it happened
                c.violation("gateway:dispatched:%s" % what, "real gateway loop dispatched the %s datagram" % what, g)
            if len(x["replies"]) > 1:
                c.violation("reply:more-than-one", "real gateway loop answered the %s datagram %d times" % (name, len(x["replies"])), g)
            for rpl in x["replies"]:
                if rpl.get("scmp_type") != 4 or rpl.get("len", 0) > 9216:
                    c.violation("reply:not-scmp-parameter-problem", "real gateway loop answered %s with %s" % (name, json.dumps(rpl)), g)
                elif code is not None and rpl.get("scmp_code") != code:
                    c.drift("gateway loop: %s answered with code %s (spec %s)" % (name, rpl.get("scmp_code"), code))
            if ontime and code is not None and len(x["replies"]) != 1:
                c.drift("gateway loop: %s got %d replies" % (name, len(x["replies"])))
        x = steps.get("authorised:good")
        if ontime and (not x or x["dispatched"] != 1 or x["replies"]):
            c.drift("gateway loop: the well-formed datagram was not dispatched exactly once without reply: %s" % json.dumps(x))
        c.cov["evaluations"] += 4

    # ---- 3. record random datagrams -> Trace_SnapIngress ------------------------------------------
    n = 1000000 if thorough else 50000
    ev = os.path.join(c.work, "trace.ndjson")
    summ = os.path.join(c.work, "trace.json")
    rc, so = c.sh([binp, "record", ev, summ], env={"VERIF_N": n}, timeout=3000)
    if rc != 0:
        c.fail_tool("record harness failed rc=%s %s" % (rc, so[-300:]))
    res = json.load(open(summ))
    r = c.tlc(SD, "Trace_SnapIngress", mode="trace", env={"TRACE": ev}, timeout=3400)
    if r.postcondition_failed or not r.ok:
        c.fail_tool("Trace_SnapIngress did not consume the whole trace (see %s)" % r.out_path)
    pvs = c.printed_json(r, "PV")
    drifts = c.printed_json(r, "DRIFT")
    may = sum(1 for l in r.printed if l.startswith('<<"MAY"'))
    fullrows = {}
    if pvs or drifts:
        want = {p["i"] for p in pvs} | {d["i"] for d in drifts[:50]}
        for row in read_ndjson(ev + ".full"):
            if row["i"] in want:
                fullrows[row["i"]] = row
    for pv in pvs:
        row = fullrows.get(pv["i"], {})
        case = row.get("case", {})
        if pv["kind"] == "dispatched-forbidden":
            key = "dispatched:%s" % why_not(case)
        elif pv["kind"] == "panic":
            key = "panic:%s" % ("check" if row.get("obs", {}).get("check") == "panic" else "reply")
        else:
            key = "reply:%s" % pv["kind"]
        c.violation(key, "recorded datagram %d (%s): %s" % (pv["i"], cell_name(case) if case else "?", pv["kind"]), row)
    for d in drifts[:50]:
        row = fullrows.get(d["i"], {})
        c.drift("recorded datagram %d: spec %s, gateway %s code %s; descriptor %s" % (d["i"], d["decide"], d["outcome"], d["code"], json.dumps(row.get("case"))))
    c.cov["drift"] += max(0, len(drifts) - 50)
    if may < n // 50:
        c.fail_tool("vacuous trace generator: only %d of %d recorded datagrams may be dispatched" % (may, n))
    if res["dispatched"] < n // 50 or res["replied"] < n // 50:
        c.drift("recorded run: %s" % res)
    # binding self-check (S6): corrupted observations must be flagged by the trace specification
    good = next((x for x in cells if x["decide"] == "Dispatch"), None)
    spoof = next((x for x in cells if x["decide"] == "Reply:InvalidSourceAddress" and not x["may"]), None)
    if good and spoof:
        bad = os.path.join(c.work, "trace_corrupted.ndjson")
        write_ndjson(bad, [{"ev": "meta"},
                           {"ev": "dg", "i": 0, "case": spoof["case"], "len": 100, "outcome": "Dispatch", "replies": 0, "reply_ok": True, "code": 255},
                           {"ev": "dg", "i": 1, "case": good["case"], "len": 100, "outcome": "Reply:InvalidSourceAddress", "replies": 1, "reply_ok": True, "code": 33},
                           {"ev": "dg", "i": 2, "case": spoof["case"], "len": 100, "outcome": "Reply:InvalidSourceAddress", "replies": 1, "reply_ok": False, "code": 33}])
        rb = c.tlc(SD, "Trace_SnapIngress", mode="trace", env={"TRACE": bad}, timeout=900)
        pk = sorted((p_["i"], p_["kind"]) for p_ in c.printed_json(rb, "PV"))
        dk = sorted({d_["i"] for d_ in c.printed_json(rb, "DRIFT")})
        if pk != [(0, "dispatched-forbidden"), (2, "bad-reply")] or 1 not in dk:
            c.fail_tool("oracle self-check failed: Trace_SnapIngress flagged PV=%s DRIFT=%s on a corrupted trace" % (pk, dk))
    c.cov["traces_validated_against_impl"] = res["n"]
    c.cov["evaluations"] += res["n"]
    c.cov["trace_stats"] = dict(res, may_dispatch=may, drift=len(drifts))
    c.sample({"trace_event": "datagram -> descriptor by independent reader + outcome; see spec/Snap/Trace_SnapIngress.tla"})
