"""C10 - a SNAP token is accepted exactly when authentic, for SNAP, and within lifetime.

Pipeline (DESIGN.md 7/C10):
  1. TLC enumerates the decision table of spec/Snap/SnapToken.tla (MC_SnapToken): every base
     token (v0/v1 x verifier configuration x kid) with up to DEPTH single-field mutations; the
     invariants are the refinement  I-layer outcome  =>  P-layer verdict  (MustAccept/MustReject).
     Oracle self-check: with NBF_CHECKED = FALSE (the pinned commit's verifier) TLC must violate
     InvRefines.
  2. every printed cell is concretised by harness `snaptoken replay` into real JWT strings
     (hand-assembled base64url segments, real Ed25519 signatures, bit flips, spliced signatures,
     HMAC-with-public-key) and given to the real SnapTokenVerifier::verify and to the real
     control-plane router (auth middleware + RegisterSnapTunIdentity handler, recording registry).
     P-monitors (only these raise VIOLATION):
        accepted  and Must = reject          -> "accepted:<reasons>"
        rejected  and Must = accept          -> "rejected-valid:<base>:<delta>"
        router status 401  <=/=>  verify Err -> "middleware:..."
        registry called with lifetime > exp - now, or for a refused token -> "lifetime:..."
        panic in the verifier/router         -> "panic:..."
     An I-layer outcome class different from the observed one is DRIFT.
  3. `snaptoken record`: seeded random strings, mutated tokens and random claim sets are given to
     the verifier; the harness's own splitter/base64 decoder/Ed25519 check extracts the feature
     record; Trace_SnapToken.tla (TLC) evaluates the P-layer on every line.

Reading adopted where the property text leaves latitude (verdict "either", never a violation):
expiry or not-before inside the 60 s leeway window; `typ` other than "JWT"; non-string unregistered
header parameters; float-valued NumericDates; `aud` as an empty array or
(v1) as an array; an `iss` other than "ssr"; non-canonical trailing bits in a base64url segment;
pssid strings of the other version's form; duplicate member names.
NOT a latitude: a present `ver` that is not a supported version number (2, 0, "1", "2", null, true, 1.5, -1, [1], {})
is refused on v0-shaped and on v1-shaped tokens alike ("accepted:version").  Time classes are built
>= 15 s away from now and now +- leeway (S4); the exact boundary second is not claimed.
"""
import json
import os

from vcommon import read_ndjson, write_ndjson

SD = "Snap"

MC_TMPL = """SPECIFICATION MCSpec
VIEW MCView
CONSTANTS
  NBF_CHECKED = {nbf}
  DEPTH = {depth}
  HOTFROM = {hotfrom}
  GEN = {gen}
INVARIANTS InvDisjoint InvRefines Emit
"""

BASE_V0 = dict(parts="3", hb64="ok", pb64="ok", sb64="ok", hjson="obj", pjson="obj", alg="EdDSA", typ="JWT",
               hextra="none", ver="absent", pssid="v0", exp="fut", nbf="absent", iat="absent", jti="ok",
               iss="absent", aud="absent", pextra="none")
BASE_V1 = dict(BASE_V0, ver="1", pssid="v1", nbf="past", iat="ok", iss="ssr", aud="snap")


def cfg(c, name, text):
    p = os.path.join(c.work, name)
    open(p, "w").write(text)
    return p


def designated(case):
    if case["kid"] == "absent" or case["cfg"] == "static":
        return "static"
    return "jwks" if case["kid"] == "known" else "none"


def delta(case):
    """canonical description of a cell: base (version/config/kid) + the fields that deviate from it"""
    base = BASE_V1 if case.get("ver") == "1" else BASE_V0
    d = ["%s=%s" % (k, case[k]) for k in sorted(base) if case.get(k) != base[k]]
    if case.get("sig") != designated(case):
        d.append("sig=%s" % case.get("sig"))
    return "%s/%s/kid-%s" % ("v1" if case.get("ver") == "1" else "v0", case.get("cfg"), case.get("kid")), ",".join(d)


def judge(c, case, must, why, impl, life, obs, where, stats):
    """P-monitors on one concrete observation"""
    got = obs["got"]
    base, dl = delta(case)
    # wall-clock robustness: a run that stalled between building the token and verifying it moves the time
    # classes (the spec's offsets tolerate 120 s for the decided classes); such observations are not judged
    stall = obs.get("stall_s") or 0
    sensitive = case.get("exp") in ("soon", "lee") or case.get("nbf") in ("lee", "notyet")
    if sensitive and stall > 60:
        stats["stalled_skipped"] = stats.get("stalled_skipped", 0) + 1
        return
    if sensitive and stall > 10:
        impl = None
    rep = {"case": case, "must": must, "why": why, "token": obs.get("token"), "observed": obs, "where": where}
    stats["calls"] += 1
    if got == "panic":
        c.violation("panic:verify:%s" % dl, "SnapTokenVerifier::verify panicked (%s) on %s %s" % (obs.get("err"), base, dl), rep)
    elif got == "ok" and must == "reject":
        c.violation("accepted:%s" % "+".join(sorted(why)),
                    "token that must be refused (%s) was accepted by SnapTokenVerifier::verify; cell %s [%s]" % (", ".join(sorted(why)), base, dl), rep)
    elif got != "ok" and must == "accept":
        c.violation("rejected-valid:%s:%s" % (base, dl),
                    "authentic in-window SNAP token was refused (%s: %s); cell %s [%s]" % (got, obs.get("err"), base, dl), rep)
    http = obs.get("http")
    if http is not None:
        stats["http"] += 1
        if http == "panic":
            c.violation("panic:router:%s" % dl, "control-plane router panicked on %s %s" % (base, dl), rep)
        elif (http == 401) != (got != "ok"):
            c.violation("middleware:status-%s-verify-%s" % (http, got),
                        "auth middleware answered %s although verify returned %s; cell %s [%s]" % (http, got, base, dl), rep)
    for name, hv in (obs.get("hdrvars") or {}).items():
        if hv is None:
            continue
        stats["hdrvars"] = stats.get("hdrvars", 0) + 1
        if name == "lower":
            continue        # auth-scheme names are case-insensitive (RFC 7235): either answer is fine
        if hv["status"] != 401 or hv["registered"]:
            c.violation("middleware:no-bearer-%s" % name, "request whose Authorization header is '%s' was answered %s (registered=%s)" % (
                name, hv["status"], hv["registered"]), rep)
    reg = obs.get("reg")
    if reg:
        stats["registrations"] += 1
        if must == "reject" or got != "ok":
            c.violation("lifetime:registered-refused-token", "registry.register was called for a token that must be/was refused; cell %s [%s]" % (base, dl), rep)
        if reg.get("n", 1) != 1:
            c.violation("lifetime:registered-%d-times" % reg["n"], "one request registered %d times" % reg["n"], rep)
        if reg.get("bound") is not None:
            if reg["life"] > reg["bound"] + 1e-6:
                c.violation("lifetime:exceeds-remaining", "granted lifetime %.3fs exceeds the token's remaining lifetime %.3fs; cell %s [%s]" % (reg["life"], reg["bound"], base, dl), rep)
            if life is not None and reg["life"] > life + 1e-6:
                c.violation("lifetime:exceeds-model-bound", "granted lifetime %.3fs exceeds exp-now=%ss of the cell; %s [%s]" % (reg["life"], life, base, dl), rep)
    if impl is not None and got != impl and got != "panic":
        stats["drift"] += 1
        c.drift("cell %s [%s]: spec outcome %s, verifier %s (%s)" % (base, dl, impl, got, obs.get("err")))


JW_TMPL = """SPECIFICATION MCSpec
VIEW {view}
CONSTANTS
  Kids = {{"ka", "kb"}}
  KeyVals = {{"v1", "v2", "v3"}}
  VARIANT = "{variant}"
  Depth = {depth}
  GEN = {gen}
INVARIANTS ResolvedWasServed FreshOnFetch MissWhenDown RefreshPicksUp ResolvesServed CacheWasServed Emit
"""


def jw_key(h):
    out = []
    for st in h:
        e = st["ev"]
        out.append({"publish": "pub(%s,%s)" % (e.get("k"), e.get("v")), "withdraw": "wd(%s)" % e.get("k"),
                    "await": "await(%s)" % e.get("k")}.get(e["kind"], e["kind"]))
    return " ".join(out)


def jw_judge(c, key, spec, real, stats, rep):
    """P-monitors of JwksStore on one real step; spec = the model's Obs (inputs served/ever/up + expectation)"""
    o, cache = real["ev"], real["cache"]
    served, ever, up = spec["served"], spec["ever"], spec["up"]
    stats["steps"] += 1
    fetch_reached = False
    if o.get("timeout"):
        c.drift("jwks: await/refresh timed out after %s" % key)
        return
    if o["kind"] == "await":
        k, res = o["k"], o["res"]
        stats["awaits"] += 1
        if res != "none":
            stats["resolved"] += 1
            if res not in ever[k]:
                c.violation("jwks:resolved-never-served", "kid %s resolved to %s, which the endpoint never served under that kid; history %s" % (k, res, key), rep)
            if o.get("verifier_accepts") != [res]:
                c.violation("jwks:verifier-accepts-other-material", "kid %s resolves to %s but the verifier accepts tokens signed with %s; history %s" % (
                    k, res, o.get("verifier_accepts"), key), rep)
        if o["fetched"] and up:
            fetch_reached = True
            if res != served[k]:
                c.violation("jwks:stale-after-fetch", "lookup of %s fetched the endpoint but returned %s while %s is served; history %s" % (k, res, served[k], key), rep)
        if up and served[k] != "none" and res == "none":
            c.violation("jwks:served-kid-unresolved", "the endpoint is up and serves %s=%s, yet the lookup returned nothing (fetched=%s); history %s" % (
                k, served[k], o["fetched"], key), rep)
        if o["fetched"] and not up and res != "none":
            c.violation("jwks:resolved-while-down", "a cache miss for %s resolved to %s although the endpoint is down; history %s" % (k, res, key), rep)
    if o["kind"] == "refresh":
        fetch_reached = up
        if o.get("resolved_unknown_kid"):
            c.violation("jwks:unknown-kid-resolved", "a kid nobody serves resolved to a key; history %s" % key, rep)
    if fetch_reached:
        stats["fetches"] += 1
        bad = {k: (cache[k], v) for k, v in served.items() if v != "none" and cache[k] != v}
        if bad:
            c.violation("jwks:rotation-not-picked-up", "after a fetch cycle the cache holds %s (cache, served); history %s" % (bad, key), rep)
    for k, v in cache.items():
        if v != "none" and v not in ever[k]:
            c.violation("jwks:cache-never-served", "cache holds %s for %s which was never served under that kid; history %s" % (v, k, key), rep)
    # conformance
    mism = []
    if cache != spec["cache"]:
        mism.append("cache %s vs spec %s" % (cache, spec["cache"]))
    if o["kind"] == "await" and (o["res"] != spec["ev"]["res"] or bool(o["fetched"]) != bool(spec["ev"]["fetched"])):
        mism.append("await -> %s fetched=%s vs spec %s fetched=%s" % (o["res"], o["fetched"], spec["ev"]["res"], spec["ev"]["fetched"]))
    if mism:
        stats["mismatch"] += 1
        c.drift("jwks after %s: %s" % (key, "; ".join(mism)))


def jwks_growth(c, thorough):
    """Growth (DESIGN.md 6.6): JWKS key store refresh / rotation, spec/Snap/JwksStore.tla"""
    jb = c.cargo_build("vh-snap", bin="snapjwks")
    r = c.tlc(SD, "MC_JwksStore", cfg=cfg(c, "jw_full.cfg", JW_TMPL.format(view="MCViewU", variant="code", depth=1000000, gen="FALSE")), timeout=2400)
    for inv in r.violated:
        c.violation("spec:jwks:%s" % inv, "design-level: %s violated on MC_JwksStore (see %s)" % (inv, r.out_path), {"tlc_out": r.out_path})
    if r.ok:
        c.require_coverage(r, ["MCPublish", "MCWithdraw", "MCToggle", "MCAwait", "MCRefresh"])
    for variant in ("keepold", "fallback", "nowait"):
        r0 = c.tlc(SD, "MC_JwksStore", cfg=cfg(c, "jw_%s.cfg" % variant, JW_TMPL.format(view="MCView", variant=variant, depth=5, gen="FALSE")),
                   expect_violation=True, coverage=False, keep_printed=False)
        if not r0.violated:
            c.fail_tool("oracle self-check failed: JwksStore variant '%s' is not refuted" % variant)
    r = c.tlc(SD, "MC_JwksStore", cfg=cfg(c, "jw_gen.cfg", JW_TMPL.format(view="MCView", variant="code", depth=5 if thorough else 4, gen="TRUE")),
              timeout=2400, coverage=False)
    hs = c.printed_json(r, "REPLAY")
    if not hs:
        c.fail_tool("MC_JwksStore printed no histories")
    inp, outp = os.path.join(c.work, "jw_in.ndjson"), os.path.join(c.work, "jw_out.ndjson")
    write_ndjson(inp, [{"ev": "meta", "kids": ["ka", "kb"], "vals": ["v1", "v2", "v3"]}] + [{"h": h} for h in hs])
    rc, so = c.sh([jb, "replay", inp, outp], timeout=3400)
    if rc != 0:
        c.fail_tool("snapjwks replay failed rc=%s %s" % (rc, getattr(c, "last_stderr", "")[-400:]))
    outs = read_ndjson(outp)
    stats = {"steps": 0, "awaits": 0, "resolved": 0, "fetches": 0, "mismatch": 0}
    for h, o in zip(hs, outs):
        si = len(h) - 1
        if len(o["steps"]) > si:
            jw_judge(c, jw_key(h), h[si], o["steps"][si], stats, {"kids": ["ka", "kb"], "vals": ["v1", "v2", "v3"], "h": h, "real": o["steps"]})
    c.cov["jwks"] = dict(stats, histories=len(hs), states=r.distinct)
    c.cov["replayed"] += len(hs)
    c.cov["evaluations"] += stats["steps"]
    # recorded random histories -> Trace_JwksStore
    ev, summ = os.path.join(c.work, "jw_trace.ndjson"), os.path.join(c.work, "jw_trace.json")
    runs, ln = (100, 150) if thorough else (20, 100)
    rc, so = c.sh([jb, "record", ev, summ], env={"VERIF_RUNS": runs, "VERIF_LEN": ln}, timeout=3400)
    if rc != 0:
        c.fail_tool("snapjwks record failed rc=%s" % rc)
    rt = c.tlc(SD, "Trace_JwksStore", mode="trace", env={"TRACE": ev}, timeout=3400)
    if rt.violated:
        for inv in rt.violated:
            c.violation("jwks:trace:%s" % inv, "P-invariant %s of JwksStore violated on a recorded history of the real key store (TLC output %s)" % (inv, rt.out_path),
                        {"trace": ev, "tlc_out": rt.out_path, "seed": c.seed})
    elif rt.postcondition_failed or not rt.ok:
        c.fail_tool("Trace_JwksStore did not consume the whole trace (see %s)" % rt.out_path)
    dr = list({d["line"]: d for d in c.printed_json(rt, "DRIFT")}.values())
    for d in dr[:10]:
        c.drift("jwks recorded line %s (%s): observed %s cache %s, predicted %s" % (d["line"], d["what"], json.dumps(d["o"]), json.dumps(d["observed_cache"]), json.dumps(d["predicted"])))
    c.cov["drift"] += max(0, len(dr) - 10)
    js = json.load(open(summ))
    c.cov["jwks"]["trace"] = js
    c.cov["evaluations"] += js["runs"] * js["len"]


def run(c):
    thorough = c.tier == "thorough"
    binp = c.cargo_build("vh-snap", bin="snaptoken")
    c.assumptions += [
        "time classes are >= 15 s away from now and from now +- 60 s leeway; the boundary second itself is not claimed",
        "Ed25519/HMAC/base64 primitives (ed25519-dalek, jsonwebtoken::crypto::sign, base64) are trusted to build the concrete tokens; the independent extractor of the record mode uses its own base64 decoder and ed25519-dalek directly",
        "JWKS keys are served from a loopback axum endpoint to the real JwksKeyStore; key rotation is not modelled",
        "TLC 1.8.0, CommunityModules Json/IOUtils",
    ]
    c.cov["rule"] = ("cell = abstract token feature record; non-trivial = cell that deviates from a canonical valid token in >= 1 field "
                     "(every cell except the 8 bases); evaluations = concrete verifier calls (several concrete tokens per cell for "
                     "bit-flip/garbage/segment-count classes) + recorded random strings")

    if c.replay:
        # re-run one stored counterexample: the cell of the replay file is concretised again and judged
        rp = json.load(open(c.replay))["replay"]
        if "h" in rp:
            # a history of the JWKS key store (growth): re-run it on the real JwksKeyStore and judge every step
            jb = c.cargo_build("vh-snap", bin="snapjwks")
            inp, outp = os.path.join(c.work, "one.ndjson"), os.path.join(c.work, "one_out.ndjson")
            write_ndjson(inp, [{"ev": "meta", "kids": rp["kids"], "vals": rp["vals"]}, {"h": rp["h"]}])
            rc, so = c.sh([jb, "replay", inp, outp], timeout=600)
            if rc != 0:
                c.fail_tool("snapjwks replay failed rc=%s" % rc)
            st = {"steps": 0, "awaits": 0, "resolved": 0, "fetches": 0, "mismatch": 0}
            real = read_ndjson(outp)[0]["steps"]
            for si, (spec_, rl) in enumerate(zip(rp["h"], real)):
                c.log("step %d %s: real %s cache %s" % (si, jw_key(rp["h"][si:si + 1]), json.dumps(rl["ev"]), json.dumps(rl["cache"])))
                jw_judge(c, jw_key(rp["h"][:si + 1]), spec_, rl, st, {"h": rp["h"], "real": real})
            c.cov["replayed"] = 1
            c.cov["evaluations"] = st["steps"]
            return
        r = c.tlc(SD, "MC_SnapToken", cfg=cfg(c, "mc_meta.cfg", MC_TMPL.format(nbf="TRUE", depth=0, hotfrom=3, gen="TRUE")), coverage=False)
        meta = c.printed_json(r, "META")
        cell = {"case": rp["case"], "must": rp["must"], "why": rp["why"], "impl": None, "life": 0}
        inp, outp = os.path.join(c.work, "one.ndjson"), os.path.join(c.work, "one_out.ndjson")
        write_ndjson(inp, [dict(meta[0], ev="meta"), cell])
        rc, so = c.sh([binp, "replay", inp, outp], timeout=600)
        if rc != 0:
            c.fail_tool("replay harness failed rc=%s" % rc)
        st = {"calls": 0, "http": 0, "registrations": 0, "drift": 0}
        for ob in read_ndjson(outp)[0]["obs"]:
            c.log("stored cell %s: verifier says %s (%s), router %s, registration %s" % (delta(rp["case"]), ob["got"], ob.get("err"), ob.get("http"), ob.get("reg")))
            judge(c, rp["case"], rp["must"], rp["why"], None, None, ob, "stored replay", st)
        c.cov["replayed"] = 1
        c.cov["evaluations"] = st["calls"]
        return

    # the re-presentation scenario needs ~31 s of real time: run it in the background while TLC works
    from concurrent.futures import ThreadPoolExecutor
    reuse_out = os.path.join(c.work, "reuse.json")
    reuse_pool = ThreadPoolExecutor(1)
    reuse_job = reuse_pool.submit(c.sh, [binp, "reuse", reuse_out], 1800)

    # ---- 1. decision table: refinement I => P on every cell, oracle self-check ---------------------
    # quick: every pair of mutations; thorough: additionally every triple made of any mutation followed by two
    # mutations of the security-relevant fields (cfg, kid, alg, sig, ver, aud, exp, nbf)
    plans = [(2, 3)] + ([(3, 2)] if thorough else [])
    cells, meta = [], []
    for pi, (depth, hotfrom) in enumerate(plans):
        r = c.tlc(SD, "MC_SnapToken", cfg=cfg(c, "mc_gen_%d.cfg" % pi, MC_TMPL.format(nbf="TRUE", depth=depth, hotfrom=hotfrom, gen="TRUE")),
                  timeout=3400, coverage=False)
        for inv in r.violated:
            c.violation("spec:%s" % inv, "design-level: %s violated on MC_SnapToken (see %s)" % (inv, r.out_path), {"tlc_out": r.out_path})
        cells += c.printed_json(r, "CELL")
        meta = meta or c.printed_json(r, "META")
    if not cells or not meta:
        c.fail_tool("MC_SnapToken printed no cells")
    r0 = c.tlc(SD, "MC_SnapToken", cfg=cfg(c, "mc_nbf_unchecked.cfg", MC_TMPL.format(nbf="FALSE", depth=1, hotfrom=3, gen="FALSE")),
               expect_violation=True, coverage=False, keep_printed=False)
    if "InvRefines" not in r0.violated:
        c.fail_tool("oracle self-check failed: NBF_CHECKED=FALSE no longer violates InvRefines in the model")
    c.cov["exhaustive"] = True
    # dedupe (a cell reached at two depths is printed once per state anyway; be safe)
    seen = {}
    for x in cells:
        seen[json.dumps(x["case"], sort_keys=True)] = x
    cells = list(seen.values())
    musts = {}
    for x in cells:
        musts[x["must"]] = musts.get(x["must"], 0) + 1
    c.log("cells: %d %s" % (len(cells), musts))
    for k in ("accept", "reject", "either"):
        if not musts.get(k):
            c.fail_tool("vacuous table: no cell with verdict %s" % k)
    reasons_seen = set()
    for x in cells:
        reasons_seen.update(x["why"])
    need = {"structure", "encoding", "header-json", "payload-json", "algorithm", "untrusted-key", "bad-signature", "version",
            "missing-claim", "audience", "expired", "not-yet-valid"}
    if need - reasons_seen:
        c.fail_tool("vacuous table: refusal reasons never exercised: %s" % sorted(need - reasons_seen))

    # ---- 2. replay on the real verifier / router -------------------------------------------------
    inp = os.path.join(c.work, "cells.ndjson")
    outp = os.path.join(c.work, "cells_out.ndjson")
    write_ndjson(inp, [dict(meta[0], ev="meta")] + cells)
    rc, so = c.sh([binp, "replay", inp, outp], timeout=3000)
    if rc != 0:
        c.fail_tool("replay harness failed rc=%s %s %s" % (rc, so[-300:], getattr(c, "last_stderr", "")[-500:]))
    outs = read_ndjson(outp)
    if len(outs) != len(cells):
        c.fail_tool("replay output has %d lines for %d cells" % (len(outs), len(cells)))
    stats = {"calls": 0, "http": 0, "registrations": 0, "drift": 0, "unrealised_cells": 0, "accepted": 0}
    for x, o in zip(cells, outs):
        if not o["obs"]:
            stats["unrealised_cells"] += 1
            continue
        for ob in o["obs"]:
            if ob["got"] == "ok":
                stats["accepted"] += 1
            judge(c, x["case"], x["must"], x["why"], x["impl"], x["life"] if x["life"] > 0 else None, ob, "replay", stats)
        if len({ob["got"] for ob in o["obs"]}) > 1 and x["must"] == "either":
            stats["drift"] += 1
            c.drift("cell %s: concrete variants of one cell got different verdicts %s" % (delta(x["case"]), sorted({ob["got"] for ob in o["obs"]})))
    if stats["unrealised_cells"] > len(cells) // 10:
        c.fail_tool("%d of %d cells could not be concretised" % (stats["unrealised_cells"], len(cells)))
    if not stats["registrations"] or not stats["accepted"]:
        # the generator produced must-accept cells (checked above); an implementation that accepts/registers nothing is judged
        # by the P-monitors (rejected-valid), not a tool failure
        c.drift("no accepted token / no registration observed in %d calls" % stats["calls"])
    c.cov["replayed"] = len(cells) - stats["unrealised_cells"]
    c.cov["evaluations"] = stats["calls"]
    c.cov["distinct_nontrivial"] = len(cells) - 8
    c.cov["replay_stats"] = dict(stats, cells=len(cells), verdicts=musts)
    mid = cells[len(cells) // 2]
    c.sample({"cell": delta(mid["case"]), "must": mid["must"], "why": mid["why"], "impl": mid["impl"]})

    # ---- 3. record random strings -> Trace_SnapToken ----------------------------------------------
    n = 60000 if thorough else 6000
    ev = os.path.join(c.work, "trace.ndjson")
    full = ev + ".full"
    summ = os.path.join(c.work, "trace.json")
    rc, so = c.sh([binp, "record", ev, summ], env={"VERIF_N": n}, timeout=3000)
    if rc != 0:
        c.fail_tool("record harness failed rc=%s %s" % (rc, so[-300:]))
    res = json.load(open(summ))
    r = c.tlc(SD, "Trace_SnapToken", mode="trace", env={"TRACE": ev}, timeout=3000)
    fullrows = {x["i"]: x for x in read_ndjson(full)}
    if r.postcondition_failed or not r.ok:
        c.fail_tool("Trace_SnapToken did not consume the whole trace (see %s)" % r.out_path)
    decided = sum(1 for l in r.printed if l.startswith('<<"DECIDED"'))
    for pv in c.printed_json(r, "PV"):
        row = fullrows.get(pv["i"], {})
        case = row.get("case", {})
        base, dl = delta(case) if case.get("ver") in ("1", "absent") else ("?", "")
        if pv["kind"] == "accepted":
            c.violation("accepted:%s" % "+".join(sorted(pv["why"])),
                        "recorded random token that must be refused (%s) was accepted (Trace_SnapToken line %d)" % (", ".join(sorted(pv["why"])), pv["i"]),
                        {"token": row.get("token"), "case": case, "got": pv["got"]})
        else:
            c.violation("rejected-valid:%s:%s" % (base, dl), "recorded authentic in-window token was refused (%s)" % pv["got"],
                        {"token": row.get("token"), "case": case, "got": pv["got"]})
    for d in c.printed_json(r, "DRIFT")[:50]:
        row = fullrows.get(d["i"], {})
        c.drift("recorded token %d: spec outcome %s, verifier %s; features %s" % (d["i"], d["impl"], d["got"], json.dumps(row.get("case"))))
    # monitors that need no spec: middleware status and lifetime on the recorded calls
    st2 = {"calls": 0, "http": 0, "registrations": 0, "drift": 0}
    for row in fullrows.values():
        judge(c, row["case"] if row["case"].get("ver") in ("1", "absent") else dict(row["case"], ver="absent"),
              "either", [], None, None, {"got": row["got"], "http": row["http"], "reg": row["reg"], "token": row["token"]}, "record", st2)
    if decided < n // 20:
        c.fail_tool("vacuous trace: only %d of %d recorded strings decided by the P-layer" % (decided, n))
    # binding self-check (S6): a corrupted observation must be flagged by the trace specification
    acc = next((x for x in cells if x["must"] == "accept"), None)
    rej = next((x for x in cells if x["must"] == "reject" and x["why"] == ["expired"]), None)
    if acc and rej:
        bad = os.path.join(c.work, "trace_corrupted.ndjson")
        write_ndjson(bad, [{"ev": "meta"}, {"ev": "tok", "i": 0, "case": acc["case"], "got": "VerificationFailed"},
                           {"ev": "tok", "i": 1, "case": rej["case"], "got": "ok"}])
        rb = c.tlc(SD, "Trace_SnapToken", mode="trace", env={"TRACE": bad}, timeout=900)
        kinds = sorted(p_["kind"] for p_ in c.printed_json(rb, "PV"))
        if kinds != ["accepted", "rejected-valid"]:
            c.fail_tool("oracle self-check failed: Trace_SnapToken flagged %s on a trace with one wrongly refused and one wrongly accepted token" % kinds)
    c.cov["traces_validated_against_impl"] = res["n"]
    c.cov["evaluations"] += res["n"]
    c.cov["trace_stats"] = dict(res, decided_by_P=decided)
    c.sample({"trace_event": "string -> features by independent extractor + verdict; see spec/Snap/Trace_SnapToken.tla"})

    # ---- 3b. the same token string presented again after its window ended (same verifier instance) ------
    rc_, so_ = reuse_job.result()
    reuse_pool.shutdown()
    if rc_ != 0 or not os.path.exists(reuse_out):
        c.drift("re-presentation scenario failed rc=%s" % rc_)
    else:
        ru = json.load(open(reuse_out))
        c.cov["reuse_scenario"] = [{"cell": delta(it["case"]), "first": it["first"]["got"], "second": it["second"]["got"],
                                    "first_at": it["first_at"] - it["exp"], "second_at": it["second_at"] - it["exp"]} for it in ru["items"]]
        for it in ru["items"]:
            base, dl = delta(it["case"])
            late = it["second_at"] - it["exp"] - it["leeway"]
            if late < 5:
                c.drift("re-presentation: second presentation only %ss after exp+leeway; not judged" % late)
                continue
            rep = {"case": it["case"], "token": it["token"], "first": it["first"], "second": it["second"], "exp": it["exp"]}
            if it["second"]["got"] == "ok" or it["second"].get("http") not in (None, 401) or it["second"].get("reg"):
                c.violation("accepted:expired:same-token-presented-again",
                            "a token accepted inside its window (%s) was accepted again %ss after exp + leeway when the same string was presented to the same "
                            "verifier (verify: %s, router: %s, registration: %s); cell %s" % (
                                it["first"]["got"], late, it["second"]["got"], it["second"].get("http"), it["second"].get("reg"), base), rep)
            if it["first"]["got"] != "ok" and it["first_at"] - it["exp"] <= it["leeway"] - 5:
                c.drift("re-presentation: first presentation inside the leeway window was refused (%s); cell %s" % (it["first"]["got"], base))
        c.cov["evaluations"] += 2 * len(ru["items"])

    # ---- 4. growth: the JWKS key store behind "JWKS-resolved key" ------------------------------------
    jwks_growth(c, thorough)
